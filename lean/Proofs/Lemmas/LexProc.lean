import Proofs.Lemmas.LexLoop
/-! `Preprocessor.Process`: the three passes preserve the span laws. -/
namespace Proofs.Lex
open Model.Lex

/-- the span laws of one token (C18) -/
structure SpanOK (inp : Input) (t : Tok) : Prop where
  nonempty : t.start < t.stop
  bound : t.stop ≤ inp.size
  line : t.line = nlCount inp 0 t.start

theorem TokOK.span {cfg : Cfg} {inp : Input} {t : Tok} (h : TokOK cfg inp t) : SpanOK inp t :=
  ⟨h.nonempty, h.bound, h.line⟩

/-- further facts about the configuration used by `Process` -/
structure WF2 (cfg : Cfg) : Prop where
  letter_nl : cfg.isLetter 10 = false
  digit_nl : cfg.isDigit 10 = false
  dollar_ml : cfg.tDOLLAR ∉ ml cfg
  nssep_ml : cfg.tNSSEP ∉ ml cfg

theorem html_mem_ml (cfg : Cfg) : cfg.tHTML ∈ ml cfg := by simp [ml]

/-! ### a valid identifier literal contains no newline -/

theorem allRunes_no_nl {p : Nat → Bool} (hp : p 10 = false) (lit : Input) :
    ∀ f pos, lit.size - pos < f → allRunes p lit f pos = true →
      ∀ k, pos ≤ k → k < lit.size → bAt lit k ≠ 10 := by
  intro f
  induction f with
  | zero => intro pos hf; omega
  | succ f ih =>
    intro pos hf h k hk1 hk2
    unfold allRunes at h
    have hlt : pos < lit.size := by omega
    simp only [hlt, if_true] at h
    obtain ⟨s1, s2, s3, s4⟩ := decode_spec hlt
    generalize hd : decodeRune lit pos = d at h s1 s2 s3 s4
    obtain ⟨r, size⟩ := d
    simp only [Bool.and_eq_true] at h s1 s2 s3 s4
    by_cases hkp : k = pos
    · subst hkp
      intro hc
      have : r = 10 := s4.mpr hc
      subst this
      rw [hp] at h; exact absurd h.1 (by simp)
    · by_cases hin : k < pos + size
      · have := s3 k (by omega) hin; omega
      · exact ih (pos + size) (by omega) h.2 k (by omega) hk2

theorem bAt_ofList (l : List Nat) (k : Nat) (hk : k < l.length) (hb : l[k] < 256) :
    bAt ((l.map (·.toUInt8)).toArray) k = l[k] := by
  have : k < ((l.map (·.toUInt8)).toArray).size := by simpa using hk
  rw [bAt_lt this]
  simp [Nat.toUInt8, Nat.mod_eq_of_lt hb]

theorem validIdent_no_nl {cfg : Cfg} (wf2 : WF2 cfg) {t : Tok} (h : validIdentTok cfg t = true) :
    10 ∉ t.lit := by
  intro hc
  obtain ⟨k, hk, hget⟩ := List.getElem_of_mem hc
  unfold validIdentTok at h
  simp only [] at h
  split at h
  · cases h
  split at h
  · cases h
  · split at h
    · cases h
    · have hp : (fun r => !(!cfg.isLetter r && !cfg.isDigit r && r != 95 && decide (r < 0x4e00))) 10 = false := by
        simp [wf2.letter_nl, wf2.digit_nl]
      have := allRunes_no_nl hp _ _ 0 (by omega) h k (Nat.zero_le _) (by simpa using hk)
      rw [bAt_ofList t.lit k hk (by omega)] at this
      exact this hget

theorem validIdent_not_html {cfg : Cfg} {t : Tok} (h : validIdentTok cfg t = true) : t.ty ≠ cfg.tHTML := by
  intro hc
  unfold validIdentTok at h
  simp [hc] at h

/-! ### generic list facts -/

theorem chain_tail {α : Type} {R : α → α → Prop} {a : α} {l : List α} (h : Chain R (a :: l)) : Chain R l := by
  cases l with
  | nil => simp [Chain]
  | cons b bs => exact h.2

/-- the suffix of the raw list still to be processed -/
structure RestOK (cfg : Cfg) (inp : Input) (ts : List Tok) : Prop where
  toks : ∀ t ∈ ts, TokOK cfg inp t
  ordered : ts.Pairwise (fun a b => a.stop ≤ b.start)
  adj : Chain (AdjR cfg) ts

theorem RestOK.tail {cfg : Cfg} {inp : Input} {a : Tok} {l : List Tok} (h : RestOK cfg inp (a :: l)) :
    RestOK cfg inp l :=
  ⟨fun t ht => h.toks t (List.mem_cons_of_mem _ ht), (List.pairwise_cons.mp h.ordered).2,
   chain_tail h.adj⟩

/-- `b` directly follows the single-line, non-HTML token `a` -/
theorem same_line {cfg : Cfg} {inp : Input} {a b : Tok} {l : List Tok} (h : RestOK cfg inp (a :: b :: l))
    (hml : a.ty ∉ ml cfg) : b.line = a.line := by
  have := h.adj.1
  rcases this with e | e | e
  · exact e
  · exact absurd ((h.toks a List.mem_cons_self).lit_ml e) hml
  · exact absurd (e ▸ html_mem_ml cfg) hml

theorem same_line' {cfg : Cfg} {inp : Input} {a b : Tok} {l : List Tok} (h : RestOK cfg inp (a :: b :: l))
    (h10 : 10 ∉ a.lit) (hh : a.ty ≠ cfg.tHTML) : b.line = a.line := by
  have := h.adj.1
  rcases this with e | e | e
  · exact e
  · exact absurd e h10
  · exact absurd e hh

/-! ### the namespace chain -/

theorem nsChain_spec {cfg : Cfg} (wf2 : WF2 cfg) (inp : Input) :
    ∀ f toks last lit, RestOK cfg inp (last :: toks) → 10 ∉ last.lit → last.ty ≠ cfg.tHTML →
      let r := nsChain cfg f toks last lit
      RestOK cfg inp r.1 ∧ r.2.1.line = last.line ∧ r.2.1.stop ≤ inp.size ∧ last.stop ≤ r.2.1.stop ∧
        (∀ t ∈ r.1, r.2.1.stop ≤ t.start) := by
  intro f
  induction f with
  | zero =>
    intro toks last lit h _ _
    unfold nsChain
    exact ⟨h.tail, rfl, (h.toks last List.mem_cons_self).bound, Nat.le_refl _,
      fun t ht => (List.pairwise_cons.mp h.ordered).1 t ht⟩
  | succ f ih =>
    intro toks last lit h h10 hh
    have base : RestOK cfg inp toks ∧ last.line = last.line ∧ last.stop ≤ inp.size ∧ last.stop ≤ last.stop ∧
        (∀ t ∈ toks, last.stop ≤ t.start) :=
      ⟨h.tail, rfl, (h.toks last List.mem_cons_self).bound, Nat.le_refl _,
        fun t ht => (List.pairwise_cons.mp h.ordered).1 t ht⟩
    unfold nsChain
    split
    · rename_i sep id rest
      split
      · rename_i hc
        simp only [Bool.and_eq_true, beq_iff_eq] at hc
        obtain ⟨hsep, hid⟩ := hc
        -- lines: last → sep → id
        have l1 : sep.line = last.line := same_line' h h10 hh
        have hsepml : sep.ty ∉ ml cfg := hsep ▸ wf2.nssep_ml
        have l2 : id.line = sep.line := same_line h.tail hsepml
        have hid10 := validIdent_no_nl wf2 hid
        have hidh : id.ty ≠ cfg.tHTML := validIdent_not_html hid
        obtain ⟨r1, r2, r3, r4, r5⟩ := ih rest id (lit ++ sep.lit ++ id.lit) h.tail.tail hid10 hidh
        refine ⟨r1, by rw [r2, l2, l1], r3, ?_, r5⟩
        have o1 := (List.pairwise_cons.mp h.ordered).1 sep List.mem_cons_self
        have o2 := (List.pairwise_cons.mp h.tail.ordered).1 id List.mem_cons_self
        have n1 := (h.toks sep (by simp)).nonempty
        have n2 := (h.toks id (by simp)).nonempty
        omega
      · exact base
    · exact base

/-! ### pass 1 -/

/-- invariant of pass 1: `acc` newest first -/
structure P1Inv (cfg : Cfg) (inp : Input) (toks acc : List Tok) : Prop where
  rest : RestOK cfg inp toks
  acc_ok : ∀ t ∈ acc, SpanOK inp t
  acc_ord : acc.Pairwise (fun later earlier => earlier.stop ≤ later.start)
  sep : ∀ a ∈ acc, ∀ t ∈ toks, a.stop ≤ t.start

/-- the laws of a final token list -/
structure FinOK (inp : Input) (ts : List Tok) : Prop where
  toks : ∀ t ∈ ts, SpanOK inp t
  ordered : ts.Pairwise (fun a b => a.stop ≤ b.start)

theorem p1_done {cfg : Cfg} {inp : Input} {toks acc : List Tok} (h : P1Inv cfg inp toks acc) :
    FinOK inp acc.reverse :=
  ⟨fun t ht => h.acc_ok t (by simpa using ht), by rw [List.pairwise_reverse]; exact h.acc_ord⟩

/-- drop the head token -/
theorem p1_drop {cfg : Cfg} {inp : Input} {t : Tok} {toks acc : List Tok} (h : P1Inv cfg inp (t :: toks) acc) :
    P1Inv cfg inp toks acc :=
  ⟨h.rest.tail, h.acc_ok, h.acc_ord, fun a ha x hx => h.sep a ha x (List.mem_cons_of_mem _ hx)⟩

/-- push a token `m` covering `[t.start, e)` where everything left starts at or after `e` -/
theorem p1_push {cfg : Cfg} {inp : Input} {t m : Tok} {toks rest acc : List Tok}
    (h : P1Inv cfg inp (t :: toks) acc) (hrest : RestOK cfg inp rest)
    (hsub : ∀ x ∈ rest, x ∈ toks) (hm : SpanOK inp m) (hs : m.start = t.start)
    (he : ∀ x ∈ rest, m.stop ≤ x.start) : P1Inv cfg inp rest (m :: acc) := by
  refine ⟨hrest, ?_, ?_, ?_⟩
  · intro x hx
    rcases List.mem_cons.mp hx with rfl | hx
    · exact hm
    · exact h.acc_ok x hx
  · refine List.pairwise_cons.mpr ⟨?_, h.acc_ord⟩
    intro a ha
    rw [hs]; exact h.sep a ha t List.mem_cons_self
  · intro a ha x hx
    rcases List.mem_cons.mp ha with rfl | ha
    · exact he x hx
    · exact h.sep a ha x (List.mem_cons_of_mem _ (hsub x hx))

/-- keep the head token as it is -/
theorem p1_keep {cfg : Cfg} {inp : Input} {t : Tok} {toks acc : List Tok} (h : P1Inv cfg inp (t :: toks) acc) :
    P1Inv cfg inp toks (t :: acc) :=
  p1_push h h.rest.tail (fun x hx => hx) (h.rest.toks t List.mem_cons_self).span rfl
    (fun x hx => (List.pairwise_cons.mp h.rest.ordered).1 x hx)

theorem nsChain_sub (cfg : Cfg) : ∀ f toks last lit, ∀ x ∈ (nsChain cfg f toks last lit).1, x ∈ toks := by
  intro f
  induction f with
  | zero => intro toks last lit x hx; simpa [nsChain] using hx
  | succ f ih =>
    intro toks last lit x hx
    unfold nsChain at hx
    split at hx
    · split at hx
      · have := ih _ _ _ x hx
        exact List.mem_cons_of_mem _ (List.mem_cons_of_mem _ this)
      · exact hx
    · exact hx

theorem pass1_ok {cfg : Cfg} (wf2 : WF2 cfg) (inp : Input) :
    ∀ f toks acc, P1Inv cfg inp toks acc → FinOK inp (pass1 cfg f toks acc) := by
  intro f
  induction f with
  | zero => intro toks acc h; simpa [pass1] using p1_done h
  | succ f ih =>
    intro toks acc h
    unfold pass1
    split
    · exact p1_done h
    · rename_i t rest
      have tok := h.rest.toks t List.mem_cons_self
      split
      · exact ih _ _ (p1_drop h)
      split
      · rename_i _ hdollar
        have hty : t.ty = cfg.tDOLLAR := by simpa using hdollar
        split
        · rename_i next rest'
          split
          · -- `$` + next
            have hl : next.line = t.line := same_line h.rest (hty ▸ wf2.dollar_ml)
            have tn := h.rest.toks next (by simp)
            have o := (List.pairwise_cons.mp h.rest.ordered).1 next List.mem_cons_self
            refine ih _ _ (p1_push (m := ⟨cfg.tVARIABLE, t.start, next.stop, next.line, 36 :: next.lit⟩)
              h h.rest.tail.tail (fun x hx => List.mem_cons_of_mem _ hx) ?_ rfl ?_)
            · exact ⟨by simp; have := tok.nonempty; have := tn.nonempty; omega, tn.bound, by simp [hl, tok.line]⟩
            · intro x hx
              exact (List.pairwise_cons.mp h.rest.tail.ordered).1 x hx
          · exact ih _ _ (p1_keep h)
        · exact ih _ _ (p1_keep h)
      split
      · rename_i _ _ hns
        have hty : t.ty = cfg.tNSSEP := by simpa using hns
        split
        · rename_i next rest'
          have hl : next.line = t.line := same_line h.rest (hty ▸ wf2.nssep_ml)
          have tn := h.rest.toks next (by simp)
          have o := (List.pairwise_cons.mp h.rest.ordered).1 next List.mem_cons_self
          split
          · -- `\` + IDENTIFIER
            refine ih _ _ (p1_push (m := ⟨cfg.tIDENT, t.start, next.stop, next.line, t.lit ++ next.lit⟩)
              h h.rest.tail.tail (fun x hx => List.mem_cons_of_mem _ hx) ?_ rfl ?_)
            · exact ⟨by simp; have := tok.nonempty; have := tn.nonempty; omega, tn.bound, by simp [hl, tok.line]⟩
            · intro x hx
              exact (List.pairwise_cons.mp h.rest.tail.ordered).1 x hx
          split
          · -- `\` + keyword-like identifier chain
            rename_i _ hvalid
            have h10 := validIdent_no_nl wf2 hvalid
            have hh : next.ty ≠ cfg.tHTML := validIdent_not_html hvalid
            obtain ⟨r1, r2, r3, r4, r5⟩ :=
              nsChain_spec wf2 inp (rest'.length + 1) rest' next (t.lit ++ next.lit) h.rest.tail h10 hh
            simp only []
            refine ih _ _ (p1_push
              (m := ⟨cfg.tIDENT, t.start, (nsChain cfg (rest'.length + 1) rest' next (t.lit ++ next.lit)).2.1.stop,
                     (nsChain cfg (rest'.length + 1) rest' next (t.lit ++ next.lit)).2.1.line,
                     (nsChain cfg (rest'.length + 1) rest' next (t.lit ++ next.lit)).2.2⟩)
              h r1 (fun x hx => List.mem_cons_of_mem _ (nsChain_sub cfg _ _ _ _ x hx)) ?_ rfl r5)
            exact ⟨by simp; have := tok.nonempty; have := tn.nonempty; omega, r3, by simp [r2, hl, tok.line]⟩
          · exact ih _ _ (p1_keep h)
        · exact ih _ _ (p1_keep h)
      · exact ih _ _ (p1_keep h)

/-! ### passes 2 and 3 only drop or retype tokens -/

/-- `o` consists of tokens of `l` (same span and line), in order -/
def SameSpans (o l : List Tok) : Prop :=
  ∀ t ∈ o, ∃ u ∈ l, u.start = t.start ∧ u.stop = t.stop ∧ u.line = t.line

theorem finOK_of_step {inp : Input} {t t' : Tok} {l o : List Tok}
    (hl : FinOK inp (t :: l)) (ho : FinOK inp o) (hsub : SameSpans o l)
    (h1 : t'.start = t.start) (h2 : t'.stop = t.stop) (h3 : t'.line = t.line) : FinOK inp (t' :: o) := by
  have st := hl.toks t List.mem_cons_self
  refine ⟨?_, ?_⟩
  · intro x hx
    rcases List.mem_cons.mp hx with rfl | hx
    · exact ⟨by rw [h1, h2]; exact st.nonempty, by rw [h2]; exact st.bound, by rw [h3, h1]; exact st.line⟩
    · exact ho.toks x hx
  · refine List.pairwise_cons.mpr ⟨?_, ho.ordered⟩
    intro x hx
    obtain ⟨u, hu, e1, _, _⟩ := hsub x hx
    rw [h2, ← e1]
    exact (List.pairwise_cons.mp hl.ordered).1 u hu

theorem FinOK.tail {inp : Input} {t : Tok} {l : List Tok} (h : FinOK inp (t :: l)) : FinOK inp l :=
  ⟨fun x hx => h.toks x (List.mem_cons_of_mem _ hx), (List.pairwise_cons.mp h.ordered).2⟩

theorem pass2_ok (cfg : Cfg) (inp : Input) :
    ∀ l prev, FinOK inp l → FinOK inp (pass2 cfg prev l) ∧ SameSpans (pass2 cfg prev l) l := by
  intro l
  induction l with
  | nil => intro prev h; simp [pass2, SameSpans]; exact h
  | cons t rest ih =>
    intro prev h
    obtain ⟨i1, i2⟩ := ih (some t) h.tail
    have lift : SameSpans (pass2 cfg (some t) rest) (t :: rest) := fun x hx => by
      obtain ⟨u, hu, e⟩ := i2 x hx; exact ⟨u, List.mem_cons_of_mem _ hu, e⟩
    unfold pass2
    split
    · split
      · refine ⟨finOK_of_step h i1 i2 rfl rfl rfl, ?_⟩
        intro x hx
        rcases List.mem_cons.mp hx with rfl | hx
        · exact ⟨t, List.mem_cons_self, rfl, rfl, rfl⟩
        · exact lift x hx
      · exact ⟨i1, lift⟩
    · refine ⟨finOK_of_step h i1 i2 rfl rfl rfl, ?_⟩
      intro x hx
      rcases List.mem_cons.mp hx with h' | hx
      · exact ⟨t, List.mem_cons_self, by rw [h'], by rw [h'], by rw [h']⟩
      · exact lift x hx

theorem pass3_ok (cfg : Cfg) (inp : Input) :
    ∀ l idx prev, FinOK inp l → FinOK inp (pass3 cfg idx prev l) ∧ SameSpans (pass3 cfg idx prev l) l := by
  intro l
  induction l with
  | nil => intro idx prev h; simp [pass3, SameSpans]; exact h
  | cons t rest ih =>
    intro idx prev h
    obtain ⟨i1, i2⟩ := ih (idx + 1) (some t) h.tail
    have lift : SameSpans (pass3 cfg (idx + 1) (some t) rest) (t :: rest) := fun x hx => by
      obtain ⟨u, hu, e⟩ := i2 x hx; exact ⟨u, List.mem_cons_of_mem _ hu, e⟩
    unfold pass3
    refine ⟨finOK_of_step h i1 i2 ?_ ?_ ?_, ?_⟩
    · split <;> rfl
    · split <;> rfl
    · split <;> rfl
    · intro x hx
      rcases List.mem_cons.mp hx with h' | hx
      · refine ⟨t, List.mem_cons_self, ?_, ?_, ?_⟩ <;> (rw [h']; split <;> rfl)
      · exact lift x hx

theorem process_ok {cfg : Cfg} (wf2 : WF2 cfg) (inp : Input) (raw : List Tok) (h : RawOK cfg inp raw) :
    FinOK inp (process cfg raw) := by
  unfold process
  have p1 := pass1_ok wf2 inp (raw.length + 1) raw []
    ⟨⟨h.toks, h.ordered, h.adj⟩, by simp, List.Pairwise.nil, by simp⟩
  exact (pass3_ok cfg inp _ 0 none (pass2_ok cfg inp _ none p1).1).1

end Proofs.Lex
