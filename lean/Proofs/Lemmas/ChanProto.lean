import Proofs.Lemmas.ChanStep
/-! The close protocol invariant of `Model.Chan`: who may be where, and why no Go panic is reachable. -/
namespace Proofs.Chan
open Model.Chan

def isCloser : Pc → Bool
  | .closeFlagged => true
  | .closeSignalled => true
  | _ => false

structure Proto (s : St) : Prop where
  nopanic : s.panicked = false
  hold : ∀ t, t ∈ s.holders ↔ s.pc t = .sendChecked
  cd : s.chClosed = true → s.done = true
  df : s.done = true → s.flag = true
  ch : s.chClosed = true → s.holders = []
  cf : ∀ t, s.pc t = .closeFlagged → s.done = false
  cs : ∀ t, s.pc t = .closeSignalled → s.done = true ∧ s.chClosed = false
  cflag : ∀ t, isCloser (s.pc t) = true → s.flag = true
  uniq : ∀ t t', isCloser (s.pc t) = true → isCloser (s.pc t') = true → t = t'

theorem proto_init (cap : Nat) (prog : Nat → List Op) : Proto (init cap prog) := by
  constructor <;> simp [init, isCloser]

theorem mem_release (s : St) (t x : Nat) : x ∈ s.release t ↔ x ∈ s.holders ∧ x ≠ t := by
  simp [St.release]

macro "proto_tac" : tactic =>
  `(tactic| (constructor <;> simp_all [St.finish, mem_release] <;> grind [upd, isCloser]))

theorem proto_step (s s' : St) (h : Proto s) (hp : Prim s s') : Proto s' := by
  obtain ⟨h1, h2, h3, h4, h5, h6, h7, h8, h9⟩ := h
  cases hp with
  | sendCheck t v hpc =>
    unfold stepSendCheck
    split
    · proto_tac
    · proto_tac
  | sendDo t v s' hpc hs =>
    have hne : s.chClosed = false := by
      cases hc : s.chClosed with
      | false => rfl
      | true => have := h5 hc; have := (h2 t).2 hpc; simp_all
    unfold stepSendDo at hs
    simp only [hne, Bool.false_eq_true, if_false] at hs
    split at hs
    · cases hs; proto_tac
    · cases hs
  | abort t v s' hpc hs =>
    unfold stepAbort at hs
    split at hs
    · cases hs; proto_tac
    · cases hs
  | recv r s' hpc hs =>
    unfold stepRecv at hs
    split at hs
    · cases hs; proto_tac
    · split at hs
      · cases hs; proto_tac
      · cases hs
  | closeCas t hpc =>
    unfold stepCloseCas
    split
    · proto_tac
    · proto_tac
  | closeSignal t hpc =>
    have hd := h6 t hpc
    unfold stepCloseSignal
    simp only [hd, Bool.false_eq_true, if_false]
    proto_tac
  | closeFinal t s' hpc hs =>
    have hd := h7 t hpc
    unfold stepCloseFinal at hs
    split at hs
    · cases hs
    · simp only [hd.2, Bool.false_eq_true, if_false] at hs
      cases hs; proto_tac
  | isClosed t hpc =>
    unfold stepIsClosed
    proto_tac
  | hand t r v hpt hpr hc hcap hb =>
    unfold handSt
    proto_tac

end Proofs.Chan
