import Model.Ser
/-! Decimal rendering and scanning. -/
namespace Proofs.Ser
open Model.Ser

def allDigits (l : Bytes) : Prop := ∀ c ∈ l, isDigit c = true

theorem digitsVal_append (xs : Bytes) (d : Nat) :
    digitsVal (xs ++ [d]) = 10 * digitsVal xs + (d - 48) := by
  simp [digitsVal, List.foldl_append]

theorem decAux_acc (f : Nat) : ∀ n acc, decAux f n acc = decAux f n [] ++ acc := by
  induction f with
  | zero => intro n acc; simp [decAux]
  | succ f ih =>
    intro n acc
    simp only [decAux]
    split
    · simp
    · rw [ih (n / 10) ((48 + n % 10) :: acc), ih (n / 10) [48 + n % 10]]
      simp

def pow10 : Nat → Nat
  | 0 => 1
  | f + 1 => 10 * pow10 f

theorem decAux_spec (f : Nat) : ∀ n, n < pow10 (f + 1) →
    digitsVal (decAux (f + 1) n []) = n ∧ allDigits (decAux (f + 1) n []) ∧ decAux (f + 1) n [] ≠ [] := by
  induction f with
  | zero =>
    intro n h
    simp [pow10] at h
    simp only [decAux, if_pos h]
    refine ⟨by simp [digitsVal], ?_, by simp⟩
    intro c hc
    simp at hc; subst hc
    simp [isDigit]; omega
  | succ f ih =>
    intro n h
    simp only [pow10] at h
    rw [decAux]
    split
    · rename_i h10
      refine ⟨by simp [digitsVal], ?_, by simp⟩
      intro c hc
      simp at hc; subst hc
      simp [isDigit]; omega
    · rename_i h10
      obtain ⟨h1, h2, h3⟩ := ih (n / 10) (by simp only [pow10]; omega)
      rw [decAux_acc]
      refine ⟨?_, ?_, by simp⟩
      · rw [digitsVal_append, h1]; omega
      · intro c hc
        simp only [List.mem_append, List.mem_singleton] at hc
        rcases hc with hc | hc
        · exact h2 c hc
        · subst hc; simp [isDigit]; omega

theorem pow10_20 : pow10 20 = 100000000000000000000 := by decide

theorem dec_spec (n : Nat) (h : n < 100000000000000000000) :
    digitsVal (dec n) = n ∧ allDigits (dec n) ∧ dec n ≠ [] :=
  decAux_spec 19 n (by rw [pow10_20]; exact h)

/-- scanning digits stops at the first non-digit -/
theorem spanDigits_append (ds : Bytes) (c : Nat) (rest : Bytes) (hd : allDigits ds)
    (hc : isDigit c = false) : spanDigits (ds ++ c :: rest) = (ds, c :: rest) := by
  induction ds with
  | nil => simp [spanDigits, hc]
  | cons d ds ih =>
    have h1 : isDigit d = true := hd d (by simp)
    have := ih (fun x hx => hd x (by simp [hx]))
    simp [spanDigits, h1, this]

theorem dec_head_digit (n : Nat) (h : n < 100000000000000000000) :
    ∃ d tl, dec n = d :: tl ∧ isDigit d = true := by
  obtain ⟨_, h2, h3⟩ := dec_spec n h
  cases hd : dec n with
  | nil => exact absurd hd h3
  | cons d tl => exact ⟨d, tl, rfl, h2 d (by rw [hd]; simp)⟩

end Proofs.Ser
