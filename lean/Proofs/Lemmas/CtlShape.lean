import Model.CtlShape
set_option linter.unusedSimpArgs false
set_option linter.unusedVariables false
/-! The evaluators that are parameterised by regenerated facts (`Model.CtlShape`) against the
hand-written node rules of `Model.Ctl`: for every table that passes the `…OK` test they are the
same function (all programs, all fuel, all states). -/
namespace Proofs.CtlShape
open Spec.Ctl Model.Ctl Model.CtlShape

/-! ## the statement loop -/

theorem execBody_eq (funs : List MFun) (d : Dispatch) (hns : ∀ c, d.arm c ≠ .swallow) :
    ∀ (f : Nat) (b : MBlock) (v : Val) (s : MSt), execBody funs d f b v s = execMB funs f b v s := by
  intro f
  induction f with
  | zero => intro b v s; simp [execBody, execMB]
  | succ f ih =>
    intro b v s
    cases b with
    | nil => simp [execBody, execMB]
    | cons st rest =>
      simp only [execBody, execMB]
      cases h : execM funs f st s with
      | ok v1 s1 => simp [MRes.bind, ih]
      | ctl c s1 => simp [MRes.bind, hns c]
      | timeout => simp [MRes.bind]

/-- what a loop's dispatch table says, once `loopBase` holds and Continue is decided -/
structure LoopArms (d : Dispatch) (onCont : Arm) : Prop where
  brk : ∀ n, d.arm (.brk n) = .leave
  cont : d.arm .cont = onCont
  ret : ∀ v, d.arm (.ret v) = .propagate
  thr : d.arm .thr = .propagate
  crash : d.arm .crash = .propagate

theorem loopArms_of (d : Dispatch) (a : Arm) (hb : d.loopBase = true) (hc : pick d.onContinue = a) : LoopArms d a := by
  simp only [Dispatch.loopBase, Bool.and_eq_true, beq_iff_eq] at hb
  exact ⟨fun _ => hb.1.1.2, hc, fun _ => hb.1.2, hb.2, rfl⟩

theorem LoopArms.noSwallow {d : Dispatch} {a : Arm} (h : LoopArms d a) (ha : a ≠ .swallow) : ∀ c, d.arm c ≠ .swallow := by
  intro c
  cases c with
  | brk n => rw [h.brk]; decide
  | cont => rw [h.cont]; exact ha
  | ret v => rw [h.ret]; decide
  | thr => rw [h.thr]; decide
  | crash => rw [h.crash]; decide

/-! ## while -/

theorem loopBy_while (L : LoopFacts) (h : whileOK L = true) (funs : List MFun) :
    ∀ (fuel : Nat) (c : MExpr) (incs : MArgs) (b : MBlock) (v : Val) (s : MSt),
      loopBy L funs fuel c incs b v s = whileM funs fuel c b v s := by
  simp only [whileOK, LoopFacts.base, Bool.and_eq_true, Bool.or_eq_true, beq_iff_eq] at h
  obtain ⟨⟨⟨⟨⟨hbase, hce⟩, _⟩, _⟩, hph⟩, hcont⟩ := h
  intro fuel
  induction fuel with
  | zero => intro c incs b v s; simp [loopBy, whileM]
  | succ f ih =>
    intro c incs b v s
    simp only [loopBy, whileM, hph, runPhases, hce]
    cases hc : evalM funs f c s with
    | timeout => simp [MRes.bind]
    | ctl cc s1 => simp [MRes.bind]
    | ok vc s1 =>
      simp only [MRes.bind]
      cases ht : vc.truthy with
      | false => simp
      | true =>
        simp only [Bool.true_or, if_true]
        cases hcont with
        | inl hn =>
          have A := loopArms_of _ _ hbase hn
          rw [execBody_eq funs _ (A.noSwallow (by decide))]
          cases hb : execMB funs f b v s1 with
          | timeout => simp [Dispatch.step]
          | ok v' s2 => simp [Dispatch.step, ih]
          | ctl cc s2 =>
            cases cc with
            | brk n => simp [Dispatch.step, A.brk, Arm.step]
            | cont => simp [Dispatch.step, A.cont, Arm.step, ih]
            | ret rv => simp [Dispatch.step, A.ret, Arm.step]
            | thr => simp [Dispatch.step, A.thr, Arm.step]
            | crash => simp [Dispatch.step, A.crash, Arm.step]
        | inr hr =>
          have A := loopArms_of _ _ hbase hr
          rw [execBody_eq funs _ (A.noSwallow (by decide))]
          cases hb : execMB funs f b v s1 with
          | timeout => simp [Dispatch.step]
          | ok v' s2 => simp [Dispatch.step, ih]
          | ctl cc s2 =>
            cases cc with
            | brk n => simp [Dispatch.step, A.brk, Arm.step]
            | cont => simp [Dispatch.step, A.cont, Arm.step, ih]
            | ret rv => simp [Dispatch.step, A.ret, Arm.step]
            | thr => simp [Dispatch.step, A.thr, Arm.step]
            | crash => simp [Dispatch.step, A.crash, Arm.step]

/-! ## do-while -/

theorem loopBy_do (L : LoopFacts) (h : doOK L = true) (funs : List MFun) :
    ∀ (fuel : Nat) (c : MExpr) (incs : MArgs) (b : MBlock) (v : Val) (s : MSt),
      loopBy L funs fuel c incs b v s = doM funs fuel b c v s := by
  simp only [doOK, LoopFacts.base, Bool.and_eq_true, beq_iff_eq] at h
  obtain ⟨⟨⟨⟨⟨hbase, hce⟩, _⟩, _⟩, hph⟩, hn⟩ := h
  have A := loopArms_of _ _ hbase hn
  intro fuel
  induction fuel with
  | zero => intro c incs b v s; simp [loopBy, doM]
  | succ f ih =>
    intro c incs b v s
    simp only [loopBy, doM, hph, runPhases, hce]
    rw [execBody_eq funs _ (A.noSwallow (by decide))]
    cases hb : execMB funs f b v s with
    | timeout => simp [Dispatch.step]
    | ok v' s2 =>
      simp only [Dispatch.step]
      cases hc : evalM funs f c s2 with
      | timeout => simp [MRes.bind]
      | ctl cc s3 => simp [MRes.bind]
      | ok vc s3 => cases ht : vc.truthy <;> simp [MRes.bind, ht, ih]
    | ctl cc s2 =>
      cases cc with
      | brk n => simp [Dispatch.step, A.brk, Arm.step]
      | cont =>
        simp only [Dispatch.step, A.cont, Arm.step]
        cases hc : evalM funs f c s2 with
        | timeout => simp [MRes.bind]
        | ctl cc s3 => simp [MRes.bind]
        | ok vc s3 => cases ht : vc.truthy <;> simp [MRes.bind, ht, ih]
      | ret rv => simp [Dispatch.step, A.ret, Arm.step]
      | thr => simp [Dispatch.step, A.thr, Arm.step]
      | crash => simp [Dispatch.step, A.crash, Arm.step]

/-! ## for -/

theorem loopBy_for (L : LoopFacts) (h : forOK L = true) (funs : List MFun) :
    ∀ (fuel : Nat) (c : MExpr) (incs : MArgs) (b : MBlock) (v : Val) (s : MSt),
      loopBy L funs fuel c incs b v s = Model.Ctl.forM funs fuel c incs b v s := by
  simp only [forOK, LoopFacts.base, Bool.and_eq_true, beq_iff_eq] at h
  obtain ⟨⟨⟨⟨⟨hbase, hce⟩, _⟩, _⟩, hph⟩, hn⟩ := h
  have A := loopArms_of _ _ hbase hn
  intro fuel
  induction fuel with
  | zero => intro c incs b v s; simp [loopBy, Model.Ctl.forM]
  | succ f ih =>
    intro c incs b v s
    simp only [loopBy, Model.Ctl.forM, hph, runPhases, hce]
    cases hc : evalM funs f c s with
    | timeout => simp [MRes.bind]
    | ctl cc s1 => simp [MRes.bind]
    | ok vc s1 =>
      simp only [MRes.bind]
      cases ht : vc.truthy with
      | false => simp
      | true =>
        simp only [Bool.true_or, if_true]
        rw [execBody_eq funs _ (A.noSwallow (by decide))]
        cases hb : execMB funs f b v s1 with
        | timeout => simp [Dispatch.step]
        | ok v' s2 =>
          simp only [Dispatch.step]
          cases hd : discardM funs f incs s2 <;> simp [MRes.bind, ih]
        | ctl cc s2 =>
          cases cc with
          | brk n => simp [Dispatch.step, A.brk, Arm.step]
          | cont =>
            simp only [Dispatch.step, A.cont, Arm.step]
            cases hd : discardM funs f incs s2 <;> simp [MRes.bind, ih]
          | ret rv => simp [Dispatch.step, A.ret, Arm.step]
          | thr => simp [Dispatch.step, A.thr, Arm.step]
          | crash => simp [Dispatch.step, A.crash, Arm.step]

/-! ## foreach (array path) -/

theorem foreachBy_eq (d : Dispatch) (h : foreachOK d = true) (funs : List MFun) :
    ∀ (fuel : Nat) (k : Option Nat) (vi : Nat) (b : MBlock) (xs : List Int) (i : Nat) (v : Val) (s : MSt),
      foreachBy d funs fuel k vi b xs i v s = foreachM funs fuel k vi b xs i v s := by
  simp only [foreachOK, Bool.and_eq_true, Bool.or_eq_true, beq_iff_eq] at h
  obtain ⟨hbase, hcont⟩ := h
  have hA : ∃ a, LoopArms d a ∧ (a = .next ∨ a = .restart) := by
    cases hcont with
    | inl hn => exact ⟨_, loopArms_of _ _ hbase hn, Or.inl rfl⟩
    | inr hr => exact ⟨_, loopArms_of _ _ hbase hr, Or.inr rfl⟩
  obtain ⟨a, A, ha⟩ := hA
  have hns : a ≠ .swallow := by cases ha with | inl h => rw [h]; decide | inr h => rw [h]; decide
  intro fuel
  induction fuel with
  | zero => intro k vi b xs i v s; simp [foreachBy, foreachM]
  | succ f ih =>
    intro k vi b xs i v s
    cases xs with
    | nil => simp [foreachBy, foreachM]
    | cons x xs =>
      simp only [foreachBy, foreachM]
      cases hs : assignTo s vi (.int x) with
      | timeout => simp [MRes.bind]
      | ctl cc s1 => simp [MRes.bind]
      | ok v0 s1 =>
        simp only [MRes.bind]
        rw [execBody_eq funs _ (A.noSwallow hns)]
        cases k with
        | none =>
          dsimp only
          generalize s1 = s2
          cases hb : execMB funs f b v s2 with
          | timeout => simp [Dispatch.step]
          | ok v' s3 => simp [Dispatch.step, ih]
          | ctl cc s3 =>
            cases cc with
            | brk n => simp [Dispatch.step, A.brk, Arm.step]
            | cont => cases ha with
              | inl h => subst h; simp [Dispatch.step, A.cont, Arm.step, ih]
              | inr h => subst h; simp [Dispatch.step, A.cont, Arm.step, ih]
            | ret rv => simp [Dispatch.step, A.ret, Arm.step]
            | thr => simp [Dispatch.step, A.thr, Arm.step]
            | crash => simp [Dispatch.step, A.crash, Arm.step]
        | some ki =>
          dsimp only
          generalize (s1.setSlot ki (Val.int ↑i)).getD s1 = s2
          cases hb : execMB funs f b v s2 with
          | timeout => simp [Dispatch.step]
          | ok v' s3 => simp [Dispatch.step, ih]
          | ctl cc s3 =>
            cases cc with
            | brk n => simp [Dispatch.step, A.brk, Arm.step]
            | cont => cases ha with
              | inl h => subst h; simp [Dispatch.step, A.cont, Arm.step, ih]
              | inr h => subst h; simp [Dispatch.step, A.cont, Arm.step, ih]
            | ret rv => simp [Dispatch.step, A.ret, Arm.step]
            | thr => simp [Dispatch.step, A.thr, Arm.step]
            | crash => simp [Dispatch.step, A.crash, Arm.step]

/-! ## switch bodies -/

theorem runBodiesBy_eq (d : Dispatch) (h : switchBodyOK d = true) (funs : List MFun) :
    ∀ (fuel : Nat) (cs : MCases) (dflt : MBlock) (s : MSt),
      runBodiesBy d funs fuel cs dflt s = runBodiesM funs fuel cs dflt s := by
  simp only [switchBodyOK, Bool.and_eq_true, beq_iff_eq] at h
  obtain ⟨⟨⟨⟨_, hb⟩, hc⟩, hr⟩, ht⟩ := h
  have hns : ∀ c, d.arm c ≠ .swallow := by
    intro c; cases c <;> simp [Dispatch.arm, hb, hc, hr, ht]
  intro fuel
  induction fuel with
  | zero => intro cs dflt s; simp [runBodiesBy, runBodiesM]
  | succ f ih =>
    intro cs dflt s
    cases cs with
    | nil =>
      simp only [runBodiesBy, runBodiesM]
      rw [execBody_eq funs _ hns]
      cases hx : execMB funs f dflt .null s with
      | timeout => simp [Dispatch.step]
      | ok v' s2 => simp [Dispatch.step]
      | ctl cc s2 => cases cc <;> simp [Dispatch.step, Dispatch.arm, hb, hc, hr, ht, Arm.step]
    | cons lbl b rest =>
      simp only [runBodiesBy, runBodiesM]
      rw [execBody_eq funs _ hns]
      cases hx : execMB funs f b .null s with
      | timeout => simp [Dispatch.step]
      | ok v' s2 => simp [Dispatch.step, ih]
      | ctl cc s2 => cases cc <;> simp [Dispatch.step, Dispatch.arm, hb, hc, hr, ht, Arm.step]

/-! ## plain blocks -/

theorem blockBy_eq (d : Dispatch) (h : blockOK d = true) (funs : List MFun) (f : Nat) (b : MBlock) (v : Val) (s : MSt) :
    blockBy d funs f b v s = execMB funs f b v s := by
  simp only [blockOK, Bool.and_eq_true, beq_iff_eq] at h
  obtain ⟨⟨⟨⟨_, hb⟩, hc⟩, hr⟩, ht⟩ := h
  have hns : ∀ c, d.arm c ≠ .swallow := by
    intro c; cases c <;> simp [Dispatch.arm, hb, hc, hr, ht]
  simp only [blockBy]
  rw [execBody_eq funs _ hns]
  cases hx : execMB funs f b v s with
  | timeout => simp [Dispatch.step]
  | ok v' s2 => simp [Dispatch.step]
  | ctl cc s2 => cases cc <;> simp [Dispatch.step, Dispatch.arm, hb, hc, hr, ht, Arm.step]

/-! ## the call boundary -/

theorem callResultBy_eq (d : Dispatch) (h : callOK d = true) (caller : Frame) (r : MRes Val) :
    callResultBy d caller r = callResultM caller r := by
  simp only [callOK, Bool.and_eq_true, beq_iff_eq] at h
  obtain ⟨⟨⟨⟨_, hr⟩, hb⟩, hc⟩, ht⟩ := h
  cases r with
  | timeout => rfl
  | ok v s => rfl
  | ctl c s => cases c <;> simp [callResultBy, callResultM, callArm, hr, hb, hc, ht]

/-! ## clause scans -/

theorem scanTests_matched_guarded (F : ScanFacts) (hg : F.testGuard = .untilMatched) (ts : List Bool) :
    scanTests F true ts = ts.map (fun _ => false) := by
  induction ts with
  | nil => rfl
  | cons t ts ih => simp [scanTests, hg, ih]

theorem scanTests_eq (F : ScanFacts) (h : scanOK F = true) (ts : List Bool) : scanTests F false ts = refTests ts := by
  simp only [scanOK, Bool.and_eq_true, Bool.or_eq_true, beq_iff_eq] at h
  induction ts with
  | nil => rfl
  | cons t ts ih =>
    cases t with
    | false => simp [scanTests, refTests, ih]
    | true =>
      cases h.2 with
      | inl hg =>
        simp only [scanTests, refTests]
        cases F.afterMatch <;> simp [scanTests_matched_guarded F hg]
      | inr hs => simp [scanTests, refTests, hs]

theorem elifsBy_eq (F : ScanFacts) (h : ifScanOK F = true) (funs : List MFun) :
    ∀ (fuel : Nat) (es : MElseIfs) (els : MBlock) (s : MSt),
      elifsBy F funs fuel es els none s = elifsM funs fuel es els s := by
  simp only [ifScanOK, Bool.and_eq_true, beq_iff_eq] at h
  intro fuel
  induction fuel with
  | zero => intro es els s; simp [elifsBy, elifsM]
  | succ f ih =>
    intro es els s
    cases es with
    | nil => simp [elifsBy, elifsM]
    | cons c b rest =>
      simp only [elifsBy, elifsM, Option.isSome_none, Bool.false_and, Option.isNone_none, Bool.and_true, h.2]
      cases hc : evalM funs f c s with
      | timeout => simp [MRes.bind]
      | ctl cc s1 => simp [MRes.bind]
      | ok vc s1 => cases ht : vc.truthy <;> simp [MRes.bind, ht, ih]

/-! ## the store of static locals -/

theorem foldl_keepOrInsert {κ : Type} [DecidableEq κ] (i : κ) (v : Val) :
    ∀ (ops : List StoreOp) (cells : List (κ × Val)),
      ops.all (fun op => op == .insertFresh || op == .growKeep) = true →
      ops.foldl (fun cs op => op.apply i v cs) cells =
        if ops.contains .insertFresh then aset cells i v else cells
  | [], cells, _ => by simp
  | op :: ops, cells, h => by
    simp only [List.all_cons, Bool.and_eq_true, Bool.or_eq_true, beq_iff_eq] at h
    have ih := foldl_keepOrInsert i v ops
    have hI : StoreOp.apply i v cells .insertFresh = aset cells i v := rfl
    have hK : StoreOp.apply i v cells .growKeep = cells := rfl
    cases h.1 with
    | inl hi =>
      subst hi
      rw [List.foldl_cons, hI, ih _ h.2]
      simp only [List.contains_cons, BEq.rfl, Bool.true_or, if_true]
      split
      · exact aset_aset cells i v
      · rfl
    | inr hk =>
      subst hk
      rw [List.foldl_cons, hK, ih _ h.2]
      have : (StoreOp.insertFresh == StoreOp.growKeep) = false := by decide
      simp only [List.contains_cons, this, Bool.false_or]
where
  aset_aset (cells : List (κ × Val)) (i : κ) (v : Val) : aset (aset cells i v) i v = aset cells i v := by
    induction cells with
    | nil => simp [aset]
    | cons p rest ih =>
      obtain ⟨k', a'⟩ := p
      by_cases hk : i = k'
      · simp [aset, hk]
      · simp [aset, hk, ih]

theorem initBy_eq {κ : Type} [DecidableEq κ] (F : StoreFacts) (h : storeOK F = true) (cells : List (κ × Val)) (i : κ) (v : Val) :
    initBy F cells i v = if (aget cells i).isNone then aset cells i v else cells := by
  simp only [storeOK, Bool.and_eq_true] at h
  obtain ⟨⟨⟨⟨⟨hg, hall⟩, hins⟩, _⟩, _⟩, _⟩ := h
  simp only [initBy, hg, Bool.true_and]
  cases hc : aget cells i with
  | some z => simp
  | none =>
    simp only [Option.isSome_none, Option.isNone_none, Bool.false_eq_true, if_false, if_true]
    rw [foldl_keepOrInsert i v F.initOps cells hall, hins]
    rfl

theorem bindStaticBy_eq (F : StoreFacts) (h : storeOK F = true) (g : FName) (s : MSt) (i : Nat) (init : Val) :
    bindStaticBy F g s i init = bindStatic g s i init := by
  simp only [bindStaticBy, bindStatic, initBy_eq F h]

end Proofs.CtlShape
