import Model.EmitCtx
/-! Lemmas about `Model.EmitCtx`: the substitution of a per-file constant for a per-node attribute. -/
namespace Proofs.EmitCtx
open Model.EmitCtx

theorem mapAttr_id {α : Type} (t : T α) : mapAttr id t = t := by
  induction t with
  | site a k ih => simp [mapAttr, ih]
  | other tg k ih => simp [mapAttr, ih]
  | nil => rfl
  | cons h tl ih1 ih2 => simp [mapAttr, ih1, ih2]

/-- rewriting the attributes leaves the tree unchanged iff it leaves every attribute unchanged -/
theorem mapAttr_eq_iff {α : Type} (f : α → α) (t : T α) :
    mapAttr f t = t ↔ ∀ a ∈ attrs t, f a = a := by
  induction t with
  | site a k ih =>
    simp only [mapAttr, attrs, T.site.injEq, List.mem_cons, forall_eq_or_imp, ih]
  | other tg k ih =>
    simp only [mapAttr, attrs, T.other.injEq, true_and, ih]
  | nil => simp [mapAttr, attrs]
  | cons h tl ih1 ih2 =>
    simp only [mapAttr, attrs, T.cons.injEq, List.mem_append, ih1, ih2]
    constructor
    · rintro ⟨h1, h2⟩ a (ha | ha)
      · exact h1 a ha
      · exact h2 a ha
    · intro hh
      exact ⟨fun a ha => hh a (Or.inl ha), fun a ha => hh a (Or.inr ha)⟩

/-- the emitter with a constant is the faithful one iff every site carries that constant -/
theorem const_faithful_iff {α : Type} (c : α) (t : T α) :
    emitConst c t = emitFaithful t ↔ ∀ a ∈ attrs t, a = c := by
  unfold emitConst emitFaithful
  rw [mapAttr_id, mapAttr_eq_iff]
  constructor
  · intro h a ha; exact (h a ha).symm
  · intro h a ha; exact (h a ha).symm

theorem attrs_mapAttr {α : Type} (f : α → α) (t : T α) : attrs (mapAttr f t) = (attrs t).map f := by
  induction t with
  | site a k ih => simp [mapAttr, attrs, ih]
  | other tg k ih => simp [mapAttr, attrs, ih]
  | nil => rfl
  | cons h tl ih1 ih2 => simp [mapAttr, attrs, ih1, ih2]

/-- every site of a labelled section carries the section's name -/
theorem attrs_label {α : Type} (n : α) (t : T α) : ∀ a ∈ attrs (label n t), a = n := by
  intro a ha
  unfold label at ha
  rw [attrs_mapAttr] at ha
  obtain ⟨_, _, rfl⟩ := List.mem_map.mp ha
  rfl

theorem sites_label {α : Type} (n : α) (t : T α) : sites (label n t) = sites t := by
  unfold sites label
  rw [attrs_mapAttr, List.length_map]

/-- the attributes of a parsed file: exactly the names of the sections that have a site -/
theorem mem_attrs_parseFile {α : Type} (secs : List (Section α)) (a : α) :
    a ∈ attrs (parseFile secs) ↔ ∃ s ∈ secs, sites s.body ≠ 0 ∧ s.name = a := by
  induction secs with
  | nil => simp [parseFile, attrs]
  | cons s rest ih =>
    simp only [parseFile, attrs, List.mem_append, ih, List.mem_cons, exists_eq_or_imp]
    constructor
    · rintro (h | h)
      · left
        refine ⟨?_, (attrs_label s.name s.body a h).symm⟩
        have : sites (label s.name s.body) ≠ 0 := by
          unfold sites
          intro h0
          rw [List.length_eq_zero_iff] at h0
          rw [h0] at h
          cases h
        rwa [sites_label] at this
      · exact Or.inr h
    · rintro (⟨hne, rfl⟩ | h)
      · left
        have hl : sites (label s.name s.body) ≠ 0 := by rwa [sites_label]
        unfold sites at hl
        cases hat : attrs (label s.name s.body) with
        | nil => rw [hat] at hl; exact absurd rfl hl
        | cons x xs =>
          have hx : x = s.name := attrs_label s.name s.body x (by rw [hat]; exact List.mem_cons_self)
          rw [hx]
          exact List.mem_cons_self
      · exact Or.inr h

/-- **The file-level statement**: writing the last section's name at every site of the parsed file is
faithful iff every section that contains a site has the last section's name -/
theorem file_faithful_iff {α : Type} (dflt : α) (secs : List (Section α)) :
    emitConst (lastName dflt secs) (parseFile secs) = emitFaithful (parseFile secs) ↔
    ∀ s ∈ secs, sites s.body ≠ 0 → s.name = lastName dflt secs := by
  rw [const_faithful_iff]
  constructor
  · intro h s hs hne
    exact h s.name ((mem_attrs_parseFile secs s.name).mpr ⟨s, hs, hne, rfl⟩)
  · intro h a ha
    obtain ⟨s, hs, hne, rfl⟩ := (mem_attrs_parseFile secs a).mp ha
    exact h s hs hne

theorem lastName_of_all {α : Type} (dflt n : α) (secs : List (Section α)) (hne : secs ≠ [])
    (h : ∀ s ∈ secs, s.name = n) : lastName dflt secs = n := by
  induction secs with
  | nil => exact absurd rfl hne
  | cons s rest ih =>
    cases rest with
    | nil => exact h s List.mem_cons_self
    | cons s2 rest2 =>
      unfold lastName
      exact ih (by simp) (fun x hx => h x (List.mem_cons_of_mem _ hx))

/-! ## resolution -/

theorem append_right_cancel_iff (a b q : Name) : a ++ q = b ++ q ↔ a = b :=
  ⟨List.append_cancel_right, fun h => by rw [h]⟩

/-- a name the first lookup finds is resolved without the namespace -/
theorem resolve_found_first (d : Name → Bool) (ns q : Name) (h : d q = true) : resolve d ns q = some q := by
  simp [resolve, h]

/-- **When do two namespaces resolve a call alike?** Iff the name as written is defined (the first
lookup answers), or the namespaces are the same, or the name is defined in neither. Otherwise one
side calls another function (both defined) or does not find one (exactly one defined). -/
theorem resolve_eq_iff (d : Name → Bool) (n1 n2 q : Name) :
    resolve d n1 q = resolve d n2 q ↔
      d q = true ∨ n1 = n2 ∨ (d (n1 ++ q) = false ∧ d (n2 ++ q) = false) := by
  unfold resolve
  by_cases hq : d q = true
  · simp [hq]
  · simp only [hq, Bool.false_eq_true, if_false, false_or]
    by_cases h1 : d (n1 ++ q) = true <;> by_cases h2 : d (n2 ++ q) = true
    · simp only [h1, h2, if_true, Option.some.injEq, append_right_cancel_iff]
      simp
    · have h2' : d (n2 ++ q) = false := by simpa using h2
      simp only [h1, h2', if_true, Bool.false_eq_true, if_false]
      constructor
      · intro h; cases h
      · rintro (rfl | ⟨h, _⟩)
        · rw [h1] at h2'; cases h2'
        · cases h
    · have h1' : d (n1 ++ q) = false := by simpa using h1
      simp only [h1', h2, if_true, Bool.false_eq_true, if_false]
      constructor
      · intro h; cases h
      · rintro (rfl | ⟨_, h⟩)
        · rw [h2] at h1'; cases h1'
        · cases h
    · have h1' : d (n1 ++ q) = false := by simpa using h1
      have h2' : d (n2 ++ q) = false := by simpa using h2
      simp [h1', h2']

end Proofs.EmitCtx
