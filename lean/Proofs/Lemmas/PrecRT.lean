import Proofs.Lemmas.PrecMono
/-! Round trip of the table-driven parser: for every well-formed table, printing a tree with
any choice of redundant parentheses and parsing it gives the tree back. -/
namespace Proofs.Prec
open Model.Prec

/-- well-formedness of a precedence table -/
structure WF (T : Table) : Prop where
  /-- a continuation operator (binary, `?`) belongs to exactly one non-prefix level -/
  uniqC : ∀ o j L, levelAt T j = some L → L.shape ≠ .prefix → o ∈ L.ops → levelOfC T o = j
  /-- a prefix operator belongs to exactly one prefix level -/
  uniqP : ∀ o j L, levelAt T j = some L → L.shape = .prefix → o ∈ L.ops → levelOfP T o = j
  /-- the ternary separator is not a continuation operator of any level -/
  sepFree : ∀ j L, levelAt T j = some L → L.shape = .tern →
    ∀ i L', levelAt T i = some L' → L'.shape ≠ .prefix → L.sep ∉ L'.ops
  /-- the re-entry level exists and is right-associative (assignment) -/
  reenterOK : ∀ a, T.reenter = some a → ∃ L, levelAt T a = some L ∧ L.shape = .binR

/-- the trees the table can print: operators are listed at their level with a matching
shape; the left operand of a re-entry (assignment) operator is an atom (a variable) -/
def InLang (T : Table) : Expr → Prop
  | .atom _ => True
  | .bin o l r => ∃ L, levelAt T (levelOfC T o) = some L ∧ o ∈ L.ops ∧ (L.shape = .binL ∨ L.shape = .binR) ∧
      InLang T l ∧ InLang T r ∧ (T.reenter = some (levelOfC T o) → ∃ n, l = .atom n)
  | .un o e => ∃ L, levelAt T (levelOfP T o) = some L ∧ o ∈ L.ops ∧ L.shape = .prefix ∧ InLang T e
  | .tern q c t f => ∃ L, levelAt T (levelOfC T q) = some L ∧ q ∈ L.ops ∧ L.shape = .tern ∧
      InLang T c ∧ InLang T t ∧ InLang T f

/-- what may follow a complete sub-expression parsed at level `k`: no continuation operator
of a level `≥ k`, and no re-entry (assignment) operator -/
structure Follow (T : Table) (k : Nat) (R : List Tok) : Prop where
  cont : ∀ j L, k ≤ j → levelAt T j = some L → L.shape ≠ .prefix → headOp L.ops R = none
  asg : headOp (reenterOps T) R = none

theorem Follow.mono {T k k' R} (h : Follow T k R) (hk : k ≤ k') : Follow T k' R :=
  ⟨fun j L hj => h.cont j L (Nat.le_trans hk hj), h.asg⟩

theorem follow_rp (T k R) : Follow T k (.rp :: R) := ⟨fun _ _ _ _ _ => rfl, rfl⟩
theorem follow_nil (T k) : Follow T k [] := ⟨fun _ _ _ _ _ => rfl, rfl⟩

theorem headOp_self {ops : List Nat} {o : Nat} {R : List Tok} (h : o ∈ ops) :
    headOp ops (.op o :: R) = some (o, R) := by simp [headOp, h]

theorem headOp_not {ops : List Nat} {o : Nat} {R : List Tok} (h : o ∉ ops) :
    headOp ops (.op o :: R) = none := by simp [headOp, h]

theorem reenterOps_of {T : Table} {a : Nat} {L : Level} (h : T.reenter = some a) (hL : levelAt T a = some L) :
    reenterOps T = L.ops := by simp [reenterOps, h, hL]

/-- a continuation operator of level `m`, not a re-entry operator, may follow level `m+1` -/
theorem follow_op {T : Table} (wf : WF T) {o m R} {Lm : Level} (hL : levelAt T m = some Lm)
    (hs : Lm.shape ≠ .prefix) (ho : o ∈ Lm.ops) (hre : T.reenter ≠ some m) :
    Follow T (m+1) (.op o :: R) := by
  have hlev := wf.uniqC o m Lm hL hs ho
  refine ⟨?_, ?_⟩
  · intro j L hj hLj hsj
    apply headOp_not
    intro hin
    have := wf.uniqC o j L hLj hsj hin
    omega
  · cases hr : T.reenter with
    | none => simp [reenterOps, hr, headOp]
    | some a =>
      obtain ⟨La, hLa, hsa⟩ := wf.reenterOK a hr
      rw [reenterOps_of hr hLa]
      apply headOp_not
      intro hin
      have := wf.uniqC o a La hLa (by rw [hsa]; decide) hin
      apply hre; rw [hr]; congr 1; omega

/-- the ternary separator may follow anything -/
theorem follow_sep {T : Table} (wf : WF T) {j k R} {L : Level} (hL : levelAt T j = some L) (hs : L.shape = .tern) :
    Follow T k (.op L.sep :: R) := by
  refine ⟨?_, ?_⟩
  · intro i L' _ hL' hs'
    exact headOp_not (wf.sepFree j L hL hs i L' hL' hs')
  · cases hr : T.reenter with
    | none => simp [reenterOps, hr, headOp]
    | some a =>
      obtain ⟨La, hLa, hsa⟩ := wf.reenterOK a hr
      rw [reenterOps_of hr hLa]
      exact headOp_not (wf.sepFree j L hL hs a La hLa (by rw [hsa]; decide))

/-! ### unfolding lemmas -/

theorem parse_prim {T : Table} {f k ts} (h : levelAt T k = none) :
    parse T (f+1) k ts = primary (fun ts' => parse T f 0 ts') ts := by
  rw [parse]; simp [h]

theorem parse_binL {T : Table} {f k ts} {L : Level} (h : levelAt T k = some L) (hs : L.shape = .binL) :
    parse T (f+1) k ts = (parse T f (k+1) ts).bind fun l rest => loopL T f k L.ops l rest := by
  rw [parse]; simp only [h, hs]
  try rfl

theorem parse_binR {T : Table} {f k ts} {L : Level} (h : levelAt T k = some L) (hs : L.shape = .binR) :
    parse T (f+1) k ts = (parse T f (k+1) ts).bind fun l rest =>
        match headOp L.ops rest with
        | some (o, rest') => (parse T f k rest').bind fun r rest'' => .ok (.bin o l r) rest''
        | none => .ok l rest := by
  rw [parse]; simp only [h, hs]
  try rfl

theorem parse_prefix {T : Table} {f k ts} {L : Level} (h : levelAt T k = some L) (hs : L.shape = .prefix) :
    parse T (f+1) k ts =
      match headOp L.ops ts with
      | some (o, rest) => (parse T f k rest).bind fun e rest' => .ok (.un o e) rest'
      | none => (parse T f (k+1) ts).bind fun e rest =>
          match headOp (reenterOps T) rest with
          | some (o, rest') => (parse T f (reenterLevel T) rest').bind fun r rest'' => .ok (.bin o e r) rest''
          | none => .ok e rest := by
  rw [parse]; simp only [h, hs]
  try rfl

theorem parse_tern {T : Table} {f k ts} {L : Level} (h : levelAt T k = some L) (hs : L.shape = .tern) :
    parse T (f+1) k ts = (parse T f (k+1) ts).bind fun c rest =>
        match headOp L.ops rest with
        | some (q, rest') => (parse T f k rest').bind fun t rest2 =>
            ternRest L.sep (fun ts' => parse T f k ts') q c t rest2
        | none => .ok c rest := by
  rw [parse]; simp only [h, hs]
  try rfl

theorem loopL_none {T : Table} {f k ops l ts} (h : headOp ops ts = none) :
    loopL T (f+1) k ops l ts = .ok l ts := by
  rw [loopL]; simp [h]

theorem loopL_some {T : Table} {f k ops l ts o rest} (h : headOp ops ts = some (o, rest)) :
    loopL T (f+1) k ops l ts = (parse T f (k+1) rest).bind fun r rest' => loopL T f k ops (.bin o l r) rest' := by
  rw [loopL]; simp [h]

theorem bind_ok {e R k} : (Res.ok e R).bind k = k e R := rfl

/-- `ts` does not start with a prefix operator of a level in `[k, k+d)` -/
def NoPrefHead (T : Table) (k d : Nat) (ts : List Tok) : Prop :=
  ∀ p L, k ≤ p → p < k + d → levelAt T p = some L → L.shape = .prefix → headOp L.ops ts = none

/-- one level up: a result obtained at level `k+1` is the result at level `k` when nothing
of level `k` follows and the text does not start with a prefix operator of level `k` -/
theorem climb1 {T : Table} {k f ts e R} (h : parse T f (k+1) ts = .ok e R) (hF : Follow T k R)
    (hP : ∀ L, levelAt T k = some L → L.shape = .prefix → headOp L.ops ts = none) :
    ∃ f', parse T f' k ts = .ok e R := by
  cases hL : levelAt T k with
  | none =>
    -- beyond the table every level is `primary`
    have : levelAt T (k+1) = none := by
      simp only [levelAt] at hL ⊢
      rw [List.getElem?_eq_none_iff] at hL ⊢; omega
    cases f with
    | zero => simp [parse] at h
    | succ f =>
      rw [parse_prim this] at h
      exact ⟨f+1, by rw [parse_prim hL]; exact h⟩
  | some L =>
    refine ⟨f + 1 + 1, ?_⟩
    have hf := parse_mono_le T h (by omega : f ≤ f + 1)
    cases hs : L.shape with
    | binL =>
      rw [parse_binL hL hs, hf, bind_ok]
      exact loopL_none (hF.cont k L (Nat.le_refl _) hL (by rw [hs]; decide))
    | binR =>
      rw [parse_binR hL hs, hf, bind_ok]
      simp [hF.cont k L (Nat.le_refl _) hL (by rw [hs]; decide)]
    | «prefix» =>
      rw [parse_prefix hL hs]
      simp only [hP L hL hs]
      rw [hf, bind_ok]
      simp [hF.asg]
    | tern =>
      rw [parse_tern hL hs, hf, bind_ok]
      simp [hF.cont k L (Nat.le_refl _) hL (by rw [hs]; decide)]

theorem climb {T : Table} : ∀ d k f ts e R,
    parse T f (k+d) ts = .ok e R → Follow T k R → NoPrefHead T k d ts → ∃ f', parse T f' k ts = .ok e R := by
  intro d
  induction d with
  | zero => intro k f ts e R h _ _; exact ⟨f, by simpa using h⟩
  | succ d ih =>
    intro k f ts e R h hF hP
    have h' : parse T f ((k+1)+d) ts = .ok e R := by rw [← h]; congr 1; omega
    obtain ⟨f1, hf1⟩ := ih (k+1) f ts e R h' (hF.mono (by omega))
      (fun p L h1 h2 => hP p L (by omega) (by omega))
    exact climb1 hf1 hF (fun L hL hs => hP k L (Nat.le_refl _) (by omega) hL hs)

/-! ### printing -/

theorem paren_true (ts : List Tok) : paren true ts = [.lp] ++ ts ++ [.rp] := rfl
theorem paren_false (ts : List Tok) : paren false ts = ts := rfl

theorem pr_atom (T X k n) : pr T X k (.atom n) = [.atom n] := by simp [pr]

theorem pr_bin (T X k o l r) : pr T X k (.bin o l r) =
    paren (decide (levelOfC T o < k) || X (.bin o l r))
      (match shapeAt T (levelOfC T o) with
       | some .binL => pr T X (levelOfC T o) l ++ [.op o] ++ pr T X (levelOfC T o + 1) r
       | _ => pr T X (levelOfC T o + 1) l ++ [.op o] ++ pr T X (levelOfC T o) r) := by
  conv => lhs; unfold pr
  try rfl

theorem pr_un (T X k o e) : pr T X k (.un o e) =
    paren (decide (levelOfP T o < k) || X (.un o e)) ([.op o] ++ pr T X (levelOfP T o) e) := by
  conv => lhs; unfold pr
  try rfl

theorem pr_tern (T X k q c t f) : pr T X k (.tern q c t f) =
    paren (decide (levelOfC T q < k) || X (.tern q c t f))
      (pr T X (levelOfC T q + 1) c ++ [.op q] ++ pr T X (levelOfC T q) t ++
        [.op (sepAt T (levelOfC T q))] ++ pr T X (levelOfC T q) f) := by
  conv => lhs; unfold pr
  try rfl

/-- the printing context matters only through the comparison with the node's own level -/
theorem pr_ctx (T : Table) (X) (e : Expr) (k k' : Nat) (h : X e = true ∨ (lvl T e < k ↔ lvl T e < k')) :
    pr T X k e = pr T X k' e := by
  cases e with
  | atom n => simp [pr]
  | bin o l r =>
    simp only [lvl] at h
    rw [pr_bin, pr_bin]
    congr 1
    rcases h with h | h
    · simp [h]
    · by_cases hk : levelOfC T o < k
      · have := h.1 hk; simp [hk, this]
      · have : ¬ levelOfC T o < k' := fun h' => hk (h.2 h'); simp [hk, this]
  | un o e =>
    simp only [lvl] at h
    rw [pr_un, pr_un]
    congr 1
    rcases h with h | h
    · simp [h]
    · by_cases hk : levelOfP T o < k
      · have := h.1 hk; simp [hk, this]
      · have : ¬ levelOfP T o < k' := fun h' => hk (h.2 h'); simp [hk, this]
  | tern q c t f =>
    simp only [lvl] at h
    rw [pr_tern, pr_tern]
    congr 1
    rcases h with h | h
    · simp [h]
    · by_cases hk : levelOfC T q < k
      · have := h.1 hk; simp [hk, this]
      · have : ¬ levelOfC T q < k' := fun h' => hk (h.2 h'); simp [hk, this]

/-- text printed for context `k` never starts with a prefix operator of a looser level -/
theorem pr_head {T : Table} (wf : WF T) (X) : ∀ e, InLang T e → ∀ k R p L, p < k → levelAt T p = some L →
    L.shape = .prefix → headOp L.ops (pr T X k e ++ R) = none := by
  intro e
  induction e with
  | atom n => intro _ k R p L _ _ _; simp [pr, headOp]
  | bin o l r ihl _ =>
    intro hin k R p L hp hL hs
    obtain ⟨Lo, hLo, _, hsh, hinl, _, _⟩ := hin
    rw [pr_bin]
    by_cases hpar : (decide (levelOfC T o < k) || X (.bin o l r)) = true
    · rw [hpar, paren_true]; simp [headOp]
    · have hpar' : (decide (levelOfC T o < k) || X (.bin o l r)) = false := by simpa using hpar
      rw [hpar', paren_false]
      have hk : k ≤ levelOfC T o := by
        simp only [Bool.or_eq_false_iff, decide_eq_false_iff_not] at hpar'; omega
      have hshape : shapeAt T (levelOfC T o) = some Lo.shape := by simp [shapeAt, hLo]
      rcases hsh with hsl | hsr
      · rw [hshape, hsl]
        simp only [List.append_assoc]
        exact ihl hinl (levelOfC T o) _ p L (by omega) hL hs
      · rw [hshape, hsr]
        simp only [List.append_assoc]
        exact ihl hinl (levelOfC T o + 1) _ p L (by omega) hL hs
  | un o e _ =>
    intro hin k R p L hp hL hs
    obtain ⟨Lo, hLo, hmem, hso, _⟩ := hin
    rw [pr_un]
    by_cases hpar : (decide (levelOfP T o < k) || X (.un o e)) = true
    · rw [hpar, paren_true]; simp [headOp]
    · have hpar' : (decide (levelOfP T o < k) || X (.un o e)) = false := by simpa using hpar
      rw [hpar', paren_false]
      have hk : k ≤ levelOfP T o := by
        simp only [Bool.or_eq_false_iff, decide_eq_false_iff_not] at hpar'; omega
      simp only [List.append_assoc, List.cons_append, List.nil_append]
      apply headOp_not
      intro hmem'
      have := wf.uniqP o p L hL hs hmem'
      omega
  | tern q c t f ihc _ _ =>
    intro hin k R p L hp hL hs
    obtain ⟨Lq, hLq, _, _, hinc, _, _⟩ := hin
    rw [pr_tern]
    by_cases hpar : (decide (levelOfC T q < k) || X (.tern q c t f)) = true
    · rw [hpar, paren_true]; simp [headOp]
    · have hpar' : (decide (levelOfC T q < k) || X (.tern q c t f)) = false := by simpa using hpar
      rw [hpar', paren_false]
      have hk : k ≤ levelOfC T q := by
        simp only [Bool.or_eq_false_iff, decide_eq_false_iff_not] at hpar'; omega
      simp only [List.append_assoc]
      exact ihc hinc (levelOfC T q + 1) _ p L (by omega) hL hs

end Proofs.Prec
