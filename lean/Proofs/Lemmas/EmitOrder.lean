import Model.EmitOrder
/-! Lemmas about keyed collections walked through a key list (`Model.EmitOrder`). -/
namespace Proofs.EmitOrder
open Model.EmitOrder

theorem emitBy_cons_some {α : Type} (k : Keyed α) (n : String) (ns : List String) (v : α)
    (h : k.get n = some v) : emitBy (n :: ns) k = (n, v) :: emitBy ns k := by
  simp [emitBy, h]

/-- the rebuilt order is the order of the key list that was walked -/
theorem rebuilt_index {α : Type} (k : Keyed α) (keys : List String) (ht : k.total keys) :
    (rebuildKeyed (emitBy keys k)).index = keys := by
  induction keys with
  | nil => rfl
  | cons n ns ih =>
    have hn : (k.get n).isSome = true := ht n (List.mem_cons_self ..)
    obtain ⟨v, hv⟩ := Option.isSome_iff_exists.mp hn
    rw [emitBy_cons_some k n ns v hv]
    have ih' := ih (fun m hm => ht m (List.mem_cons_of_mem _ hm))
    simp only [rebuildKeyed, List.map_cons] at ih' ⊢
    rw [ih']

/-- every by-name lookup answers as before, whatever the order of the key list -/
theorem rebuilt_get {α : Type} (k : Keyed α) (keys : List String) (ht : k.total keys) :
    ∀ n ∈ keys, (rebuildKeyed (emitBy keys k)).get n = k.get n := by
  induction keys with
  | nil => intro n hn; cases hn
  | cons m ms ih =>
    intro n hn
    have hm : (k.get m).isSome = true := ht m (List.mem_cons_self ..)
    obtain ⟨v, hv⟩ := Option.isSome_iff_exists.mp hm
    rw [emitBy_cons_some k m ms v hv]
    by_cases hmn : m = n
    · subst hmn
      simp [rebuildKeyed, List.find?_cons, hv]
    · have hn' : n ∈ ms := by
        cases hn with
        | head => exact absurd rfl hmn
        | tail _ h => exact h
      have := ih (fun x hx => ht x (List.mem_cons_of_mem _ hx)) n hn'
      simp only [rebuildKeyed] at this ⊢
      rw [List.find?_cons]
      have hne : ((m, v).1 == n) = false := by simpa using hmn
      rw [hne]
      exact this

theorem mem_insertSorted (x n : String) (ys : List String) :
    n ∈ insertSorted x ys ↔ n = x ∨ n ∈ ys := by
  induction ys with
  | nil => simp [insertSorted]
  | cons y ys ih =>
    unfold insertSorted
    split
    · simp
    · simp [ih]; constructor
      · rintro (h | h | h)
        · exact Or.inr (Or.inl h)
        · exact Or.inl h
        · exact Or.inr (Or.inr h)
      · rintro (h | h | h)
        · exact Or.inr (Or.inl h)
        · exact Or.inl h
        · exact Or.inr (Or.inr h)

theorem mem_sortStrings (n : String) (xs : List String) : n ∈ sortStrings xs ↔ n ∈ xs := by
  induction xs with
  | nil => simp [sortStrings]
  | cons x xs ih => simp [sortStrings, mem_insertSorted, ih]

end Proofs.EmitOrder
