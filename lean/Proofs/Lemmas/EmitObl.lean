import Proofs.Lemmas.Emit
import Generated.C16CompileNodes
/-! Obligations on the regenerated C16 tables that do not depend on the lists kept in the property
file (evaluated here so that each module stays well under a minute). -/
namespace Proofs.EmitObl
open Model.Emit Spec.Emit
open Generated.C16CompileNodes (tables runCompiledSteps loadAndRunSteps)

theorem nodes_rebuilt :
    (emittable tables).all (fun d => !d.fields.any (·.embeddedNode) || needsNode tables d) = true := by
  decide +kernel

theorem no_crash_kinds : noCrashKinds tables = true := by decide +kernel

theorem unnamed_by_hand : unnamedByHand tables = true := by decide +kernel

theorem fields_unique :
    tables.structs.all (fun d => d.fields.all (fun f =>
      (d.fields.find? (fun g => g.name == f.name)).map (·.name) == some f.name
      && (d.fields.filter (fun g => g.name == f.name)).length == 1)) = true := by decide +kernel

theorem same_skeleton :
    skeleton runCompiledSteps = skeleton loadAndRunSteps ∧
    skeleton runCompiledSteps = [.normalize, .cacheGet, .cacheSet, .createContext, .registerGlobals, .run, .flush] := by
  decide +kernel

end Proofs.EmitObl
