import Proofs.Lemmas.HeapRead
import Proofs.Lemmas.SpecRoot
/-!
C06 helper lemmas: an in-place mutation of the array object found at a place of **any
depth** — on a state satisfying `NoSharing` — changes exactly the root name of that place,
along the path; keeps the invariant; and denotes the spec's `onArray`.  The write-back
chain (`writeBackArrayProperty`) re-stores what is already there.
-/
namespace Proofs.Heap
open Model.Heap
open Spec.Val (abs eraseVal eraseL Tree Entry)

theorem abs_setHolder_v (s : St) (x c : Nat) (w : Val) (hc : s.names[x]? = some c) :
    abs (setHolder s (.v c) w) = (abs s).setVar x (eraseVal w) := by
  simp [setHolder, abs, Spec.Val.St.setVar, hc, List.map_set]

theorem abs_setHolder_p (s : St) (h p : Nat) (w : Val) :
    abs (setHolder s (.p h p) w) = (abs s).setProp h p (eraseVal w) := by
  simp only [setHolder, abs_setProp]

theorem setProp_next (s : St) (n h p : Nat) (w : Val) :
    ({ s with next := n } : St).setProp h p w = { (s.setProp h p w) with next := n } := by
  simp only [St.setProp]
  cases s.objs[h]? <;> rfl

theorem varObj?_setProp (s : St) (h p : Nat) (w : Val) (x : Nat) : (s.setProp h p w).varObj? x = s.varObj? x := by
  simp only [St.setProp]
  cases s.objs[h]? <;> rfl

/-- overwriting a holder by the same value up to identities does not change what the state denotes -/
theorem abs_setHolder_same (s : St) (P : Pos) (w nv : Val) (hP : holder? s P = some w)
    (he : eraseVal nv = eraseVal w) : abs (setHolder s P nv) = abs s := by
  cases P with
  | v c =>
    simp only [holder?] at hP
    simp only [setHolder, abs, List.map_set, he]
    congr 1
    exact list_set_same _ _ _ (by simp [hP])
  | p h p =>
    simp only [holder?, St.propVal?] at hP
    cases hps : s.objs[h]? with
    | none => simp [hps] at hP
    | some ps =>
      simp only [hps] at hP
      have h1 : (ps.set p nv).map eraseVal = ps.map eraseVal := by
        rw [List.map_set, he]; exact list_set_same _ _ _ (by simp [hP])
      simp only [setHolder, St.setProp, hps, abs, List.map_set, h1]
      congr 1
      exact list_set_same _ _ _ (by simp [hps])

/-- reading the root name whose holder was just overwritten -/
theorem readPlace_setHolder_root (s : St) (r : Place) (hr : r.isRoot = true) (P : Pos) (old nv : Val) (n : Nat)
    (hroot : rootPos s r = some P) (hold : holder? s P = some old) :
    readPlace { (setHolder s P nv) with next := n } r = some nv := by
  cases r with
  | idx b k => simp [Place.isRoot] at hr
  | var x =>
    simp only [rootPos] at hroot
    cases hc : s.names[x]? with
    | none => simp [hc] at hroot
    | some c =>
      simp [hc] at hroot; subst hroot
      simp only [holder?] at hold
      have hlt : c < s.vcells.length := (List.getElem?_eq_some_iff.mp hold).1
      simp [readPlace, St.varVal?, setHolder, hc, hlt]
  | prop x p =>
    simp only [rootPos] at hroot
    cases hh : s.varObj? x with
    | none => simp [hh] at hroot
    | some h =>
      simp [hh] at hroot; subst hroot
      simp only [holder?] at hold
      have h1 : ({ (setHolder s (.p h p) nv) with next := n } : St).varObj? x = some h := by
        show (s.setProp h p nv).varObj? x = some h
        rw [varObj?_setProp, hh]
      simp only [readPlace, h1]
      show (s.setProp h p nv).propVal? h p = some nv
      rw [propVal?_setProp s h p nv h p old hold]; simp

/-- the spec's rewrite of a root name, when the function maps the old tree to the new one -/
theorem modify_root_setHolder (s : St) (c : Bool) (r : Place) (hr : r.isRoot = true) (P : Pos) (w nv : Val) (n : Nat)
    (hroot : rootPos s r = some P) (hP : holder? s P = some w) (H : Tree → Option Tree)
    (hH : H (eraseVal w) = some (eraseVal nv)) :
    Spec.Val.modify (abs s) c r H = some (abs { (setHolder s P nv) with next := n }) := by
  cases r with
  | idx b k => simp [Place.isRoot] at hr
  | var x =>
    simp only [rootPos] at hroot
    cases hc : s.names[x]? with
    | none => simp [hc] at hroot
    | some cc =>
      simp [hc] at hroot; subst hroot
      simp only [holder?] at hP
      show _ = some (abs (setHolder s (.v cc) nv))
      rw [abs_setHolder_v s x cc _ hc]
      simp only [Spec.Val.modify, abs_varVal?, St.varVal?, hc, hP, Option.map_some, hH]
  | prop x p =>
    simp only [rootPos] at hroot
    cases hh : s.varObj? x with
    | none => simp [hh] at hroot
    | some h =>
      simp [hh] at hroot; subst hroot
      simp only [holder?] at hP
      show _ = some (abs (setHolder s (.p h p) nv))
      rw [abs_setHolder_p]
      simp only [Spec.Val.modify, abs_varObj?, hh, abs_propVal?, hP, Option.map_some, hH]

/-- where the array object found at a place sits: in the value of the holder of the root
name, at the end of the path; and the in-place mutation is `setAt` there -/
theorem inplace_eq {s : St} (hinv : Inv s) (b : Place) (a : Nat) (kids : List Slot)
    (hr : readPlace s b = some (.arr a kids)) (f : List Slot → List Slot) :
    ∃ P w, rootPos s b.root = some P ∧ holder? s P = some w ∧ walk (pathOf b) w = some (.arr a kids) ∧
      s.updArr a f = setHolder s P (setAt (pathOf b) (.arr a (f kids)) w) := by
  rw [readPlace_root_path] at hr
  cases hw : readPlace s b.root with
  | none => simp [hw] at hr
  | some w =>
    simp only [hw, Option.bind_some] at hr
    obtain ⟨P, hroot, hP⟩ := readPlace_root s b.root (root_isRoot b) w hw
    have h1 := walk_cnt _ w a kids hr
    have h2 := scnt_holder_le s P w a hP
    have h3 := hinv.uniq a
    refine ⟨P, w, hroot, hP, hr, ?_⟩
    rw [updArr_eq_setHolder P a w h3 hP h1 f, updArr_eq_setAt a f _ w kids (by omega) hr]

/-- **in-place mutation at a place of any depth** -/
theorem inplace {s : St} (hinv : Inv s) (b : Place) (a : Nat) (kids kids' : List Slot)
    (hr : readPlace s b = some (.arr a kids)) (n1 : Nat) (hn : s.next ≤ n1) (e : Nat → Nat)
    (hk : ∀ i, cntL i kids' ≤ cntL i kids + e i)
    (he : ∀ i, e i ≤ 1 ∧ (0 < e i → scnt s i = 0 ∧ i < n1)) :
    Inv { (s.updArr a (fun _ => kids')) with next := n1 } ∧
    readPlace { (s.updArr a (fun _ => kids')) with next := n1 } b = some (.arr a kids') ∧
    (∀ i, scnt { (s.updArr a (fun _ => kids')) with next := n1 } i ≤ scnt s i + e i) ∧
    (∀ (c : Bool) (g : List Entry → List Entry), eraseL kids' = g (eraseL kids) →
      Spec.Val.onArray (abs s) c b g = some (abs { (s.updArr a (fun _ => kids')) with next := n1 })) ∧
    (eraseL kids' = eraseL kids → abs { (s.updArr a (fun _ => kids')) with next := n1 } = abs s) := by
  obtain ⟨P, w, hroot, hP, hwalk, hupd⟩ := inplace_eq hinv b a kids hr (fun _ => kids')
  rw [hupd]
  have hcnt : ∀ i, vcnt i (setAt (pathOf b) (.arr a kids') w) ≤ vcnt i w + e i := by
    intro i
    have h1 := cnt_setAt i (pathOf b) (.arr a kids') w a kids hwalk
    have h2 := hk i
    simp only [vcnt] at h1 ⊢
    omega
  refine ⟨Inv.replace hinv P w _ n1 e hP hn hcnt he, ?_, ?_, ?_, ?_⟩
  · rw [readPlace_root_path, readPlace_setHolder_root s b.root (root_isRoot b) P w _ n1 hroot hP]
    simp only [Option.bind_some]
    exact walk_setAt _ _ w a kids hwalk
  · intro i
    rw [scnt_next]
    have h1 := scnt_setHolder s P w (setAt (pathOf b) (.arr a kids') w) i hP
    have h2 := hcnt i
    omega
  · intro c g hg
    rw [onArray_eq, modify_root_path]
    apply modify_root_setHolder s c b.root (root_isRoot b) P w _ n1 hroot hP
    apply modPath_setAt c (onArr g) (pathOf b) _ w a kids hwalk
    simp [onArr, eraseVal, hg]
  · intro hg
    show abs (setHolder s P _) = abs s
    apply abs_setHolder_same s P w _ hP
    exact erase_setAt_same _ _ w a kids hwalk (by simp [eraseVal, hg])

/-! ### the write-back chain -/

/-- `indexSetValueOnContainer` on the parent with a key that is there: the slot is replaced -/
theorem writeBackAct_found (pkids : List Slot) (k2 : IKey) (j c n : Nat) (kk : Key) (old child : Val)
    (hf : Keys.find k2 (keys pkids) = some j) (hs : pkids[j]? = some (c, kk, old)) :
    writeBackAct .fixed pkids k2 n child = .list (pkids.set j (n, kk, child)) := by
  cases k2 with
  | int i =>
    simp only [Keys.find] at hf
    simp [writeBackAct, Cfg.fixed, setIntKey, hf, hitAct, storeSlot, hs]
  | str t =>
    simp only [Keys.find] at hf
    simp [writeBackAct, setNamedKey, hf, hitAct, Cfg.fixed, storeSlot, hs]

theorem readPlace_idx_arr (s : St) (b2 : Place) (k2 : IKey) (a : Nat) (kids : List Slot)
    (h : readPlace s (.idx b2 k2) = some (.arr a kids)) :
    ∃ pa pkids j c kk, readPlace s b2 = some (.arr pa pkids) ∧ Keys.find k2 (keys pkids) = some j ∧
      pkids[j]? = some (c, kk, .arr a kids) := by
  simp only [readPlace] at h
  cases hb : readPlace s b2 with
  | none => simp [hb] at h
  | some pv =>
    cases pv with
    | sc sc => simp [hb] at h
    | arr pa pkids =>
      simp only [hb] at h
      cases hf : Keys.find k2 (keys pkids) with
      | none => simp [hf] at h
      | some j =>
        simp only [hf, getVal?] at h
        cases hs : pkids[j]? with
        | none => simp [hs] at h
        | some sl =>
          obtain ⟨c, kk, v⟩ := sl
          simp only [hs, Option.map_some, Option.some.injEq] at h
          subst h
          exact ⟨pa, pkids, j, c, kk, rfl, hf, hs⟩

theorem writeBack_ok : (b : Place) → {s : St} → Inv s → (a : Nat) → (kids : List Slot) →
    readPlace s b = some (.arr a kids) →
    Inv (writeBack .fixed s b) ∧ abs (writeBack .fixed s b) = abs s ∧ s.next ≤ (writeBack .fixed s b).next ∧
      ∀ i, scnt (writeBack .fixed s b) i ≤ scnt s i
  | .var x, s, hinv, a, kids, hr => by simp [writeBack, hinv]
  | .prop x p, s, hinv, a, kids, hr => by simp [writeBack, Cfg.fixed, hinv]
  | .idx b2 k2, s, hinv, a, kids, hr => by
      obtain ⟨pa, pkids, j, c, kk, hb, hf, hs⟩ := readPlace_idx_arr s b2 k2 a kids hr
      have hact := writeBackAct_found pkids k2 j c s.next kk (.arr a kids) (.arr a kids) hf hs
      have hwb : writeBack .fixed s (.idx b2 k2) =
          writeBack .fixed { (s.updArr pa (fun _ => pkids.set j (s.next, kk, .arr a kids))) with next := s.next + 1 } b2 := by
        simp only [writeBack, hb, hr, hact, St.applyAct]
      have hcn : ∀ i, cntL i (pkids.set j (s.next, kk, .arr a kids)) ≤ cntL i pkids + 0 := by
        intro i
        have := cntL_set i pkids j (c, kk, .arr a kids) (s.next, kk, .arr a kids) hs
        simp only at this; omega
      have her : eraseL (pkids.set j (s.next, kk, .arr a kids)) = eraseL pkids := by
        rw [eraseL_set]
        exact list_set_same _ _ _ (by simp [eraseL_getElem?, hs])
      obtain ⟨i1, i2, i3, _, i5⟩ := inplace hinv b2 pa pkids _ hb (s.next + 1) (by omega) (fun _ => 0) hcn
        (fun i => ⟨by omega, fun h => by omega⟩)
      obtain ⟨w1, w2, w3, w4⟩ := writeBack_ok b2 i1 pa _ i2
      rw [hwb]
      refine ⟨w1, by rw [w2, i5 her], ?_, ?_⟩
      · have : s.next + 1 ≤ _ := w3
        omega
      · intro i; have := w4 i; have := i3 i; omega

end Proofs.Heap
