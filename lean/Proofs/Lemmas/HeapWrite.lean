import Proofs.Lemmas.HeapRead
/-!
C06 helper lemmas, part 4: a statement that mutates, in place, the array object a
root place (`$x`, `$x->p`) holds — on a state satisfying `NoUnintendedSharing` — changes
exactly that holder, keeps the invariant, and denotes the spec's `onArray`.
-/
namespace Proofs.Heap
open Model.Heap
open Spec.Val (abs eraseVal eraseL Tree Entry)

theorem abs_setHolder_v (s : St) (x c : Nat) (w : Val) (hc : s.names[x]? = some c) :
    abs (setHolder s (.v c) w) = (abs s).setVar x (eraseVal w) := by
  simp [setHolder, abs, Spec.Val.St.setVar, hc, List.map_set]

theorem abs_setHolder_p (s : St) (h p : Nat) (w : Val) :
    abs (setHolder s (.p h p) w) = (abs s).setProp h p (eraseVal w) := by
  simp only [setHolder, abs_setProp]

theorem setProp_next (s : St) (n h p : Nat) (w : Val) :
    ({ s with next := n } : St).setProp h p w = { (s.setProp h p w) with next := n } := by
  simp only [St.setProp]
  cases s.objs[h]? <;> rfl

theorem varObj?_setProp (s : St) (h p : Nat) (w : Val) (x : Nat) : (s.setProp h p w).varObj? x = s.varObj? x := by
  simp only [St.setProp]
  cases s.objs[h]? <;> rfl

/-- identities of the new slot list: inner identities of the state or fresh below `n1` -/
def KidsOK (s : St) (n1 : Nat) (kids' : List Slot) : Prop :=
  ∀ i ∈ aidsL kids', InnerOf s i ∨ (s.next ≤ i ∧ i < n1)

theorem root_write {s : St} (hinv : Inv s) (b : Place) (hb : b.isRoot = true) (a : Nat)
    (kids kids' : List Slot) (hr : readPlace s b = some (.arr a kids)) (n1 : Nat) (hn : s.next ≤ n1)
    (hk : KidsOK s n1 kids') (g : List Entry → List Entry) (hg : eraseL kids' = g (eraseL kids)) :
    Inv (writeBack .fixed { (s.updArr a (fun _ => kids')) with next := n1 } b) ∧
    Spec.Val.onArray (abs s) b g =
      some (abs (writeBack .fixed { (s.updArr a (fun _ => kids')) with next := n1 } b)) := by
  have hinner : ∀ i ∈ innerAids (Val.arr a kids'), InnerOf s i ∨ s.next ≤ i := by
    intro i hi
    rcases hk i (by simpa [innerAids] using hi) with h | h
    · exact Or.inl h
    · exact Or.inr h.1
  have hlt : ∀ i ∈ aidsL kids', i < n1 := by
    intro i hi
    rcases hk i hi with h | h
    · have := InnerOf.lt hinv h; omega
    · exact h.2
  cases b with
  | idx b k => simp [Place.isRoot] at hb
  | var x =>
    simp only [readPlace, St.varVal?] at hr
    cases hc : s.names[x]? with
    | none => simp [hc] at hr
    | some c =>
      simp only [hc] at hr
      have hP : holder? s (.v c) = some (.arr a kids) := hr
      have hupd := updArr_eq_setHolder hinv (.v c) a kids hP (fun _ => kids')
      simp only [writeBack, hupd]
      have ha : a < s.next := hinv.bound _ _ hP a (by simp [Val.aids])
      refine ⟨?_, ?_⟩
      · apply Inv.overwrite hinv (.v c) (.arr a kids) (.arr a kids') n1 hP hn
        · intro a' k' e; injection e with e1 e2; subst e1; exact Or.inl ⟨kids, rfl⟩
        · exact hinner
        · intro i hi
          simp only [Val.aids, List.mem_cons] at hi
          rcases hi with e | e
          · omega
          · exact hlt i e
      · show Spec.Val.onArray (abs s) (.var x) g = some (abs (setHolder s (.v c) (.arr a kids')))
        rw [abs_setHolder_v s x c _ hc]
        simp only [Spec.Val.onArray, Spec.Val.modify, abs_varVal?, St.varVal?, hc, hr, Option.map_some, eraseVal, hg]
  | prop x p =>
    simp only [readPlace] at hr
    cases hh : s.varObj? x with
    | none => simp [hh] at hr
    | some h =>
      simp only [hh] at hr
      have hP : holder? s (.p h p) = some (.arr a kids) := hr
      have hupd := updArr_eq_setHolder hinv (.p h p) a kids hP (fun _ => kids')
      -- state after the in-place mutation
      have hobj : ({ (setHolder s (.p h p) (.arr a kids')) with next := n1 } : St).varObj? x = some h := by
        show (s.setProp h p (.arr a kids')).varObj? x = some h
        rw [varObj?_setProp, hh]
      have hrd : readPlace { (setHolder s (.p h p) (.arr a kids')) with next := n1 } (.prop x p) =
          some (.arr a kids') := by
        simp only [readPlace, hobj]
        show (s.setProp h p (.arr a kids')).propVal? h p = _
        rw [propVal?_setProp s h p _ h p _ hr]; simp
      have hfinal : writeBack .fixed { (s.updArr a (fun _ => kids')) with next := n1 } (.prop x p) =
          { (setHolder s (.p h p) (.arr n1 kids')) with next := n1 + 1 } := by
        rw [hupd]
        simp only [writeBack, hrd, hobj]
        rw [setProp_next]
        have := setHolder_setHolder s (.p h p) (.arr a kids') (.arr n1 kids') _ hP
        simp only [setHolder] at this
        simp only [setHolder, this]
      rw [hfinal]
      refine ⟨?_, ?_⟩
      · apply Inv.overwrite hinv (.p h p) (.arr a kids) (.arr n1 kids') (n1 + 1) hP (by omega)
        · intro a' k' e; injection e with e1 e2; subst e1; subst e2; exact Or.inr ⟨hn, hlt⟩
        · intro i hi
          rcases hk i (by simpa [innerAids] using hi) with h' | h'
          · exact Or.inl h'
          · exact Or.inr h'.1
        · intro i hi
          simp only [Val.aids, List.mem_cons] at hi
          rcases hi with e | e
          · omega
          · have := hlt i e; omega
      · show Spec.Val.onArray (abs s) (.prop x p) g = some (abs (setHolder s (.p h p) (.arr n1 kids')))
        rw [abs_setHolder_p]
        simp only [Spec.Val.onArray, Spec.Val.modify, abs_varObj?, hh, abs_propVal?, hr, Option.map_some, eraseVal, hg]

/-- slot values taken from the old list or equal to `x` have admissible identities -/
theorem kidsOK_of_valsFrom {s : St} (P : Pos) (a : Nat) (kids kids' : List Slot) (x : Val) (n1 : Nat)
    (hP : holder? s P = some (.arr a kids)) (hv : ValsFrom kids' kids x)
    (hx : ∀ i ∈ x.aids, InnerOf s i ∨ (s.next ≤ i ∧ i < n1)) : KidsOK s n1 kids' := by
  intro i hi
  obtain ⟨sl, hsl, hm⟩ := (mem_aidsL i kids').mp hi
  rcases hv sl hsl with ⟨sl0, h0, e⟩ | e
  · left
    refine ⟨P, _, hP, ?_⟩
    simp only [innerAids]
    exact (mem_aidsL i kids).mpr ⟨sl0, h0, by rw [← e]; exact hm⟩
  · rw [e] at hm; exact hx i hm

end Proofs.Heap
