import Proofs.Lemmas.SerFuel
/-! `2·len + 1` fuel is enough for `pValue`: the answer does not depend on the fuel beyond it. -/
namespace Proofs.Ser
open Model.Ser

theorem fuel_enough (f : Nat) :
    (∀ s, 2 * s.length < f → pValue f s = none → pValue (f + 1) s = none) ∧
    (∀ n s, 2 * s.length + 1 < f → pEntries f n s = none → pEntries (f + 1) n s = none) := by
  induction f with
  | zero => exact ⟨by intro s h; omega, by intro n s h; omega⟩
  | succ f ih =>
    obtain ⟨ihV, ihE⟩ := ih
    obtain ⟨monoV, monoE⟩ := fuel_mono f
    constructor
    · intro s hlen h
      cases s with
      | nil => simp [pValue]
      | cons c rest =>
        rw [pValue] at h ⊢
        split
        · rename_i hc; rw [if_pos hc] at h; exact h
        · rename_i hc; rw [if_neg hc] at h
          split
          · rename_i hc2; rw [if_pos hc2] at h; exact h
          · rename_i hc2; rw [if_neg hc2] at h
            split
            · rename_i hc3; rw [if_pos hc3] at h; exact h
            · rename_i hc3; rw [if_neg hc3] at h
              split
              · rename_i hc4; rw [if_pos hc4] at h; exact h
              · rename_i hc4; rw [if_neg hc4] at h
                split
                · rename_i hc6; rw [if_pos hc6] at h; exact h
                · rename_i hc6; rw [if_neg hc6] at h
                  split
                  · rename_i hc5; rw [if_pos hc5] at h
                    cases hh : pArrHead rest with
                    | none => simp
                    | some p =>
                      obtain ⟨n, body⟩ := p
                      simp only [hh] at h ⊢
                      have hb := pArrHead_lt hh
                      cases he : pEntries f n body with
                      | none =>
                        rw [ihE n body (by simp at hlen; omega) he]
                      | some q =>
                        obtain ⟨es, rest'⟩ := q
                        simp only [he] at h
                        rw [(monoE n body es rest' he).1]
                        exact h
                  · rfl
    · intro n s hlen h
      cases n with
      | zero => simp [pEntries] at h
      | succ n =>
        rw [pEntries] at h ⊢
        cases h1 : pValue f s with
        | none => rw [ihV s (by omega) h1]; rfl
        | some p1 =>
          obtain ⟨k, s1⟩ := p1
          obtain ⟨a1, a2⟩ := monoV s k s1 h1
          simp only [h1] at h
          rw [a1]
          cases hok : keyOk k with
          | false => simp [keyFilter, hok]
          | true =>
          simp only [keyFilter, hok, if_true] at h ⊢
          cases h2 : pValue f s1 with
          | none => rw [ihV s1 (by omega) h2]
          | some p2 =>
            obtain ⟨v, s2⟩ := p2
            obtain ⟨b1, b2⟩ := monoV s1 v s2 h2
            simp only [h2] at h
            rw [b1]; simp only
            cases h3 : pEntries f n s2 with
            | none => rw [ihE n s2 (by omega) h3]
            | some p3 => simp [h3] at h

/-- beyond `2·len + 1` the fuel does not matter -/
theorem fuel_irrelevant (s : Bytes) (k : Nat) :
    pValue (2 * s.length + 1 + k) s = pValue (2 * s.length + 1) s := by
  induction k with
  | zero => rfl
  | succ k ih =>
    rw [← ih]
    cases h : pValue (2 * s.length + 1 + k) s with
    | none => exact (fuel_enough _).1 s (by show 2 * s.length < 2 * s.length + 1 + k; omega) h
    | some p =>
      obtain ⟨v, r⟩ := p
      exact ((fuel_mono _).1 s v r h).1

end Proofs.Ser
