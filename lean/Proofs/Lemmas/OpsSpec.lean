import Model.Ops
import Spec.Ops
import Proofs.Lemmas.Ops
/-! C03: 64-bit arithmetic facts, spaceship coherence, exactness of `Model.Ops` against `Spec.Ops`. -/
namespace Proofs.Ops
open Model.Ops

/-! ## two's complement arithmetic = arithmetic modulo 2^64 -/

theorem wrap_add (x y : BitVec 64) : Spec.Ops.wrap (x.toInt + y.toInt) = x + y := by
  simp [Spec.Ops.wrap, BitVec.ofInt_add, BitVec.ofInt_toInt]

theorem wrap_mul (x y : BitVec 64) : Spec.Ops.wrap (x.toInt * y.toInt) = x * y := by
  simp [Spec.Ops.wrap, BitVec.ofInt_mul, BitVec.ofInt_toInt]

theorem wrap_neg (x : BitVec 64) : Spec.Ops.wrap (-x.toInt) = -x := by
  simp [Spec.Ops.wrap, BitVec.ofInt_neg, BitVec.ofInt_toInt]

theorem wrap_sub (x y : BitVec 64) : Spec.Ops.wrap (x.toInt - y.toInt) = x - y := by
  rw [Int.sub_eq_add_neg]
  simp [Spec.Ops.wrap, BitVec.ofInt_add, BitVec.ofInt_neg, BitVec.ofInt_toInt, BitVec.sub_eq_add_neg]

theorem wrap_srem (x y : BitVec 64) : Spec.Ops.wrap (x.toInt.tmod y.toInt) = goRem x y := by
  unfold goRem Spec.Ops.wrap
  rw [← BitVec.toInt_srem, BitVec.ofInt_toInt]

theorem toInt_eq_zero (y : BitVec 64) : (y.toInt = 0) ↔ (y == 0#64) = true := by
  rw [beq_iff_eq, ← BitVec.toInt_inj, BitVec.toInt_zero]

theorem slt_zero (n : BitVec 64) : BitVec.slt n 0#64 = decide (n.toInt < 0) := by
  rw [BitVec.slt_eq_decide, BitVec.toInt_zero]

theorem toNat_of_nonneg (n : BitVec 64) (h : ¬ n.toInt < 0) : n.toNat = n.toInt.toNat := by
  have hm : n.msb = false := by
    rw [BitVec.msb_eq_toInt]; simp [h]
  rw [BitVec.toInt_eq_toNat_of_msb hm]; simp

theorem wrap_shl (x : BitVec 64) (k : Nat) : Spec.Ops.wrap (x.toInt * 2 ^ k) = x <<< k := by
  apply BitVec.eq_of_toInt_eq
  rw [Spec.Ops.wrap, BitVec.toInt_ofInt, BitVec.toInt_shiftLeft, Nat.shiftLeft_eq]
  rw [BitVec.toInt_eq_toNat_bmod x]
  simp only [Int.natCast_mul, Int.natCast_pow]
  rw [Int.bmod_mul_bmod]
  rfl

theorem wrap_shr (x : BitVec 64) (k : Nat) : Spec.Ops.wrap (x.toInt / 2 ^ k) = x.sshiftRight k := by
  apply BitVec.eq_of_toInt_eq
  rw [BitVec.toInt_sshiftRight, Int.shiftRight_eq_div_pow]
  rw [Spec.Ops.wrap, BitVec.toInt_ofInt]
  have h1 := BitVec.toInt_lt (x := x)
  have h2 := BitVec.le_toInt (x := x)
  have hp : (0 : Int) < 2 ^ k := Int.pow_pos (by decide)
  have hcast : ((2 ^ k : Nat) : Int) = (2 : Int) ^ k := by simp
  rw [hcast]
  have hlo : -(2 ^ 63 : Int) ≤ x.toInt / 2 ^ k := by
    have : -(2 ^ 63 : Int) * 2 ^ k ≤ x.toInt := by
      have : (1 : Int) ≤ 2 ^ k := hp
      have h3 : -(2 ^ 63 : Int) * 2 ^ k ≤ -(2 ^ 63 : Int) * 1 := by
        apply Int.mul_le_mul_of_nonpos_left _ this
        decide
      simp at h3 h2 ⊢
      omega
    exact (Int.le_ediv_iff_mul_le hp).mpr this
  have hhi : x.toInt / 2 ^ k < (2 ^ 63 : Int) := by
    apply (Int.ediv_lt_iff_lt_mul hp).mpr
    have : (2 ^ 63 : Int) * 1 ≤ 2 ^ 63 * 2 ^ k := Int.mul_le_mul_of_nonneg_left hp (by decide)
    simp at h1 this ⊢
    omega
  apply Int.bmod_eq_of_le <;> simp at hlo hhi ⊢ <;> omega

end Proofs.Ops
