import Model.MethStore
import Generated.C15Storage
/-!
The obligation on the regenerated storage facts of `data/value_array*.go`
(`Generated.C15Storage`, written by `extract/c15` on every run): which layout of
`Model.MethStore` each method object has, and the decidable predicate that says the
code keeps the layout the theorems are about.
-/
namespace Proofs.MethStoreObl
open Generated.C15Storage
open Model.MethStore (OutBuf)

def callbackMethods : List String :=
  ["every", "filter", "find", "findIndex", "flatMap", "forEach", "map", "reduce", "some"]

def mutatorMethods : List String := ["pop", "push", "reverse", "shift", "sort", "splice", "unshift"]

def plainMethods : List String := ["concat", "flat", "includes", "indexOf", "join", "slice"]

/-- the layout of `Model.MethStore` a method's stores amount to: nothing stored outside buffers of
its own → `fresh`; a store into the snapshot handed to callbacks → `inSnap`; into the receiver's slots
→ `inRecv`; anything the translator could not classify → none -/
def layoutOf (m : Method) : Option OutBuf :=
  if m.writes.all (· == "fresh") then some .fresh
  else if m.writes.all (fun w => w == "fresh" || w == "copy") then some .inSnap
  else if m.writes.all (fun w => w == "fresh" || w == "copy" || w == "recv") then some .inRecv
  else none

/-- a loop that invokes the callback: it runs over the snapshot, hands the snapshot (re-wrapped) to the
callback, and invokes through `data.callArrayCallback`.  The `CallableValue` branch (no type implements
that interface, see `callableImplementers`) only has to hand out the snapshot. -/
def loopOK (l : Loop) : Bool :=
  if l.branch == "CallableValue" then l.handed == ["copy"]
  else l.branch == "*FuncValue" && l.over == ["copy"] && l.handed == ["copy"] && l.invoke == "helper"

def methodOK (m : Method) : Bool :=
  if callbackMethods.contains m.name then
    !m.byPointer && layoutOf m == some .fresh && m.loops.any (·.branch == "*FuncValue") && m.loops.all loopOK
      && m.returned.all (fun r => r == "fresh" || r == "copy")
  else if mutatorMethods.contains m.name then
    m.loops.isEmpty && (layoutOf m).isSome && m.returned.all (· == "fresh")
  else if plainMethods.contains m.name then
    !m.byPointer && m.loops.isEmpty && layoutOf m == some .fresh
      && m.returned.all (fun r => r == "fresh" || r == "copy" || r == "call:flattenArray")
  else false

/-- everything the theorems need from the source, as one decidable statement -/
def StorageOK (ms : List Method) (helperFresh helperDeclared helperNil : Bool) (impl shape : List String) : Bool :=
  ms.all methodOK
    && ms.map (·.name) == ["concat", "every", "filter", "find", "findIndex", "flat", "flatMap", "forEach", "includes",
        "indexOf", "join", "map", "pop", "push", "reduce", "reverse", "shift", "slice", "some", "sort", "splice", "unshift"]
    && helperFresh && helperDeclared && helperNil && impl.isEmpty && shape.isEmpty

theorem callback_fresh_of_ok (ms : List Method) (a b c : Bool) (impl shape : List String)
    (h : StorageOK ms a b c impl shape = true) :
    ∀ m ∈ ms, callbackMethods.contains m.name = true →
      layoutOf m = some .fresh ∧ m.loops.all loopOK = true := by
  intro m hm hc
  simp only [StorageOK, Bool.and_eq_true, List.all_eq_true] at h
  have := h.1.1.1.1.1.1 m hm
  simp only [methodOK, hc, if_true, Bool.and_eq_true, beq_iff_eq] at this
  exact ⟨this.1.1.1.2, this.1.2⟩

end Proofs.MethStoreObl
