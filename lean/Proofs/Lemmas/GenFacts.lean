import Model.GenFacts
/-!
# Lemmas for `Model.GenFacts`

For each group of regenerated facts: the machine selected by a well-formed fact is the corresponding piece of
`Model.Gen` (generic, for every table / every history), and a realistic ill-formed fact selects a machine
that departs from it.
-/
namespace Proofs.GenFacts
open Model.Gen Model.GenFacts

/-! ## A. per-instantiation tables -/

structure TInv (c : Class) (h : Heap) (gs : List GMap) : Prop where
  maps : h.objs.map (·.gmap) = gs
  lt : ∀ o ∈ h.objs, o.cell < h.next
  empty : ∀ k, h.next ≤ k → ∀ p, h.cells k p = none
  sound : ∀ o ∈ h.objs, ∀ p t, h.cells o.cell p = some t → getProperty c o.gmap p = some t
  sep : ∀ o₁ ∈ h.objs, ∀ o₂ ∈ h.objs, o₁.cell = o₂.cell → o₁.gmap = o₂.gmap

theorem tinv_init (c : Class) : TInv c tinit [GMap.empty] := by
  refine ⟨rfl, ?_, ?_, ?_, ?_⟩
  · intro o ho; simp [tinit] at ho; subst ho; simp [tinit]
  · intro k _ p; rfl
  · intro o _ p t h; simp [tinit] at h
  · intro o₁ h₁ o₂ h₂ _; simp [tinit] at h₁ h₂; subst h₁; subst h₂; rfl

theorem tinv_clone {c : Class} {h : Heap} {gs : List GMap} (memo : Bool) (inv : TInv c h gs) (g : GMap) :
    TInv c (tstep false memo c h (.clone g)).1 (gs ++ [g]) := by
  simp only [tstep, Bool.false_eq_true, if_false]
  refine ⟨?_, ?_, ?_, ?_, ?_⟩
  · simp [inv.maps]
  · intro o ho
    simp only [List.mem_append, List.mem_singleton] at ho
    rcases ho with ho | ho
    · have := inv.lt o ho; show o.cell < h.next + 1; omega
    · subst ho; show h.next < h.next + 1; omega
  · intro k hk p
    exact inv.empty k (by show h.next ≤ k; have : h.next + 1 ≤ k := hk; omega) p
  · intro o ho p t hc
    simp only [List.mem_append, List.mem_singleton] at ho
    rcases ho with ho | ho
    · exact inv.sound o ho p t hc
    · subst ho
      have : h.cells h.next p = none := inv.empty h.next (Nat.le_refl _) p
      rw [this] at hc; cases hc
  · intro o₁ h₁ o₂ h₂ he
    simp only [List.mem_append, List.mem_singleton] at h₁ h₂
    rcases h₁ with h₁ | h₁ <;> rcases h₂ with h₂ | h₂
    · exact inv.sep o₁ h₁ o₂ h₂ he
    · subst h₂; have := inv.lt o₁ h₁; simp at he; omega
    · subst h₁; have := inv.lt o₂ h₂; simp at he; omega
    · subst h₁; subst h₂; rfl

theorem tstep_lookup {c : Class} {h : Heap} {gs : List GMap} (memo : Bool) (inv : TInv c h gs) (i p : Nat) :
    TInv c (tstep false memo c h (.lookup i p)).1 gs ∧
      (tstep false memo c h (.lookup i p)).2 = (gs[i]?).map (fun g => getProperty c g p) := by
  have hg : gs[i]? = (h.objs[i]?).map (·.gmap) := by rw [← inv.maps, List.getElem?_map]
  simp only [tstep]
  cases ho : h.objs[i]? with
  | none => simp [hg, ho, inv]
  | some o =>
    have hmem : o ∈ h.objs := List.mem_of_getElem? ho
    simp only [hg, ho, Option.map_some]
    cases memo with
    | false => simp [inv]
    | true =>
      simp only [if_true]
      cases hc : h.cells o.cell p with
      | some t => simp [inv, inv.sound o hmem p t hc]
      | none =>
        cases hp : getProperty c o.gmap p with
        | none => simp [inv]
        | some t =>
          simp only []
          refine ⟨⟨inv.maps, inv.lt, ?_, ?_, inv.sep⟩, trivial⟩
          · intro k hk q
            have := inv.lt o hmem
            have hk' : h.next ≤ k := hk
            have hne : ¬ (k = o.cell ∧ q = p) := by intro ⟨e, _⟩; omega
            show (if k = o.cell ∧ q = p then some t else h.cells k q) = none
            simp only [hne, if_false]
            exact inv.empty k hk q
          · intro o' ho' q t' hc'
            have hc'' : (if o'.cell = o.cell ∧ q = p then some t else h.cells o'.cell q) = some t' := hc'
            by_cases he : o'.cell = o.cell ∧ q = p
            · simp only [he, and_self, if_true] at hc''
              have := inv.sep o' ho' o hmem he.1
              rw [this, he.2, hp, ← hc'']
            · simp only [he, if_false] at hc''
              exact inv.sound o' ho' q t' hc''

theorem trun_sim {c : Class} (memo : Bool) (ops : List TOp) : ∀ {h : Heap} {gs : List GMap}, TInv c h gs →
    (trun false memo c h ops).2 = tspec c gs ops := by
  induction ops with
  | nil => intro h gs _; rfl
  | cons o os ih =>
    intro h gs inv
    cases o with
    | clone g =>
      have := ih (tinv_clone memo inv g)
      simp only [trun, tspec]
      rw [← this]
      simp [tstep]
    | lookup i p =>
      obtain ⟨inv', ha⟩ := tstep_lookup memo inv i p
      have := ih inv'
      simp only [trun, tspec]
      rw [← this, ← ha]

/-- **Generic.** Whatever tables the class objects memoise in: when `Clone` does not let the new object
start with the receiver's table, every lookup on every class object, after any sequence of instantiations
and lookups, is `Model.Gen.getProperty` with that object's own type-argument map. -/
theorem trunOf_eq_spec (fs : List Field) (h : sharedAux fs = false) (c : Class) (ops : List TOp) :
    trunOf fs c ops = tspec c [GMap.empty] ops := by
  unfold trunOf
  rw [h]
  exact trun_sim _ ops (tinv_init c)

/-! ### `Clone` keyed memo -/

theorem cloneRun_inj {K : Type} [DecidableEq K] (key : List Ty → K) (hinj : ∀ a b, key a = key b → a = b)
    (reqs : List (List Ty)) : ∀ (tbl : List (K × List Ty)), (∀ e ∈ tbl, e.1 = key e.2) →
      cloneRun key tbl reqs = reqs := by
  induction reqs with
  | nil => intro _ _; rfl
  | cons a as ih =>
    intro tbl htbl
    simp only [cloneRun, cloneVia]
    cases hf : tbl.find? (fun e => e.1 = key a) with
    | some e =>
      have hm := List.mem_of_find?_eq_some hf
      have hk := List.find?_some hf
      simp only [decide_eq_true_eq] at hk
      have : e.2 = a := hinj _ _ (by rw [← htbl e hm, hk])
      simp only [this, ih tbl htbl]
    | none =>
      simp only
      rw [ih]
      intro e he
      simp only [List.mem_cons] at he
      rcases he with he | he
      · subst he; rfl
      · exact htbl e he

/-! ## C. nodes -/

theorem execNode_ok {α : Type} (r : Resolver) (hr : r.ok = true) (raw spec : α) (cache : Option α)
    (hc : r.cacheRead = true → (cache = none ∨ cache = some spec)) :
    (execNode r raw spec cache).1 = spec ∧
      (r.cacheRead = true → ((execNode r raw spec cache).2 = none ∨ (execNode r raw spec cache).2 = some spec)) := by
  unfold execNode
  unfold Resolver.ok at hr
  cases hcr : r.cacheRead
  · simp
  · rcases hc hcr with hc | hc <;> subst hc <;> cases hst : r.stored <;> simp_all

theorem nodeRuns_ok {α : Type} (r : Resolver) (hr : r.ok = true) (raw spec : α) (n : Nat) :
    ∀ (cache : Option α), (r.cacheRead = true → (cache = none ∨ cache = some spec)) →
      ∀ x ∈ nodeRuns r raw spec n cache, x = spec := by
  induction n with
  | zero => intro _ _ x hx; simp [nodeRuns] at hx
  | succ n ih =>
    intro cache hc x hx
    obtain ⟨h1, h2⟩ := execNode_ok r hr raw spec cache hc
    simp only [nodeRuns, List.mem_cons] at hx
    rcases hx with hx | hx
    · rw [hx, h1]
    · exact ih _ h2 x hx

theorem nodeRuns_bad {α : Type} (r : Resolver) (hr : r.ok = false) (raw spec : α) :
    nodeRuns r raw spec 2 none = [spec, raw] := by
  unfold Resolver.ok at hr
  cases hcr : r.cacheRead <;> cases hst : r.stored <;> simp_all [nodeRuns, execNode]

/-- the discipline of the pinned code selects `Model.Gen.resolveAt` itself -/
theorem resolveAtR_eq (r : Resolver) (h1 : r.cacheRead = true) (h2 : r.stored = .returned) :
    resolveAtR r = resolveAt := by
  funext s site c args
  unfold resolveAtR resolveAt
  simp only [h1, h2, if_true]
  cases s.cache site with
  | some o => rfl
  | none => cases build s.classes c args <;> rfl

/-! ## E. sites -/

theorem all_of_set {l : List Conj} {f : Conj → Bool} {S : List Conj}
    (hsub : l.all (fun c => S.contains c) = true) (hsup : ∀ c ∈ S, l.contains c = true) :
    l.all f = S.all f := by
  rw [Bool.eq_iff_iff]
  simp only [List.all_eq_true]
  simp only [List.all_eq_true, List.contains_iff_mem] at hsub
  constructor
  · intro h c hc
    have := hsup c hc
    rw [List.contains_iff_mem] at this
    exact h c this
  · intro h c hc
    exact h c (hsub c hc)

theorem site_prop (s : Site) (hok : s.ok = true) (hk : s.kind = .prop)
    (own kept : Option Ty) (extra : Bool) (v : Val) :
    s.rejected own kept extra v = !(check own v) := by
  unfold Site.ok at hok
  simp only [hk, Bool.and_eq_true] at hok
  obtain ⟨⟨⟨⟨hrej, hsrc⟩, hnot⟩, hnn⟩, hall⟩ := hok
  unfold Site.rejected
  simp only [hrej, hsrc, if_true, Bool.true_and]
  have : s.conj.all (Conj.holds own v extra) = [Conj.typeNotNil, Conj.notIs].all (Conj.holds own v extra) := by
    apply all_of_set
    · rw [List.all_eq_true] at hall ⊢
      intro c hc
      have := hall c hc
      cases c <;> simp_all
    · intro c hc
      simp only [List.mem_cons, List.mem_nil_iff, or_false] at hc
      rcases hc with hc | hc <;> subst hc <;> assumption
  rw [this]
  cases own <;> simp [Conj.holds, check]

theorem site_param (s : Site) (hok : s.ok = true) (hk : s.kind = .param)
    (own kept : Option Ty) (extra : Bool) (v : Val) :
    s.rejected own kept extra v = (v != .null && !(check own v)) := by
  unfold Site.ok at hok
  simp only [hk, Bool.and_eq_true] at hok
  obtain ⟨⟨⟨⟨hrej, hsrc⟩, hnot⟩, hnn⟩, hnull, hall⟩ := hok
  unfold Site.rejected
  simp only [hrej, hsrc, if_true, Bool.true_and]
  have : s.conj.all (Conj.holds own v extra) =
      [Conj.typeNotNil, Conj.notIs, Conj.notNull].all (Conj.holds own v extra) := by
    apply all_of_set
    · rw [List.all_eq_true] at hall ⊢
      intro c hc
      have := hall c hc
      cases c <;> simp_all
    · intro c hc
      simp only [List.mem_cons, List.mem_nil_iff, or_false] at hc
      rcases hc with hc | hc | hc <;> subst hc <;> assumption
  rw [this]
  cases own <;> cases hv : (v != Val.null) <;> simp [Conj.holds, check, hv]

/-! ## D. names and the argument loop -/

theorem applyChain_nil {N : Type} (sem : NameStep → N → N) (a : N) : applyChain sem [] a = a := rfl

/-- comparison through a quotient map `q`: normalising the argument with `f` leaves acceptance unchanged
iff `f` keeps every name in its `q`-class -/
theorem commutes_iff_class {N Q : Type} (q : N → Q) (f : N → N) :
    (∀ a d, q (f a) = q d ↔ q a = q d) ↔ ∀ a, q (f a) = q a := by
  constructor
  · intro h a; exact (h a a).2 rfl
  · intro h a d; rw [h a]

/-- both sides normalised (`f` on the written argument, `g` on the class name of the value): acceptance is
equality of the written names iff the two normalisers agree and are injective -/
theorem commutes_iff_injective {N : Type} (f g : N → N) :
    (∀ a d, f a = g d ↔ a = d) ↔ ((∀ a, f a = g a) ∧ ∀ x y, g x = g y → x = y) := by
  constructor
  · intro h
    have hfg : ∀ a, f a = g a := fun a => (h a a).2 rfl
    exact ⟨hfg, fun x y e => (h x y).1 (by rw [hfg, e])⟩
  · intro ⟨hfg, hinj⟩ a d
    rw [hfg]
    exact ⟨hinj a d, fun e => by rw [e]⟩

theorem buildMapIx_id (args : List Ty) (ps : List Nat) : ∀ (i : Nat) (m : GMap),
    buildMapIx (fun k => k) args ps i m = buildMap ps (args.drop i) m := by
  induction ps with
  | nil => intro i m; simp [buildMapIx, buildMap]
  | cons p ps ih =>
    intro i m
    simp only [buildMapIx]
    cases h : args[i]? with
    | none =>
      have : args.drop i = [] := by
        rw [List.drop_eq_nil_iff]
        exact List.getElem?_eq_none_iff.mp h
      simp [this, buildMap]
    | some t =>
      have hlt : i < args.length := (List.getElem?_eq_some_iff.mp h).1
      have ht : args[i] = t := (List.getElem?_eq_some_iff.mp h).2
      have : args.drop i = t :: args.drop (i + 1) := by
        rw [← ht]; exact List.drop_eq_getElem_cons hlt
      simp only [this, buildMap]
      exact ih (i + 1) (m.set p t)

/-! ## F. binding loops -/

theorem bindEach_refused (args : List Arg) : (bindEach args).1 = args.any argRefused := by
  induction args with
  | nil => rfl
  | cons a as ih =>
    unfold bindEach
    cases h : argRefused a <;> simp [h, ih]

theorem bindEach_bound (args : List Arg) (h : (bindEach args).1 = false) :
    (bindEach args).2 = args.map (fun _ => true) := by
  induction args with
  | nil => rfl
  | cons a as ih =>
    unfold bindEach at h ⊢
    cases ha : argRefused a
    · simp only [ha, Bool.false_eq_true, if_false] at h ⊢
      simp [ih h]
    · simp [ha] at h

theorem bindLastGo_eq (ctl : Bool) (args : List Arg) :
    bindLastGo ctl args = (match args.getLast? with | none => ctl | some a => argRefused a) := by
  induction args generalizing ctl with
  | nil => rfl
  | cons a as ih =>
    unfold bindLastGo
    rw [ih]
    cases as with
    | nil => rfl
    | cons b bs =>
      rw [List.getLast?_cons_cons]
      cases h : (b :: bs).getLast? with
      | none => simp at h
      | some x => rfl

/-- a position the single-variable loop forgets: refused, not last, everything after it fine -/
def forgotten : List Arg := [(some .int, .string), (some .string, .string)]

theorem bindRun_right_iff (sh : LoopShape) :
    (∀ args, (bindRun sh args).1 = args.any argRefused) ↔ sh = .eachChecked := by
  constructor
  · intro h
    have := h forgotten
    cases sh
    · rfl
    all_goals (revert this; decide)
  · intro h args
    subst h
    exact bindEach_refused args

end Proofs.GenFacts
