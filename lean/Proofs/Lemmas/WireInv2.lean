import Proofs.Lemmas.WireInv
/-! `Good` holds of `loopF`/`loopG` at every fuel. -/
namespace Proofs.Wire
open Model.Wire Spec.Wire

theorem consF_cases {num : Nat} {v : V} {r : Except Err FT} :
    (consF num v r = .error .fuel → r = .error .fuel) ∧
    (∀ t, consF num v r = .ok t → ∃ fs, r = .ok fs ∧ t = FT.cons num v fs) := by
  cases r with
  | error e => exact ⟨by simp [consF], by intro t h; simp [consF] at h⟩
  | ok fs => exact ⟨by simp [consF], by intro t h; simp only [consF, Except.ok.injEq] at h; exact ⟨fs, rfl, h.symm⟩⟩

theorem consG_cases {num : Nat} {v : V} {r : Except Err (FT × Bytes)} :
    (consG num v r = .error .fuel → r = .error .fuel) ∧
    (∀ t rest, consG num v r = .ok (t, rest) → ∃ fs, r = .ok (fs, rest) ∧ t = FT.cons num v fs) := by
  cases r with
  | error e => exact ⟨by simp [consG], by intro t rest h; simp [consG] at h⟩
  | ok p =>
    obtain ⟨fs, r'⟩ := p
    refine ⟨by simp [consG], ?_⟩
    intro t rest h
    simp only [consG, Except.ok.injEq, Prod.mk.injEq] at h
    exact ⟨fs, by rw [h.2], h.1.symm⟩

theorem good_all (o : Opts) : ∀ f, Good o (loopF o f) (loopG o f) f := by
  intro f
  induction f with
  | zero =>
    exact {
      fF := by intro p d h; simp at h
      fG := by intro p g d h; simp at h
      lG := by intro p g d t r h; simp at h
      dF := by intro p d t h; simp at h
      dG := by intro p g d t r h; simp at h }
  | succ f ih =>
    have stepF : ∀ (data : Bytes) (d : Nat), data.length < f + 1 →
        loopF o (f + 1) data d ≠ .error .fuel ∧
        (∀ t, loopF o (f + 1) data d = .ok t → d ≤ o.max → d + nest t ≤ o.max) := by
      intro data d hlen
      cases data with
      | nil =>
        exact ⟨by simp [loopF], by
          intro t h hd; simp only [loopF, Except.ok.injEq] at h; rw [← h]; simp [nest]; exact hd⟩
      | cons b tl =>
        simp only [loopF]
        cases ht : consumeTag (b :: tl) with
        | none => exact ⟨by simp, by intro t h; simp at h⟩
        | some p =>
          obtain ⟨num, wt, data1⟩ := p
          have hl1 := consumeTag_lt ht
          simp only
          split
          · exact ⟨by simp, by intro t h; simp at h⟩
          · have hv := value_inv o _ _ f ih num wt data1 d (by simp at hl1 hlen; omega)
            cases hval : valueWith o (loopF o f) (loopG o f) num wt data1 d with
            | error e =>
              exact ⟨by simp only; intro h; injection h with h; exact hv.1 (by rw [hval, h]),
                by intro t h; simp at h⟩
            | ok p =>
              obtain ⟨v, rest⟩ := p
              have hr := hv.2 v rest hval
              have hrl : rest.length < f := by simp at hl1 hlen; omega
              simp only
              constructor
              · intro h
                exact ih.fF rest d hrl (consF_cases.1 h)
              · intro t h hd
                obtain ⟨fs, hfs, ht'⟩ := consF_cases.2 t h
                have h2 := ih.dF rest d fs hrl hfs hd
                rw [ht', nest_cons]
                rcases hr.2 with h1 | h1
                · rw [h1]; simp [Nat.max_def]; omega
                · simp [Nat.max_def]; split <;> omega
    have stepG : ∀ (data : Bytes) (g d : Nat), data.length < f + 1 →
        loopG o (f + 1) data g d ≠ .error .fuel ∧
        (∀ t r, loopG o (f + 1) data g d = .ok (t, r) → r.length < data.length) ∧
        (∀ t r, loopG o (f + 1) data g d = .ok (t, r) → d < o.max → d + 1 + nest t ≤ o.max) := by
      intro data g d hlen
      cases data with
      | nil =>
        exact ⟨by simp [loopG], by intro t r h; simp [loopG] at h, by intro t r h; simp [loopG] at h⟩
      | cons b tl =>
        simp only [loopG]
        cases ht : consumeTag (b :: tl) with
        | none => exact ⟨by simp, by intro t r h; simp at h, by intro t r h; simp at h⟩
        | some p =>
          obtain ⟨num, wt, data1⟩ := p
          have hl1 := consumeTag_lt ht
          simp only
          split
          · split
            · exact ⟨by simp, by intro t r h; simp at h, by intro t r h; simp at h⟩
            · refine ⟨by simp, ?_, ?_⟩
              · intro t r h
                simp only [Except.ok.injEq, Prod.mk.injEq] at h
                rw [← h.2]; exact hl1
              · intro t r h hd
                simp only [Except.ok.injEq, Prod.mk.injEq] at h
                rw [← h.1]; simp [nest]; omega
          · have hv := value_inv o _ _ f ih num wt data1 (d + 1) (by simp at hl1 hlen; omega)
            cases hval : valueWith o (loopF o f) (loopG o f) num wt data1 (d + 1) with
            | error e =>
              exact ⟨by simp only; intro h; injection h with h; exact hv.1 (by rw [hval, h]),
                by intro t r h; simp at h, by intro t r h; simp at h⟩
            | ok p =>
              obtain ⟨v, rest⟩ := p
              have hr := hv.2 v rest hval
              have hrl : rest.length < f := by simp at hl1 hlen; omega
              simp only
              refine ⟨?_, ?_, ?_⟩
              · intro h
                exact ih.fG rest g d hrl (consG_cases.1 h)
              · intro t r h
                obtain ⟨fs, hfs, _⟩ := consG_cases.2 t r h
                have := ih.lG rest g d fs r hrl hfs
                omega
              · intro t r h hd
                obtain ⟨fs, hfs, ht'⟩ := consG_cases.2 t r h
                have h2 := ih.dG rest g d fs r hrl hfs hd
                rw [ht', nest_cons]
                rcases hr.2 with h1 | h1
                · rw [h1]; simp [Nat.max_def]; omega
                · simp [Nat.max_def]; split <;> omega
    exact {
      fF := fun p d h => (stepF p d h).1
      fG := fun p g d h => (stepG p g d h).1
      lG := fun p g d t r h hr => (stepG p g d h).2.1 t r hr
      dF := fun p d t h hr hd => (stepF p d h).2 t hr hd
      dG := fun p g d t r h hr hd => (stepG p g d h).2.2 t r hr hd }

end Proofs.Wire
