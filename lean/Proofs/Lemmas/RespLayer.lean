import Proofs.Lemmas.Resp
import Spec.RespLayer
/-! C13 — lemmas for the layered response model. -/
namespace Proofs.RespLayer
open Model.Resp Model.RespLayer Spec.Resp Spec.RespLayer Proofs.Resp

theorem runLayers_eq (s : St) (ls : List Layer) : runLayers s ls = (events ls).foldl stepEv s := by
  induction ls generalizing s with
  | nil => rfl
  | cons l ls ih =>
    have hmap : ∀ (ops : List Op) (t : St), (ops.map Ev.op).foldl stepEv t = ops.foldl step t := by
      intro ops
      induction ops with
      | nil => intro t; rfl
      | cons o os iho => intro t; simpa [stepEv] using iho (step t o)
    simp only [runLayers, events, List.foldl_append, hmap, List.foldl_cons, List.foldl_nil]
    cases hc : l.calls <;> cases hm : l.commits <;> simp [stepEv, ih]

/-- the link between the writer state and what the reference tracks -/
structure Track (s : St) (pend : Option Nat) (done : Bool) : Prop where
  sent : s.headerSent = done
  set : done = false → s.statusSet = pend.isSome
  status : done = false → ∀ c, pend = some c → s.status = c

theorem track_init (e : Bool) : Track ({ wire := { enforce := e } } : St) none false :=
  ⟨rfl, fun _ => rfl, fun _ c h => by cases h⟩

theorem step_sent (s : St) (o : Op) : (step s o).headerSent = (s.headerSent || committing o) := by
  cases hs : s.headerSent <;> cases o <;>
    simp [step, committing, St.setStatus, St.setHeader, St.write, St.sendHeader, St.writeHeader, St.rawWrite, hs]
  all_goals (try split) <;> simp_all

theorem track_step (s : St) (pend : Option Nat) (done : Bool) (o : Op) (h : Track s pend done) :
    Track (step s o)
      (if done then pend else (match statusOf o with | some c => some c | none => pend))
      (done || committing o) := by
  obtain ⟨h1, h2, h3⟩ := h
  refine ⟨by rw [step_sent, h1], ?_, ?_⟩
  · intro hd
    have hd1 : done = false := by cases done <;> simp_all
    have hc : committing o = false := by cases done <;> simp_all
    subst hd1
    have h2 := h2 rfl
    cases o <;> simp_all [committing, step, statusOf, St.setStatus, St.setHeader]
  · intro hd c hp
    have hd1 : done = false := by cases done <;> simp_all
    have hc : committing o = false := by cases done <;> simp_all
    subst hd1
    have h3 := h3 rfl
    cases o <;> simp_all [committing, step, statusOf, St.setStatus, St.setHeader]

theorem finish_idem (s : St) : s.finish.finish = s.finish := by
  unfold St.finish
  by_cases h : (!s.headerSent && s.statusSet) = true
  · simp only [h, if_true]
    have : (s.writeHeader s.status).headerSent = true := by
      unfold St.writeHeader; split <;> simp_all
    simp [this]
  · simp [h]

/-- **simulation**: when every return commits what is pending, the layered run is the single-handler run
of the lowered operation list. -/
theorem lower_sim (evs : List Ev) (hall : ∀ b, Ev.ret b ∈ evs → b = true)
    (s : St) (pend : Option Nat) (done : Bool) (h : Track s pend done) :
    evs.foldl stepEv s = (lower pend done evs).foldl step s := by
  induction evs generalizing s pend done with
  | nil => rfl
  | cons ev r ih =>
    have hr : ∀ b, Ev.ret b ∈ r → b = true := fun b hb => hall b (List.mem_cons_of_mem _ hb)
    cases ev with
    | op o =>
      simp only [List.foldl_cons, lower, stepEv]
      exact ih hr _ _ _ (track_step s pend done o h)
    | ret b =>
      have hb : b = true := hall b List.mem_cons_self
      subst hb
      simp only [List.foldl_cons, stepEv, lower]
      obtain ⟨h1, h2, h3⟩ := h
      cases done with
      | true =>
        have : s.finish = s := by simp [St.finish, h1]
        simp only [this, if_true]
        exact ih hr s pend true ⟨h1, h2, h3⟩
      | false =>
        cases pend with
        | none =>
          have hs := h2 rfl
          have : s.finish = s := by simp [St.finish, hs]
          simp only [this]
          exact ih hr s none false ⟨h1, h2, h3⟩
        | some c =>
          have hs := h2 rfl
          have hst := h3 rfl c rfl
          have hf : s.finish = step s (.writeHeader c) := by
            simp [St.finish, h1, hs, step, hst]
          simp only [hf, Bool.false_eq_true, if_false, List.foldl_cons]
          refine ih hr _ (some c) true ⟨?_, fun hd => Bool.noConfusion hd, fun hd => Bool.noConfusion hd⟩
          rw [step_sent]; simp [committing]

theorem events_rets (ls : List Layer) (hall : ∀ l ∈ ls, l.commits = true) :
    ∀ b, Ev.ret b ∈ events ls → b = true := by
  induction ls with
  | nil => intro b hb; simp [events] at hb
  | cons l ls ih =>
    intro b hb
    have hl := hall l List.mem_cons_self
    have ih' := ih (fun x hx => hall x (List.mem_cons_of_mem _ hx))
    simp only [events, List.mem_append, List.mem_map, List.mem_singleton] at hb
    rcases hb with ((⟨_, _, h⟩ | h) | ⟨_, _, h⟩) | h
    · cases h
    · cases hc : l.calls
      · simp [hc] at h
      · simp only [hc, if_true] at h; exact ih' b h
    · cases h
    · cases h; exact hl

/-- the outermost layer commits on return, so nothing is pending afterwards -/
theorem serve_finish (e : Bool) (l : Layer) (ls : List Layer) (hl : l.commits = true) :
    (serveOn e (l :: ls)).finish = serveOn e (l :: ls) := by
  simp only [serveOn, runLayers, hl, if_true]
  exact finish_idem _

theorem stepEv_inv (s : St) (ev : Ev) (h : Inv s) : Inv (stepEv s ev) := by
  cases ev with
  | op o => exact inv_step _ _ h
  | ret b =>
    cases b with
    | false => exact h
    | true =>
      show Inv s.finish
      unfold St.finish; split
      · exact inv_writeHeader _ _ h
      · exact h

theorem foldl_stepEv_inv (evs : List Ev) (s : St) (h : Inv s) : Inv (evs.foldl stepEv s) := by
  induction evs generalizing s with
  | nil => simpa
  | cons ev r ih => exact ih _ (stepEv_inv _ _ h)

end Proofs.RespLayer
