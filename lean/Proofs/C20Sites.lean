import Model.Sites
import Model.Shared
/-!
# C20 — hand-written classification of the regenerated sites  (TRUSTED, by hand)

`Generated.C20MapRanges.sites` lists every `for … range <map>` of the packages in scope and
`Generated.C20PkgState.cells` every package-level variable written outside `init`; both are
regenerated from the source on every run. This file assigns

* to each map-range site an order-independence **pattern** — the generic theorem of
  `Proofs/Properties/C20.lean` that is meant to apply to the loop — together with the syntactic
  summary the classification was made for (a loop body that changes its summary has to be
  classified again);
* to each written package-level variable a **discipline** under which it cannot carry anything from
  one run into the next (`C20_no_residue`), or `leaks`.

That a loop really is an instance of its pattern (the accumulated operation commutes, the sort
key is total, at most one entry matches …) and that a cell really follows its discipline was
decided by reading the code; it is not proved. What is machine-checked (by `decide`, in the
property file) is that *every* regenerated site and cell is classified, with the summary it has
today, and that none is `firstMatch` / `leaks` unless listed as a known finding.
-/
namespace C20Sites
open Model.Sites

inductive Pattern
  | fold        -- commutative / associative accumulation (min, count, set flags): `Pattern_fold_perm`
  | keyedWrite  -- every entry writes a place named by its own key (another map, a slice index, a constant,
                --   a variable); keys are distinct, so the steps commute: `Pattern_keyed_write_perm`
  | sort        -- collect, then sort by a key that is total on the collected entries: `Pattern_sort_perm`
  | sortedKeys  -- iterates `slices.Sorted(maps.Keys(m))`: `Pattern_sort_perm` with the key itself
  | unique      -- selection / early exit with at most one matching entry: `Pattern_unique_perm`
  | allAny      -- conjunction / disjunction with early exit: `Pattern_all_perm`, `Pattern_any_perm`
  | outOfScope  -- not reached by a sequential script run (HTTP request, Go embedding API, PHPT runner)
                --   or random by contract
  | firstMatch  -- NEGATIVE: first of possibly several matches: `Pattern_first_match_depends`
  | leaks       -- NEGATIVE: the iteration order reaches the result: `Pattern_collect_depends`
deriving DecidableEq, Repr

/-- the patterns under which the loop's result does not depend on the iteration order -/
def Pattern.safe : Pattern → Bool
  | .firstMatch | .leaks => false
  | _ => true

/-- which summaries a pattern can be claimed for (a loop that appends without sorting or
concatenates strings cannot be claimed order independent) -/
def Pattern.admits : Pattern → Summary → Bool
  | .fold, s => s == .accumulate || s == .other || s == .empty
  | .keyedWrite, s => s == .writesMap || s == .other
  | .sort, s => s == .appendSorted
  | .sortedKeys, s => s == .sortedKeys
  | .unique, s => s == .other || s == .exitsEarly
  | .allAny, s => s == .exitsEarly
  | .outOfScope, _ => true
  | .firstMatch, _ => true
  | .leaks, _ => true

structure Entry where
  file : String
  fn : String
  expr : String
  ord : Nat
  summary : Summary
  pat : Pattern
  why : String

def table : List Entry := [
  ⟨"data/value_class.go", "ClassValue.GetProperties", "instanceProps", 0, .writesMap, .keyedWrite,
    "copies a Go map into a fresh Go map, one key each"⟩,
  ⟨"node/binary_eq_strict.go", "isStrictEqual", "props1", 0, .exitsEarly, .allAny,
    "=== on two string-keyed arrays: every key of one must be present and equal in the other; pure recursion"⟩,
  ⟨"node/class.go", "ClassStatement.GetMethods", "c.Methods", 0, .appendSorted, .sort,
    "sorted by method name; names are the map keys, hence distinct"⟩,
  ⟨"node/class_abstract_validate.go", "abstractMethodsDeclaredOnClass", "cs.StaticMethods", 0, .appendSorted, .sort,
    "names sorted before the message is formatted"⟩,
  ⟨"node/class_abstract_validate.go", "abstractMethodsDeclaredOnClass", "cg.StaticMethods", 0, .appendSorted, .sort,
    "names sorted before the message is formatted"⟩,
  ⟨"node/class_abstract_validate.go", "abstractStaticMethodNames", "static", 0, .appendSorted, .sort,
    "map keys, sorted"⟩,
  ⟨"node/globals_files_variable.go", "FilesVariable.GetValue", "httpReq.MultipartForm.File", 0, .other, .outOfScope,
    "$_FILES of an HTTP request (C11); no request in a sequential run"⟩,
  ⟨"node/globals_get_variable.go", "GetVariable.GetValue", "httpReq.URL.Query()", 0, .other, .outOfScope,
    "$_GET of an HTTP request (C11)"⟩,
  ⟨"node/globals_post_variable.go", "PostVariable.GetValue", "httpReq.Form", 0, .other, .outOfScope,
    "$_POST of an HTTP request (C11)"⟩,
  ⟨"node/globals_server_variable.go", "ServerVariable.GetValue", "httpReq.Header", 0, .other, .outOfScope,
    "HTTP_* entries of $_SERVER of an HTTP request (C11)"⟩,
  ⟨"node/html.go", "HtmlNode.generateHtml", "h.Attributes", 0, .other, .unique,
    "picks the attribute value of type *AttrForValue and the one of type *AttrIfValue; a node carries at most one `for` and one member of the if-family"⟩,
  ⟨"node/html.go", "HtmlNode.generateNormalHtml", "slices.Sorted(maps.Keys(h.Attributes))", 0, .sortedKeys, .sortedKeys, ""⟩,
  ⟨"node/html.go", "HtmlTemplateNode.GetValue", "h.HtmlNode.Attributes", 0, .other, .unique,
    "as generateHtml"⟩,
  ⟨"node/init_class.go", "InitClass.GetValue", "slices.Sorted(maps.Keys(n.KV))", 0, .sortedKeys, .sortedKeys, ""⟩,
  ⟨"node/js_server.go", "formatObjectValue", "slices.Sorted(maps.Keys(v))", 0, .sortedKeys, .sortedKeys, ""⟩,
  ⟨"node/js_server.go", "formatClassOrObjectValue", "slices.Sorted(maps.Keys(properties))", 0, .sortedKeys, .sortedKeys, ""⟩,
  ⟨"node/lambda.go", "LambdaExpression.Call", "f.parent", 0, .other, .keyedWrite,
    "use-list of a closure: child slot ↦ parent slot; every entry fills its own slot of the fresh context from the defining context, which the loop does not modify"⟩,
  ⟨"parser/class_parser.go", "ClassParser.mergeTraitsIntoMaps", "cs.StaticMethods", 0, .writesMap, .keyedWrite,
    "trait static methods copied under their own names when absent"⟩,
  ⟨"parser/class_parser.go", "ClassParser.mergeTraits", "cs.StaticMethods", 0, .writesMap, .keyedWrite,
    "trait static methods copied under their own names when absent"⟩,
  ⟨"parser/new_parser.go", "NewStructParser.parseAnonymousClass", "staticProperties", 0, .exitsEarly, .leaks,
    "static initialisers of an anonymous class run in map order (side effects; which failing initialiser is reported) — fixes/C20-anon-class-static-order"⟩,
  ⟨"parser/scope_manager.go", "DefaultScope.GetVariables", "s.variables", 0, .other, .keyedWrite,
    "variables[v.GetIndex()] = v; indices are allocated once per name"⟩,
  ⟨"runtime/reflect_class.go", "ReflectClass.GetPropertyList", "rc.properties", 0, .appendSorted, .sort, "sorted by name (map key)"⟩,
  ⟨"runtime/reflect_class.go", "ReflectClass.GetMethods", "rc.methods", 0, .appendSorted, .sort, "sorted by name (map key)"⟩,
  ⟨"runtime/reflect_register.go", "VM.RegisterReflectFunctions", "functions", 0, .other, .outOfScope,
    "Go embedding API, not callable from a script; registers each function under its own name"⟩,
  ⟨"runtime/vm.go", "VM.findClassCaseInsensitive", "vm.classMap", 0, .other, .fold,
    "minimum by name over the EqualFold matches: min is commutative and associative"⟩,
  ⟨"runtime/vm.go", "VM.AllFuncs", "vm.funcMap", 0, .appendSorted, .sort, "sorted by name (map key)"⟩,
  ⟨"runtime/vm.go", "VM.AllClasses", "vm.classMap", 0, .appendSorted, .sort, "sorted by name (map key)"⟩,
  ⟨"runtime/vm.go", "bindTemplateVariables", "props", 0, .other, .keyedWrite,
    "each property sets the variable(s) of its own name"⟩,
  ⟨"runtime/vm_temp.go", "TempVM.AddedClasses", "vm.addedClasses", 0, .appendSorted, .sort, "sorted by name (map key)"⟩,
  ⟨"std/php/array/array_diff_ukey.go", "ArrayDiffUkeyFunction.Call", "allOtherKeys", 0, .exitsEarly, .allAny,
    "∃ other key the callback reports equal; order independent for a callback without side effects (the calls themselves happen in map order)"⟩,
  ⟨"std/php/array/array_diff_ukey.go", "ArrayDiffUkeyFunction.Call", "allOtherKeys", 1, .exitsEarly, .allAny,
    "as above"⟩,
  ⟨"std/php/array/array_intersect.go", "ArrayIntersectFunction.Call", "props", 0, .writesMap, .keyedWrite, "builds a set"⟩,
  ⟨"std/php/array/array_rand.go", "ArrayRandFunction.Call", "props", 0, .appendUnsorted, .outOfScope,
    "array_rand is random by contract"⟩,
  ⟨"std/php/array/krsort.go", "KrsortFunction.Call", "props", 0, .appendSorted, .sort, "keys, sorted"⟩,
  ⟨"std/php/array/ksort.go", "KsortFunction.Call", "props", 0, .appendSorted, .sort, "keys, sorted"⟩,
  ⟨"std/php/core/dom.go", "buildDOMNode", "slices.Sorted(maps.Keys(n.attrs))", 0, .sortedKeys, .sortedKeys, ""⟩,
  ⟨"std/php/core/ini_defaults.go", "InitIniDefaults", "iniDefaults", 0, .other, .keyedWrite,
    "stores each default under its own key when absent"⟩,
  ⟨"std/php/core/ini_defaults.go", "ApplyIniMap", "values", 0, .other, .outOfScope,
    "PHPT runner API (keys are lower-cased first, so two spellings of one key would collide)"⟩,
  ⟨"std/php/core/strtr.go", "StrtrFunction.Call", "v.GetProperties()", 0, .writesMap, .keyedWrite, "copies into a Go map"⟩,
  ⟨"std/php/core/strtr.go", "StrtrFunction.Call", "pairs", 0, .appendSorted, .sort,
    "keys sorted by length only; two keys that match at one position of the subject are prefixes of one another, hence of different length, so strings.NewReplacer (first argument wins per position) never sees a tie"⟩,
  ⟨"std/php/json_decode.go", "convertGoValue", "slices.Sorted(maps.Keys(val))", 0, .sortedKeys, .sortedKeys, ""⟩,
  ⟨"std/php/tokenizer.go", "InitTokenConstants", "consts", 0, .other, .keyedWrite, "SetConstant(name, …) per name"⟩,
  ⟨"std/protowire/helpers.go", "objectValueFromMap", "slices.Sorted(maps.Keys(m))", 0, .sortedKeys, .sortedKeys, ""⟩,
  ⟨"std/protowire/load.go", "Load", "constants", 0, .other, .keyedWrite, "SetConstant(name, …) per name"⟩,
  ⟨"std/serializer/json/json_serializer.go", "JsonSerializer.UnmarshalObject", "slices.Sorted(maps.Keys(m))", 0, .sortedKeys, .sortedKeys, ""⟩,
  ⟨"std/serializer/json/json_serializer.go", "JsonSerializer.UnmarshalClass", "slices.Sorted(maps.Keys(props))", 0, .sortedKeys, .sortedKeys, ""⟩
]

/-- map-range sites listed as known findings (`props/C20.json`, status `known`): none at present —
every order leak found in scope has a fix -/
def KnownSites : List (String × String × String × Nat) := []

/-! ## package-level state -/

inductive Discipline
  | resetBeforeRead  -- every run writes it before reading it (VM construction, `LoadAndRun`)
  | restoredAtEnd    -- a run that changes it puts the initial value back before it ends
  | lockOnly         -- mutex / once: no program-visible data
  | pureUse          -- pointer-receiver method that does not change the value (regexp matching)
  | memo             -- filled once with a value that does not depend on who fills it (token tables, parser routes)
  | deadWrite        -- the write cannot be reached from a script (observed, see `why`)
  | outOfScope       -- only written by library code the programs of the statement do not use (HTTP request
                     --   handling, annotation scanners, DI container, database, PHPT runner, compile tool)
  | leaks            -- NEGATIVE: survives into the next VM of the process and is read there
deriving DecidableEq, Repr

def Discipline.safe : Discipline → Bool
  | .leaks => false
  | _ => true

structure CellEntry where
  pkg : String
  name : String
  disc : Discipline
  why : String

def cells : List CellEntry := [
  ⟨"data", "CompileMode", .outOfScope, "set by the compile subcommand only"⟩,
  ⟨"data", "FlushAllBuffersFn", .resetBeforeRead, "php.Load assigns core.FlushAllBuffers on every VM construction"⟩,
  ⟨"data", "WriteOutput", .restoredAtEnd, "switched by ob_start / ob_get_clean; FlushAllBuffers at the end of LoadAndRun restores the default writer"⟩,
  ⟨"data", "userOutputEmitted", .resetBeforeRead, "LoadAndRun calls ResetUserOutput before parsing"⟩,
  ⟨"node", "CheckExecutionTimeLimit", .resetBeforeRead, "php.Load assigns the same closure on every VM construction"⟩,
  ⟨"node", "MarkHeaderOutputStarted", .resetBeforeRead, "php.Load"⟩,
  ⟨"node", "argcValue", .leaks, "cache of $argc, assignable from the script, never reset"⟩,
  ⟨"node", "argvValue", .leaks, "cache of $argv, assignable from the script, never reset"⟩,
  ⟨"node", "cookieValue", .leaks, "superglobal cache; ResetSuperglobals is only called per HTTP request"⟩,
  ⟨"node", "envValue", .leaks, "superglobal cache ($_ENV)"⟩,
  ⟨"node", "filesValue", .leaks, "superglobal cache"⟩,
  ⟨"node", "getValue", .leaks, "superglobal cache ($_GET)"⟩,
  ⟨"node", "globalsValue", .leaks, "superglobal cache ($GLOBALS)"⟩,
  ⟨"node", "includeOnceCache", .leaks, "return values of included files, keyed by path, shared by all VMs: a file included by one VM is not run by the next"⟩,
  ⟨"node", "postValue", .leaks, "superglobal cache"⟩,
  ⟨"node", "requestValue", .leaks, "superglobal cache"⟩,
  ⟨"node", "serverValue", .leaks, "superglobal cache ($_SERVER)"⟩,
  ⟨"node", "sessionValue", .leaks, "superglobal cache"⟩,
  ⟨"parser", "autoload", .leaks, "spl_autoload_register appends to a process-wide list"⟩,
  ⟨"parser", "globalScopeFactory", .outOfScope, "SetGlobalScopeFactory: tooling hook (LSP), not callable from a script"⟩,
  ⟨"parser", "parserRouter", .memo, "AddParse registers statement parsers at start-up; same table whoever builds it"⟩,
  ⟨"parser", "reBladeEnd", .pureUse, "regexp matching"⟩,
  ⟨"parser", "reElseColon", .pureUse, "regexp matching"⟩,
  ⟨"parser", "reEndfor", .pureUse, "regexp matching"⟩,
  ⟨"parser", "reEndforeach", .pureUse, "regexp matching"⟩,
  ⟨"parser", "reEndif", .pureUse, "regexp matching"⟩,
  ⟨"parser", "reEndswitch", .pureUse, "regexp matching"⟩,
  ⟨"parser", "reEndwhile", .pureUse, "regexp matching"⟩,
  ⟨"process", "os.Chdir", .leaks, "chdir(): working directory of the process"⟩,
  ⟨"process", "os.Setenv", .leaks, "putenv() / $_SERVER writes / cli_set_process_title: environment of the process"⟩,
  ⟨"runtime", "RunHeaderCallbacksFn", .resetBeforeRead, "php.Load"⟩,
  ⟨"runtime", "shutdownSignalOnce", .lockOnly, "sync.Once around installing the signal handler"⟩,
  ⟨"std/cli/annotation", "cliScanningDirs", .outOfScope, "annotation scanner of CLI applications"⟩,
  ⟨"std/cli/annotation", "registeredCliExitClasses", .outOfScope, "annotation scanner of CLI applications"⟩,
  ⟨"std/cli/annotation", "registeredCommands", .outOfScope, "annotation scanner of CLI applications"⟩,
  ⟨"std/container", "defaultEngine", .outOfScope, "DI container"⟩,
  ⟨"std/container", "defaultInstance", .outOfScope, "DI container"⟩,
  ⟨"std/container", "defaultOnce", .outOfScope, "DI container"⟩,
  ⟨"std/container", "metaByVM", .outOfScope, "DI container (keyed by the VM's address)"⟩,
  ⟨"std/container", "metaMu", .lockOnly, "mutex"⟩,
  ⟨"std/container", "registeringEngine", .outOfScope, "DI container"⟩,
  ⟨"std/container", "registeringMu", .lockOnly, "mutex"⟩,
  ⟨"std/database", "globalManager", .outOfScope, "database connections"⟩,
  ⟨"std/database", "once", .lockOnly, "sync.Once"⟩,
  ⟨"std/net/annotation", "ControllerInstantiator", .outOfScope, "HTTP annotation scanner"⟩,
  ⟨"std/net/annotation", "OnApplicationScanStart", .outOfScope, "HTTP annotation scanner"⟩,
  ⟨"std/net/annotation", "controllerMiddlewares", .outOfScope, "HTTP annotation scanner"⟩,
  ⟨"std/net/annotation", "pendingControllers", .outOfScope, "HTTP annotation scanner"⟩,
  ⟨"std/net/annotation", "pendingRoutes", .outOfScope, "HTTP annotation scanner"⟩,
  ⟨"std/net/annotation", "registeredExitClasses", .outOfScope, "HTTP annotation scanner"⟩,
  ⟨"std/net/annotation", "scanningDirs", .outOfScope, "HTTP annotation scanner"⟩,
  ⟨"std/net/http", "requestAttrBags", .outOfScope, "per-request attributes (C11)"⟩,
  ⟨"std/net/http", "requestFormatterSlots", .outOfScope, "per-request attributes (C11)"⟩,
  ⟨"std/php", "errorReportingLevel", .deadWrite, "error_reporting declares no parameter, so its argument is never bound and the assignment is not reached: error_reporting(0) leaves the level at E_ALL (probed on every run as a clean channel)"⟩,
  ⟨"std/php", "phpPositionalRe", .pureUse, "regexp matching"⟩,
  ⟨"std/php", "stringSpecRe", .pureUse, "regexp matching"⟩,
  ⟨"std/php", "varDumpObjIDs", .leaks, "object handle numbers of var_dump, keyed by address, process-wide"⟩,
  ⟨"std/php", "varDumpObjMu", .lockOnly, "mutex"⟩,
  ⟨"std/php", "varDumpObjNext", .leaks, "next object handle number of var_dump"⟩,
  ⟨"std/php/core", "executionDeadline", .leaks, "set_time_limit: the deadline stays armed for later VMs"⟩,
  ⟨"std/php/core", "executionLimitSec", .leaks, "set_time_limit"⟩,
  ⟨"std/php/core", "headerCallbacks", .restoredAtEnd, "RunHeaderCallbacks (from RunShutdownCallbacks) runs and clears the list at the end of the run that registered them"⟩,
  ⟨"std/php/core", "headerOutputStarted", .leaks, "set by the first echo of the process and never cleared: header_register_callback is ignored by every later VM"⟩,
  ⟨"std/php/core", "iniStore", .leaks, "ini_set stores process-wide; InitIniDefaults only fills absent keys"⟩,
  ⟨"std/php/core", "obStack", .restoredAtEnd, "FlushAllBuffers at the end of LoadAndRun empties the stack"⟩,
  ⟨"std/php/core", "phptInputBody", .outOfScope, "php://input of the PHPT runner"⟩,
  ⟨"std/php/core", "phptInputMu", .lockOnly, "mutex"⟩,
  ⟨"std/php/core", "timeLimitMu", .lockOnly, "mutex"⟩,
  ⟨"std/php/stream", "nextStreamContextID", .leaks, "resource ids of stream_context_create continue across VMs"⟩,
  ⟨"token", "TokenDefinitions", .memo, "token table built once (sync.Once)"⟩,
  ⟨"token", "initTokenDefinitions", .memo, "token table built once"⟩,
  ⟨"token", "once", .lockOnly, "sync.Once"⟩,
  ⟨"token", "tree", .memo, "token table built once"⟩
]

/-- package-level state listed as known findings (`props/C20.json`, status `known`); the second
component of each group is the signature under which the harness confirms it on every run -/
def KnownCells : List (String × String) := [
  -- residue:cell:std/php/core.iniStore
  ("std/php/core", "iniStore"),
  -- residue:cell:node.includeOnceCache
  ("node", "includeOnceCache"),
  -- residue:cell:node.superglobals
  ("node", "cookieValue"), ("node", "envValue"), ("node", "filesValue"), ("node", "getValue"), ("node", "globalsValue"),
  ("node", "postValue"), ("node", "requestValue"), ("node", "serverValue"), ("node", "sessionValue"),
  -- residue:cell:node.argvValue
  ("node", "argcValue"), ("node", "argvValue"),
  -- residue:cell:std/php.varDumpObjIDs
  ("std/php", "varDumpObjIDs"), ("std/php", "varDumpObjNext"),
  -- residue:cell:std/php/stream.nextStreamContextID
  ("std/php/stream", "nextStreamContextID"),
  -- residue:cell:std/php/core.headerOutputStarted
  ("std/php/core", "headerOutputStarted"),
  -- residue:cell:parser.autoload
  ("parser", "autoload"),
  -- residue:cell:process.os.Setenv
  ("process", "os.Setenv"), ("process", "os.Chdir"),
  -- residue:cell:std/php/core.executionDeadline
  ("std/php/core", "executionDeadline"), ("std/php/core", "executionLimitSec")
]

/-! ## the decidable obligations -/

def findSite (tbl : List Entry) (s : RangeSite) : Option Entry :=
  tbl.find? (fun e => e.file == s.file && e.fn == s.fn && e.expr == s.expr && e.ord == s.ord)

/-- a regenerated site is in order: classified, for the summary it has today, with a pattern that
admits that summary, and safe unless listed known -/
def siteOK (tbl : List Entry) (known : List (String × String × String × Nat)) (s : RangeSite) : Bool :=
  match findSite tbl s with
  | none => false
  | some e => e.summary == s.summary && e.pat.admits s.summary &&
      (e.pat.safe || known.contains (s.file, s.fn, s.expr, s.ord))

/-- the sites that are not in order (shown by the failing `decide`) -/
def badSites (tbl : List Entry) (known : List (String × String × String × Nat)) (sites : List RangeSite) : List RangeSite :=
  sites.filter (fun s => !siteOK tbl known s)

def findCell (tbl : List CellEntry) (c : StateCell) : Option CellEntry :=
  tbl.find? (fun e => e.pkg == c.pkg && e.name == c.name)

def cellOK (tbl : List CellEntry) (known : List (String × String)) (c : StateCell) : Bool :=
  match findCell tbl c with
  | none => false
  | some e => e.disc.safe || known.contains (c.pkg, c.name)

def badCells (tbl : List CellEntry) (known : List (String × String)) (cs : List StateCell) : List StateCell :=
  cs.filter (fun c => !cellOK tbl known c)

/-! ## resets that are executed on every run

`Generated.C20Resets.uses` lists, for every package-level variable that some function sets to a
constant, every place that touches it, with the conditions under which that place is executed
inside its function (`conds`, `guards`), and `Generated.C20Resets.entry` the calls of the functions
a run of the command-line interpreter goes through around the script's own code. The tables below
say, for every cell whose discipline is `resetBeforeRead` or `restoredAtEnd`, **which place keeps
it clean** — it must exist, lie directly in the body of its function (`conds` exactly as listed,
normally none) and be preceded by no other way out of the function than the listed `guards`, each of
which is argued in `why`. A reset that is deleted, moved under a condition, or moved behind a new
early return no longer meets its entry and the obligation fails. -/

structure ResetSpec where
  pkg : String          -- the cell whose discipline rests on this place
  name : String
  usePkg : String       -- the variable touched there: the cell itself, or the hook variable through which
  useName : String      --   its restore function is called
  touch : Touch
  via : String
  file : String
  fn : String
  conds : List String
  guards : List String
  why : String

def resetSpecs : List ResetSpec := [
  ⟨"data", "userOutputEmitted", "data", "userOutputEmitted", .resets, "ResetUserOutput", "runtime/vm.go", "VM.LoadAndRun", [],
    ["if vm.GetPhpFileCache(file)"],
    "first statement after the include-cache test; the cache of a VM that has not run anything is empty, so the entry script of a fresh VM always passes it"⟩,
  ⟨"data", "FlushAllBuffersFn", "data", "FlushAllBuffersFn", .sets, "", "std/php/load.go", "Load", [], [],
    "php.Load stores core.FlushAllBuffers on every VM construction"⟩,
  ⟨"node", "CheckExecutionTimeLimit", "node", "CheckExecutionTimeLimit", .sets, "", "std/php/load.go", "Load", [], [],
    "php.Load stores a closure that captures nothing"⟩,
  ⟨"node", "MarkHeaderOutputStarted", "node", "MarkHeaderOutputStarted", .sets, "", "std/php/load.go", "Load", [], [],
    "php.Load stores core.MarkHeaderOutputStarted"⟩,
  ⟨"runtime", "RunHeaderCallbacksFn", "runtime", "RunHeaderCallbacksFn", .sets, "", "std/php/load.go", "Load", [], [],
    "php.Load stores core.RunHeaderCallbacks"⟩,
  -- restored at the end of the run: the restore function is reached through a hook variable
  ⟨"data", "WriteOutput", "data", "FlushAllBuffersFn", .reads, "", "runtime/vm.go", "VM.LoadAndRun", ["if data.FlushAllBuffersFn != nil"],
    ["if vm.GetPhpFileCache(file)", "if acl != nil"],
    "core.FlushAllBuffers (stored in the hook by php.Load, see its own entry) empties the buffer stack and puts the default writer back; skipped only when the file was not run at all (already loaded / does not parse)"⟩,
  ⟨"data", "WriteOutput", "data", "FlushAllBuffersFn", .reads, "", "runtime/vm.go", "NewVM", ["func literal", "if data.FlushAllBuffersFn != nil"], [],
    "the default throw control flushes before it reports the uncaught throw and ends the process"⟩,
  ⟨"std/php/core", "obStack", "data", "FlushAllBuffersFn", .reads, "", "runtime/vm.go", "VM.LoadAndRun", ["if data.FlushAllBuffersFn != nil"],
    ["if vm.GetPhpFileCache(file)", "if acl != nil"], "as data.WriteOutput"⟩,
  ⟨"std/php/core", "headerCallbacks", "runtime", "RunHeaderCallbacksFn", .reads, "", "runtime/shutdown_hooks.go", "runHeaderCallbacks", ["if RunHeaderCallbacksFn != nil"], [],
    "core.RunHeaderCallbacks runs and clears the list; runHeaderCallbacks is called by VM.RunShutdownCallbacks (entry path below)"⟩,
  ⟨"std/php/core", "headerCallbacks", "std/php/core", "headerCallbacks", .resets, "", "std/php/core/header_register_callback.go", "RunHeaderCallbacks", [], [],
    "headerCallbacks = nil after the loop, no way out before it"⟩
]

def resetPerRun (d : Discipline) : Bool := d == .resetBeforeRead || d == .restoredAtEnd

def specMet (uses : List CellUse) (s : ResetSpec) : Bool :=
  uses.any (fun u => u.pkg == s.usePkg && u.name == s.useName && u.touch == s.touch && u.via == s.via &&
    u.file == s.file && u.fn == s.fn && u.conds == s.conds && u.guards.all (fun g => s.guards.contains g))

/-- what is not in order: a spec no regenerated place meets, or a reset-per-run cell without a spec -/
def badResets (tbl : List CellEntry) (specs : List ResetSpec) (uses : List CellUse) : List String :=
  ((specs.filter (fun s => !specMet uses s)).map
    (fun s => s!"reset of {s.pkg}.{s.name} is no longer executed unconditionally in {s.file} {s.fn} (place: {s.usePkg}.{s.useName} via '{s.via}')")) ++
  ((tbl.filter (fun e => resetPerRun e.disc && !specs.any (fun s => s.pkg == e.pkg && s.name == e.name))).map
    (fun e => s!"reset-per-run cell {e.pkg}.{e.name} has no place listed that resets it"))

/-! ### every observer of a reset-per-run cell is probed

A cell can be left dirty by a script when some place stores a run-time value into it, or when two
different places store constants (`MarkUserOutput` stores true, `ResetUserOutput` false). For such a
cell, every function that reads it (not the accessors themselves: their callers) must be reached by
the `B` side of a clean channel of `harness/c20/pairs.go` whose `A` side dirties the cell; the
harness asks the driver for the channel names and refuses to run when one is missing. -/

structure Probe where
  pkg : String
  name : String
  file : String
  fn : String
  channels : List String

def probes : List Probe := [
  ⟨"data", "userOutputEmitted", "parser/parser_print.go", "Parser.printPHPUncaughtError",
    ["reset:user-output:echo->uncaught-error", "reset:user-output:var_dump->uncaught-error", "reset:user-output:inline-html->uncaught-error"]⟩,
  ⟨"data", "userOutputEmitted", "parser/parser_print.go", "Parser.printPHPCompileFatal",
    ["reset:user-output:echo->compile-fatal", "reset:user-output:var_dump->compile-fatal", "reset:user-output:inline-html->compile-fatal"]⟩,
  ⟨"data", "userOutputEmitted", "std/php/core/call_user_func.go", "CallUserFuncFunction.resolveObjectCallback",
    ["reset:user-output:echo->callable-deprecation", "reset:user-output:var_dump->callable-deprecation", "reset:user-output:inline-html->callable-deprecation"]⟩,
  ⟨"data", "WriteOutput", "node/echo.go", "EchoStatement.GetValue", ["reset:output-writer:open-buffer->echo", "reset:output-writer:throw-in-buffer->echo"]⟩,
  ⟨"data", "WriteOutput", "node/inline_html.go", "InlineHTMLNode.GetValue", ["reset:output-writer:open-buffer->inline-html", "reset:output-writer:throw-in-buffer->inline-html"]⟩,
  ⟨"data", "WriteOutput", "std/php/core/ob_start.go", "FlushAllBuffers", ["reset:output-writer:open-buffer->open-buffer", "reset:output-writer:throw-in-buffer->open-buffer"]⟩,
  ⟨"std/php/core", "headerCallbacks", "std/php/core/header_register_callback.go", "HeaderRegisterCallbackFunction.Call", ["reset:header-callbacks:registered->register"]⟩,
  ⟨"std/php/core", "headerCallbacks", "std/php/load.go", "Load",
    ["reset:header-callbacks:registered->shutdown", "reset:header-callbacks:registered->shutdown-after-callbacks"]⟩
]

def usesOf (uses : List CellUse) (pkg name : String) : List CellUse :=
  uses.filter (fun u => u.pkg == pkg && u.name == name)

def isStore (t : Touch) : Bool := t == .resets || t == .sets

/-- a script can leave the cell in more than one state -/
def dirtiable (us : List CellUse) : Bool :=
  us.any (fun u => u.touch == .writes || u.touch == .readsWrites) ||
  ((us.filter (fun u => isStore u.touch && u.via == "")).map (fun u => (u.file, u.fn))).eraseDups.length ≥ 2

def isObserver (u : CellUse) : Bool := !u.accessor && (u.touch == .reads || u.touch == .readsWrites)

/-- observers of dirtiable reset-per-run cells that no channel is listed for -/
def unprobed (tbl : List CellEntry) (ps : List Probe) (uses : List CellUse) : List CellUse :=
  (tbl.filter (fun e => resetPerRun e.disc)).flatMap (fun e =>
    let us := usesOf uses e.pkg e.name
    if dirtiable us then
      us.filter (fun u => isObserver u &&
        !ps.any (fun p => p.pkg == u.pkg && p.name == u.name && p.file == u.file && p.fn == u.fn && !p.channels.isEmpty))
    else [])

def probeChannels (ps : List Probe) : List String := (ps.flatMap (·.channels)).eraseDups

/-! ### the entry path of a run, as the in-process runner of the harness mirrors it

`harness/c20/runner.go` runs a script through `cmd.RunScriptFile` itself, with a runtime loader that
makes the same `Load` calls as `zy.go` and replaces the VM's default throw control (flush, report,
`os.Exit(1)`) by flush, report, end of the run with status 1. That mirror is only right as long as
these functions make the calls listed here, in this order, under these conditions (`conds`) and behind
these earlier ways out (`guards`). -/

def expectedEntry : List EntryStep := [
  ⟨"zy.go", "init", "cmd.SetRuntimeLoader", [], []⟩,
  ⟨"zy.go", "init", "std.Load", ["func literal"], []⟩,
  ⟨"zy.go", "init", "php.Load", ["func literal"], []⟩,
  ⟨"zy.go", "init", "http.Load", ["func literal"], []⟩,
  ⟨"zy.go", "init", "websocket.Load", ["func literal"], []⟩,
  ⟨"zy.go", "init", "netannotation.Load", ["func literal"], []⟩,
  ⟨"zy.go", "init", "system.Load", ["func literal"], []⟩,
  ⟨"cmd/runtime.go", "getRuntimeVM", "panic", ["if runtimeLoader == nil"], []⟩,
  ⟨"cmd/runtime.go", "getRuntimeVM", "parser.NewParser", [], ["if runtimeLoader == nil"]⟩,
  ⟨"cmd/runtime.go", "getRuntimeVM", "runtime.NewVM", [], ["if runtimeLoader == nil"]⟩,
  ⟨"cmd/runtime.go", "getRuntimeVM", "runtimeLoader", [], ["if runtimeLoader == nil"]⟩,
  ⟨"cmd/root.go", "RunScriptFile", "os.Stat", [], []⟩,
  ⟨"cmd/root.go", "RunScriptFile", "os.IsNotExist", [], []⟩,
  ⟨"cmd/root.go", "RunScriptFile", "fmt.Fprintf", ["if os.IsNotExist(err)"], []⟩,
  ⟨"cmd/root.go", "RunScriptFile", "rootCmd.Help", ["if os.IsNotExist(err)"], []⟩,
  ⟨"cmd/root.go", "RunScriptFile", "fmt.Errorf", ["if os.IsNotExist(err)"], []⟩,
  ⟨"cmd/root.go", "RunScriptFile", "getRuntimeVM", [], ["if os.IsNotExist(err)"]⟩,
  ⟨"cmd/root.go", "RunScriptFile", "vm.LoadAndRun", [], ["if os.IsNotExist(err)"]⟩,
  ⟨"cmd/root.go", "RunScriptFile", "p.ShowControl", ["if err != nil"], ["if os.IsNotExist(err)"]⟩,
  ⟨"cmd/root.go", "RunScriptFile", "vm.RunShutdownCallbacks", [], ["if os.IsNotExist(err)"]⟩,
  ⟨"cmd/root.go", "RunScriptFile", "errors.New", ["if err != nil"], ["if os.IsNotExist(err)"]⟩,
  ⟨"cmd/root.go", "RunScriptFile", "err.AsString", ["if err != nil"], ["if os.IsNotExist(err)"]⟩,
  ⟨"runtime/vm.go", "NewVM", "data.FlushAllBuffersFn", ["func literal", "if data.FlushAllBuffersFn != nil"], []⟩,
  ⟨"runtime/vm.go", "NewVM", "parser.ShowControl", ["func literal"], []⟩,
  ⟨"runtime/vm.go", "NewVM", "os.Exit", ["func literal"], []⟩,
  ⟨"runtime/vm.go", "NewVM", "NewContext", [], []⟩,
  ⟨"runtime/vm.go", "NewVM", "parser.SetVM", [], []⟩,
  ⟨"runtime/vm.go", "VM.LoadAndRun", "normalizePhpFilePath", [], []⟩,
  ⟨"runtime/vm.go", "VM.LoadAndRun", "vm.GetPhpFileCache", [], []⟩,
  ⟨"runtime/vm.go", "VM.LoadAndRun", "vm.SetPhpFileCache", [], ["if vm.GetPhpFileCache(file)"]⟩,
  ⟨"runtime/vm.go", "VM.LoadAndRun", "data.ResetUserOutput", [], ["if vm.GetPhpFileCache(file)"]⟩,
  ⟨"runtime/vm.go", "VM.LoadAndRun", "vm.parser.Clone", [], ["if vm.GetPhpFileCache(file)"]⟩,
  ⟨"runtime/vm.go", "VM.LoadAndRun", "p.ParseFile", [], ["if vm.GetPhpFileCache(file)"]⟩,
  ⟨"runtime/vm.go", "VM.LoadAndRun", "p.GetVariables", [], ["if vm.GetPhpFileCache(file)", "if acl != nil"]⟩,
  ⟨"runtime/vm.go", "VM.LoadAndRun", "vm.CreateContext", [], ["if vm.GetPhpFileCache(file)", "if acl != nil"]⟩,
  ⟨"runtime/vm.go", "VM.LoadAndRun", "vm.RegisterGlobalContext", [], ["if vm.GetPhpFileCache(file)", "if acl != nil"]⟩,
  ⟨"runtime/vm.go", "VM.LoadAndRun", "program.GetValue", [], ["if vm.GetPhpFileCache(file)", "if acl != nil"]⟩,
  ⟨"runtime/vm.go", "VM.LoadAndRun", "data.FlushAllBuffersFn", ["if data.FlushAllBuffersFn != nil"], ["if vm.GetPhpFileCache(file)", "if acl != nil"]⟩,
  ⟨"runtime/shutdown.go", "VM.RunShutdownCallbacks", "vm.shutdownRunOnce.Do", [], []⟩,
  ⟨"runtime/shutdown.go", "VM.RunShutdownCallbacks", "callShutdownCallback", ["func literal", "range vm.shutdownCallbacks"], []⟩,
  ⟨"runtime/shutdown.go", "VM.RunShutdownCallbacks", "runHeaderCallbacks", ["func literal"], []⟩,
  ⟨"runtime/shutdown_hooks.go", "runHeaderCallbacks", "RunHeaderCallbacksFn", ["if RunHeaderCallbacksFn != nil"], []⟩
]

/-- first call of the regenerated entry path that differs from the expected one -/
def entryDiff : List EntryStep → List EntryStep → Option String
  | [], [] => none
  | a :: _, [] => some s!"unexpected call {a.callee} in {a.file} {a.fn}"
  | [], b :: _ => some s!"missing call {b.callee} in {b.file} {b.fn}"
  | a :: as, b :: bs =>
    if a == b then entryDiff as bs
    else some s!"{a.file} {a.fn}: call {a.callee} under {a.conds} after the exits {a.guards} where {b.callee} under {b.conds} after {b.guards} was expected"

/-! ## sorts over a slice collected in map order (round 5)

`Generated.C20Sorts.sorts` says, for every site whose pattern is `sort`, what the sort compares. A
comparator of shape `whole` orders the collected elements themselves (strings / integers): two elements
that tie are equal, `Pattern_sort_whole_perm` applies without any argument by hand. Every other
comparator (`derived`: the elements go through a function, a method, a field, a conversion) can tie on
two *different* elements, and then the map order reaches the result (`Pattern_sort_tie_depends`) — unless
the sort key is injective on what the loop collects (`Pattern_sort_key_perm_iff`). That argument is made
by hand, below, **for the comparator text it was made for**: a comparator that changes has to be argued
again. -/

structure SortArg where
  file : String
  fn : String
  expr : String
  ord : Nat
  target : String
  cmpText : String
  why : String

def sortArgued : List SortArg := [
  ⟨"node/class.go", "ClassStatement.GetMethods", "c.Methods", 0, "methods", "methods[i].GetName() < methods[j].GetName()",
    "a method is stored under its own name; a trait alias stores the *same* method object under a second key: two entries that tie are one object"⟩,
  ⟨"runtime/reflect_class.go", "ReflectClass.GetPropertyList", "rc.properties", 0, "properties", "properties[i].GetName() < properties[j].GetName()",
    "rc.properties[name] holds the property of that name: GetName is the map key, injective"⟩,
  ⟨"runtime/reflect_class.go", "ReflectClass.GetMethods", "rc.methods", 0, "methods", "methods[i].GetName() < methods[j].GetName()",
    "rc.methods[method.Name] = wrapper of that method: GetName is the map key"⟩,
  ⟨"runtime/vm.go", "VM.AllFuncs", "vm.funcMap", 0, "funcs", "funcs[i].GetName() < funcs[j].GetName()",
    "vm.funcMap[f.GetName()] = f is the only store"⟩,
  ⟨"runtime/vm.go", "VM.AllClasses", "vm.classMap", 0, "classes", "classes[i].GetName() < classes[j].GetName()",
    "vm.classMap[c.GetName()] = c is the only store"⟩,
  ⟨"runtime/vm_temp.go", "TempVM.AddedClasses", "vm.addedClasses", 0, "out", "out[i].GetName() < out[j].GetName()",
    "vm.addedClasses[c.GetName()] = c is the only store"⟩,
  ⟨"std/php/core/strtr.go", "StrtrFunction.Call", "pairs", 0, "keys", "len(keys[i]) > len(keys[j])",
    "NOT injective: keys of equal length tie and reach strings.NewReplacer in map order. Argued harmless: the replacer prefers, at each position of the subject, the earliest argument among the keys that match there; keys matching at one position are prefixes of one another, hence of different length, hence never tied. Probed on every run by the strtr blocks of the generator and the reorder stream (equal-length keys)"⟩
]

/-- sorts listed as known findings (`props/C20.json`, status `known`): none -/
def KnownSorts : List (String × String × String × Nat) := []

def sortOK (argued : List SortArg) (known : List (String × String × String × Nat)) (s : SortFact) : Bool :=
  s.cmp == .whole ||
  argued.any (fun e => e.file == s.file && e.fn == s.fn && e.expr == s.expr && e.ord == s.ord &&
    e.target == s.target && e.cmpText == s.cmpText) ||
  known.contains (s.file, s.fn, s.expr, s.ord)

/-- the sorts over map-ordered slices whose comparator can tie on different elements and for which no
argument (for today's comparator text) is listed -/
def tyingSorts (argued : List SortArg) (known : List (String × String × String × Nat)) (facts : List SortFact) : List SortFact :=
  facts.filter (fun s => !sortOK argued known s)

/-- sites claimed for the pattern `sort` of which the translator reports no sort at all -/
def sortSitesWithoutFact (sites : List RangeSite) (facts : List SortFact) : List RangeSite :=
  sites.filter (fun s => s.summary == .appendSorted &&
    !facts.any (fun f => f.file == s.file && f.fn == s.fn && f.expr == s.expr && f.ord == s.ord))

/-! ## references held in package-level variables

`Generated.C20Shared.refs` lists every package-level variable that holds a reference (pointer, or
interface initialised with a pointer, through a constructor if need be), the field paths of the struct
behind it that some statement of the linked packages assigns, and how often the variable is used as a
value (returned, passed, stored). Such a variable can change without any write through its own name —
the receiver of the value mutates the pointee through its alias — so `C20PkgState` (writes through the
name) says nothing about it. A reference with assigned fields that is handed out must be accounted for:

* by the variable's own entry in `cells`, if that discipline is about the CONTENT of the variable
  (`resetBeforeRead`, `restoredAtEnd`, `outOfScope`, or a listed `leaks`): whoever holds the alias
  changes exactly the state that entry already speaks about. `memo` / `pureUse` / `lockOnly` /
  `deadWrite` do NOT cover it: "filled once with a value that does not depend on who fills it" is
  precisely what a hoisted error value looks like, and it is wrong as soon as the value is mutable;
* or by an entry of `sharedArgued` (the assigned fields are never written through what is handed out). -/

structure SharedEntry where
  pkg : String
  name : String
  why : String

/-- references argued frozen after publication: none at present -/
def sharedArgued : List SharedEntry := []

def Discipline.coversContent : Discipline → Bool
  | .resetBeforeRead | .restoredAtEnd | .outOfScope | .leaks => true
  | _ => false

def sharedOK (tbl : List CellEntry) (known : List (String × String)) (argued : List SharedEntry)
    (r : Model.Shared.SharedRef) : Bool :=
  r.mutableFields.isEmpty || r.escapes == 0 ||
  argued.any (fun e => e.pkg == r.pkg && e.name == r.name) ||
  tbl.any (fun e => e.pkg == r.pkg && e.name == r.name && e.disc.coversContent &&
    (e.disc.safe || known.contains (r.pkg, r.name)))

/-- mutable references handed out of a package-level variable that nothing accounts for -/
def badShared (tbl : List CellEntry) (known : List (String × String)) (argued : List SharedEntry)
    (refs : List Model.Shared.SharedRef) : List Model.Shared.SharedRef :=
  refs.filter (fun r => !sharedOK tbl known argued r)

/-- entries of `sharedArgued` that no longer meet a handed-out mutable reference -/
def staleShared (argued : List SharedEntry) (refs : List Model.Shared.SharedRef) : List String :=
  (argued.filter (fun e => !refs.any (fun r => r.pkg == e.pkg && r.name == e.name &&
    !r.mutableFields.isEmpty && r.escapes != 0))).map (fun e => e.pkg ++ "." ++ e.name)

end C20Sites
