// C01, parse-work clause: regenerates lean/Generated/C01Rewinds.lean — every place in package parser
// (non-test files) that WRITES a parser position (`<x>.position = …`, `++`, `--`, `+=`, `-=`, a
// `position:` key of a composite literal) or copies a parser (`*<x>.Parser`, `<x>.tokens = <y>.tokens`),
// classified by what it does to the position:
//
//	advance   x.position++ / x.position += e                  forward only
//	toEnd     x.position = len(y.tokens)                      forward only
//	fresh     x.position = 0 together with a new token list   (the function also assigns <x>.tokens, or
//	          the write is a key of a composite literal that creates the parser)
//	restore   x.position = v  where v was saved from a position earlier in the same function
//	back      x.position-- / -= e / = x.position - e          a step backwards
//	fork      x.position = y.position, x.tokens = y.tokens, *x.Parser copied: a second parser on the same tokens
//
// and, for restore / back / fork, two facts: `swap` — the function installs another token list between
// the save and the restore (a nested parse of a DIFFERENT text, e.g. an interpolated fragment: nothing is
// parsed twice); `nested` — between the save and the write the function calls (lexically) something from
// which parseStatement is reachable in the package's call graph by name (a write inside a loop: anywhere
// in the loop body), i.e. the tokens that are rewound over may have been parsed by a recursive parse, and
// will be parsed again. `guard` names the
// calls in the condition of the innermost `if` around the save.
package main

import (
	"fmt"
	"go/ast"
	"go/token"
	"go/types"
	"os"
	"sort"
	"strings"

	"verif/extract/ex"
)

type posWrite struct {
	file, fn, kind, guard string
	line                  int
	swap, nested          bool
}

func rewindFacts(a ex.Args) {
	var shape []string
	fset, files, err := ex.ParseDir(a.Repo, "parser")
	if err != nil {
		shape = append(shape, "parser: "+err.Error())
	}
	names := make([]string, 0, len(files))
	for n := range files {
		names = append(names, n)
	}
	sort.Strings(names)

	// call graph by name: callee names of every function body
	calls := map[string]map[string]bool{}
	for _, n := range names {
		for _, d := range files[n].Decls {
			fd, ok := d.(*ast.FuncDecl)
			if !ok || fd.Body == nil {
				continue
			}
			set := calls[fd.Name.Name]
			if set == nil {
				set = map[string]bool{}
				calls[fd.Name.Name] = set
			}
			ast.Inspect(fd.Body, func(x ast.Node) bool {
				if ce, ok := x.(*ast.CallExpr); ok {
					if c := calleeName(ce); c != "" {
						set[c] = true
					}
				}
				return true
			})
		}
	}
	if _, ok := calls["parseStatement"]; !ok {
		shape = append(shape, "parser: no function named parseStatement (the dispatcher every nested parse goes through)")
	}
	// reaches[f]: parseStatement is reachable from f
	reaches := map[string]bool{"parseStatement": true}
	for changed := true; changed; {
		changed = false
		for f, cs := range calls {
			if reaches[f] {
				continue
			}
			for c := range cs {
				if reaches[c] {
					reaches[f] = true
					changed = true
					break
				}
			}
		}
	}

	var writes []posWrite
	for _, n := range names {
		rel := "parser/" + n
		for _, d := range files[n].Decls {
			fd, ok := d.(*ast.FuncDecl)
			if !ok || fd.Body == nil {
				continue
			}
			ws, sh := positionWritesIn(fset, rel, fd, reaches)
			writes = append(writes, ws...)
			shape = append(shape, sh...)
		}
	}
	sort.SliceStable(writes, func(i, j int) bool {
		if writes[i].file != writes[j].file {
			return writes[i].file < writes[j].file
		}
		return writes[i].line < writes[j].line
	})
	var sb strings.Builder
	sb.WriteString("import Model.Backtrack\n/-! C01: every write of a parser position in package parser (source: parser/*.go, non-test). -/\nnamespace Generated.C01\nopen Model.Backtrack\n\n")
	sb.WriteString("def positionWrites : List PosWrite := [")
	for i, w := range writes {
		if i > 0 {
			sb.WriteString(",")
		}
		fmt.Fprintf(&sb, "\n  { file := %s, fn := %s, kind := .%s, swap := %v, nested := %v, guard := %s }", ex.LeanString(w.file), ex.LeanString(w.fn), w.kind, w.swap, w.nested, ex.LeanString(w.guard))
	}
	sb.WriteString("]\n\n/-- places where the source no longer has the syntactic shape the translator expects -/\ndef rewindShapeChanged : List String := [")
	for i, s := range shape {
		if i > 0 {
			sb.WriteString(", ")
		}
		sb.WriteString(ex.LeanString(s))
	}
	sb.WriteString("]\n\nend Generated.C01\n")
	if err := ex.WriteIfChanged(a.Out, "C01Rewinds.lean", sb.String()); err != nil {
		fmt.Fprintln(os.Stderr, err)
		os.Exit(1)
	}
	nb, nn := 0, 0
	for _, w := range writes {
		if w.kind == "restore" || w.kind == "back" || w.kind == "fork" {
			nb++
			if w.nested && !w.swap {
				nn++
			}
		}
	}
	nr := 0
	for range reaches {
		nr++
	}
	fmt.Printf("C01Rewinds.lean: %d files, %d position writes, %d of them backwards (%d after a nested parse of the same tokens), %d function names reach parseStatement, shapeChanged=%d\n",
		len(names), len(writes), nb, nn, nr, len(shape))
}

func calleeName(ce *ast.CallExpr) string {
	switch f := ce.Fun.(type) {
	case *ast.Ident:
		return f.Name
	case *ast.SelectorExpr:
		return f.Sel.Name
	case *ast.ParenExpr:
		if se, ok := f.X.(*ast.SelectorExpr); ok {
			return se.Sel.Name
		}
	}
	return ""
}

func isSel(e ast.Expr, name string) (*ast.SelectorExpr, bool) {
	se, ok := e.(*ast.SelectorExpr)
	if ok && se.Sel.Name == name {
		return se, true
	}
	return nil, false
}

func positionWritesIn(fset *token.FileSet, rel string, fd *ast.FuncDecl, reaches map[string]bool) (out []posWrite, shape []string) {
	fn := fd.Name.Name
	recvName := ""
	if fd.Recv != nil && len(fd.Recv.List) == 1 {
		fn = strings.TrimPrefix(types.ExprString(fd.Recv.List[0].Type), "*") + "." + fn
		if len(fd.Recv.List[0].Names) == 1 {
			recvName = fd.Recv.List[0].Names[0].Name
		}
	}
	// saved positions: `v := <x>.position` / `v = <x>.position` (first save wins) ; token-list writes
	saved := map[string]token.Pos{}
	var tokenWrites []token.Pos
	ast.Inspect(fd.Body, func(n ast.Node) bool {
		as, ok := n.(*ast.AssignStmt)
		if !ok {
			return true
		}
		for i, l := range as.Lhs {
			if _, ok := isSel(l, "tokens"); ok {
				tokenWrites = append(tokenWrites, as.Pos())
			}
			if i < len(as.Rhs) && len(as.Lhs) == len(as.Rhs) {
				if id, ok := l.(*ast.Ident); ok {
					if _, ok := isSel(as.Rhs[i], "position"); ok {
						if _, seen := saved[id.Name]; !seen {
							saved[id.Name] = as.Pos()
						}
					}
				}
			}
		}
		return true
	})
	// calls in source order
	type call struct {
		pos  token.Pos
		name string
	}
	var cs []call
	ast.Inspect(fd.Body, func(n ast.Node) bool {
		if ce, ok := n.(*ast.CallExpr); ok {
			if c := calleeName(ce); c != "" {
				cs = append(cs, call{ce.Pos(), c})
			}
		}
		return true
	})
	nestedBetween := func(from, to token.Pos) bool {
		for _, c := range cs {
			if c.pos > from && c.pos < to && reaches[c.name] {
				return true
			}
		}
		return false
	}
	// a write inside a loop is also reached after everything else in the loop body
	nestedInLoopAround := func(pos token.Pos) bool {
		found := false
		ast.Inspect(fd.Body, func(n ast.Node) bool {
			var body *ast.BlockStmt
			switch l := n.(type) {
			case *ast.ForStmt:
				body = l.Body
			case *ast.RangeStmt:
				body = l.Body
			}
			if body != nil && body.Pos() <= pos && pos < body.End() {
				for _, c := range cs {
					if c.pos >= body.Pos() && c.pos < body.End() && reaches[c.name] {
						found = true
					}
				}
			}
			return true
		})
		return found
	}
	swapBetween := func(from, to token.Pos) bool {
		for _, p := range tokenWrites {
			if p > from && p < to {
				return true
			}
		}
		return false
	}
	// the guard: calls in the condition of the innermost `if` whose body contains pos
	guardOf := func(pos token.Pos) string {
		var best *ast.IfStmt
		ast.Inspect(fd.Body, func(n ast.Node) bool {
			if is, ok := n.(*ast.IfStmt); ok && is.Body.Pos() <= pos && pos < is.Body.End() {
				best = is // inner ifs are visited later
			}
			return true
		})
		if best == nil {
			return ""
		}
		set := map[string]bool{}
		ast.Inspect(best.Cond, func(n ast.Node) bool {
			if ce, ok := n.(*ast.CallExpr); ok {
				if c := calleeName(ce); c != "" {
					set[c] = true
				}
			}
			return true
		})
		var names []string
		for c := range set {
			names = append(names, c)
		}
		sort.Strings(names)
		return strings.Join(names, ",")
	}
	add := func(pos token.Pos, kind string, from token.Pos) {
		w := posWrite{file: rel, fn: fn, kind: kind, line: fset.Position(pos).Line}
		if kind == "restore" || kind == "back" || kind == "fork" {
			w.swap = swapBetween(from, pos)
			w.nested = nestedBetween(from, pos) || nestedInLoopAround(pos)
			w.guard = guardOf(from)
			if from == fd.Body.Pos() {
				w.guard = guardOf(pos)
			}
		}
		out = append(out, w)
	}
	where := func(pos token.Pos) string {
		return fmt.Sprintf("%s:%d (%s)", rel, fset.Position(pos).Line, fn)
	}
	ast.Inspect(fd.Body, func(n ast.Node) bool {
		switch s := n.(type) {
		case *ast.IncDecStmt:
			if _, ok := isSel(s.X, "position"); ok {
				if s.Tok == token.INC {
					add(s.Pos(), "advance", 0)
				} else {
					add(s.Pos(), "back", fd.Body.Pos())
				}
			}
		case *ast.AssignStmt:
			for i, l := range s.Lhs {
				if lt, ok := isSel(l, "tokens"); ok && i < len(s.Rhs) {
					if rt, ok := isSel(s.Rhs[i], "tokens"); ok && types.ExprString(lt.X) != types.ExprString(rt.X) {
						add(s.Pos(), "fork", fd.Body.Pos())
					}
				}
				lp, ok := isSel(l, "position")
				if !ok {
					continue
				}
				if len(s.Lhs) != len(s.Rhs) {
					shape = append(shape, where(s.Pos())+": position assigned from a multi-value expression")
					continue
				}
				r := s.Rhs[i]
				switch s.Tok {
				case token.ADD_ASSIGN:
					add(s.Pos(), "advance", 0)
					continue
				case token.SUB_ASSIGN:
					add(s.Pos(), "back", fd.Body.Pos())
					continue
				case token.ASSIGN, token.DEFINE:
				default:
					shape = append(shape, where(s.Pos())+": position updated with "+s.Tok.String())
					continue
				}
				switch rv := r.(type) {
				case *ast.BasicLit:
					if rv.Value == "0" {
						fresh := false
						for range tokenWrites {
							fresh = true
						}
						if fresh {
							add(s.Pos(), "fresh", 0)
						} else {
							add(s.Pos(), "back", fd.Body.Pos()) // back to the first token of the SAME list
						}
						continue
					}
				case *ast.CallExpr:
					if id, ok := rv.Fun.(*ast.Ident); ok && id.Name == "len" && len(rv.Args) == 1 {
						if _, ok := isSel(rv.Args[0], "tokens"); ok {
							add(s.Pos(), "toEnd", 0)
							continue
						}
					}
				case *ast.Ident:
					if from, ok := saved[rv.Name]; ok && from < s.Pos() {
						add(s.Pos(), "restore", from)
						continue
					}
				case *ast.SelectorExpr:
					if rv.Sel.Name == "position" && types.ExprString(rv.X) != types.ExprString(lp.X) {
						add(s.Pos(), "fork", fd.Body.Pos())
						continue
					}
				case *ast.BinaryExpr:
					if _, ok := isSel(rv.X, "position"); ok && types.ExprString(rv.X) == types.ExprString(l) {
						if rv.Op == token.ADD {
							add(s.Pos(), "advance", 0)
							continue
						}
						if rv.Op == token.SUB {
							add(s.Pos(), "back", fd.Body.Pos())
							continue
						}
					}
				}
				shape = append(shape, where(s.Pos())+": position = "+types.ExprString(r)+" is none of the known forms")
			}
		case *ast.CompositeLit:
			hasPos, hasTok := false, false
			for _, e := range s.Elts {
				if kv, ok := e.(*ast.KeyValueExpr); ok {
					if id, ok := kv.Key.(*ast.Ident); ok {
						if id.Name == "position" {
							hasPos = true
							if bl, ok := kv.Value.(*ast.BasicLit); !ok || bl.Value != "0" {
								shape = append(shape, where(kv.Pos())+": a parser is created at position "+types.ExprString(kv.Value))
							}
						}
						if id.Name == "tokens" {
							hasTok = true
							if _, ok := isSel(kv.Value, "tokens"); ok {
								add(kv.Pos(), "fork", fd.Body.Pos())
							}
						}
					}
				}
			}
			if hasPos && hasTok {
				add(s.Pos(), "fresh", 0)
			} else if hasPos {
				shape = append(shape, where(s.Pos())+": composite literal sets position without tokens")
			}
		case *ast.StarExpr:
			// a copy of a whole parser value: `*<x>.Parser`, `*<receiver>`
			if se, ok := isSel(s.X, "Parser"); ok && se != nil {
				add(s.Pos(), "fork", fd.Body.Pos())
			} else if id, ok := s.X.(*ast.Ident); ok && recvName != "" && id.Name == recvName {
				add(s.Pos(), "fork", fd.Body.Pos())
			}
		}
		return true
	})
	return
}
