// Translator for C01/C18: regenerates lean/Generated/C01Lexer.lean from
// token/type_config.go, token/token.go, lexer/delimiter.go and
// lexer/preprocessor.go (tables that are data in the source), plus the
// unicode.IsLetter/IsDigit/IsSpace range tables of the Go toolchain that builds
// the repository (the only Go code executed is the standard library).
package main

import (
	"fmt"
	"go/ast"
	"go/token"
	"os"
	"sort"
	"strconv"
	"strings"
	"unicode"

	"verif/extract/ex"
)

var shape []string

func bad(where string) { shape = append(shape, where) }

func main() {
	a := ex.ParseArgs()
	var sb strings.Builder
	sb.WriteString("namespace Generated.C01\n\n")

	// ---------------------------------------------------------------- token type constants (iota + 1)
	types := map[string]int{}
	var order []string
	if _, f, err := ex.ParseFile(a.Repo, "token/type_config.go"); err != nil {
		bad("token/type_config.go: " + err.Error())
	} else {
		found := false
		for _, d := range f.Decls {
			gd, ok := d.(*ast.GenDecl)
			if !ok || gd.Tok != token.CONST || found {
				continue
			}
			first, ok := gd.Specs[0].(*ast.ValueSpec)
			if !ok || ex.TypeString(first.Type) != "TokenType" {
				continue
			}
			found = true
			// `X TokenType = iota + N`; specs without a value repeat the last expression
			off := 0
			for i, s := range gd.Specs {
				vs := s.(*ast.ValueSpec)
				if len(vs.Values) > 0 {
					be, ok := vs.Values[0].(*ast.BinaryExpr)
					okShape := false
					if len(vs.Values) == 1 && ok && be.Op == token.ADD && ex.TypeString(be.X) == "iota" {
						if bl, isLit := be.Y.(*ast.BasicLit); isLit {
							if n, err := strconv.Atoi(bl.Value); err == nil {
								off = n
								okShape = true
							}
						}
					}
					if !okShape {
						bad("token type const block: value of " + vs.Names[0].Name + " is not `iota + N`")
					}
				}
				for _, n := range vs.Names {
					types[n.Name] = i + off
					order = append(order, n.Name)
				}
			}
		}
		if !found {
			bad("token type const block not found")
		}
	}
	for _, n := range order {
		fmt.Fprintf(&sb, "def T_%s : Nat := %d\n", n, types[n])
	}
	sb.WriteString("\ndef typeNames : List (String × Nat) := [\n")
	for i, n := range order {
		sep := ","
		if i == len(order)-1 {
			sep = ""
		}
		fmt.Fprintf(&sb, "  (%s, %d)%s\n", ex.LeanString(n), types[n], sep)
	}
	sb.WriteString("]\n\n")
	tv := func(e ast.Expr, where string) (int, bool) {
		name := ""
		switch x := e.(type) {
		case *ast.Ident:
			name = x.Name
		case *ast.SelectorExpr:
			name = x.Sel.Name
		}
		v, ok := types[name]
		if !ok {
			bad(where + ": unknown token type " + name)
		}
		return v, ok
	}

	// ---------------------------------------------------------------- token definitions
	type def struct {
		lit string
		ty  int
	}
	var defs []def
	if _, f, err := ex.ParseFile(a.Repo, "token/token.go"); err != nil {
		bad("token/token.go: " + err.Error())
	} else {
		ok := false
		ast.Inspect(f, func(n ast.Node) bool {
			vs, is := n.(*ast.ValueSpec)
			if !is || len(vs.Names) != 1 || vs.Names[0].Name != "TokenDefinitions" || len(vs.Values) != 1 {
				return true
			}
			cl, is := vs.Values[0].(*ast.CompositeLit)
			if !is {
				return true
			}
			ok = true
			for _, el := range cl.Elts {
				e, is := el.(*ast.CompositeLit)
				if !is {
					bad("TokenDefinitions: element is not a literal")
					continue
				}
				var d def
				have := 0
				for _, kv := range e.Elts {
					k, is := kv.(*ast.KeyValueExpr)
					if !is {
						bad("TokenDefinitions: positional field")
						continue
					}
					switch k.Key.(*ast.Ident).Name {
					case "Type":
						if v, ok := tv(k.Value, "TokenDefinitions"); ok {
							d.ty = v
							have++
						}
					case "Literal":
						bl, is := k.Value.(*ast.BasicLit)
						if !is {
							bad("TokenDefinitions: non-literal Literal")
							continue
						}
						s, err := strconv.Unquote(bl.Value)
						if err != nil {
							bad("TokenDefinitions: bad string " + bl.Value)
							continue
						}
						d.lit = s
						have++
					}
				}
				if have == 2 {
					defs = append(defs, d)
				}
			}
			return false
		})
		if !ok {
			bad("TokenDefinitions literal not found")
		}
	}
	sb.WriteString("/-- `token.TokenDefinitions` in source order: (literal, type). -/\ndef tokenDefs : List (String × Nat) := [\n")
	for i, d := range defs {
		sep := ","
		if i == len(defs)-1 {
			sep = ""
		}
		fmt.Fprintf(&sb, "  (%s, %d)%s\n", ex.LeanString(d.lit), d.ty, sep)
	}
	sb.WriteString("]\n\n")
	sb.WriteString("/-- the same table with the literals as byte lists (for `decide`) -/\ndef tokenDefBytes : List (List Nat × Nat) := [\n")
	for i, d := range defs {
		sep := ","
		if i == len(defs)-1 {
			sep = ""
		}
		var bs []string
		for _, b := range []byte(d.lit) {
			bs = append(bs, strconv.Itoa(int(b)))
		}
		fmt.Fprintf(&sb, "  ([%s], %d)%s\n", strings.Join(bs, ", "), d.ty, sep)
	}
	sb.WriteString("]\n\n")

	// ---------------------------------------------------------------- delimiter types
	var delim []int
	if _, f, err := ex.ParseFile(a.Repo, "lexer/delimiter.go"); err != nil {
		bad("lexer/delimiter.go: " + err.Error())
	} else if fd := ex.FuncDecl(f, "", "IsDelimiter"); fd == nil {
		bad("IsDelimiter not found")
	} else {
		ok := false
		spaceFirst := false
		if len(fd.Body.List) > 0 {
			if is, isIf := fd.Body.List[0].(*ast.IfStmt); isIf {
				if c, isCall := is.Cond.(*ast.CallExpr); isCall && ex.TypeString(c.Fun) == "unicode.IsSpace" {
					spaceFirst = true
				}
			}
		}
		if !spaceFirst {
			bad("IsDelimiter: does not start with `if unicode.IsSpace(r)`")
		}
		ast.Inspect(fd, func(n ast.Node) bool {
			as, is := n.(*ast.AssignStmt)
			if !is || len(as.Lhs) != 1 || ex.TypeString(as.Lhs[0]) != "delimiterTypes" {
				return true
			}
			cl, is := as.Rhs[0].(*ast.CompositeLit)
			if !is {
				return true
			}
			ok = true
			for _, e := range cl.Elts {
				if v, ok := tv(e, "delimiterTypes"); ok {
					delim = append(delim, v)
				}
			}
			return false
		})
		if !ok {
			bad("IsDelimiter: delimiterTypes literal not found")
		}
	}
	writeNats(&sb, "delimiterTypes", "token types whose definitions' first rune splits identifiers and numbers (`IsDelimiter`), besides unicode.IsSpace", delim)

	// ---------------------------------------------------------------- preprocessor tables
	if _, f, err := ex.ParseFile(a.Repo, "lexer/preprocessor.go"); err != nil {
		bad("lexer/preprocessor.go: " + err.Error())
	} else {
		writeNats(&sb, "cannotAddSemicolon", "`cannotAddSemicolon`: token types after which a newline does not become `;`", switchTrue(f, "cannotAddSemicolon", tv))
		writeNats(&sb, "cannotAddSemicolonAfter", "`cannotAddSemicolonAfter`: token types before which a newline does not become `;`", switchTrue(f, "cannotAddSemicolonAfter", tv))
		// Process: the token types named in the `$` merge condition and in the ident→variable pass
		var dollar, prev []int
		if fd := ex.FuncDecl(f, "Preprocessor", "Process"); fd == nil {
			bad("Preprocessor.Process not found")
		} else {
			ast.Inspect(fd, func(n ast.Node) bool {
				cc, is := n.(*ast.CaseClause)
				if !is || len(cc.List) != 1 || ex.TypeString(cc.List[0]) != "token.DOLLAR" {
					return true
				}
				for _, st := range cc.Body {
					if ifs, is := st.(*ast.IfStmt); is {
						seen := map[int]bool{}
						ast.Inspect(ifs.Cond, func(m ast.Node) bool {
							if se, is := m.(*ast.SelectorExpr); is && ex.TypeString(se.X) == "token" {
								if v, ok := tv(se, "$ merge"); ok && !seen[v] {
									seen[v] = true
									dollar = append(dollar, v)
								}
							}
							return true
						})
					}
				}
				return false
			})
			ast.Inspect(fd, func(n ast.Node) bool {
				rs, is := n.(*ast.RangeStmt)
				if !is {
					return true
				}
				cl, is := rs.X.(*ast.CompositeLit)
				if !is || ex.TypeString(cl.Type) != "[]token.TokenType" {
					return true
				}
				for _, e := range cl.Elts {
					if v, ok := tv(e, "ident→variable"); ok {
						prev = append(prev, v)
					}
				}
				return false
			})
		}
		if len(dollar) == 0 {
			bad("Process: `$` merge condition not found")
		}
		if len(prev) == 0 {
			bad("Process: ident→variable predecessor list not found")
		}
		sort.Ints(dollar)
		writeNats(&sb, "dollarMergeNamed", "token types named in the `$`+next merge condition of `Process` (sorted)", dollar)
		writeNats(&sb, "identToVarPrev", "predecessor types of the identifier→variable pass of `Process`", prev)
	}

	// ---------------------------------------------------------------- unicode tables of the building toolchain
	writeRanges(&sb, "letterRanges", "unicode.IsLetter", unicode.IsLetter)
	writeRanges(&sb, "digitRanges", "unicode.IsDigit", unicode.IsDigit)
	writeRanges(&sb, "spaceRanges", "unicode.IsSpace", unicode.IsSpace)
	fmt.Fprintf(&sb, "def unicodeVersion : String := %s\n\n", ex.LeanString(unicode.Version))

	sb.WriteString("/-- places where the source no longer has the syntactic shape the translator expects -/\ndef shapeChanged : List String := [")
	for i, s := range shape {
		if i > 0 {
			sb.WriteString(", ")
		}
		sb.WriteString(ex.LeanString(s))
	}
	sb.WriteString("]\n\nend Generated.C01\n")
	if err := ex.WriteIfChanged(a.Out, "C01Lexer.lean", sb.String()); err != nil {
		fmt.Fprintln(os.Stderr, err)
		os.Exit(1)
	}
	fmt.Printf("C01Lexer.lean: %d token types, %d definitions, %d delimiter types, shapeChanged=%d\n", len(order), len(defs), len(delim), len(shape))
	// C18 (shares this translator): writes to the location of an existing error
	errLocFacts(a)
	fragFacts(a)
	// C01, parse-work clause: every write of a parser position (rewinds.go)
	rewindFacts(a)
	// C01, accepted-program-is-complete clause: pointer results converted to interface slots (typednil.go)
	typedNilFacts(a)
}

func writeNats(sb *strings.Builder, name, doc string, xs []int) {
	fmt.Fprintf(sb, "/-- %s -/\ndef %s : List Nat := [", doc, name)
	for i, x := range xs {
		if i > 0 {
			sb.WriteString(", ")
		}
		fmt.Fprintf(sb, "%d", x)
	}
	sb.WriteString("]\n\n")
}

func writeRanges(sb *strings.Builder, name, doc string, pred func(rune) bool) {
	fmt.Fprintf(sb, "/-- inclusive code point ranges where `%s` holds -/\ndef %s : Array (Nat × Nat) := #[", doc, name)
	first := true
	start := -1
	for r := 0; r <= 0x110000; r++ {
		in := r <= 0x10FFFF && pred(rune(r))
		if in && start < 0 {
			start = r
		}
		if !in && start >= 0 {
			if !first {
				sb.WriteString(", ")
			}
			first = false
			fmt.Fprintf(sb, "(%d, %d)", start, r-1)
			start = -1
		}
	}
	sb.WriteString("]\n\n")
}

// switchTrue returns the token types of all `case … : return true` arms of a
// function whose body is one switch on t.Type() with `default: return false`.
func switchTrue(f *ast.File, fn string, tv func(ast.Expr, string) (int, bool)) []int {
	fd := ex.FuncDecl(f, "", fn)
	if fd == nil {
		bad(fn + " not found")
		return nil
	}
	if len(fd.Body.List) != 1 {
		bad(fn + ": body is not a single switch")
		return nil
	}
	sw, ok := fd.Body.List[0].(*ast.SwitchStmt)
	if !ok {
		bad(fn + ": body is not a switch")
		return nil
	}
	var res []int
	for _, c := range sw.Body.List {
		cc := c.(*ast.CaseClause)
		ret := ""
		if len(cc.Body) == 1 {
			if rs, ok := cc.Body[0].(*ast.ReturnStmt); ok && len(rs.Results) == 1 {
				ret = ex.TypeString(rs.Results[0])
			}
		}
		if cc.List == nil {
			if ret != "false" {
				bad(fn + ": default is not `return false`")
			}
			continue
		}
		if ret != "true" {
			bad(fn + ": a case does not `return true`")
			continue
		}
		for _, e := range cc.List {
			if v, ok := tv(e, fn); ok {
				res = append(res, v)
			}
		}
	}
	return res
}
