// C18, error-location clause: regenerates lean/Generated/C18ErrLoc.lean — every place in the
// repository's non-test Go source that WRITES the location of an error that already exists
// (`<x>.Error.From = …`, or `<recv>.From = …` inside a method of data.Error), with the fact whether the write is made only when the location is missing
// (it sits in the body of an `if` one of whose `&&`-conjuncts is `<the same expression> == nil`).
// Constructors (`&Error{From: …}`, NewError…) create a location, they do not overwrite one, and are
// not listed.
package main

import (
	"fmt"
	"go/ast"
	"go/parser"
	"go/token"
	"go/types"
	"io/fs"
	"os"
	"path/filepath"
	"sort"
	"strings"

	"verif/extract/ex"
)

type fromWrite struct {
	file, fn, lhs string
	line          int
	guarded       bool
}

func errLocFacts(a ex.Args) {
	var shape []string
	var writes []fromWrite
	nfiles := 0
	root := a.Repo
	filepath.WalkDir(root, func(p string, d fs.DirEntry, err error) error {
		if err != nil {
			return nil
		}
		if d.IsDir() {
			n := d.Name()
			if p != root && (strings.HasPrefix(n, ".") || n == "testdata" || n == "vendor") {
				return filepath.SkipDir
			}
			return nil
		}
		if !strings.HasSuffix(p, ".go") || strings.HasSuffix(p, "_test.go") {
			return nil
		}
		rel, _ := filepath.Rel(root, p)
		fset := token.NewFileSet()
		f, perr := parser.ParseFile(fset, p, nil, parser.SkipObjectResolution)
		if perr != nil {
			if strings.HasPrefix(rel, "node/") || strings.HasPrefix(rel, "data/") || strings.HasPrefix(rel, "runtime/") {
				shape = append(shape, rel+": does not parse")
			}
			return nil
		}
		nfiles++
		for _, decl := range f.Decls {
			fd, ok := decl.(*ast.FuncDecl)
			if !ok || fd.Body == nil {
				continue
			}
			writes = append(writes, writesIn(fset, rel, f.Name.Name, fd)...)
		}
		return nil
	})
	if _, err := os.Stat(filepath.Join(root, "node", "err.go")); err != nil {
		shape = append(shape, "node/err.go not found")
	}
	sort.Slice(writes, func(i, j int) bool {
		if writes[i].file != writes[j].file {
			return writes[i].file < writes[j].file
		}
		return writes[i].line < writes[j].line
	})
	var sb strings.Builder
	sb.WriteString("import Model.ErrLoc\n/-! C18: every write to the location of an existing error (source: all non-test Go files). -/\nnamespace Generated.C18\nopen Model.ErrLoc\n\n")
	sb.WriteString("def fromWrites : List Writer := [")
	for i, w := range writes {
		if i > 0 {
			sb.WriteString(",")
		}
		fmt.Fprintf(&sb, "\n  { file := %s, fn := %s, lhs := %s, guarded := %v }", ex.LeanString(w.file), ex.LeanString(w.fn), ex.LeanString(w.lhs), w.guarded)
	}
	sb.WriteString("]\n\n/-- places where the source no longer has the syntactic shape the translator expects -/\ndef shapeChanged : List String := [")
	for i, s := range shape {
		if i > 0 {
			sb.WriteString(", ")
		}
		sb.WriteString(ex.LeanString(s))
	}
	sb.WriteString("]\n\nend Generated.C18\n")
	if err := ex.WriteIfChanged(a.Out, "C18ErrLoc.lean", sb.String()); err != nil {
		fmt.Fprintln(os.Stderr, err)
		os.Exit(1)
	}
	ng := 0
	for _, w := range writes {
		if w.guarded {
			ng++
		}
	}
	fmt.Printf("C18ErrLoc.lean: %d Go files, %d writes of an existing error's location (%d guarded by a nil test), shapeChanged=%d\n", nfiles, len(writes), ng, len(shape))
}

// writesIn lists the location writes of one function
func writesIn(fset *token.FileSet, rel, pkg string, fd *ast.FuncDecl) []fromWrite {
	recvName, recvIsError := "", false
	if fd.Recv != nil && len(fd.Recv.List) == 1 {
		if pkg == "data" && strings.TrimPrefix(types.ExprString(fd.Recv.List[0].Type), "*") == "Error" {
			recvIsError = true
			if len(fd.Recv.List[0].Names) == 1 {
				recvName = fd.Recv.List[0].Names[0].Name
			}
		}
	}
	fn := fd.Name.Name
	if fd.Recv != nil && len(fd.Recv.List) == 1 {
		fn = strings.TrimPrefix(types.ExprString(fd.Recv.List[0].Type), "*") + "." + fn
	}
	isTarget := func(e ast.Expr) bool {
		se, ok := e.(*ast.SelectorExpr)
		if !ok {
			return false
		}
		if se.Sel.Name != "From" {
			return false
		}
		if in, ok := se.X.(*ast.SelectorExpr); ok && in.Sel.Name == "Error" {
			return true // <x>.Error.From
		}
		if id, ok := se.X.(*ast.Ident); ok && recvIsError && id.Name == recvName {
			return true // <recv>.From in a method of data.Error
		}
		return false
	}
	var out []fromWrite
	var stack []ast.Node
	ast.Inspect(fd.Body, func(n ast.Node) bool {
		if n == nil {
			stack = stack[:len(stack)-1]
			return true
		}
		stack = append(stack, n)
		as, ok := n.(*ast.AssignStmt)
		if !ok || as.Tok != token.ASSIGN {
			return true
		}
		for _, l := range as.Lhs {
			if !isTarget(l) {
				continue
			}
			lhs := types.ExprString(l)
			out = append(out, fromWrite{file: rel, fn: fn, lhs: lhs, line: fset.Position(as.Pos()).Line, guarded: nilGuarded(stack, lhs)})
		}
		return true
	})
	return out
}

// nilGuarded: some enclosing `if` has `<lhs> == nil` among the conjuncts of its condition and the
// statement lies in its body (not in its else branch)
func nilGuarded(stack []ast.Node, lhs string) bool {
	for i := len(stack) - 2; i >= 0; i-- {
		is, ok := stack[i].(*ast.IfStmt)
		if !ok || stack[i+1] != ast.Node(is.Body) {
			continue
		}
		if hasNilConjunct(is.Cond, lhs) {
			return true
		}
	}
	return false
}

func hasNilConjunct(c ast.Expr, lhs string) bool {
	switch x := c.(type) {
	case *ast.ParenExpr:
		return hasNilConjunct(x.X, lhs)
	case *ast.BinaryExpr:
		if x.Op == token.LAND {
			return hasNilConjunct(x.X, lhs) || hasNilConjunct(x.Y, lhs)
		}
		if x.Op == token.EQL {
			l, r := types.ExprString(x.X), types.ExprString(x.Y)
			return l == lhs && r == "nil" || r == lhs && l == "nil"
		}
	}
	return false
}

// ---------------------------------------------------------------- C18: units of the fragment-line arithmetic

// fragFacts regenerates lean/Generated/C18Frag.lean from lexer/preprocessor.go: the positions
// processStringInterpolation works with are RUNE indices into `runes := []rune(content)`; the helper
// that turns such an index into a line (fragmentLineCol) must count the newlines among the first k
// RUNES. Facts: the helper's parameter types, whether its body is the counting loop over its rune
// slice parameter, what every call site passes, and how `runes` is defined.
func fragFacts(a ex.Args) {
	var shape []string
	var paramTypes []string
	loopOK := false
	var calls [][2]string
	var runesDefs []string
	_, f, err := ex.ParseFile(a.Repo, "lexer/preprocessor.go")
	if err != nil {
		shape = append(shape, "lexer/preprocessor.go: "+err.Error())
	} else {
		if fd := ex.FuncDecl(f, "", "fragmentLineCol"); fd == nil || fd.Body == nil {
			shape = append(shape, "fragmentLineCol not found")
		} else {
			var pnames []string
			for _, p := range fd.Type.Params.List {
				for _, n := range p.Names {
					paramTypes = append(paramTypes, types.ExprString(p.Type))
					pnames = append(pnames, n.Name)
				}
			}
			if len(pnames) == 4 {
				loopOK = countsNewlineRunes(fd.Body, pnames[1], pnames[2])
			}
		}
		if fd := ex.FuncDecl(f, "", "processStringInterpolation"); fd == nil || fd.Body == nil {
			shape = append(shape, "processStringInterpolation not found")
		} else {
			ast.Inspect(fd.Body, func(n ast.Node) bool {
				switch x := n.(type) {
				case *ast.CallExpr:
					if id, ok := x.Fun.(*ast.Ident); ok && id.Name == "fragmentLineCol" && len(x.Args) == 4 {
						calls = append(calls, [2]string{types.ExprString(x.Args[1]), types.ExprString(x.Args[2])})
					}
				case *ast.AssignStmt:
					for i, l := range x.Lhs {
						if id, ok := l.(*ast.Ident); ok && id.Name == "runes" && i < len(x.Rhs) {
							runesDefs = append(runesDefs, types.ExprString(x.Rhs[i]))
						}
					}
				}
				return true
			})
			if len(calls) == 0 {
				shape = append(shape, "processStringInterpolation: no call of fragmentLineCol")
			}
		}
	}
	var sb strings.Builder
	sb.WriteString("/-! C18: units of the interpolation-fragment line arithmetic (source: lexer/preprocessor.go). -/\nnamespace Generated.C18Frag\n\n")
	ws := func(name, doc string, xs []string) {
		fmt.Fprintf(&sb, "/-- %s -/\ndef %s : List String := [", doc, name)
		for i, x := range xs {
			if i > 0 {
				sb.WriteString(", ")
			}
			sb.WriteString(ex.LeanString(x))
		}
		sb.WriteString("]\n\n")
	}
	ws("paramTypes", "parameter types of `fragmentLineCol`", paramTypes)
	fmt.Fprintf(&sb, "/-- the body of `fragmentLineCol` is `line := t.Line()` followed by the loop `for n := 0; n < k && n < len(rs); n++ { if rs[n] == '\\\\n' { line++ … } }` over its SECOND parameter `rs`, bounded by its third parameter `k` -/\ndef countsNewlineRunes : Bool := %v\n\n", loopOK)
	sb.WriteString("/-- (second, third) argument of every call of `fragmentLineCol` in `processStringInterpolation` -/\ndef callArgs : List (String × String) := [")
	for i, c := range calls {
		if i > 0 {
			sb.WriteString(", ")
		}
		fmt.Fprintf(&sb, "(%s, %s)", ex.LeanString(c[0]), ex.LeanString(c[1]))
	}
	sb.WriteString("]\n\n")
	ws("runesDefs", "right-hand sides of the assignments to `runes` in `processStringInterpolation`", runesDefs)
	ws("shapeChanged", "places where the source no longer has the syntactic shape the translator expects", shape)
	sb.WriteString("end Generated.C18Frag\n")
	if err := ex.WriteIfChanged(a.Out, "C18Frag.lean", sb.String()); err != nil {
		fmt.Fprintln(os.Stderr, err)
		os.Exit(1)
	}
	fmt.Printf("C18Frag.lean: fragmentLineCol(%s) countsNewlineRunes=%v, %d call sites, shapeChanged=%d\n", strings.Join(paramTypes, ", "), loopOK, len(calls), len(shape))
}

// countsNewlineRunes: the body is
//
//	line := t.Line()
//	for n := 0; n < k && n < len(rs); n++ { if rs[n] == '\n' { line++; … } }
//	return line, …
func countsNewlineRunes(body *ast.BlockStmt, rs, k string) bool {
	if len(body.List) != 3 {
		return false
	}
	as, ok := body.List[0].(*ast.AssignStmt)
	if !ok || len(as.Lhs) != 1 || len(as.Rhs) != 1 || types.ExprString(as.Lhs[0]) != "line" || types.ExprString(as.Rhs[0]) != "t.Line()" {
		return false
	}
	fs, ok := body.List[1].(*ast.ForStmt)
	if !ok || fs.Init == nil || fs.Cond == nil || fs.Post == nil {
		return false
	}
	init, ok := fs.Init.(*ast.AssignStmt)
	if !ok || len(init.Lhs) != 1 || len(init.Rhs) != 1 || types.ExprString(init.Rhs[0]) != "0" {
		return false
	}
	n := types.ExprString(init.Lhs[0])
	if types.ExprString(fs.Cond) != fmt.Sprintf("%s < %s && %s < len(%s)", n, k, n, rs) {
		return false
	}
	if inc, ok := fs.Post.(*ast.IncDecStmt); !ok || inc.Tok != token.INC || types.ExprString(inc.X) != n {
		return false
	}
	if len(fs.Body.List) != 1 {
		return false
	}
	is, ok := fs.Body.List[0].(*ast.IfStmt)
	if !ok || is.Else != nil || types.ExprString(is.Cond) != fmt.Sprintf("%s[%s] == '\\n'", rs, n) || len(is.Body.List) == 0 {
		return false
	}
	inc, ok := is.Body.List[0].(*ast.IncDecStmt)
	if !ok || inc.Tok != token.INC || types.ExprString(inc.X) != "line" {
		return false
	}
	for _, st := range is.Body.List[1:] { // the column may be recomputed; the line is touched once
		if a2, ok := st.(*ast.AssignStmt); ok {
			for _, l := range a2.Lhs {
				if types.ExprString(l) == "line" {
					return false
				}
			}
		}
		if i2, ok := st.(*ast.IncDecStmt); ok && types.ExprString(i2.X) == "line" {
			return false
		}
	}
	rt, ok := body.List[2].(*ast.ReturnStmt)
	return ok && len(rt.Results) == 2 && types.ExprString(rt.Results[0]) == "line"
}
