// C01, accepted-program-is-complete clause: regenerates lean/Generated/C01TypedNil.lean — every place in
// package parser (non-test files) where a value whose DECLARED type is a concrete pointer (`*T`, the
// first result of a function or method of the package) is converted to a non-pointer (interface) slot:
//
//	forward   g(f(…))        f's results are passed on as g's parameters (e.g. `p.required(p.parseX())`)
//	ret       return f(…)    f's results are returned as the enclosing function's results
//	retVar    return v, …    v := f(…) earlier in the function
//	argVar    g(v, …)        v := f(…) earlier in the function, g a function of the package
//	assign    x = v / x, … = f(…)   x declared `var x I`
//
// For each: `nilOk` — the producer has a `return nil, e` whose pointer result is the literal nil and
// whose last result e is neither a call (a constructor of an error) nor the variable tested by the
// innermost enclosing `if e != nil`: it may hand back (nil pointer, no
// error), which the conversion turns into a NON-nil interface value (Go's typed nil), so that a guard
// `v == nil` on the interface (Parser.required, `if expr == nil`) does not see it; `checked` — the
// pointer variable is compared with nil in the converting function before it is converted (only the
// variable forms can be).
package main

import (
	"fmt"
	"go/ast"
	"go/token"
	"go/types"
	"os"
	"sort"
	"strings"

	"verif/extract/ex"
)

type sig struct {
	params, results []ast.Expr // one entry per value (names expanded)
	decl            *ast.FuncDecl
}

func expandFields(fl *ast.FieldList) []ast.Expr {
	var out []ast.Expr
	if fl == nil {
		return nil
	}
	for _, f := range fl.List {
		n := len(f.Names)
		if n == 0 {
			n = 1
		}
		for i := 0; i < n; i++ {
			out = append(out, f.Type)
		}
	}
	return out
}

func isPtr(e ast.Expr) bool { _, ok := e.(*ast.StarExpr); return ok }

// mayReturnNilOk: a return statement of fd whose result at position i is the identifier nil and whose
// last result is not a call expression (nil, or a variable that may be nil)
func mayReturnNilOk(fd *ast.FuncDecl, i int) bool {
	found := false
	ast.Inspect(fd.Body, func(n ast.Node) bool {
		if _, ok := n.(*ast.FuncLit); ok {
			return false
		}
		rs, ok := n.(*ast.ReturnStmt)
		if !ok || len(rs.Results) <= i {
			return true
		}
		if id, ok := rs.Results[i].(*ast.Ident); ok && id.Name == "nil" {
			last := rs.Results[len(rs.Results)-1]
			_, isCall := last.(*ast.CallExpr)
			if len(rs.Results) == 1 || (!isCall && !guardedNonNil(fd, rs, last)) {
				found = true
			}
		}
		return true
	})
	return found
}

// guardedNonNil: the return statement is in the body of an innermost `if v != nil` and returns that v
func guardedNonNil(fd *ast.FuncDecl, rs *ast.ReturnStmt, last ast.Expr) bool {
	id, ok := last.(*ast.Ident)
	if !ok || id.Name == "nil" {
		return false
	}
	var best *ast.IfStmt
	ast.Inspect(fd.Body, func(n ast.Node) bool {
		if is, ok := n.(*ast.IfStmt); ok && is.Body.Pos() <= rs.Pos() && rs.Pos() < is.Body.End() {
			best = is
		}
		return true
	})
	if best == nil {
		return false
	}
	be, ok := best.Cond.(*ast.BinaryExpr)
	if !ok || be.Op != token.NEQ {
		return false
	}
	x, ok1 := be.X.(*ast.Ident)
	y, ok2 := be.Y.(*ast.Ident)
	return ok1 && ok2 && x.Name == id.Name && y.Name == "nil"
}

type tnSite struct {
	file, fn, producer, form, consumer string
	line                               int
	nilOk, checked                     bool
}

func typedNilFacts(a ex.Args) {
	var shape []string
	fset, files, err := ex.ParseDir(a.Repo, "parser")
	if err != nil {
		shape = append(shape, "parser: "+err.Error())
	}
	names := make([]string, 0, len(files))
	for n := range files {
		names = append(names, n)
	}
	sort.Strings(names)
	sigs := map[string][]sig{} // by name: every function / method of the package with that name
	for _, n := range names {
		for _, d := range files[n].Decls {
			if fd, ok := d.(*ast.FuncDecl); ok && fd.Body != nil {
				sigs[fd.Name.Name] = append(sigs[fd.Name.Name], sig{expandFields(fd.Type.Params), expandFields(fd.Type.Results), fd})
			}
		}
	}
	if len(sigs["required"]) == 0 {
		shape = append(shape, "parser: no function named required (the missing-expression guard)")
	}
	// ptrResult(name, i): some declaration of that name has a pointer at result i; nilOk likewise
	ptrResult := func(name string, i int) (ptr, nilOk bool) {
		for _, s := range sigs[name] {
			if i < len(s.results) && isPtr(s.results[i]) {
				ptr = true
				if mayReturnNilOk(s.decl, i) {
					nilOk = true
				}
			}
		}
		return
	}
	nonPtrParam := func(name string, i int) bool {
		for _, s := range sigs[name] {
			if i < len(s.params) && !isPtr(s.params[i]) {
				if _, variadic := s.params[i].(*ast.Ellipsis); !variadic {
					return true
				}
			}
		}
		return false
	}
	var sites []tnSite
	for _, n := range names {
		rel := "parser/" + n
		for _, d := range files[n].Decls {
			fd, ok := d.(*ast.FuncDecl)
			if !ok || fd.Body == nil {
				continue
			}
			fn := fd.Name.Name
			if fd.Recv != nil && len(fd.Recv.List) == 1 {
				fn = strings.TrimPrefix(types.ExprString(fd.Recv.List[0].Type), "*") + "." + fn
			}
			encl := expandFields(fd.Type.Results)
			// locals that hold a pointer result of a package function: name -> producer (+ position of the definition)
			type local struct {
				producer string
				nilOk    bool
				pos      token.Pos
			}
			locals := map[string]local{}
			ifaceVars := map[string]bool{} // `var x T` with T not a pointer
			nilChecked := map[string][]token.Pos{}
			ast.Inspect(fd.Body, func(x ast.Node) bool {
				switch s := x.(type) {
				case *ast.AssignStmt:
					if s.Tok == token.DEFINE && len(s.Rhs) == 1 {
						if ce, ok := s.Rhs[0].(*ast.CallExpr); ok {
							if c := calleeName(ce); c != "" {
								for i, l := range s.Lhs {
									if id, ok := l.(*ast.Ident); ok && id.Name != "_" {
										if p, nk := ptrResult(c, i); p {
											locals[id.Name] = local{c, nk, s.Pos()}
										}
									}
								}
							}
						}
					}
				case *ast.DeclStmt:
					if gd, ok := s.Decl.(*ast.GenDecl); ok && gd.Tok == token.VAR {
						for _, sp := range gd.Specs {
							if vs, ok := sp.(*ast.ValueSpec); ok && vs.Type != nil && !isPtr(vs.Type) {
								for _, nm := range vs.Names {
									ifaceVars[nm.Name] = true
								}
							}
						}
					}
				case *ast.BinaryExpr:
					if s.Op == token.EQL || s.Op == token.NEQ {
						if id, ok := s.X.(*ast.Ident); ok {
							if y, ok := s.Y.(*ast.Ident); ok && y.Name == "nil" {
								nilChecked[id.Name] = append(nilChecked[id.Name], s.Pos())
							}
						}
					}
				}
				return true
			})
			checkedBefore := func(v string, from, to token.Pos) bool {
				for _, p := range nilChecked[v] {
					if p > from && p < to {
						return true
					}
				}
				return false
			}
			add := func(pos token.Pos, producer, form, consumer string, nilOk, checked bool) {
				sites = append(sites, tnSite{rel, fn, producer, form, consumer, fset.Position(pos).Line, nilOk, checked})
			}
			ast.Inspect(fd.Body, func(x ast.Node) bool {
				switch s := x.(type) {
				case *ast.CallExpr:
					g := calleeName(s)
					if g == "" || len(sigs[g]) == 0 {
						return true
					}
					if len(s.Args) == 1 {
						if inner, ok := s.Args[0].(*ast.CallExpr); ok {
							if f := calleeName(inner); f != "" {
								for _, fs := range sigs[f] {
									if len(fs.results) < 2 {
										continue
									}
									for i := range fs.results {
										if p, nk := ptrResult(f, i); p && nonPtrParam(g, i) {
											add(s.Pos(), f, "forward", g, nk, false)
										}
									}
									break
								}
							}
						}
					}
					for i, arg := range s.Args {
						if id, ok := arg.(*ast.Ident); ok {
							if l, ok := locals[id.Name]; ok && l.pos < s.Pos() && nonPtrParam(g, i) {
								add(s.Pos(), l.producer, "argVar", g, l.nilOk, checkedBefore(id.Name, l.pos, s.Pos()))
							}
						}
					}
				case *ast.ReturnStmt:
					if len(s.Results) == 1 && len(encl) >= 2 {
						if inner, ok := s.Results[0].(*ast.CallExpr); ok {
							if f := calleeName(inner); f != "" {
								for i := range encl {
									if p, nk := ptrResult(f, i); p && !isPtr(encl[i]) {
										add(s.Pos(), f, "ret", "return", nk, false)
									}
								}
							}
						}
						return true
					}
					for i, r := range s.Results {
						if i >= len(encl) || isPtr(encl[i]) {
							continue
						}
						if id, ok := r.(*ast.Ident); ok {
							if l, ok := locals[id.Name]; ok && l.pos < s.Pos() {
								add(s.Pos(), l.producer, "retVar", "return", l.nilOk, checkedBefore(id.Name, l.pos, s.Pos()))
							}
						}
						if inner, ok := r.(*ast.CallExpr); ok && len(s.Results) == len(encl) {
							if f := calleeName(inner); f != "" {
								single := false
								for _, fs := range sigs[f] {
									if len(fs.results) == 1 && isPtr(fs.results[0]) {
										single = true
									}
								}
								if single {
									_, nk := ptrResult(f, 0)
									add(s.Pos(), f, "ret", "return", nk, false)
								}
							}
						}
					}
				case *ast.AssignStmt:
					if s.Tok != token.ASSIGN {
						return true
					}
					if len(s.Rhs) == 1 && len(s.Lhs) >= 1 {
						if inner, ok := s.Rhs[0].(*ast.CallExpr); ok {
							if f := calleeName(inner); f != "" {
								for i, l := range s.Lhs {
									if id, ok := l.(*ast.Ident); ok && ifaceVars[id.Name] {
										if p, nk := ptrResult(f, i); p {
											add(s.Pos(), f, "assign", id.Name, nk, false)
										}
									}
								}
							}
						}
					}
					if len(s.Lhs) == len(s.Rhs) {
						for i, l := range s.Lhs {
							lid, ok := l.(*ast.Ident)
							if !ok || !ifaceVars[lid.Name] {
								continue
							}
							if rid, ok := s.Rhs[i].(*ast.Ident); ok {
								if lc, ok := locals[rid.Name]; ok && lc.pos < s.Pos() {
									add(s.Pos(), lc.producer, "assign", lid.Name, lc.nilOk, checkedBefore(rid.Name, lc.pos, s.Pos()))
								}
							}
						}
					}
				}
				return true
			})
		}
	}
	sort.SliceStable(sites, func(i, j int) bool {
		if sites[i].file != sites[j].file {
			return sites[i].file < sites[j].file
		}
		return sites[i].line < sites[j].line
	})
	var sb strings.Builder
	sb.WriteString("import Model.TypedNil\n/-! C01: every conversion of a declared concrete-pointer result of a function of package parser to a\nnon-pointer (interface) slot (source: parser/*.go, non-test). -/\nnamespace Generated.C01\nopen Model.TypedNil\n\n")
	sb.WriteString("def ifaceConversions : List Conv := [")
	for i, s := range sites {
		if i > 0 {
			sb.WriteString(",")
		}
		fmt.Fprintf(&sb, "\n  { file := %s, fn := %s, producer := %s, form := .%s, consumer := %s, nilOk := %v, checked := %v }",
			ex.LeanString(s.file), ex.LeanString(s.fn), ex.LeanString(s.producer), s.form, ex.LeanString(s.consumer), s.nilOk, s.checked)
	}
	sb.WriteString("]\n\n/-- places where the source no longer has the syntactic shape the translator expects -/\ndef typedNilShapeChanged : List String := [")
	for i, s := range shape {
		if i > 0 {
			sb.WriteString(", ")
		}
		sb.WriteString(ex.LeanString(s))
	}
	sb.WriteString("]\n\nend Generated.C01\n")
	if err := ex.WriteIfChanged(a.Out, "C01TypedNil.lean", sb.String()); err != nil {
		fmt.Fprintln(os.Stderr, err)
		os.Exit(1)
	}
	bad, guardSites := 0, 0
	for _, s := range sites {
		if s.nilOk && !s.checked {
			bad++
		}
		if s.consumer == "required" {
			guardSites++
		}
	}
	np := 0
	for _, ss := range sigs {
		for _, s := range ss {
			if len(s.results) > 0 && isPtr(s.results[0]) {
				np++
			}
		}
	}
	fmt.Printf("C01TypedNil.lean: %d functions (%d with a concrete-pointer first result), %d pointer-to-interface conversions (%d into required), %d of them may carry a typed nil unchecked, shapeChanged=%d\n",
		len(sigs), np, len(sites), guardSites, bad, len(shape))
}
