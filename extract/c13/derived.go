// derived slices (round 7): every place of std/net/http where a slice-typed field of a package struct is
// initialised (composite literal) or assigned from a slice-typed field of ANOTHER object, and whether the
// receiving object gets a copy (`append([]T{}, x.f...)`, `append([]T(nil), x.f...)`, `slices.Clone(x.f)`,
// make + copy) or the slice itself (`x.f`, `x.f[:n]`, `append(x.f, …)`: same backing array, so a later
// append on either side may write into the other's spare capacity). go/ast only.
package main

import (
	"fmt"
	"go/ast"
	"go/token"
	"go/types"
	"os"
	"sort"
	"strings"

	"verif/extract/ex"
)

type deriveFact struct {
	fn, typ, field, src, how string
}

func derivedSlices(args ex.Args, names []string, files map[string]*ast.File) {
	sliceOf := map[string]map[string]bool{} // struct -> slice-typed fields
	sliceName := map[string]bool{}          // field names that are slice-typed in some struct of the package
	var sliceFields []string
	for _, n := range names {
		for _, d := range files[n].Decls {
			gd, ok := d.(*ast.GenDecl)
			if !ok || gd.Tok != token.TYPE {
				continue
			}
			for _, sp := range gd.Specs {
				ts := sp.(*ast.TypeSpec)
				st, ok := ts.Type.(*ast.StructType)
				if !ok {
					continue
				}
				for _, f := range st.Fields.List {
					at, ok := f.Type.(*ast.ArrayType)
					if !ok || at.Len != nil {
						continue
					}
					for _, id := range f.Names {
						if sliceOf[ts.Name.Name] == nil {
							sliceOf[ts.Name.Name] = map[string]bool{}
						}
						sliceOf[ts.Name.Name][id.Name] = true
						sliceName[id.Name] = true
						sliceFields = append(sliceFields, ts.Name.Name+"."+id.Name)
					}
				}
			}
		}
	}
	sort.Strings(sliceFields)
	var facts []deriveFact
	var sh []string

	// a selector (possibly sliced) naming a slice field of some object: returns base text and the selector text
	var fieldSel func(e ast.Expr) (base, text string, ok bool)
	fieldSel = func(e ast.Expr) (string, string, bool) {
		switch t := e.(type) {
		case *ast.ParenExpr:
			return fieldSel(t.X)
		case *ast.SliceExpr:
			return fieldSel(t.X)
		case *ast.SelectorExpr:
			if sliceName[t.Sel.Name] {
				return types.ExprString(t.X), types.ExprString(t), true
			}
		}
		return "", "", false
	}
	fresh := func(e ast.Expr) bool {
		switch t := e.(type) {
		case *ast.CompositeLit:
			_, ok := t.Type.(*ast.ArrayType)
			return ok
		case *ast.Ident:
			return t.Name == "nil"
		case *ast.CallExpr:
			if id, ok := t.Fun.(*ast.Ident); ok && id.Name == "make" {
				return true
			}
			if _, ok := t.Fun.(*ast.ArrayType); ok && len(t.Args) == 1 { // []T(nil)
				if id, ok := t.Args[0].(*ast.Ident); ok && id.Name == "nil" {
					return true
				}
			}
		case *ast.SliceExpr:
			if c, ok := t.X.(*ast.CallExpr); ok {
				if id, ok := c.Fun.(*ast.Ident); ok && id.Name == "make" {
					return true
				}
			}
			// x[:0:0] — no cells, no capacity: append onto it always allocates
			if t.Slice3 && t.Max != nil && types.ExprString(t.Max) == "0" {
				return true
			}
		}
		return false
	}
	// x.f[:n:n] / x.f[:len(x.f):len(x.f)]: same cells, but no spare capacity is handed over — an append by the
	// receiver allocates, and the giver's appends never write below its own len
	capped := func(e ast.Expr) (string, bool) {
		t, ok := e.(*ast.SliceExpr)
		if !ok || !t.Slice3 || t.High == nil || t.Max == nil || t.Low != nil {
			return "", false
		}
		_, txt, ok := fieldSel(t.X)
		if !ok || types.ExprString(t.High) != types.ExprString(t.Max) {
			return "", false
		}
		return txt, true
	}
	mentions := func(e ast.Expr) (string, bool) {
		found, txt := false, ""
		ast.Inspect(e, func(n ast.Node) bool {
			if s, ok := n.(*ast.SelectorExpr); ok && sliceName[s.Sel.Name] && !found {
				found, txt = true, types.ExprString(s)
			}
			return true
		})
		return txt, found
	}
	// classify the value stored into a slice field. lhsBase = text of the receiving object ("" in a literal).
	// returns how ("copied" | "aliased" | "" = not derived from another object's slice | "?" = unrecognised) and src
	var classify func(e ast.Expr, lhsBase string, locals map[string]ast.Expr, depth int) (string, string)
	classify = func(e ast.Expr, lhsBase string, locals map[string]ast.Expr, depth int) (string, string) {
		if p, ok := e.(*ast.ParenExpr); ok {
			return classify(p.X, lhsBase, locals, depth)
		}
		if fresh(e) {
			return "", ""
		}
		if txt, ok := capped(e); ok {
			return "copied", txt
		}
		if base, txt, ok := fieldSel(e); ok {
			if lhsBase != "" && base == lhsBase {
				return "", "" // the object's own slice (re-slicing itself)
			}
			return "aliased", txt
		}
		if id, ok := e.(*ast.Ident); ok {
			if v, ok := locals[id.Name]; ok && depth < 4 {
				return classify(v, lhsBase, locals, depth+1)
			}
			return "", ""
		}
		if c, ok := e.(*ast.CallExpr); ok {
			fun := types.ExprString(c.Fun)
			switch {
			case fun == "append" && len(c.Args) >= 1:
				if fresh(c.Args[0]) {
					for _, a := range c.Args[1:] {
						if txt, ok := mentions(a); ok && c.Ellipsis.IsValid() {
							return "copied", txt
						}
					}
					return "", ""
				}
				h, src := classify(c.Args[0], lhsBase, locals, depth+1)
				return h, src // append(x.f, …) keeps x.f's backing array when it has room
			case fun == "slices.Clone" && len(c.Args) == 1:
				if txt, ok := mentions(c.Args[0]); ok {
					return "copied", txt
				}
				return "", ""
			}
		}
		if txt, ok := mentions(e); ok {
			return "?", txt
		}
		return "", ""
	}

	for _, n := range names {
		for _, d := range files[n].Decls {
			fd, ok := d.(*ast.FuncDecl)
			if !ok || fd.Body == nil {
				continue
			}
			name := fd.Name.Name
			if fd.Recv != nil && len(fd.Recv.List) > 0 {
				name = strings.TrimPrefix(ex.TypeString(fd.Recv.List[0].Type), "*") + "." + name
			}
			// locals assigned exactly once from an expression (v := expr)
			locals := map[string]ast.Expr{}
			copiedInto := map[string]string{} // local filled by copy(local, x.f)
			ast.Inspect(fd.Body, func(m ast.Node) bool {
				switch t := m.(type) {
				case *ast.AssignStmt:
					if len(t.Lhs) == len(t.Rhs) {
						for i, l := range t.Lhs {
							if id, ok := l.(*ast.Ident); ok {
								if _, seen := locals[id.Name]; seen {
									// reassigned: keep the non-fresh one so that an alias is not hidden
									if fresh(locals[id.Name]) {
										locals[id.Name] = t.Rhs[i]
									}
								} else {
									locals[id.Name] = t.Rhs[i]
								}
							}
						}
					}
				case *ast.CallExpr:
					if id, ok := t.Fun.(*ast.Ident); ok && id.Name == "copy" && len(t.Args) == 2 {
						if dst, ok := t.Args[0].(*ast.Ident); ok {
							if txt, ok := mentions(t.Args[1]); ok {
								copiedInto[dst.Name] = txt
							}
						}
					}
				}
				return true
			})
			record := func(typ, field string, val ast.Expr, lhsBase string) {
				if id, ok := val.(*ast.Ident); ok {
					if src, ok := copiedInto[id.Name]; ok && fresh(locals[id.Name]) {
						facts = append(facts, deriveFact{name, typ, field, src, "copied"})
						return
					}
				}
				how, src := classify(val, lhsBase, locals, 0)
				switch how {
				case "copied", "aliased":
					facts = append(facts, deriveFact{name, typ, field, src, how})
				case "?":
					sh = append(sh, fmt.Sprintf("%s: %s.%s is set from an expression over %s that is neither a recognised copy nor the slice itself", name, typ, field, src))
				}
			}
			ast.Inspect(fd.Body, func(m ast.Node) bool {
				switch t := m.(type) {
				case *ast.CompositeLit:
					tn := strings.TrimPrefix(ex.TypeString(t.Type), "*")
					fs := sliceOf[tn]
					if fs == nil {
						return true
					}
					for _, el := range t.Elts {
						kv, ok := el.(*ast.KeyValueExpr)
						if !ok {
							if _, isSel := mentions(el); isSel {
								sh = append(sh, fmt.Sprintf("%s: positional literal of %s mentions a slice field", name, tn))
							}
							continue
						}
						k, ok := kv.Key.(*ast.Ident)
						if !ok || !fs[k.Name] {
							continue
						}
						record(tn, k.Name, kv.Value, "")
					}
				case *ast.AssignStmt:
					if len(t.Lhs) != len(t.Rhs) || (t.Tok != token.ASSIGN && t.Tok != token.DEFINE) {
						return true
					}
					for i, l := range t.Lhs {
						sel, ok := l.(*ast.SelectorExpr)
						if !ok || !sliceName[sel.Sel.Name] {
							continue
						}
						record("", sel.Sel.Name, t.Rhs[i], types.ExprString(sel.X))
					}
				}
				return true
			})
		}
	}
	if len(sliceFields) == 0 {
		sh = append(sh, "no struct of "+pkgDir+" has a slice-typed field")
	}
	sort.SliceStable(facts, func(i, j int) bool {
		if facts[i].fn != facts[j].fn {
			return facts[i].fn < facts[j].fn
		}
		return facts[i].field < facts[j].field
	})
	sort.Strings(sh)
	var sb strings.Builder
	sb.WriteString("import Model.MwTopo\n")
	sb.WriteString("/-! C13: every place where a slice-typed struct field is initialised / assigned from a slice-typed field of another object, and whether it gets a copy or the slice itself (source: std/net/http/*.go). -/\n")
	sb.WriteString("namespace Generated.C13\nopen Model.MwTopo\n\ndef derivedSlices : Facts := {\n  sliceFields := [")
	for i, s := range sliceFields {
		if i > 0 {
			sb.WriteString(", ")
		}
		sb.WriteString(ex.LeanString(s))
	}
	sb.WriteString("],\n  derives := [")
	for i, f := range facts {
		if i > 0 {
			sb.WriteString(",")
		}
		fmt.Fprintf(&sb, "\n    { fn := %s, typ := %s, field := %s, src := %s, how := .%s }", ex.LeanString(f.fn), ex.LeanString(f.typ), ex.LeanString(f.field), ex.LeanString(f.src), f.how)
	}
	sb.WriteString("],\n  shapeChanged := [")
	for i, s := range sh {
		if i > 0 {
			sb.WriteString(", ")
		}
		sb.WriteString(ex.LeanString(s))
	}
	sb.WriteString("] }\n\nend Generated.C13\n")
	if err := ex.WriteIfChanged(args.Out, "C13DerivedSlices.lean", sb.String()); err != nil {
		fmt.Fprintln(os.Stderr, "write:", err)
		os.Exit(1)
	}
	na := 0
	for _, f := range facts {
		if f.how == "aliased" {
			na++
		}
	}
	fmt.Printf("C13: %d slice-typed struct fields, %d derivations from another object's slice (%d aliased), %d shape notes\n", len(sliceFields), len(facts), na, len(sh))
}
