// extract/c13: regenerates lean/Generated/C13StatusSites.lean from std/net/http/*.go —
// the named fields of `bufferedWriter`; every place that (re)assigns its `status` field (plain or
// compound assignment, ++/--, composite literal) together with the fields that the function assigns
// itself or, transitively, through the bufferedWriter methods / package functions it calls; and every
// assignment to another field of the struct whose right-hand side or governing condition mentions the
// status or the value that is stored into the status (followed through locals and through arguments
// handed to package functions). go/ast only; nothing is executed.
package main

import (
	"fmt"
	"go/ast"
	"go/token"
	"os"
	"sort"
	"strings"

	"verif/extract/ex"
)

const pkgDir = "std/net/http"
const structName = "bufferedWriter"
const statusField = "status"

type fn struct {
	name   string // "Recv.Name" or "Name"
	decl   *ast.FuncDecl
	params []string // parameter names in order (receiver not included)
	recv   string   // receiver identifier ("" for plain functions)
	recvT  string   // receiver type without '*'
	// facts
	assigns      map[string]bool // fields of the struct assigned directly
	setsStatus   bool
	callees      map[string]bool // resolved package functions / bufferedWriter methods called
	taintedParam map[int]bool    // parameters known to carry the status value (from callers)
}

var shape []string

func changed(format string, a ...any) { shape = append(shape, fmt.Sprintf(format, a...)) }

func main() {
	args := ex.ParseArgs()
	_, files, err := ex.ParseDir(args.Repo, pkgDir)
	if err != nil {
		fmt.Fprintln(os.Stderr, "parse:", err)
		os.Exit(1)
	}
	names := make([]string, 0, len(files))
	for n := range files {
		names = append(names, n)
	}
	sort.Strings(names)

	// ---- struct types of the package: field name -> set of struct names; fields typed *bufferedWriter
	fieldOwners := map[string]map[string]bool{}
	bwFieldSel := map[string]bool{} // field names (of any struct) whose type is *bufferedWriter / bufferedWriter
	var bwFields []string
	found := false
	for _, n := range names {
		for _, d := range files[n].Decls {
			gd, ok := d.(*ast.GenDecl)
			if !ok || gd.Tok != token.TYPE {
				continue
			}
			for _, sp := range gd.Specs {
				ts := sp.(*ast.TypeSpec)
				st, ok := ts.Type.(*ast.StructType)
				if !ok {
					continue
				}
				for _, f := range st.Fields.List {
					t := strings.TrimPrefix(ex.TypeString(f.Type), "*")
					for _, id := range f.Names {
						if fieldOwners[id.Name] == nil {
							fieldOwners[id.Name] = map[string]bool{}
						}
						fieldOwners[id.Name][ts.Name.Name] = true
						if t == structName {
							bwFieldSel[id.Name] = true
						}
						if ts.Name.Name == structName {
							bwFields = append(bwFields, id.Name)
						}
					}
				}
				if ts.Name.Name == structName {
					found = true
				}
			}
		}
	}
	if !found {
		changed("struct %s not found in %s", structName, pkgDir)
	}
	isBwField := map[string]bool{}
	for _, f := range bwFields {
		isBwField[f] = true
	}
	if found && !isBwField[statusField] {
		changed("%s has no field %s", structName, statusField)
	}

	// ---- functions
	fns := map[string]*fn{}
	var order []string
	methodsOf := map[string]*fn{} // bufferedWriter method name -> fn
	plain := map[string]*fn{}
	for _, n := range names {
		for _, d := range files[n].Decls {
			fd, ok := d.(*ast.FuncDecl)
			if !ok || fd.Body == nil {
				continue
			}
			f := &fn{decl: fd, assigns: map[string]bool{}, callees: map[string]bool{}, taintedParam: map[int]bool{}}
			if fd.Recv != nil && len(fd.Recv.List) > 0 {
				f.recvT = strings.TrimPrefix(ex.TypeString(fd.Recv.List[0].Type), "*")
				if len(fd.Recv.List[0].Names) > 0 {
					f.recv = fd.Recv.List[0].Names[0].Name
				}
				f.name = f.recvT + "." + fd.Name.Name
			} else {
				f.name = fd.Name.Name
			}
			for _, p := range fd.Type.Params.List {
				if len(p.Names) == 0 {
					f.params = append(f.params, "_")
				}
				for _, id := range p.Names {
					f.params = append(f.params, id.Name)
				}
			}
			fns[f.name] = f
			order = append(order, f.name)
			if f.recvT == structName {
				methodsOf[fd.Name.Name] = f
			} else if f.recvT == "" {
				plain[fd.Name.Name] = f
			}
		}
	}
	sort.Strings(order)

	// bwTyped: is the expression (syntactically) a bufferedWriter value?
	// idents: receiver of a bufferedWriter method, parameter / result / var declared with that type,
	// local bound by `x := newBufferedWriter(…)` / `x, _ := beginResponse(…)` / `x, ok := w.(*bufferedWriter)`;
	// selectors: `<anything>.<field typed *bufferedWriter>`.
	typedIdents := func(f *fn) map[string]bool {
		m := map[string]bool{}
		if f.recvT == structName && f.recv != "" {
			m[f.recv] = true
		}
		addFL := func(fl *ast.FieldList) {
			if fl == nil {
				return
			}
			for _, p := range fl.List {
				if strings.TrimPrefix(ex.TypeString(p.Type), "*") == structName {
					for _, id := range p.Names {
						m[id.Name] = true
					}
				}
			}
		}
		addFL(f.decl.Type.Params)
		addFL(f.decl.Type.Results)
		ast.Inspect(f.decl.Body, func(n ast.Node) bool {
			switch t := n.(type) {
			case *ast.AssignStmt:
				if len(t.Rhs) == 1 && len(t.Lhs) >= 1 {
					if id, ok := t.Lhs[0].(*ast.Ident); ok {
						switch r := t.Rhs[0].(type) {
						case *ast.CallExpr:
							if c, ok := r.Fun.(*ast.Ident); ok && (c.Name == "newBufferedWriter" || c.Name == "beginResponse") {
								m[id.Name] = true
							}
						case *ast.TypeAssertExpr:
							if r.Type != nil && strings.TrimPrefix(ex.TypeString(r.Type), "*") == structName {
								m[id.Name] = true
							}
						case *ast.UnaryExpr:
							if cl, ok := r.X.(*ast.CompositeLit); ok && ex.TypeString(cl.Type) == structName {
								m[id.Name] = true
							}
						}
					}
				}
			case *ast.ValueSpec:
				if t.Type != nil && strings.TrimPrefix(ex.TypeString(t.Type), "*") == structName {
					for _, id := range t.Names {
						m[id.Name] = true
					}
				}
			}
			return true
		})
		return m
	}
	isBw := func(e ast.Expr, typed map[string]bool) bool {
		switch t := e.(type) {
		case *ast.Ident:
			return typed[t.Name]
		case *ast.SelectorExpr:
			return bwFieldSel[t.Sel.Name]
		case *ast.ParenExpr:
			return false
		}
		return false
	}
	// bwFieldOf: e is `X.f` with f a field of bufferedWriter and X a bufferedWriter value. A field name
	// that no other struct of the package declares is accepted whatever X is (an unexported field name
	// can only be this struct's); an ambiguous one with an unresolved X is reported as a changed shape.
	bwFieldOf := func(e ast.Expr, typed map[string]bool, where string) (string, bool) {
		s, ok := e.(*ast.SelectorExpr)
		if !ok || !isBwField[s.Sel.Name] {
			return "", false
		}
		if isBw(s.X, typed) {
			return s.Sel.Name, true
		}
		if len(fieldOwners[s.Sel.Name]) == 1 {
			return s.Sel.Name, true
		}
		changed("%s: cannot tell whether `%s` is a field of %s", where, ex.TypeString(s), structName)
		return "", false
	}

	// mentions: does the expression mention the status field of a bufferedWriter value or a tainted identifier?
	mentions := func(e ast.Node, typed, taint map[string]bool, where string) bool {
		hit := false
		if e == nil {
			return false
		}
		ast.Inspect(e, func(n ast.Node) bool {
			switch t := n.(type) {
			case *ast.SelectorExpr:
				if t.Sel.Name == statusField {
					if f, ok := bwFieldOf(t, typed, where); ok && f == statusField {
						hit = true
					}
				}
			case *ast.Ident:
				if taint[t.Name] {
					hit = true
				}
			case *ast.FuncLit:
				return false
			}
			return true
		})
		return hit
	}

	type derived struct{ field, fn, how string }
	var deriveds []derived
	type site struct {
		fn, kind string
		direct   map[string]bool
	}
	var sites []site

	// analyse one function under the current parameter taints; returns true when a callee's taint grew
	analyse := func(f *fn, record bool) bool {
		grew := false
		typed := typedIdents(f)
		// identifiers that carry the status value: stored into X.status, or read from it, or tainted parameters
		taint := map[string]bool{}
		for i := range f.taintedParam {
			if i < len(f.params) {
				taint[f.params[i]] = true
			}
		}
		// pass 1: identifiers on the right of `X.status = …`
		ast.Inspect(f.decl.Body, func(n ast.Node) bool {
			if as, ok := n.(*ast.AssignStmt); ok {
				for i, l := range as.Lhs {
					if fld, ok := bwFieldOf(l, typed, f.name); ok && fld == statusField {
						var r ast.Expr
						if len(as.Rhs) == len(as.Lhs) {
							r = as.Rhs[i]
						} else if len(as.Rhs) == 1 {
							r = as.Rhs[0]
						}
						if r != nil {
							for _, name := range freeIdents(r) {
								taint[name] = true
							}
						}
					}
				}
			}
			return true
		})
		// pass 2: propagate through locals to a fixpoint
		for changedT := true; changedT; {
			changedT = false
			ast.Inspect(f.decl.Body, func(n ast.Node) bool {
				switch t := n.(type) {
				case *ast.AssignStmt:
					for i, l := range t.Lhs {
						id, ok := l.(*ast.Ident)
						if !ok || id.Name == "_" || taint[id.Name] {
							continue
						}
						var r ast.Expr
						if len(t.Rhs) == len(t.Lhs) {
							r = t.Rhs[i]
						} else if len(t.Rhs) == 1 {
							r = t.Rhs[0]
						}
						if r != nil && mentions(r, typed, taint, f.name) {
							taint[id.Name] = true
							changedT = true
						}
					}
				case *ast.ValueSpec:
					for i, id := range t.Names {
						if taint[id.Name] || i >= len(t.Values) {
							continue
						}
						if mentions(t.Values[i], typed, taint, f.name) {
							taint[id.Name] = true
							changedT = true
						}
					}
				}
				return true
			})
		}
		// pass 3: walk statements with the stack of governing conditions
		var walk func(n ast.Node, cond bool)
		assignTo := func(l ast.Expr, rhs ast.Node, cond bool) {
			fld, ok := bwFieldOf(l, typed, f.name)
			if !ok {
				return
			}
			if record {
				f.assigns[fld] = true
			}
			if fld == statusField {
				if record {
					f.setsStatus = true
				}
				return
			}
			if !record {
				return
			}
			if rhs != nil && mentions(rhs, typed, taint, f.name) {
				deriveds = append(deriveds, derived{fld, f.name, "rhs"})
			} else if cond {
				deriveds = append(deriveds, derived{fld, f.name, "cond"})
			}
		}
		call := func(c *ast.CallExpr) {
			var callee *fn
			switch fun := c.Fun.(type) {
			case *ast.Ident:
				callee = plain[fun.Name]
			case *ast.SelectorExpr:
				if isBw(fun.X, typed) {
					callee = methodsOf[fun.Sel.Name]
				}
			}
			if callee == nil {
				return
			}
			if record {
				f.callees[callee.name] = true
			}
			for i, a := range c.Args {
				if mentions(a, typed, taint, f.name) && !callee.taintedParam[i] {
					callee.taintedParam[i] = true
					grew = true
				}
			}
		}
		walk = func(n ast.Node, cond bool) {
			if n == nil {
				return
			}
			switch t := n.(type) {
			case *ast.BlockStmt:
				if t == nil {
					return
				}
				for _, s := range t.List {
					walk(s, cond)
				}
			case *ast.IfStmt:
				walk(t.Init, cond)
				inspectCalls(t.Cond, call)
				c := cond || mentions(t.Cond, typed, taint, f.name)
				walk(t.Body, c)
				walk(t.Else, c)
			case *ast.SwitchStmt:
				walk(t.Init, cond)
				c := cond || mentions(t.Tag, typed, taint, f.name)
				for _, cc := range t.Body.List {
					cl := cc.(*ast.CaseClause)
					c2 := c
					for _, e := range cl.List {
						if mentions(e, typed, taint, f.name) {
							c2 = true
						}
					}
					// a later clause of a tagless switch also depends on the earlier conditions
					if c2 {
						c = true
					}
					for _, s := range cl.Body {
						walk(s, c2)
					}
				}
			case *ast.TypeSwitchStmt:
				for _, cc := range t.Body.List {
					for _, s := range cc.(*ast.CaseClause).Body {
						walk(s, cond)
					}
				}
			case *ast.ForStmt:
				walk(t.Init, cond)
				c := cond || mentions(t.Cond, typed, taint, f.name)
				walk(t.Post, c)
				walk(t.Body, c)
			case *ast.RangeStmt:
				walk(t.Body, cond || mentions(t.X, typed, taint, f.name))
			case *ast.LabeledStmt:
				walk(t.Stmt, cond)
			case *ast.SelectStmt:
				for _, cc := range t.Body.List {
					for _, s := range cc.(*ast.CommClause).Body {
						walk(s, cond)
					}
				}
			case *ast.AssignStmt:
				for i, l := range t.Lhs {
					var r ast.Node
					if len(t.Rhs) == len(t.Lhs) {
						r = t.Rhs[i]
					} else if len(t.Rhs) == 1 {
						r = t.Rhs[0]
					}
					if t.Tok != token.ASSIGN && t.Tok != token.DEFINE {
						// compound assignment: the old value is an input as well
						assignTo(l, t, cond)
					} else {
						assignTo(l, r, cond)
					}
				}
				for _, r := range t.Rhs {
					inspectCalls(r, call)
				}
			case *ast.IncDecStmt:
				assignTo(t.X, nil, cond)
			case *ast.ExprStmt:
				inspectCalls(t.X, call)
			case *ast.ReturnStmt:
				for _, r := range t.Results {
					inspectCalls(r, call)
				}
			case *ast.DeferStmt:
				inspectCalls(t.Call, call)
			case *ast.GoStmt:
				inspectCalls(t.Call, call)
			case *ast.DeclStmt:
				inspectCalls(t, call)
			}
		}
		walk(f.decl.Body, false)
		// composite literals of the struct anywhere in the function (closures included)
		if record {
			ast.Inspect(f.decl.Body, func(n ast.Node) bool {
				cl, ok := n.(*ast.CompositeLit)
				if !ok || cl.Type == nil || ex.TypeString(cl.Type) != structName {
					return true
				}
				d := map[string]bool{}
				for _, e := range cl.Elts {
					kv, ok := e.(*ast.KeyValueExpr)
					if !ok {
						changed("%s: positional composite literal of %s", f.name, structName)
						continue
					}
					if id, ok := kv.Key.(*ast.Ident); ok {
						d[id.Name] = true
					}
				}
				sites = append(sites, site{f.name, "literal", d})
				return true
			})
			// assignments inside closures are not walked with conditions; note them as plain assignments
			ast.Inspect(f.decl.Body, func(n ast.Node) bool {
				fl, ok := n.(*ast.FuncLit)
				if !ok {
					return true
				}
				ast.Inspect(fl.Body, func(m ast.Node) bool {
					if as, ok := m.(*ast.AssignStmt); ok {
						for i, l := range as.Lhs {
							var r ast.Node
							if len(as.Rhs) == len(as.Lhs) {
								r = as.Rhs[i]
							} else if len(as.Rhs) == 1 {
								r = as.Rhs[0]
							}
							assignTo(l, r, false)
						}
					}
					return true
				})
				return false
			})
		}
		return grew
	}

	// parameter taints to a fixpoint (at most a few rounds), then the recording pass
	for round := 0; round < 8; round++ {
		grew := false
		for _, n := range order {
			if analyse(fns[n], false) {
				grew = true
			}
		}
		if !grew {
			break
		}
	}
	shape = nil // the non-recording rounds report the same shapes again
	if !found {
		changed("struct %s not found in %s", structName, pkgDir)
	} else if !isBwField[statusField] {
		changed("%s has no field %s", structName, statusField)
	}
	for _, n := range order {
		analyse(fns[n], true)
	}

	// transitive closure of assigned fields over callees
	closure := func(f *fn) []string {
		seen := map[string]bool{}
		out := map[string]bool{}
		var rec func(g *fn)
		rec = func(g *fn) {
			if seen[g.name] {
				return
			}
			seen[g.name] = true
			for a := range g.assigns {
				out[a] = true
			}
			for c := range g.callees {
				if cf := fns[c]; cf != nil {
					rec(cf)
				}
			}
		}
		rec(f)
		var l []string
		for a := range out {
			l = append(l, a)
		}
		sort.Strings(l)
		return l
	}
	for _, n := range order {
		f := fns[n]
		if f.setsStatus {
			d := map[string]bool{}
			for _, a := range closure(f) {
				d[a] = true
			}
			sites = append(sites, site{f.name, "assign", d})
		}
	}
	nAssign := 0
	for _, s := range sites {
		if s.kind == "assign" {
			nAssign++
		}
	}
	if found && nAssign == 0 {
		changed("no assignment to %s.%s found", structName, statusField)
	}
	sort.SliceStable(sites, func(i, j int) bool {
		if sites[i].kind != sites[j].kind {
			return sites[i].kind < sites[j].kind
		}
		return sites[i].fn < sites[j].fn
	})
	sort.SliceStable(deriveds, func(i, j int) bool {
		if deriveds[i].field != deriveds[j].field {
			return deriveds[i].field < deriveds[j].field
		}
		if deriveds[i].fn != deriveds[j].fn {
			return deriveds[i].fn < deriveds[j].fn
		}
		return deriveds[i].how < deriveds[j].how
	})
	// dedupe
	var dd []derived
	for i, d := range deriveds {
		if i == 0 || d != deriveds[i-1] {
			dd = append(dd, d)
		}
	}
	sort.Strings(shape)
	var sh []string
	for i, s := range shape {
		if i == 0 || s != shape[i-1] {
			sh = append(sh, s)
		}
	}

	strs := func(l []string) string {
		q := make([]string, len(l))
		for i, s := range l {
			q[i] = ex.LeanString(s)
		}
		return "[" + strings.Join(q, ", ") + "]"
	}
	var sb strings.Builder
	sb.WriteString("import Model.RespCache\n")
	sb.WriteString("/-! C13: where `bufferedWriter.status` is assigned and which fields are computed from it (source: std/net/http/*.go). -/\n")
	sb.WriteString("namespace Generated.C13\nopen Model.RespCache\n\ndef facts : Facts := {\n")
	fmt.Fprintf(&sb, "  fields := %s,\n", strs(bwFields))
	sb.WriteString("  derived := [")
	for i, d := range dd {
		if i > 0 {
			sb.WriteString(",")
		}
		fmt.Fprintf(&sb, "\n    { field := %s, fn := %s, how := %s }", ex.LeanString(d.field), ex.LeanString(d.fn), ex.LeanString(d.how))
	}
	sb.WriteString("],\n  sites := [")
	for i, s := range sites {
		if i > 0 {
			sb.WriteString(",")
		}
		var l []string
		for a := range s.direct {
			l = append(l, a)
		}
		sort.Strings(l)
		fmt.Fprintf(&sb, "\n    { fn := %s, kind := %s, refreshes := %s }", ex.LeanString(s.fn), ex.LeanString(s.kind), strs(l))
	}
	fmt.Fprintf(&sb, "],\n  shapeChanged := %s }\n\nend Generated.C13\n", strs(sh))
	if err := ex.WriteIfChanged(args.Out, "C13StatusSites.lean", sb.String()); err != nil {
		fmt.Fprintln(os.Stderr, "write:", err)
		os.Exit(1)
	}
	layerEntries(args, names, files)
	derivedSlices(args, names, files)
	fmt.Printf("C13: %d fields, %d status sites (%d assigning), %d status-derived assignments, %d shape notes\n", len(bwFields), len(sites), nAssign, len(dd), len(sh))
}

func inspectCalls(n ast.Node, call func(*ast.CallExpr)) {
	if n == nil {
		return
	}
	ast.Inspect(n, func(m ast.Node) bool {
		switch t := m.(type) {
		case *ast.CallExpr:
			call(t)
		case *ast.FuncLit:
			return false
		}
		return true
	})
}

// freeIdents: the local identifiers an expression reads as values (not the base of a selector, not a
// called function name, not a package name / universe constant).
func freeIdents(e ast.Expr) []string {
	var out []string
	var rec func(n ast.Node)
	rec = func(n ast.Node) {
		switch t := n.(type) {
		case nil:
		case *ast.Ident:
			if t.Obj != nil && t.Name != "_" {
				out = append(out, t.Name)
			}
		case *ast.SelectorExpr:
			if _, ok := t.X.(*ast.Ident); !ok {
				rec(t.X)
			}
		case *ast.CallExpr:
			if _, ok := t.Fun.(*ast.Ident); !ok {
				rec(t.Fun)
			}
			for _, a := range t.Args {
				rec(a)
			}
		case *ast.FuncLit:
		case *ast.ParenExpr:
			rec(t.X)
		case *ast.UnaryExpr:
			rec(t.X)
		case *ast.BinaryExpr:
			rec(t.X)
			rec(t.Y)
		case *ast.IndexExpr:
			rec(t.X)
			rec(t.Index)
		case *ast.StarExpr:
			rec(t.X)
		case *ast.TypeAssertExpr:
			rec(t.X)
		case *ast.SliceExpr:
			rec(t.X)
		case *ast.CompositeLit:
			for _, el := range t.Elts {
				if kv, ok := el.(*ast.KeyValueExpr); ok {
					rec(kv.Value)
				} else {
					rec(el)
				}
			}
		}
	}
	rec(e)
	return out
}

// ---------------------------------------------------------------------------------------------
// layer entries: every function (declaration or function literal) that obtains the response through
// `beginResponse(…)`, whether the writer (first result) is bound to a name, and whether the same
// function body defers `<name>.commitPending()` (directly, or inside a deferred function literal).
// Writes lean/Generated/C13LayerEntries.lean.

const beginFn = "beginResponse"
const commitFn = "commitPending"

type layerEntry struct {
	fn            string
	binds, defers bool
}

func layerEntries(args ex.Args, names []string, files map[string]*ast.File) {
	var entries []layerEntry
	var sh []string
	foundBegin, foundCommit := false, false
	// scan one function body without descending into nested function literals (they are scopes of their own)
	var scope func(name string, body *ast.BlockStmt)
	scope = func(name string, body *ast.BlockStmt) {
		if body == nil {
			return
		}
		var writers []string // names bound to the first result of beginResponse
		calls, boundCalls := 0, 0
		deferred := map[string]bool{}
		nlit := 0
		var walk func(n ast.Node) bool
		isBegin := func(e ast.Expr) bool {
			c, ok := e.(*ast.CallExpr)
			if !ok {
				return false
			}
			id, ok := c.Fun.(*ast.Ident)
			return ok && id.Name == beginFn
		}
		commitRecv := func(c *ast.CallExpr) (string, bool) {
			sel, ok := c.Fun.(*ast.SelectorExpr)
			if !ok || sel.Sel.Name != commitFn {
				return "", false
			}
			if id, ok := sel.X.(*ast.Ident); ok {
				return id.Name, true
			}
			return "", false
		}
		walk = func(n ast.Node) bool {
			switch t := n.(type) {
			case *ast.FuncLit:
				nlit++
				scope(fmt.Sprintf("%s#%d", name, nlit), t.Body)
				return false
			case *ast.AssignStmt:
				if len(t.Rhs) == 1 && isBegin(t.Rhs[0]) {
					calls++
					boundCalls++
					if id, ok := t.Lhs[0].(*ast.Ident); ok && id.Name != "_" {
						writers = append(writers, id.Name)
					} else {
						writers = append(writers, "")
					}
				}
			case *ast.ValueSpec:
				if len(t.Values) == 1 && isBegin(t.Values[0]) {
					calls++
					boundCalls++
					if len(t.Names) > 0 && t.Names[0].Name != "_" {
						writers = append(writers, t.Names[0].Name)
					} else {
						writers = append(writers, "")
					}
				}
			case *ast.CallExpr:
				if isBegin(t) {
					calls++ // counted a second time when it is the right-hand side of an assignment; see below
				}
			case *ast.DeferStmt:
				if r, ok := commitRecv(t.Call); ok {
					deferred[r] = true
				}
				if fl, ok := t.Call.Fun.(*ast.FuncLit); ok {
					// defer func() { …; rw.commitPending(); … }()
					ast.Inspect(fl.Body, func(m ast.Node) bool {
						if c, ok := m.(*ast.CallExpr); ok {
							if r, ok := commitRecv(c); ok {
								deferred[r] = true
							}
						}
						return true
					})
					return false
				}
			}
			return true
		}
		ast.Inspect(body, walk)
		// every bound call was seen twice (as the assignment and as the call expression)
		if calls-2*boundCalls > 0 {
			sh = append(sh, fmt.Sprintf("%s: %s(…) used outside `x, y := %s(…)`", name, beginFn, beginFn))
		}
		for _, w := range writers {
			foundBegin = true
			e := layerEntry{fn: name, binds: w != "", defers: w != "" && deferred[w]}
			if e.defers {
				foundCommit = true
			}
			entries = append(entries, e)
		}
	}
	for _, n := range names {
		for _, d := range files[n].Decls {
			fd, ok := d.(*ast.FuncDecl)
			if !ok || fd.Body == nil {
				continue
			}
			name := fd.Name.Name
			if fd.Recv != nil && len(fd.Recv.List) > 0 {
				name = strings.TrimPrefix(ex.TypeString(fd.Recv.List[0].Type), "*") + "." + name
			}
			if fd.Recv == nil && fd.Name.Name == beginFn {
				continue // the definition itself
			}
			scope(name, fd.Body)
		}
	}
	if !foundBegin {
		sh = append(sh, fmt.Sprintf("no function of %s obtains a response through %s", pkgDir, beginFn))
	} else if !foundCommit {
		sh = append(sh, fmt.Sprintf("no function of %s defers %s on the writer it obtained", pkgDir, commitFn))
	}
	sort.SliceStable(entries, func(i, j int) bool { return entries[i].fn < entries[j].fn })
	sort.Strings(sh)
	b := func(v bool) string {
		if v {
			return "true"
		}
		return "false"
	}
	var sb strings.Builder
	sb.WriteString("import Model.RespLayer\n")
	sb.WriteString("/-! C13: every function that obtains the response through `beginResponse` and whether it defers `commitPending` on it (source: std/net/http/*.go). -/\n")
	sb.WriteString("namespace Generated.C13\nopen Model.RespLayer\n\ndef layerEntries : EntryFacts := {\n  entries := [")
	for i, e := range entries {
		if i > 0 {
			sb.WriteString(",")
		}
		fmt.Fprintf(&sb, "\n    { fn := %s, binds := %s, defers := %s }", ex.LeanString(e.fn), b(e.binds), b(e.defers))
	}
	sb.WriteString("],\n  shapeChanged := [")
	for i, s := range sh {
		if i > 0 {
			sb.WriteString(", ")
		}
		sb.WriteString(ex.LeanString(s))
	}
	sb.WriteString("] }\n\nend Generated.C13\n")
	if err := ex.WriteIfChanged(args.Out, "C13LayerEntries.lean", sb.String()); err != nil {
		fmt.Fprintln(os.Stderr, "write:", err)
		os.Exit(1)
	}
	nc := 0
	for _, e := range entries {
		if e.defers {
			nc++
		}
	}
	fmt.Printf("C13: %d layer entries (%d defer %s), %d shape notes\n", len(entries), nc, commitFn, len(sh))
}
