// extract/c10: regenerates lean/Generated/C10VmLocks.lean from runtime/vm.go and
// lean/Generated/C10PathLocks.lean from parser/class_path_manager.go — one fact table
// per mutex-protected registry on the class / interface / function resolution path
// (see `registries`); any other struct or package-level variable with a mutex in
// those packages is reported as a shape fact.
//
// For every method of the registry's type it walks the body in source order, tracking which
// half of the registry's mutex is held at each program point (none / RLock / Lock, including
// `defer vm.mu.Unlock()`), and records
//   - every access to one of the registry maps (read: index, range, len;
//     write: index assignment, delete, any other use) with the lock held there;
//   - every call made while the lock is held, classified as
//     "reentrant" (a *VM method that takes vm.mu itself, directly or through
//     other *VM methods), "loader" (can reach class loading / parsing / running
//     user code: LoadClass, LoadAndRun, …, or a call through a function value),
//     or "other".
//
// A *VM method that never touches vm.mu and is unexported inherits the weakest
// lock mode over its call sites in the package (a helper running under its
// caller's lock); an exported one is reachable from anywhere, so it runs under
// none. Anything the walker does not understand becomes a `shape` entry,
// which fails the obligation (harmless refactors can therefore alarm; the
// stress search then decides whether it is a violation).
package main

import (
	"fmt"
	"go/ast"
	"go/token"
	"os"
	"sort"
	"strings"

	"verif/extract/ex"
)

// registry: one mutex-protected structure that name resolution goes through.
type registry struct {
	out        string          // generated module: lean/Generated/<out>.lean
	doc        string          // module doc comment
	dir, file  string          // package directory and file of the methods
	typ        string          // receiver type
	mutex      string          // name of the sync.RWMutex field
	fields     map[string]bool // guarded fields reached as recv.<field> (maps)
	nodeType   string          // type of the nodes of the guarded graph ("" = none)
	nodeFields map[string]bool // guarded fields of nodeType, reached through ANY expression (x.children, x.paths)
	frozen     map[string]bool // fields that are only assigned in the constructor (read without the lock)
	outside    map[string]bool // fields that are outside C10's statement (listed in props/C10.json assumptions)
	ctor       string          // constructor: the value is not shared yet
	unsync     bool            // report scalar fields assigned with no lock
}

// Auxiliary state.  Every field of the registry's type that is none of: a guarded field, the mutex,
// frozen, outside the statement — and every package-level variable of the package — is *auxiliary*:
// state the translator has no table for.  When a method on the resolution path (one that reaches a
// guarded field, directly or through other methods of the type) touches it, the answer of a lookup can
// depend on it, so each such access is recorded (`auxFacts`) with the half of the mutex held there,
// whether the field's type synchronises itself (sync.Map, atomic.*), and whether the same critical
// section of the same method also accesses a guarded field.  `Model.Memo.auxViolations` states the
// discipline: plain state obeys the lock like a guarded map; a self-synchronised container may be READ
// anywhere but is UPDATED only inside a critical section that also accesses the registry (so that what
// it records was true of the registry when it was recorded, and every invalidation is ordered with the
// registry write).
type auxFact struct {
	method, field, kind string
	held                mode
	sec                 int // number of the critical section inside the method (0: the mode on entry)
	sync, withReg       bool
}

var registries = []*registry{
	{out: "C10VmLocks", dir: "runtime", file: "vm.go", typ: "VM", mutex: "mu", ctor: "NewVM", unsync: true,
		frozen: map[string]bool{"parser": true, "ctx": true},
		outside: map[string]bool{"acl": true, "exceptionHandler": true, "inExceptionHandler": true, "shutdownCallbacks": true,
			"shutdownRunOnce": true, "callDepth": true, "httpRoutes": true},
		doc: "Lock facts of `runtime/vm.go`: per method of `*VM`, every access to a registry map with\nthe half of `vm.mu` held at that point, and every call made while the lock is held.",
		fields: map[string]bool{"classMap": true, "interfaceMap": true, "funcMap": true, "constantMap": true,
			"globalVars": true, "phpFileCache": true, "compiledFiles": true}},
	{out: "C10PathLocks", dir: "parser", file: "class_path_manager.go", typ: "DefaultClassPathManager", mutex: "mu", ctor: "NewDefaultClassPathManager",
		doc:    "Lock facts of `parser/class_path_manager.go` (the class-path manager every parser clone, VM and TempVM of the\nprocess shares): per method of `*DefaultClassPathManager`, every access to the namespace tree — the `children`\nmap and the `paths` slice of any `NamespaceNode` — with the half of `m.mu` held at that point (helpers such as\n`findNamespaceNode`, which memoises discovered sub-namespaces, inherit the lock of their call sites), and\nevery call made while the lock is held.",
		fields: map[string]bool{}, nodeType: "NamespaceNode", nodeFields: map[string]bool{"children": true, "paths": true},
		frozen: map[string]bool{"root": true}},
}

// packages on the resolution path that are searched for mutexes the translator does not know
var pathPackages = []string{"parser", "runtime"}

// set for the registry being analysed
var reg *registry
var maps map[string]bool

var loaders = map[string]bool{"LoadClass": true, "LoadAndRun": true, "CompileLoad": true, "ParseFile": true,
	"ParseString": true, "CallAutoLoad": true, "GetOrLoadClass": true, "GetOrLoadInterface": true, "LoadPkg": true,
	"RunCompiledFile": true, "EvalCode": true, "GetValue": true, "Call": true, "ThrowControl": true}

var builtins = map[string]bool{"len": true, "cap": true, "make": true, "append": true, "delete": true, "copy": true,
	"new": true, "panic": true, "recover": true, "string": true, "int": true, "int64": true, "bool": true, "min": true, "max": true}

type mode int

const (
	mNone mode = iota
	mR
	mW
)

func (m mode) lean() string { return [...]string{".none", ".R", ".W"}[m] }

func weakest(a, b mode) mode {
	if a == mNone || b == mNone {
		return mNone
	}
	if a == mR || b == mR {
		return mR
	}
	return mW
}

type fact struct {
	method, mp, kind string
	held             mode
}

// set for the registry being analysed: auxiliary fields (name → self-synchronised?), package-level variables
var auxFields map[string]bool // auxiliary field of the registry type → its type synchronises itself
var pkgVars map[string]bool   // package-level variable of the package → its type synchronises itself
var topSpecs map[any]bool

var syncReaders = map[string]bool{"Load": true, "Range": true, "Len": true}

type call struct {
	method, callee string
	held           mode
	last           string // final selector / identifier
	onRecv         bool   // vm.<last>(…)
	plainIdent     bool
	sec            int // critical section of the caller in which the call is made
}

type walker struct {
	recv     string
	method   string
	facts    []fact
	calls    []call // every call, with the mode at the call site
	shape    []string
	usesMu   bool
	deferred bool
	cur      mode // mode at the expression being walked (for isMap's walk of the node expression)
	pkgFuncs map[string]bool
	sec      int          // critical sections entered so far in this method
	aux      []auxFact    // accesses of auxiliary state
	regSecs  map[int]bool // sections (by number) in which a guarded field is accessed
}

// isAux recognises recv.<auxiliary field> and package-level variables of the package
func (w *walker) isAux(e ast.Expr) (string, bool) {
	switch t := e.(type) {
	case *ast.SelectorExpr:
		if id, ok := t.X.(*ast.Ident); ok && id.Name == w.recv {
			if _, ok := auxFields[t.Sel.Name]; ok {
				return t.Sel.Name, true
			}
		}
	case *ast.Ident:
		if _, ok := pkgVars[t.Name]; ok && (t.Obj == nil || (t.Obj.Kind == ast.Var && topSpecs[t.Obj.Decl])) {
			return "var " + t.Name, true
		}
	}
	return "", false
}

func (w *walker) auxAccess(name, kind string, m mode) {
	sec := w.sec
	if m == mNone {
		sec = -1
	}
	sync := auxFields[name]
	if strings.HasPrefix(name, "var ") {
		sync = pkgVars[name[4:]]
	}
	w.aux = append(w.aux, auxFact{method: w.method, field: name, kind: kind, held: m, sec: sec, sync: sync})
}

func (w *walker) addFact(f fact) {
	w.facts = append(w.facts, f)
	if f.held != mNone {
		if w.regSecs == nil {
			w.regSecs = map[int]bool{}
		}
		w.regSecs[w.sec] = true
	}
}

func (w *walker) bad(pos token.Pos, fset *token.FileSet, what string) {
	w.shape = append(w.shape, fmt.Sprintf("%s: %s", w.method, what))
}

// muCall recognises vm.mu.Lock() etc.
func (w *walker) muCall(e ast.Expr) string {
	c, ok := e.(*ast.CallExpr)
	if !ok {
		return ""
	}
	s, ok := c.Fun.(*ast.SelectorExpr)
	if !ok {
		return ""
	}
	in, ok := s.X.(*ast.SelectorExpr)
	if !ok || in.Sel.Name != reg.mutex {
		return ""
	}
	if id, ok := in.X.(*ast.Ident); !ok || id.Name != w.recv {
		return ""
	}
	return s.Sel.Name
}

func (w *walker) isMap(e ast.Expr) (string, bool) {
	s, ok := e.(*ast.SelectorExpr)
	if !ok {
		return "", false
	}
	if reg.nodeFields[s.Sel.Name] {
		// a field of a node of the guarded graph, whatever expression denotes the node
		w.expr(s.X, w.cur, false)
		return s.Sel.Name, true
	}
	id, ok := s.X.(*ast.Ident)
	if !ok || id.Name != w.recv || !maps[s.Sel.Name] {
		return "", false
	}
	return s.Sel.Name, true
}

func exprString(e ast.Expr) string {
	switch t := e.(type) {
	case *ast.Ident:
		return t.Name
	case *ast.SelectorExpr:
		return exprString(t.X) + "." + t.Sel.Name
	case *ast.CallExpr:
		return exprString(t.Fun) + "()"
	case *ast.ParenExpr:
		return exprString(t.X)
	case *ast.IndexExpr:
		return exprString(t.X) + "[]"
	case *ast.TypeAssertExpr:
		return exprString(t.X) + ".(T)"
	case *ast.FuncLit:
		return "func-literal"
	}
	return fmt.Sprintf("%T", e)
}

// expr records the accesses and calls inside an expression evaluated under m.
// lhs: the expression is the target of an assignment.
func (w *walker) expr(e ast.Expr, m mode, lhs bool) {
	w.cur = m
	switch t := e.(type) {
	case nil:
	case *ast.IndexExpr:
		if mp, ok := w.isMap(t.X); ok {
			k := "rd"
			if lhs {
				k = "wr"
			}
			w.addFact(fact{w.method, mp, k, m})
			w.expr(t.Index, m, false)
			return
		}
		if ax, ok := w.isAux(t.X); ok {
			k := "rd"
			if lhs {
				k = "wr"
			}
			w.auxAccess(ax, k, m)
			w.expr(t.Index, m, false)
			return
		}
		w.expr(t.X, m, lhs)
		w.expr(t.Index, m, false)
	case *ast.SelectorExpr:
		if mp, ok := w.isMap(t); ok {
			// the map value itself escapes or is replaced: treat as a write
			w.addFact(fact{w.method, mp, "wr", m})
			return
		}
		if ax, ok := w.isAux(t); ok {
			k := "rd"
			if lhs {
				k = "wr"
			}
			w.auxAccess(ax, k, m)
			return
		}
		w.expr(t.X, m, false)
	case *ast.CallExpr:
		if w.muCall(t) != "" {
			w.shape = append(w.shape, w.method+": vm.mu call inside an expression")
			return
		}
		if id, ok := t.Fun.(*ast.Ident); ok && (id.Name == "len" || id.Name == "delete") && len(t.Args) > 0 {
			if mp, ok := w.isMap(t.Args[0]); ok {
				k := "rd"
				if id.Name == "delete" {
					k = "wr"
				}
				w.addFact(fact{w.method, mp, k, m})
				for _, a := range t.Args[1:] {
					w.expr(a, m, false)
				}
				return
			}
		}
		c := call{method: w.method, callee: exprString(t.Fun), held: m, sec: w.sec}
		switch f := t.Fun.(type) {
		case *ast.Ident:
			c.last, c.plainIdent = f.Name, true
		case *ast.SelectorExpr:
			c.last = f.Sel.Name
			if id, ok := f.X.(*ast.Ident); ok && id.Name == w.recv {
				c.onRecv = true
			}
			if ax, ok := w.isAux(f.X); ok {
				// a method of the auxiliary value: Load / Range / Len read it, anything else may change it
				k := "wr"
				if syncReaders[f.Sel.Name] {
					k = "rd"
				}
				w.auxAccess(ax, k, m)
				for _, a := range t.Args {
					w.expr(a, m, false)
				}
				return
			}
			w.expr(f.X, m, false)
		default:
			c.last = "?"
			w.expr(t.Fun, m, false)
		}
		if !(c.plainIdent && builtins[c.last]) {
			w.calls = append(w.calls, c)
		}
		for _, a := range t.Args {
			w.expr(a, m, false)
		}
	case *ast.FuncLit:
		// runs synchronously in every use inside vm.go (sort.Slice comparators, acl callbacks are only stored)
		w.block(t.Body.List, m)
	case *ast.BinaryExpr:
		w.expr(t.X, m, false)
		w.expr(t.Y, m, false)
	case *ast.UnaryExpr:
		if ax, ok := w.isAux(t.X); ok && t.Op == token.AND {
			w.auxAccess(ax, "wr", m) // the address escapes
			return
		}
		w.expr(t.X, m, false)
	case *ast.StarExpr:
		w.expr(t.X, m, false)
	case *ast.ParenExpr:
		w.expr(t.X, m, lhs)
	case *ast.TypeAssertExpr:
		w.expr(t.X, m, false)
	case *ast.SliceExpr:
		w.expr(t.X, m, false)
		w.expr(t.Low, m, false)
		w.expr(t.High, m, false)
		w.expr(t.Max, m, false)
	case *ast.CompositeLit:
		for _, el := range t.Elts {
			w.expr(el, m, false)
		}
	case *ast.KeyValueExpr:
		w.expr(t.Key, m, false)
		w.expr(t.Value, m, false)
	case *ast.Ident:
		if ax, ok := w.isAux(t); ok {
			k := "rd"
			if lhs {
				k = "wr"
			}
			w.auxAccess(ax, k, m)
		}
	case *ast.BasicLit, *ast.ArrayType, *ast.MapType, *ast.FuncType, *ast.InterfaceType, *ast.StructType, *ast.ChanType:
	default:
		w.shape = append(w.shape, fmt.Sprintf("%s: unhandled expression %T", w.method, e))
	}
}

func terminates(stmts []ast.Stmt) bool {
	if len(stmts) == 0 {
		return false
	}
	_, ok := stmts[len(stmts)-1].(*ast.ReturnStmt)
	return ok
}

// block walks statements in order and returns the mode after them.
func (w *walker) block(stmts []ast.Stmt, m mode) mode {
	sub := func(body []ast.Stmt, entry mode) {
		out := w.block(body, entry)
		if out != entry && !terminates(body) {
			w.shape = append(w.shape, w.method+": lock state changes inside a nested block")
		}
	}
	for _, st := range stmts {
		switch s := st.(type) {
		case *ast.ExprStmt:
			switch w.muCall(s.X) {
			case "Lock":
				w.usesMu = true
				if m != mNone {
					w.shape = append(w.shape, w.method+": Lock while already holding vm.mu")
				}
				m = mW
				w.sec++
			case "RLock":
				w.usesMu = true
				if m != mNone {
					w.shape = append(w.shape, w.method+": RLock while already holding vm.mu")
				}
				m = mR
				w.sec++
			case "Unlock":
				if m != mW || w.deferred {
					w.shape = append(w.shape, w.method+": Unlock without matching Lock")
				}
				m = mNone
			case "RUnlock":
				if m != mR || w.deferred {
					w.shape = append(w.shape, w.method+": RUnlock without matching RLock")
				}
				m = mNone
			case "":
				w.expr(s.X, m, false)
			default:
				w.shape = append(w.shape, w.method+": unexpected vm.mu."+w.muCall(s.X))
			}
		case *ast.DeferStmt:
			switch w.muCall(s.Call) {
			case "Unlock":
				if m != mW {
					w.shape = append(w.shape, w.method+": defer Unlock without Lock")
				}
				w.deferred = true
			case "RUnlock":
				if m != mR {
					w.shape = append(w.shape, w.method+": defer RUnlock without RLock")
				}
				w.deferred = true
			case "":
				// a deferred call runs at return, while a deferred unlock has not yet happened
				// only if it was deferred later; approximate with the current mode and refuse
				// deferred code that touches the maps
				before := len(w.facts)
				w.expr(s.Call, m, false)
				if len(w.facts) != before {
					w.shape = append(w.shape, w.method+": deferred code touches a registry map")
				}
			default:
				w.shape = append(w.shape, w.method+": unexpected deferred vm.mu call")
			}
		case *ast.GoStmt:
			before := len(w.facts)
			w.expr(s.Call, mNone, false)
			if len(w.facts) != before {
				w.shape = append(w.shape, w.method+": goroutine body touches a registry map")
			}
		case *ast.AssignStmt:
			for _, r := range s.Rhs {
				w.expr(r, m, false)
			}
			for _, l := range s.Lhs {
				w.expr(l, m, true)
			}
		case *ast.IncDecStmt:
			w.expr(s.X, m, true)
		case *ast.ReturnStmt:
			for _, r := range s.Results {
				w.expr(r, m, false)
			}
		case *ast.DeclStmt:
			if gd, ok := s.Decl.(*ast.GenDecl); ok {
				for _, sp := range gd.Specs {
					if vs, ok := sp.(*ast.ValueSpec); ok {
						for _, v := range vs.Values {
							w.expr(v, m, false)
						}
					}
				}
			}
		case *ast.BlockStmt:
			sub(s.List, m)
		case *ast.IfStmt:
			if s.Init != nil {
				m = w.block([]ast.Stmt{s.Init}, m)
			}
			w.expr(s.Cond, m, false)
			sub(s.Body.List, m)
			switch e := s.Else.(type) {
			case *ast.BlockStmt:
				sub(e.List, m)
			case *ast.IfStmt:
				sub([]ast.Stmt{e}, m)
			}
		case *ast.ForStmt:
			if s.Init != nil {
				m = w.block([]ast.Stmt{s.Init}, m)
			}
			w.expr(s.Cond, m, false)
			if s.Post != nil {
				w.block([]ast.Stmt{s.Post}, m)
			}
			sub(s.Body.List, m)
		case *ast.RangeStmt:
			w.cur = m
			if mp, ok := w.isMap(s.X); ok {
				w.addFact(fact{w.method, mp, "rd", m})
			} else {
				w.expr(s.X, m, false)
			}
			sub(s.Body.List, m)
		case *ast.SwitchStmt:
			if s.Init != nil {
				m = w.block([]ast.Stmt{s.Init}, m)
			}
			w.expr(s.Tag, m, false)
			for _, cc := range s.Body.List {
				c := cc.(*ast.CaseClause)
				for _, e := range c.List {
					w.expr(e, m, false)
				}
				sub(c.Body, m)
			}
		case *ast.TypeSwitchStmt:
			if s.Init != nil {
				m = w.block([]ast.Stmt{s.Init}, m)
			}
			switch a := s.Assign.(type) {
			case *ast.AssignStmt:
				for _, r := range a.Rhs {
					w.expr(r, m, false)
				}
			case *ast.ExprStmt:
				w.expr(a.X, m, false)
			}
			for _, cc := range s.Body.List {
				sub(cc.(*ast.CaseClause).Body, m)
			}
		case *ast.BranchStmt, *ast.EmptyStmt:
		case *ast.LabeledStmt:
			m = w.block([]ast.Stmt{s.Stmt}, m)
		default:
			w.shape = append(w.shape, fmt.Sprintf("%s: unhandled statement %T", w.method, st))
		}
	}
	return m
}

func main() {
	a := ex.ParseArgs()
	for _, r := range registries {
		analyse(a, r)
	}
	publishFacts(a)
	lockNameFacts(a)
}

// structs and package-level variables of the resolution-path packages that carry a mutex
func unknownMutexes(repo string) []string {
	known := map[string]bool{}
	for _, r := range registries {
		known[r.dir+"."+r.typ] = true
	}
	isMutex := func(e ast.Expr) bool {
		t := ex.TypeString(e)
		return t == "sync.Mutex" || t == "sync.RWMutex" || t == "*sync.Mutex" || t == "*sync.RWMutex"
	}
	hasMutex := func(st *ast.StructType) bool {
		for _, f := range st.Fields.List {
			if isMutex(f.Type) {
				return true
			}
		}
		return false
	}
	var out []string
	for _, dir := range pathPackages {
		_, files, err := ex.ParseDir(repo, dir)
		if err != nil {
			out = append(out, dir+": package could not be parsed")
			continue
		}
		for name, f := range files {
			for _, d := range f.Decls {
				gd, ok := d.(*ast.GenDecl)
				if !ok {
					continue
				}
				for _, sp := range gd.Specs {
					switch t := sp.(type) {
					case *ast.TypeSpec:
						if st, ok := t.Type.(*ast.StructType); ok && hasMutex(st) && !known[dir+"."+t.Name.Name] {
							out = append(out, fmt.Sprintf("%s/%s: struct %s has a mutex the translator does not know", dir, name, t.Name.Name))
						}
					case *ast.ValueSpec:
						bad := t.Type != nil && isMutex(t.Type)
						if st, ok := t.Type.(*ast.StructType); ok && hasMutex(st) {
							bad = true
						}
						for _, v := range t.Values {
							if cl, ok := v.(*ast.CompositeLit); ok {
								if st, ok := cl.Type.(*ast.StructType); ok && hasMutex(st) {
									bad = true
								}
							}
						}
						if bad && gd.Tok == token.VAR {
							out = append(out, fmt.Sprintf("%s/%s: package-level variable %s has a mutex the translator does not know", dir, name, t.Names[0].Name))
						}
					}
				}
			}
		}
	}
	return out
}

func analyse(a ex.Args, r *registry) {
	reg, maps = r, r.fields
	apiFacts, auxOut, auxDeclOut = nil, nil, nil
	var shape []string
	fset, files, err := ex.ParseDir(a.Repo, r.dir)
	if err != nil || files[r.file] == nil {
		shape = append(shape, r.dir+"/"+r.file+" could not be parsed")
		write(a.Out, nil, nil, shape, nil)
		return
	}
	_ = fset
	if r.nodeType != "" { // the registry added by the resolution-path generalisation also reports unknown mutexes
		shape = append(shape, unknownMutexes(a.Repo)...)
	}
	pkgFuncs := map[string]bool{}
	auxFields, pkgVars, topSpecs = map[string]bool{}, map[string]bool{}, map[any]bool{}
	selfSync := func(t string) bool {
		t = strings.TrimPrefix(t, "*")
		return t == "sync.Map" || strings.HasPrefix(t, "atomic.")
	}
	var auxDecl []string // "<field> <type>" of every auxiliary field / package-level variable (reported only)
	for _, f := range files {
		for _, d := range f.Decls {
			if fd, ok := d.(*ast.FuncDecl); ok && fd.Recv == nil {
				pkgFuncs[fd.Name.Name] = true
			}
			if gd, ok := d.(*ast.GenDecl); ok && gd.Tok == token.VAR {
				for _, sp := range gd.Specs {
					vs := sp.(*ast.ValueSpec)
					topSpecs[vs] = true
					for _, n := range vs.Names {
						if n.Name == "_" {
							continue
						}
						ty := "?"
						if vs.Type != nil {
							ty = ex.TypeString(vs.Type)
						}
						pkgVars[n.Name] = selfSync(ty)
					}
				}
			}
		}
	}

	// do the structs still look as expected?
	foundMu, foundNode := false, r.nodeType == ""
	ast.Inspect(files[r.file], func(n ast.Node) bool {
		ts, ok := n.(*ast.TypeSpec)
		if !ok || (ts.Name.Name != r.typ && ts.Name.Name != r.nodeType) {
			return true
		}
		st, ok := ts.Type.(*ast.StructType)
		if !ok {
			return true
		}
		have := map[string]string{}
		for _, f := range st.Fields.List {
			for _, n := range f.Names {
				have[n.Name] = ex.TypeString(f.Type)
			}
		}
		container := func(t string) bool { return strings.HasPrefix(t, "map[") || strings.HasPrefix(t, "[]") }
		if ts.Name.Name == r.typ {
			foundMu = have[r.mutex] == "sync.RWMutex"
			for m := range maps {
				if !strings.HasPrefix(have[m], "map[") {
					shape = append(shape, r.typ+"."+m+" is not a map field any more")
				}
			}
			for n, t := range have {
				if n != r.mutex && !maps[n] && !r.frozen[n] && !r.outside[n] {
					auxFields[n] = selfSync(t)
					auxDecl = append(auxDecl, n+" "+t)
				}
				if strings.HasPrefix(t, "map[") && !maps[n] {
					shape = append(shape, r.typ+"."+n+" is a map the translator does not know")
				}
				if r.nodeType != "" && n != r.mutex && !r.frozen[n] && !maps[n] {
					shape = append(shape, r.typ+"."+n+" is a field the translator does not know")
				}
			}
			for n := range r.frozen {
				if have[n] == "" {
					shape = append(shape, r.typ+"."+n+" not found")
				}
			}
		} else {
			foundNode = true
			for m := range r.nodeFields {
				if !container(have[m]) {
					shape = append(shape, r.nodeType+"."+m+" is not a map / slice field any more")
				}
			}
			for n, t := range have {
				if (container(t) || strings.HasPrefix(t, "*")) && !r.nodeFields[n] {
					shape = append(shape, r.nodeType+"."+n+" is a container / pointer field the translator does not know")
				}
			}
		}
		return false
	})
	if !foundMu {
		shape = append(shape, r.typ+"."+r.mutex+" sync.RWMutex not found")
	}
	if !foundNode {
		shape = append(shape, "type "+r.nodeType+" not found")
	}

	// walk every method of the type in its file; entry mode none first
	type meth struct {
		fd   *ast.FuncDecl
		recv string
	}
	isMethod := func(fd *ast.FuncDecl) bool {
		return fd.Recv != nil && len(fd.Recv.List) == 1 && strings.TrimPrefix(ex.TypeString(fd.Recv.List[0].Type), "*") == r.typ
	}
	var methods []meth
	for _, d := range files[r.file].Decls {
		fd, ok := d.(*ast.FuncDecl)
		if !ok || fd.Recv == nil || fd.Body == nil || len(fd.Recv.List) != 1 {
			continue
		}
		if !isMethod(fd) {
			continue
		}
		rc := "_"
		if len(fd.Recv.List[0].Names) == 1 {
			rc = fd.Recv.List[0].Names[0].Name
		}
		methods = append(methods, meth{fd, rc})
	}
	// guarded fields touched outside the methods of the type in its file?
	for name, f := range files {
		ast.Inspect(f, func(n ast.Node) bool {
			if fd, ok := n.(*ast.FuncDecl); ok && name == r.file && fd.Recv != nil && isMethod(fd) {
				return false
			}
			if fd, ok := n.(*ast.FuncDecl); ok && name == r.file && fd.Name.Name == r.ctor {
				return false // construction: the value is not shared yet
			}
			if s, ok := n.(*ast.SelectorExpr); ok && (maps[s.Sel.Name] || (r.nodeFields[s.Sel.Name] && name == r.file)) {
				shape = append(shape, fmt.Sprintf("%s: registry map %s used outside the *%s methods of %s", name, s.Sel.Name, r.typ, r.file))
			}
			return true
		})
	}
	// auxiliary fields used outside the methods of the type in its file (by field name, on any expression)
	for name, f := range files {
		ast.Inspect(f, func(n ast.Node) bool {
			if fd, ok := n.(*ast.FuncDecl); ok && name == r.file && ((fd.Recv != nil && isMethod(fd)) || fd.Name.Name == r.ctor) {
				return false
			}
			if s, ok := n.(*ast.SelectorExpr); ok {
				if _, isAux := auxFields[s.Sel.Name]; isAux {
					shape = append(shape, fmt.Sprintf("%s: auxiliary field %s of %s used outside the *%s methods of %s", name, s.Sel.Name, r.typ, r.typ, r.file))
				}
			}
			return true
		})
	}
	// node fields in other files of the package: only a selector on a value of the node type can
	// mean the guarded field; without type information any `.children` / `.paths` selector is reported
	if r.nodeType != "" {
		for name, f := range files {
			if name == r.file {
				continue
			}
			ast.Inspect(f, func(n ast.Node) bool {
				switch t := n.(type) {
				case *ast.Ident:
					if t.Name == r.nodeType {
						shape = append(shape, fmt.Sprintf("%s: type %s used outside %s", name, r.nodeType, r.file))
					}
				}
				return true
			})
		}
	}
	if len(r.frozen) > 0 {
		// frozen fields assigned after construction
		for _, m := range methods {
			ast.Inspect(m.fd.Body, func(n ast.Node) bool {
				if as, ok := n.(*ast.AssignStmt); ok {
					for _, l := range as.Lhs {
						if se, ok := l.(*ast.SelectorExpr); ok && r.frozen[se.Sel.Name] {
							shape = append(shape, m.fd.Name.Name+": assigns "+r.typ+"."+se.Sel.Name+" after construction")
						}
					}
				}
				if u, ok := n.(*ast.UnaryExpr); ok && u.Op == token.AND {
					if se, ok := u.X.(*ast.SelectorExpr); ok && r.frozen[se.Sel.Name] {
						shape = append(shape, m.fd.Name.Name+": takes the address of "+r.typ+"."+se.Sel.Name)
					}
				}
				return true
			})
		}
	}
	walk := func(m meth, entry mode) *walker {
		w := &walker{recv: m.recv, method: m.fd.Name.Name, pkgFuncs: pkgFuncs}
		out := w.block(m.fd.Body.List, entry)
		if out != entry && !w.deferred {
			w.shape = append(w.shape, w.method+": returns with "+m.recv+"."+r.mutex+" in a different state")
		}
		return w
	}
	first := map[string]*walker{}
	for _, m := range methods {
		first[m.fd.Name.Name] = walk(m, mNone)
	}
	// methods that take the mutex, directly or through other methods of the type
	locks := map[string]bool{}
	for n, w := range first {
		if w.usesMu {
			locks[n] = true
		}
	}
	for changed := true; changed; {
		changed = false
		for n, w := range first {
			if locks[n] {
				continue
			}
			for _, c := range w.calls {
				if c.onRecv && locks[c.last] {
					locks[n], changed = true, true
				}
			}
		}
	}
	// entry mode of lock-free unexported helpers = weakest mode over their call sites
	entry := map[string]mode{}
	helper := func(n string) bool {
		w := first[n]
		return w != nil && !locks[n] && !ast.IsExported(n) && (len(w.facts) > 0 || len(w.aux) > 0)
	}
	callers := map[string]int{}
	for name, f := range files {
		ast.Inspect(f, func(n ast.Node) bool {
			c, ok := n.(*ast.CallExpr)
			if !ok {
				return true
			}
			if s, ok := c.Fun.(*ast.SelectorExpr); ok && helper(s.Sel.Name) && name != r.file {
				callers[s.Sel.Name] = -1 << 20 // called from another file: no lock known
			}
			return true
		})
	}
	for round := 0; round < 4; round++ {
		next := map[string]mode{}
		seen := map[string]bool{}
		for _, m := range methods {
			w := walk(m, entry[m.fd.Name.Name])
			for _, c := range w.calls {
				if c.onRecv && helper(c.last) {
					if !seen[c.last] {
						next[c.last], seen[c.last] = c.held, true
					} else {
						next[c.last] = weakest(next[c.last], c.held)
					}
				}
			}
		}
		for n := range first {
			if helper(n) && (!seen[n] || callers[n] < 0) {
				next[n] = mNone
			}
		}
		same := len(next) == len(entry)
		for k, v := range next {
			if entry[k] != v {
				same = false
			}
		}
		entry = next
		if same {
			break
		}
	}
	var facts []fact
	var held []call
	for _, m := range methods {
		w := walk(m, entry[m.fd.Name.Name])
		facts = append(facts, w.facts...)
		shape = append(shape, w.shape...)
		for _, c := range w.calls {
			if c.held != mNone {
				held = append(held, c)
			}
		}
	}
	// facts attributed to the entry points: a method's own accesses plus those of the methods of
	// the type it calls (transitively), each with the lock mode recorded at the access site
	own := map[string][]fact{}
	callees := map[string][]string{}
	for _, m := range methods {
		w := walk(m, entry[m.fd.Name.Name])
		own[w.method] = w.facts
		for _, c := range w.calls {
			if c.onRecv && first[c.last] != nil {
				callees[w.method] = append(callees[w.method], c.last)
			}
		}
	}
	for _, m := range methods {
		name := m.fd.Name.Name
		seen := map[string]bool{}
		var visit func(n string)
		visit = func(n string) {
			if seen[n] {
				return
			}
			seen[n] = true
			for _, f := range own[n] {
				apiFacts = append(apiFacts, fact{name, f.mp, f.kind, f.held})
			}
			for _, c := range callees[n] {
				visit(c)
			}
		}
		visit(name)
	}
	// auxiliary state touched on the resolution path: methods that reach a guarded field (R0) and everything
	// they call on the receiver, transitively
	onPath := map[string]bool{}
	{
		reaches := map[string]bool{}
		for _, f := range apiFacts {
			reaches[f.method] = true
		}
		var mark func(n string)
		mark = func(n string) {
			if onPath[n] {
				return
			}
			onPath[n] = true
			for _, c := range callees[n] {
				mark(c)
			}
		}
		for n := range reaches {
			mark(n)
		}
	}
	var aux []auxFact
	for _, m := range methods {
		w := walk(m, entry[m.fd.Name.Name])
		if !onPath[w.method] {
			continue
		}
		regSecs := map[int]bool{}
		for k := range w.regSecs {
			regSecs[k] = true
		}
		for _, c := range w.calls {
			// a helper that runs under this section's lock and accesses a guarded field
			if c.onRecv && c.held != mNone && first[c.last] != nil && len(own[c.last]) > 0 && !locks[c.last] {
				regSecs[c.sec] = true
			}
		}
		for _, a := range w.aux {
			a.withReg = a.sec >= 0 && regSecs[a.sec]
			aux = append(aux, a)
		}
	}
	auxOut, auxDeclOut = aux, auxDecl
	classify := func(c call) string {
		switch {
		case c.onRecv && locks[c.last]:
			return "reentrant"
		case loaders[c.last]:
			return "loader"
		case c.plainIdent && !pkgFuncs[c.last]:
			return "loader" // call through a function value
		}
		return "other"
	}
	// unsynchronised scalar fields written by methods (reported, not part of the obligation)
	var unsync []string
	if r.unsync {
		for _, m := range methods {
			ast.Inspect(m.fd.Body, func(n ast.Node) bool {
				var tgt ast.Expr
				switch s := n.(type) {
				case *ast.IncDecStmt:
					tgt = s.X
				case *ast.AssignStmt:
					if len(s.Lhs) == 1 {
						tgt = s.Lhs[0]
					}
				}
				if se, ok := tgt.(*ast.SelectorExpr); ok {
					if id, ok := se.X.(*ast.Ident); ok && id.Name == m.recv && !maps[se.Sel.Name] {
						unsync = append(unsync, m.fd.Name.Name+":"+se.Sel.Name)
					}
				}
				return true
			})
		}
	}
	write(a.Out, facts, held, shape, func(c call) string { return classify(c) }, unsync...)
}

var apiFacts []fact
var auxOut []auxFact
var auxDeclOut []string

func write(out string, facts []fact, held []call, shape []string, classify func(call) string, unsync ...string) {
	var sb strings.Builder
	sb.WriteString("import Model.RW\nimport Model.Memo\n/-! " + reg.doc + " -/\nnamespace Generated." + reg.out + "\nopen Model.RW\n\n")
	sb.WriteString("def facts : List Fact := [\n")
	seen := map[fact]bool{}
	var fl []string
	for _, f := range facts {
		if seen[f] {
			continue
		}
		seen[f] = true
		fl = append(fl, fmt.Sprintf("  ⟨%s, %s, .%s, %s⟩", ex.LeanString(f.method), ex.LeanString(f.mp), f.kind, f.held.lean()))
	}
	sb.WriteString(strings.Join(fl, ",\n"))
	sb.WriteString("\n]\n\n/-- the same accesses attributed to the entry point through which they are reached\n(own accesses plus those of the `*" + reg.typ + "` methods it calls, transitively) -/\ndef apiFacts : List Fact := [\n")
	seenA := map[fact]bool{}
	var al []string
	for _, f := range apiFacts {
		if seenA[f] {
			continue
		}
		seenA[f] = true
		al = append(al, fmt.Sprintf("  ⟨%s, %s, .%s, %s⟩", ex.LeanString(f.method), ex.LeanString(f.mp), f.kind, f.held.lean()))
	}
	sb.WriteString(strings.Join(al, ",\n"))
	sb.WriteString("\n]\n\ndef heldCalls : List HeldCall := [\n")
	seenC := map[string]bool{}
	var cl []string
	for _, c := range held {
		k := c.method + "|" + c.callee + "|" + c.held.lean()
		if seenC[k] {
			continue
		}
		seenC[k] = true
		cl = append(cl, fmt.Sprintf("  ⟨%s, %s, %s, %s⟩", ex.LeanString(c.method), ex.LeanString(c.callee), c.held.lean(), ex.LeanString(classify(c))))
	}
	sb.WriteString(strings.Join(cl, ",\n"))
	sb.WriteString("\n]\n\n/-- places where the source no longer has the shape the translator understands -/\ndef shape : List String := [")
	sort.Strings(shape)
	var sl []string
	prev := ""
	for _, s := range shape {
		if s != prev {
			sl = append(sl, ex.LeanString(s))
		}
		prev = s
	}
	sb.WriteString(strings.Join(sl, ", "))
	sb.WriteString("]\n")
	if reg.unsync {
		sb.WriteString("\n/-- fields of `" + reg.typ + "` assigned by its methods with no lock (reported only) -/\ndef unsyncFields : List String := [")
		sort.Strings(unsync)
		var ul []string
		prev = ""
		for _, s := range unsync {
			if s != prev {
				ul = append(ul, ex.LeanString(s))
			}
			prev = s
		}
		sb.WriteString(strings.Join(ul, ", "))
		sb.WriteString("]\n")
	}
	sb.WriteString("\n/-- accesses of AUXILIARY state — a field of `" + reg.typ + "` the translator has no table for, or a package-level\nvariable — by the methods on the resolution path: ⟨method, field, kind, lock held, the field's type synchronises\nitself (sync.Map, atomic.*), the same critical section of the method also accesses a guarded field⟩ -/\ndef auxFacts : List Model.Memo.AuxFact := [")
	seenX := map[string]bool{}
	var xl []string
	for _, a := range auxOut {
		l := fmt.Sprintf("\n  ⟨%s, %s, .%s, %s, %v, %v⟩", ex.LeanString(a.method), ex.LeanString(a.field), a.kind, a.held.lean(), a.sync, a.withReg)
		if !seenX[l] {
			seenX[l] = true
			xl = append(xl, l)
		}
	}
	sb.WriteString(strings.Join(xl, ","))
	if len(xl) > 0 {
		sb.WriteString("\n")
	}
	sb.WriteString("]\n\n/-- auxiliary fields of `" + reg.typ + "` with their types (reported only) -/\ndef auxFields : List String := [")
	sort.Strings(auxDeclOut)
	var dl []string
	for _, d := range auxDeclOut {
		dl = append(dl, ex.LeanString(d))
	}
	sb.WriteString(strings.Join(dl, ", "))
	sb.WriteString("]\n")
	sb.WriteString("\nend Generated." + reg.out + "\n")
	if err := ex.WriteIfChanged(out, reg.out+".lean", sb.String()); err != nil {
		fmt.Fprintln(os.Stderr, err)
		os.Exit(1)
	}
	fmt.Printf("%s: %d facts, %d calls under lock, %d shape notes\n", reg.out, len(fl), len(cl), len(sl))
}
