// extract/c10 (round 7): publication sites → lean/Generated/C10Publish.lean
//
// The registry tables say how the maps are locked; they say nothing about WHAT is put into them. A parser
// builds a declaration object (*node.ClassStatement, *node.InterfaceStatement, …) with a sequence of
// field writes and hands the pointer to vm.AddClass / AddInterface / AddFunc / SetConstant: from that call on
// every goroutine reaches the same object. This scan lists, for every such call in parser/, node/ and
// runtime/ (any receiver expression; the selector name decides), the writes to the published object that
// precede and that FOLLOW the call in the same function, in source order:
//
//   - the object is the (last) argument; its aliases are the identifiers connected to it by `a = b`,
//     `a := b`, `a := b.(T)`, `a := &T{…: b}` anywhere in the function (ClassGeneric wraps the statement);
//   - a write is: an assignment / inc-dec whose target is rooted at an alias through selectors and indexes
//     (`c.Construct = x`, `i.Extends[k] = n`); a method call on a field of an alias whose name is not a reader
//     (`c.StaticProperty.Store(…)`); a method call on the alias itself whose name is not a getter
//     (`c.AddAnnotations(o)`); the alias passed to a function of the same package that writes to that
//     parameter by the same rules (`callClassAnnotation(…, c)` → `callClassAnnotation→AddAnnotations()`,
//     depth ≤ 3); the alias passed to a function the scan cannot see into is `passed-to:<callee>`.
//
// The obligation on the result (C10_publication_disciplined) is `pubViolations pubFacts ⊆ known`.
package main

import (
	"fmt"
	"go/ast"
	"go/token"
	"os"
	"sort"
	"strings"

	"verif/extract/ex"
)

var publishCalls = map[string]bool{"AddClass": true, "AddInterface": true, "AddFunc": true, "SetConstant": true}
var publishDirs = []string{"parser", "node", "runtime"}

type pubFact struct {
	fn, call, obj string
	before, after []string
}

func readerName(n string) bool {
	for _, p := range []string{"Get", "Is", "Has", "Load", "Range", "Len", "String", "As", "Find", "Lookup", "Clone"} {
		if strings.HasPrefix(n, p) && n != "LoadOrStore" && n != "LoadAndDelete" {
			return true
		}
	}
	return false
}

// rootOf: the identifier an lvalue / receiver chain starts at, and the path below it
func rootOf(e ast.Expr) (*ast.Ident, string) {
	switch t := e.(type) {
	case *ast.Ident:
		return t, ""
	case *ast.SelectorExpr:
		r, p := rootOf(t.X)
		if p != "" {
			p += "."
		}
		return r, p + t.Sel.Name
	case *ast.IndexExpr:
		r, p := rootOf(t.X)
		return r, p + "[]"
	case *ast.StarExpr:
		return rootOf(t.X)
	case *ast.ParenExpr:
		return rootOf(t.X)
	case *ast.TypeAssertExpr:
		return rootOf(t.X)
	}
	return nil, ""
}

// identsOfValue: identifiers whose pointer the value carries on (b, b.(T), &T{k: b}, T{b})
func identsOfValue(e ast.Expr) []string {
	switch t := e.(type) {
	case *ast.Ident:
		return []string{t.Name}
	case *ast.ParenExpr:
		return identsOfValue(t.X)
	case *ast.TypeAssertExpr:
		return identsOfValue(t.X)
	case *ast.UnaryExpr:
		if t.Op == token.AND {
			return identsOfValue(t.X)
		}
	case *ast.CompositeLit:
		var out []string
		for _, el := range t.Elts {
			if kv, ok := el.(*ast.KeyValueExpr); ok {
				el = kv.Value
			}
			if id, ok := el.(*ast.Ident); ok {
				out = append(out, id.Name)
			}
		}
		return out
	}
	return nil
}

type pubScan struct {
	funcs map[string][]*ast.FuncDecl // same-package functions and methods by name
}

// aliasesOf: closure of `name` under the assignments of the body
func aliasesOf(body ast.Node, name string) map[string]bool {
	type edge struct{ a, b string }
	var edges []edge
	ast.Inspect(body, func(n ast.Node) bool {
		switch t := n.(type) {
		case *ast.AssignStmt:
			if len(t.Lhs) == len(t.Rhs) || len(t.Rhs) == 1 {
				for i, l := range t.Lhs {
					id, ok := l.(*ast.Ident)
					if !ok || id.Name == "_" {
						continue
					}
					r := t.Rhs[0]
					if len(t.Lhs) == len(t.Rhs) {
						r = t.Rhs[i]
					} else if i > 0 {
						continue
					}
					for _, b := range identsOfValue(r) {
						edges = append(edges, edge{id.Name, b})
					}
				}
			}
		case *ast.ValueSpec:
			for i, id := range t.Names {
				if i < len(t.Values) {
					for _, b := range identsOfValue(t.Values[i]) {
						edges = append(edges, edge{id.Name, b})
					}
				}
			}
		}
		return true
	})
	set := map[string]bool{name: true}
	for changed := true; changed; {
		changed = false
		for _, e := range edges {
			if set[e.a] != set[e.b] {
				set[e.a], set[e.b] = true, true
				changed = true
			}
		}
	}
	delete(set, "nil")
	delete(set, "true")
	delete(set, "false")
	return set
}

type pubWrite struct {
	pos  token.Pos
	what string
}

// writesTo: every write to the object known under `alias` in body, with its position
func (ps *pubScan) writesTo(body ast.Node, alias map[string]bool, skip *ast.CallExpr, depth int) []pubWrite {
	var out []pubWrite
	isAlias := func(e ast.Expr) bool {
		for _, n := range identsOfValue(e) {
			if alias[n] {
				return true
			}
		}
		return false
	}
	lhs := func(e ast.Expr, pos token.Pos) {
		if r, p := rootOf(e); r != nil && alias[r.Name] && p != "" {
			out = append(out, pubWrite{pos, p})
		}
	}
	ast.Inspect(body, func(n ast.Node) bool {
		switch t := n.(type) {
		case *ast.AssignStmt:
			for _, l := range t.Lhs {
				lhs(l, t.Pos())
			}
		case *ast.IncDecStmt:
			lhs(t.X, t.Pos())
		case *ast.CallExpr:
			if t == skip {
				return true
			}
			if sel, ok := t.Fun.(*ast.SelectorExpr); ok && publishCalls[sel.Sel.Name] {
				return true // another publication of the same object (generic / non-generic branch)
			}
			if sel, ok := t.Fun.(*ast.SelectorExpr); ok {
				if r, p := rootOf(sel.X); r != nil && alias[r.Name] {
					switch {
					case p == "" && !readerName(sel.Sel.Name):
						out = append(out, pubWrite{t.Pos(), sel.Sel.Name + "()"})
					case p != "" && !readerName(sel.Sel.Name):
						out = append(out, pubWrite{t.Pos(), p + "." + sel.Sel.Name})
					}
				}
			}
			for i, a := range t.Args {
				if !isAlias(a) {
					continue
				}
				callee := ""
				switch f := t.Fun.(type) {
				case *ast.Ident:
					callee = f.Name
				case *ast.SelectorExpr:
					callee = f.Sel.Name
				}
				if callee == "append" || callee == "len" || callee == "cap" || callee == "print" || callee == "println" {
					continue
				}
				decls := ps.funcs[callee]
				if _, qualified := t.Fun.(*ast.SelectorExpr); qualified {
					// pkg.F(…) of another package has the same spelling as recv.M(…): only methods count
					var ms []*ast.FuncDecl
					for _, d := range decls {
						if d.Recv != nil {
							ms = append(ms, d)
						}
					}
					decls = ms
				} else {
					var fs []*ast.FuncDecl
					for _, d := range decls {
						if d.Recv == nil {
							fs = append(fs, d)
						}
					}
					decls = fs
				}
				if len(decls) == 0 || depth >= 3 {
					if !readerName(callee) && !strings.HasPrefix(callee, "New") {
						out = append(out, pubWrite{t.Pos(), "passed-to:" + exprString(t.Fun)})
					}
					continue
				}
				for _, d := range decls {
					var params []string
					for _, f := range d.Type.Params.List {
						for _, nm := range f.Names {
							params = append(params, nm.Name)
						}
						if len(f.Names) == 0 {
							params = append(params, "_")
						}
					}
					if i >= len(params) || d.Body == nil || params[i] == "_" {
						continue
					}
					for _, w := range ps.writesTo(d.Body, aliasesOf(d.Body, params[i]), nil, depth+1) {
						out = append(out, pubWrite{t.Pos(), callee + "→" + w.what})
					}
				}
			}
		}
		return true
	})
	return out
}

func publishFacts(a ex.Args) {
	var facts []pubFact
	var shape []string
	for _, dir := range publishDirs {
		_, files, err := ex.ParseDir(a.Repo, dir)
		if err != nil {
			shape = append(shape, dir+": package could not be parsed")
			continue
		}
		ps := &pubScan{funcs: map[string][]*ast.FuncDecl{}}
		var names []string
		for name, f := range files {
			names = append(names, name)
			for _, d := range f.Decls {
				if fd, ok := d.(*ast.FuncDecl); ok {
					ps.funcs[fd.Name.Name] = append(ps.funcs[fd.Name.Name], fd)
				}
			}
		}
		sort.Strings(names)
		for _, name := range names {
			for _, d := range files[name].Decls {
				fd, ok := d.(*ast.FuncDecl)
				if !ok || fd.Body == nil {
					continue
				}
				fn := dir + "/" + name + ":" + fd.Name.Name
				if fd.Recv != nil && len(fd.Recv.List) > 0 {
					fn = dir + "/" + name + ":" + strings.TrimPrefix(ex.TypeString(fd.Recv.List[0].Type), "*") + "." + fd.Name.Name
				}
				if dir == "runtime" && fd.Recv != nil && publishCalls[fd.Name.Name] {
					continue // the registry's own method (TempVM delegating to its base VM)
				}
				var calls []*ast.CallExpr
				ast.Inspect(fd.Body, func(n ast.Node) bool {
					if c, ok := n.(*ast.CallExpr); ok {
						if sel, ok := c.Fun.(*ast.SelectorExpr); ok && publishCalls[sel.Sel.Name] && len(c.Args) > 0 {
							calls = append(calls, c)
						}
					}
					return true
				})
				for _, c := range calls {
					arg := c.Args[len(c.Args)-1]
					pf := pubFact{fn: fn, call: c.Fun.(*ast.SelectorExpr).Sel.Name, obj: exprString(arg)}
					ids := identsOfValue(arg)
					if len(ids) == 0 {
						facts = append(facts, pf)
						continue
					}
					alias := aliasesOf(fd.Body, ids[0])
					for _, id := range ids[1:] {
						for k := range aliasesOf(fd.Body, id) {
							alias[k] = true
						}
					}
					seenB, seenA := map[string]bool{}, map[string]bool{}
					for _, w := range ps.writesTo(fd.Body, alias, c, 0) {
						if w.pos < c.Pos() {
							if !seenB[w.what] {
								seenB[w.what] = true
								pf.before = append(pf.before, w.what)
							}
						} else if w.pos > c.End() && !seenA[w.what] {
							seenA[w.what] = true
							pf.after = append(pf.after, w.what)
						}
					}
					facts = append(facts, pf)
				}
			}
		}
	}
	// the registration sites this scan exists for must be there
	for _, want := range []string{"parser/class_parser.go:ClassParser.Parse|AddClass", "parser/interface_parser.go:InterfaceParser.Parse|AddInterface", "node/function.go:FunctionStatement.GetValue|AddFunc"} {
		found := false
		for _, f := range facts {
			if f.fn+"|"+f.call == want {
				found = true
			}
		}
		if !found {
			shape = append(shape, "publication site not found: "+want)
		}
	}
	var sb strings.Builder
	sb.WriteString("import Model.Publish\n/-! publication sites: every call of AddClass / AddInterface / AddFunc / SetConstant in parser/, node/, runtime/ with the\nwrites to the published object before and after it in the same function (source order, through aliases and\nsame-package helpers) -/\nnamespace Generated.C10Publish\nopen Model.Publish\n\ndef pubFacts : List PubFact := [")
	ls := func(l []string) string {
		var q []string
		for _, s := range l {
			q = append(q, ex.LeanString(s))
		}
		return "[" + strings.Join(q, ", ") + "]"
	}
	var fl []string
	nAfter := 0
	for _, f := range facts {
		nAfter += len(f.after)
		fl = append(fl, fmt.Sprintf("\n  ⟨%s, %s, %s,\n    %s,\n    %s⟩", ex.LeanString(f.fn), ex.LeanString(f.call), ex.LeanString(f.obj), ls(f.before), ls(f.after)))
	}
	sb.WriteString(strings.Join(fl, ","))
	sb.WriteString("\n]\n\n/-- places where the source no longer has the shape the scan understands -/\ndef shape : List String := " + ls(shape) + "\n\nend Generated.C10Publish\n")
	if err := ex.WriteIfChanged(a.Out, "C10Publish.lean", sb.String()); err != nil {
		fmt.Fprintln(os.Stderr, err)
		os.Exit(1)
	}
	fmt.Printf("C10Publish: %d publication sites, %d writes after publication, %d shape notes\n", len(facts), nAfter, len(shape))
}
