package main

// Lock NAMES (round 8).  The lock facts of main.go know one mutex per registry (`registry.mutex`); a
// critical section under any other mutex of the same struct shows there as "no lock".  This scan keeps the
// names: for every method of the registry's type, every access of a guarded field together with the SET of
// mutex fields of the receiver held at that point (source order; `defer x.Unlock()` holds to the end; an
// unexported method that takes no lock itself inherits the sets of its call sites).  The obligation
// `C10_one_lock_per_map` (Model.Split.splitMaps … = []) states that all accesses of one map hold the SAME
// lock: a lock split that converts some but not all accessors of a map fails it by name.

import (
	"fmt"
	"go/ast"
	"os"
	"sort"
	"strings"

	"verif/extract/ex"
)

type lockNameFact struct{ method, field, locks string }

func isMutexType(e ast.Expr) bool {
	t := ex.TypeString(e)
	return t == "sync.Mutex" || t == "sync.RWMutex" || t == "*sync.Mutex" || t == "*sync.RWMutex"
}

func lockNames(a ex.Args, r *registry) (facts []lockNameFact, mutexes []string, shape []string) {
	_, f, err := ex.ParseFile(a.Repo, r.dir+"/"+r.file)
	if err != nil {
		return nil, nil, []string{r.dir + "/" + r.file + ": could not be parsed"}
	}
	mu := map[string]bool{}
	guarded := map[string]bool{}
	for _, d := range f.Decls {
		gd, ok := d.(*ast.GenDecl)
		if !ok {
			continue
		}
		for _, sp := range gd.Specs {
			ts, ok := sp.(*ast.TypeSpec)
			if !ok || ts.Name.Name != r.typ {
				continue
			}
			st, ok := ts.Type.(*ast.StructType)
			if !ok {
				continue
			}
			for _, fl := range st.Fields.List {
				for _, n := range fl.Names {
					if isMutexType(fl.Type) {
						mu[n.Name] = true
						mutexes = append(mutexes, n.Name)
					}
					if _, isMap := fl.Type.(*ast.MapType); isMap && r.nodeType == "" {
						guarded[n.Name] = true
					}
				}
			}
		}
	}
	for k := range r.fields {
		guarded[k] = true
	}
	if len(mu) == 0 {
		shape = append(shape, r.typ+": no mutex field found")
	}
	type site struct{ callee, locks string }
	type acc struct{ field, locks string }
	own := map[string][]acc{}
	sites := map[string][]site{} // caller -> calls of methods of the type with the set held there
	takes := map[string]bool{}
	var order []string
	for _, d := range f.Decls {
		fd, ok := d.(*ast.FuncDecl)
		if !ok || fd.Recv == nil || len(fd.Recv.List) != 1 || fd.Body == nil {
			continue
		}
		if strings.TrimPrefix(ex.TypeString(fd.Recv.List[0].Type), "*") != r.typ || len(fd.Recv.List[0].Names) != 1 {
			continue
		}
		recv := fd.Recv.List[0].Names[0].Name
		m := fd.Name.Name
		order = append(order, m)
		held := map[string]bool{}
		heldStr := func() string {
			var l []string
			for k := range held {
				l = append(l, k)
			}
			sort.Strings(l)
			return strings.Join(l, "+")
		}
		// recv.<mutex>.<Op>()
		lockCall := func(c *ast.CallExpr) (string, string) {
			s, ok := c.Fun.(*ast.SelectorExpr)
			if !ok {
				return "", ""
			}
			in, ok := s.X.(*ast.SelectorExpr)
			if !ok || !mu[in.Sel.Name] {
				return "", ""
			}
			if id, ok := in.X.(*ast.Ident); !ok || id.Name != recv {
				return "", ""
			}
			return in.Sel.Name, s.Sel.Name
		}
		deferred := map[*ast.CallExpr]bool{}
		ast.Inspect(fd.Body, func(n ast.Node) bool {
			switch x := n.(type) {
			case *ast.DeferStmt:
				deferred[x.Call] = true
			case *ast.CallExpr:
				if name, opn := lockCall(x); name != "" {
					takes[m] = true
					switch opn {
					case "Lock", "RLock":
						held[name] = true
					case "Unlock", "RUnlock":
						if !deferred[x] {
							delete(held, name)
						}
					}
					return false
				}
				if s, ok := x.Fun.(*ast.SelectorExpr); ok {
					if id, ok := s.X.(*ast.Ident); ok && id.Name == recv {
						sites[m] = append(sites[m], site{s.Sel.Name, heldStr()})
					}
				}
			case *ast.SelectorExpr:
				if r.nodeType != "" && r.nodeFields[x.Sel.Name] {
					own[m] = append(own[m], acc{x.Sel.Name, heldStr()})
				} else if id, ok := x.X.(*ast.Ident); ok && id.Name == recv && guarded[x.Sel.Name] {
					own[m] = append(own[m], acc{x.Sel.Name, heldStr()})
				}
			}
			return true
		})
	}
	// lock sets inherited by unexported methods that take no lock themselves
	inherit := map[string]map[string]bool{}
	isMethod := map[string]bool{}
	for _, m := range order {
		isMethod[m] = true
	}
	passive := func(m string) bool { return isMethod[m] && !takes[m] && !ast.IsExported(m) }
	for round := 0; round < 5; round++ {
		for _, caller := range order {
			for _, s := range sites[caller] {
				if !passive(s.callee) {
					continue
				}
				if inherit[s.callee] == nil {
					inherit[s.callee] = map[string]bool{}
				}
				if passive(caller) {
					for k := range inherit[caller] {
						inherit[s.callee][k] = true
					}
				} else {
					inherit[s.callee][s.locks] = true
				}
			}
		}
	}
	seen := map[lockNameFact]bool{}
	add := func(ft lockNameFact) {
		if !seen[ft] {
			seen[ft] = true
			facts = append(facts, ft)
		}
	}
	for _, m := range order {
		for _, a := range own[m] {
			if passive(m) && a.locks == "" && len(inherit[m]) > 0 {
				var l []string
				for k := range inherit[m] {
					l = append(l, k)
				}
				sort.Strings(l)
				for _, k := range l {
					add(lockNameFact{m, a.field, k})
				}
				continue
			}
			if m == r.ctor {
				continue
			}
			add(lockNameFact{m, a.field, a.locks})
		}
	}
	sort.Strings(mutexes)
	return facts, mutexes, shape
}

func lockNameFacts(a ex.Args) {
	var sb strings.Builder
	sb.WriteString("import Model.Split\n/-! Lock NAMES: per method of `*VM` (runtime/vm.go) and of `*DefaultClassPathManager`\n(parser/class_path_manager.go), every access of a guarded map with the set of the receiver's mutex fields held\nthere (`\"\"` = none, `\"a+b\"` = both). -/\nnamespace Generated.C10LockNames\n")
	var allShape []string
	for _, r := range registries {
		facts, mutexes, shape := lockNames(a, r)
		allShape = append(allShape, shape...)
		name := "vm"
		if r.nodeType != "" {
			name = "paths"
		}
		var fl []string
		for _, f := range facts {
			fl = append(fl, fmt.Sprintf("\n  ⟨%s, %s, %s⟩", ex.LeanString(f.method), ex.LeanString(f.field), ex.LeanString(f.locks)))
		}
		var ml []string
		for _, m := range mutexes {
			ml = append(ml, ex.LeanString(m))
		}
		fmt.Fprintf(&sb, "\n/-- mutex fields of `%s` -/\ndef %sMutexes : List String := [%s]\n", r.typ, name, strings.Join(ml, ", "))
		fmt.Fprintf(&sb, "\n/-- ⟨method, map, locks held⟩ for `%s` -/\ndef %s : List Model.Split.LockFact := [%s\n]\n", r.typ, name, strings.Join(fl, ","))
		fmt.Printf("C10LockNames.%s: %d accesses, %d mutex field(s)\n", name, len(facts), len(mutexes))
	}
	var sl []string
	for _, s := range allShape {
		sl = append(sl, ex.LeanString(s))
	}
	fmt.Fprintf(&sb, "\ndef shape : List String := [%s]\n\nend Generated.C10LockNames\n", strings.Join(sl, ", "))
	if err := ex.WriteIfChanged(a.Out, "C10LockNames.lean", sb.String()); err != nil {
		fmt.Fprintln(os.Stderr, err)
		os.Exit(1)
	}
}
