// extract/c05 (second part): regenerates lean/Generated/C05TryShape.lean — how a try statement's clause list is
// BUILT (parser/try_parser.go TryParser.Parse, parseCatchBlock) and how it is SCANNED (node/try.go tryValue).
//
// Model.Exc.execC mirrors the scan over the clauses the source text has. The parser is the glue in between: a
// "parse-time optimisation" that leaves a clause out of TryStatement.CatchBlocks, reorders or merges clauses, or
// returns something else than the statement as parsed, changes what the scan sees without touching node/try.go.
// Facts (Model.ExcShape.ParserFacts / ScanFacts):
//
//   Parse            the three variables handed to node.NewTryStatement (roles try / catch / finally): every store into
//                    them — `v, acl = p.parseBlock()`, `v = append(v, *c)` with c the clause parsed in this trip of the
//                    loop, or anything else (source text) — with the `if` conditions it is under (classified: a nil test of
//                    the parsed clause is always / never true, anything else is a test ON the clause) and whether it sits in
//                    the clause loop; every continue / break / goto in the clause loop with its conditions; the non-error
//                    returns (NewTryStatement of the three variables, or other);
//   parseCatchBlock  the clause body is what p.parseBlock() returned, stored once, returned in the CatchBlock literal;
//   tryValue         every loop over t.CatchBlocks: a forward range, whose body is exactly one
//                    `if catchTypeMatches(cb.ExceptionType, <thrown>) { … }` without else, which cannot fall out of its end;
//   every other mention of `.CatchBlocks` in node/ and parser/, and whether NewTryStatement stores its parameter untouched.
//
// go/ast only; nothing is executed.
package main

import (
	"bytes"
	"fmt"
	"go/ast"
	"go/printer"
	"go/token"
	"sort"
	"strings"

	"verif/extract/ex"
)

func src(fset *token.FileSet, n ast.Node) string {
	var buf bytes.Buffer
	printer.Fprint(&buf, fset, n)
	s := strings.Join(strings.Fields(buf.String()), " ")
	if len(s) > 160 {
		s = s[:160] + "…"
	}
	return s
}

type guard struct {
	kind string // always never other
	src  string
}

type write struct {
	role   string
	stored string // parsedBlock appendParsed other
	src    string
	inLoop bool
	guards []guard
}

type parserFacts struct {
	writes           []write
	skips            [][]guard
	tryReturns       int
	otherReturns     []string
	clauseBodyParsed bool
	clauseReturns    int
}

func isNilIdent(e ast.Expr) bool {
	id, ok := e.(*ast.Ident)
	return ok && id.Name == "nil"
}

func identName(e ast.Expr) string {
	if id, ok := e.(*ast.Ident); ok {
		return id.Name
	}
	return ""
}

// is the call `<recv>.<name>(…)`
func isMethodCall(e ast.Expr, name string) bool {
	c, ok := e.(*ast.CallExpr)
	if !ok {
		return false
	}
	se, ok := c.Fun.(*ast.SelectorExpr)
	return ok && se.Sel.Name == name
}

func containsCall(n ast.Node, name string) bool {
	found := false
	ast.Inspect(n, func(x ast.Node) bool {
		if e, ok := x.(ast.Expr); ok && isMethodCall(e, name) {
			found = true
		}
		return !found
	})
	return found
}

// classify a condition (with the polarity of the branch the statement sits in) relative to the clause variable
func classify(fset *token.FileSet, cond ast.Expr, positive bool, clauseVar string) guard {
	text := src(fset, cond)
	if !positive {
		text = "!(" + text + ")"
	}
	if be, ok := cond.(*ast.BinaryExpr); ok && clauseVar != "" && (be.Op == token.NEQ || be.Op == token.EQL) {
		var other ast.Expr
		if identName(be.X) == clauseVar {
			other = be.Y
		} else if identName(be.Y) == clauseVar {
			other = be.X
		}
		if other != nil && isNilIdent(other) {
			nonNil := be.Op == token.NEQ
			if nonNil == positive {
				return guard{"always", text}
			}
			return guard{"never", text}
		}
	}
	return guard{"other", text}
}

type parseWalker struct {
	fset      *token.FileSet
	roles     map[string]string // variable → role
	clauseVar string            // the variable that receives p.parseCatchBlock(…) in the clause loop
	loop      *ast.ForStmt
	facts     *parserFacts
	accounted map[*ast.Ident]bool
}

func (w *parseWalker) storedKind(lhs string, rhs ast.Expr) (string, string) {
	if isMethodCall(rhs, "parseBlock") {
		return "parsedBlock", ""
	}
	if c, ok := rhs.(*ast.CallExpr); ok && identName(c.Fun) == "append" && len(c.Args) == 2 && identName(c.Args[0]) == lhs && !c.Ellipsis.IsValid() {
		arg := c.Args[1]
		if st, ok := arg.(*ast.StarExpr); ok {
			arg = st.X
		}
		if w.clauseVar != "" && identName(arg) == w.clauseVar {
			w.accounted[c.Args[0].(*ast.Ident)] = true
			return "appendParsed", ""
		}
	}
	return "other", src(w.fset, rhs)
}

func (w *parseWalker) stmts(list []ast.Stmt, gs []guard, inLoop bool) {
	for _, s := range list {
		w.stmt(s, gs, inLoop)
	}
}

func (w *parseWalker) stmt(s ast.Stmt, gs []guard, inLoop bool) {
	switch t := s.(type) {
	case *ast.AssignStmt:
		for i, l := range t.Lhs {
			id, ok := l.(*ast.Ident)
			if !ok {
				continue
			}
			role, ok := w.roles[id.Name]
			if !ok {
				continue
			}
			w.accounted[id] = true
			var rhs ast.Expr
			if len(t.Rhs) == len(t.Lhs) {
				rhs = t.Rhs[i]
			} else if len(t.Rhs) == 1 {
				rhs = t.Rhs[0]
			}
			kind, text := "other", src(w.fset, t)
			if rhs != nil && t.Tok != token.ADD_ASSIGN {
				kind, text = w.storedKind(id.Name, rhs)
			}
			w.facts.writes = append(w.facts.writes, write{role: role, stored: kind, src: text, inLoop: inLoop, guards: append([]guard{}, gs...)})
		}
	case *ast.DeclStmt:
		if gd, ok := t.Decl.(*ast.GenDecl); ok {
			for _, sp := range gd.Specs {
				vs, ok := sp.(*ast.ValueSpec)
				if !ok {
					continue
				}
				for i, n := range vs.Names {
					role, ok := w.roles[n.Name]
					if !ok {
						continue
					}
					w.accounted[n] = true
					if i < len(vs.Values) {
						kind, text := w.storedKind(n.Name, vs.Values[i])
						w.facts.writes = append(w.facts.writes, write{role: role, stored: kind, src: text, inLoop: inLoop, guards: append([]guard{}, gs...)})
					}
				}
			}
		}
	case *ast.BranchStmt:
		if inLoop {
			w.facts.skips = append(w.facts.skips, append([]guard{}, gs...))
		}
	case *ast.BlockStmt:
		w.stmts(t.List, gs, inLoop)
	case *ast.IfStmt:
		if t.Init != nil {
			w.stmt(t.Init, gs, inLoop)
		}
		w.stmts(t.Body.List, append(append([]guard{}, gs...), classify(w.fset, t.Cond, true, w.clauseVar)), inLoop)
		if t.Else != nil {
			w.stmt(t.Else, append(append([]guard{}, gs...), classify(w.fset, t.Cond, false, w.clauseVar)), inLoop)
		}
	case *ast.ForStmt:
		if t == w.loop {
			// the loop condition is not a guard: it only says whether there is another clause
			w.stmts(t.Body.List, nil, true)
		} else {
			w.stmts(t.Body.List, append(append([]guard{}, gs...), guard{"other", "in a loop: " + src(w.fset, t.Cond)}), inLoop)
		}
	case *ast.RangeStmt:
		w.stmts(t.Body.List, append(append([]guard{}, gs...), guard{"other", "in a loop over " + src(w.fset, t.X)}), inLoop)
	case *ast.SwitchStmt:
		for _, c := range t.Body.List {
			cc := c.(*ast.CaseClause)
			w.stmts(cc.Body, append(append([]guard{}, gs...), guard{"other", "case of switch " + src(w.fset, t.Tag)}), inLoop)
		}
	case *ast.TypeSwitchStmt:
		for _, c := range t.Body.List {
			cc := c.(*ast.CaseClause)
			w.stmts(cc.Body, append(append([]guard{}, gs...), guard{"other", "case of a type switch"}), inLoop)
		}
	case *ast.LabeledStmt:
		w.stmt(t.Stmt, gs, inLoop)
	}
}

func analyseParser(repo string, shape *[]string) parserFacts {
	var pf parserFacts
	fset, f, err := ex.ParseFile(repo, "parser/try_parser.go")
	if err != nil {
		*shape = append(*shape, "cannot parse parser/try_parser.go: "+err.Error())
		return pf
	}
	fd := ex.FuncDecl(f, "TryParser", "Parse")
	if fd == nil || fd.Body == nil {
		*shape = append(*shape, "parser/try_parser.go: no method TryParser.Parse")
		return pf
	}
	roles := map[string]string{}
	accounted := map[*ast.Ident]bool{}
	// the returns
	ast.Inspect(fd.Body, func(x ast.Node) bool {
		if _, ok := x.(*ast.FuncLit); ok {
			return false
		}
		r, ok := x.(*ast.ReturnStmt)
		if !ok {
			return true
		}
		if len(r.Results) == 2 && isNilIdent(r.Results[0]) {
			return true // an error return
		}
		if len(r.Results) >= 1 {
			if c, ok := r.Results[0].(*ast.CallExpr); ok {
				if se, ok := c.Fun.(*ast.SelectorExpr); ok && se.Sel.Name == "NewTryStatement" && len(c.Args) == 4 {
					a1, a2, a3 := identName(c.Args[1]), identName(c.Args[2]), identName(c.Args[3])
					if a1 != "" && a2 != "" && a3 != "" && a1 != a2 && a2 != a3 && a1 != a3 &&
						(len(roles) == 0 || (roles[a1] == "try" && roles[a2] == "catch" && roles[a3] == "finally")) {
						roles[a1], roles[a2], roles[a3] = "try", "catch", "finally"
						for _, a := range c.Args[1:] {
							accounted[a.(*ast.Ident)] = true
						}
						pf.tryReturns++
						return true
					}
				}
			}
		}
		pf.otherReturns = append(pf.otherReturns, src(fset, r))
		return true
	})
	if pf.tryReturns == 0 {
		*shape = append(*shape, "parser/try_parser.go TryParser.Parse: no `return node.NewTryStatement(from, <try>, <catches>, <finally>), nil` over three variables")
		return pf
	}
	// the clause loop: the for statement that calls parseCatchBlock; the variable that receives the clause
	w := &parseWalker{fset: fset, roles: roles, facts: &pf, accounted: accounted}
	ast.Inspect(fd.Body, func(x ast.Node) bool {
		if fs, ok := x.(*ast.ForStmt); ok && w.loop == nil && containsCall(fs.Body, "parseCatchBlock") {
			w.loop = fs
		}
		return true
	})
	if w.loop == nil {
		*shape = append(*shape, "parser/try_parser.go TryParser.Parse: no `for` loop that calls parseCatchBlock")
	} else {
		n := 0
		ast.Inspect(w.loop.Body, func(x ast.Node) bool {
			if as, ok := x.(*ast.AssignStmt); ok && len(as.Rhs) == 1 && isMethodCall(as.Rhs[0], "parseCatchBlock") && len(as.Lhs) >= 1 {
				w.clauseVar = identName(as.Lhs[0])
				n++
			}
			return true
		})
		if n != 1 || w.clauseVar == "" {
			*shape = append(*shape, fmt.Sprintf("parser/try_parser.go TryParser.Parse: the clause loop assigns the result of parseCatchBlock %d times", n))
			w.clauseVar = ""
		}
	}
	w.stmts(fd.Body.List, nil, false)
	// every other use of the three variables that could change them: anything but reads in len(v) / v == nil / v != nil
	reads := map[*ast.Ident]bool{}
	ast.Inspect(fd.Body, func(x ast.Node) bool {
		switch t := x.(type) {
		case *ast.CallExpr:
			if identName(t.Fun) == "len" && len(t.Args) == 1 {
				if id, ok := t.Args[0].(*ast.Ident); ok {
					reads[id] = true
				}
			}
		case *ast.BinaryExpr:
			if t.Op == token.EQL || t.Op == token.NEQ {
				if id, ok := t.X.(*ast.Ident); ok && isNilIdent(t.Y) {
					reads[id] = true
				}
				if id, ok := t.Y.(*ast.Ident); ok && isNilIdent(t.X) {
					reads[id] = true
				}
			}
		}
		return true
	})
	var stack []ast.Node
	ast.Inspect(fd.Body, func(x ast.Node) bool {
		if x == nil {
			stack = stack[:len(stack)-1]
			return true
		}
		stack = append(stack, x)
		id, ok := x.(*ast.Ident)
		if !ok {
			return true
		}
		role, ok := roles[id.Name]
		if !ok || accounted[id] || reads[id] {
			return true
		}
		// the innermost enclosing statement, for the report
		var st ast.Node = id
		for i := len(stack) - 1; i >= 0; i-- {
			if _, ok := stack[i].(ast.Stmt); ok {
				st = stack[i]
				break
			}
		}
		pf.writes = append(pf.writes, write{role: role, stored: "other", src: "used in: " + src(fset, st)})
		return true
	})

	// parseCatchBlock
	cd := ex.FuncDecl(f, "TryParser", "parseCatchBlock")
	if cd == nil || cd.Body == nil {
		*shape = append(*shape, "parser/try_parser.go: no method TryParser.parseCatchBlock")
		return pf
	}
	bodyVar := ""
	okLit := true
	ast.Inspect(cd.Body, func(x ast.Node) bool {
		if _, ok := x.(*ast.FuncLit); ok {
			return false
		}
		r, ok := x.(*ast.ReturnStmt)
		if !ok {
			return true
		}
		if len(r.Results) == 2 && isNilIdent(r.Results[0]) {
			return true
		}
		pf.clauseReturns++
		lit := false
		if len(r.Results) >= 1 {
			if u, ok := r.Results[0].(*ast.UnaryExpr); ok && u.Op == token.AND {
				if cl, ok := u.X.(*ast.CompositeLit); ok && strings.HasSuffix(ex.TypeString(cl.Type), "CatchBlock") {
					for _, el := range cl.Elts {
						if kv, ok := el.(*ast.KeyValueExpr); ok && identName(kv.Key) == "Body" && identName(kv.Value) != "" {
							bodyVar = identName(kv.Value)
							lit = true
						}
					}
				}
			}
		}
		if !lit {
			okLit = false
		}
		return true
	})
	if bodyVar != "" && okLit {
		nw, parsed := 0, 0
		ast.Inspect(cd.Body, func(x ast.Node) bool {
			as, ok := x.(*ast.AssignStmt)
			if !ok {
				return true
			}
			for _, l := range as.Lhs {
				if identName(l) == bodyVar {
					nw++
					if len(as.Rhs) == 1 && isMethodCall(as.Rhs[0], "parseBlock") {
						parsed++
					}
				}
			}
			return true
		})
		// no other mention of the variable than that store and the literal
		uses := 0
		ast.Inspect(cd.Body, func(x ast.Node) bool {
			if id, ok := x.(*ast.Ident); ok && id.Name == bodyVar {
				uses++
			}
			return true
		})
		pf.clauseBodyParsed = nw == 1 && parsed == 1 && uses == 2
	}
	return pf
}

// ------------------------------------------------------------ node/try.go: the scan

type scanLoop struct {
	fn                                 string
	forward, testIsMatch, stopsAtMatch bool
}

type scanFacts struct {
	loops         []scanLoop
	otherUses     []string
	storedAsGiven bool
}

// the statement list cannot fall out of its end, and no continue / break / goto in it can send control back to the
// enclosing loop
func terminates(list []ast.Stmt) bool {
	if len(list) == 0 {
		return false
	}
	escapes := false
	var visit func(n ast.Node, inInner bool)
	visit = func(n ast.Node, inInner bool) {
		ast.Inspect(n, func(x ast.Node) bool {
			switch t := x.(type) {
			case *ast.FuncLit:
				return false
			case *ast.BranchStmt:
				if t.Label != nil || t.Tok == token.GOTO || !inInner {
					escapes = true
				}
			case *ast.ForStmt:
				if !inInner {
					visit(t.Body, true)
					return false
				}
			case *ast.RangeStmt:
				if !inInner {
					visit(t.Body, true)
					return false
				}
			}
			return true
		})
	}
	for _, s := range list {
		visit(s, false)
	}
	if escapes {
		return false
	}
	var ends func(s ast.Stmt) bool
	ends = func(s ast.Stmt) bool {
		switch t := s.(type) {
		case *ast.ReturnStmt:
			return true
		case *ast.BlockStmt:
			return len(t.List) > 0 && ends(t.List[len(t.List)-1])
		case *ast.IfStmt:
			if t.Else == nil {
				return false
			}
			return len(t.Body.List) > 0 && ends(t.Body.List[len(t.Body.List)-1]) && ends(t.Else)
		case *ast.ExprStmt:
			if c, ok := t.X.(*ast.CallExpr); ok && identName(c.Fun) == "panic" {
				return true
			}
		}
		return false
	}
	return ends(list[len(list)-1])
}

func analyseScan(repo string, shape *[]string) scanFacts {
	var sf scanFacts
	for _, dir := range []string{"node", "parser"} {
		_, files, err := ex.ParseDir(repo, dir)
		if err != nil {
			*shape = append(*shape, fmt.Sprintf("cannot parse %s/: %v", dir, err))
			continue
		}
		var names []string
		for n := range files {
			names = append(names, n)
		}
		sort.Strings(names)
		for _, n := range names {
			for _, d := range files[n].Decls {
				fd, ok := d.(*ast.FuncDecl)
				if !ok || fd.Body == nil {
					continue
				}
				fname := fd.Name.Name
				if r := recvName(fd); r != "" {
					fname = r + "." + fname
				}
				where := dir + "/" + n + ":" + fname
				isScan := dir == "node" && n == "try.go" && fname == "TryStatement.tryValue"
				isCtor := dir == "node" && n == "try.go" && fname == "NewTryStatement"
				ranged := map[*ast.SelectorExpr]bool{}
				if isScan {
					ast.Inspect(fd.Body, func(x ast.Node) bool {
						rs, ok := x.(*ast.RangeStmt)
						if !ok {
							return true
						}
						se, ok := rs.X.(*ast.SelectorExpr)
						if !ok || se.Sel.Name != "CatchBlocks" {
							return true
						}
						ranged[se] = true
						l := scanLoop{fn: where}
						val := identName(rs.Value)
						l.forward = val != "" && val != "_"
						if len(rs.Body.List) == 1 {
							if is, ok := rs.Body.List[0].(*ast.IfStmt); ok && is.Init == nil && is.Else == nil {
								if c, ok := is.Cond.(*ast.CallExpr); ok && identName(c.Fun) == "catchTypeMatches" && len(c.Args) == 2 {
									if a0, ok := c.Args[0].(*ast.SelectorExpr); ok && identName(a0.X) == val && a0.Sel.Name == "ExceptionType" && identName(c.Args[1]) != "" {
										l.testIsMatch = true
									}
								}
								l.stopsAtMatch = terminates(is.Body.List)
							}
						}
						sf.loops = append(sf.loops, l)
						return true
					})
				}
				ast.Inspect(fd.Body, func(x ast.Node) bool {
					switch t := x.(type) {
					case *ast.SelectorExpr:
						if t.Sel.Name == "CatchBlocks" && !ranged[t] {
							sf.otherUses = append(sf.otherUses, where)
						}
					case *ast.KeyValueExpr:
						if identName(t.Key) == "CatchBlocks" {
							if isCtor {
								for _, p := range fd.Type.Params.List {
									for _, pn := range p.Names {
										if pn.Name == identName(t.Value) {
											sf.storedAsGiven = true
										}
									}
								}
								if !sf.storedAsGiven {
									sf.otherUses = append(sf.otherUses, where+" stores "+identName(t.Value))
								}
							} else {
								sf.otherUses = append(sf.otherUses, where)
							}
						}
					}
					return true
				})
				if isCtor {
					// the parameter is used once: in the literal
					for _, p := range fd.Type.Params.List {
						if ex.TypeString(p.Type) != "[]CatchBlock" {
							continue
						}
						for _, pn := range p.Names {
							uses := 0
							ast.Inspect(fd.Body, func(x ast.Node) bool {
								if id, ok := x.(*ast.Ident); ok && id.Name == pn.Name {
									uses++
								}
								return true
							})
							if uses != 1 {
								sf.storedAsGiven = false
								sf.otherUses = append(sf.otherUses, fmt.Sprintf("%s uses its parameter %s %d times", where, pn.Name, uses))
							}
						}
					}
				}
			}
		}
	}
	return sf
}


// ------------------------------------------------------------ node state of TryStatement

// Model.Exc.execC scans the clauses afresh for every thrown value: the statement has no state. A field of the node
// written while the statement runs (a memo of the dispatch, a counter, a cached control) makes what the statement does
// depend on what the same node met before. Reported: the fields of TryStatement beyond the embedded Node and the three
// blocks the parser fills; inside the methods of TryStatement every assignment / ++ / -- whose target is rooted at the
// receiver, every `&recv.F`, every call of a method on a field of the receiver that is an extra field or whose name
// says it stores (Store, LoadOrStore, Swap, CompareAndSwap, Delete, LoadAndDelete, Add, Set, Put, Push, Append, Do),
// and every use of the receiver itself as a value (a key of a side table, an argument).
type nodeFacts struct {
	writes      []string
	extraFields []string
}

var storingMethods = map[string]bool{"Store": true, "LoadOrStore": true, "Swap": true, "CompareAndSwap": true, "Delete": true,
	"LoadAndDelete": true, "Add": true, "Set": true, "Put": true, "Push": true, "Append": true, "Do": true, "Inc": true, "Dec": true}

// the receiver-rooted field an expression denotes: recv.F, recv.F.G, recv.F[i], (*recv).F …; "" if not rooted at recv
func rootedField(e ast.Expr, recv string) string {
	switch t := e.(type) {
	case *ast.ParenExpr:
		return rootedField(t.X, recv)
	case *ast.StarExpr:
		return rootedField(t.X, recv)
	case *ast.IndexExpr:
		return rootedField(t.X, recv)
	case *ast.SliceExpr:
		return rootedField(t.X, recv)
	case *ast.SelectorExpr:
		if id, ok := t.X.(*ast.Ident); ok && id.Name == recv {
			return t.Sel.Name
		}
		if p, ok := t.X.(*ast.ParenExpr); ok {
			if st, ok := p.X.(*ast.StarExpr); ok {
				if id, ok := st.X.(*ast.Ident); ok && id.Name == recv {
					return t.Sel.Name
				}
			}
		}
		return rootedField(t.X, recv)
	}
	return ""
}

func analyseNode(repo string, shape *[]string) nodeFacts {
	var nf nodeFacts
	fset, files, err := ex.ParseDir(repo, "node")
	if err != nil {
		*shape = append(*shape, fmt.Sprintf("cannot parse node/: %v", err))
		return nf
	}
	f := files["try.go"]
	if f == nil {
		*shape = append(*shape, "node/try.go not found")
		return nf
	}
	filled := map[string]bool{"TryBlock": true, "CatchBlocks": true, "FinallyBlock": true}
	extra := map[string]bool{}
	foundType := false
	for _, d := range f.Decls {
		gd, ok := d.(*ast.GenDecl)
		if !ok {
			continue
		}
		for _, sp := range gd.Specs {
			ts, ok := sp.(*ast.TypeSpec)
			if !ok || ts.Name.Name != "TryStatement" {
				continue
			}
			st, ok := ts.Type.(*ast.StructType)
			if !ok {
				*shape = append(*shape, "TryStatement is not a struct")
				continue
			}
			foundType = true
			for _, fl := range st.Fields.List {
				ty := ex.TypeString(fl.Type)
				if len(fl.Names) == 0 {
					if ty != "*Node" {
						extra[ty] = true
						nf.extraFields = append(nf.extraFields, "(embedded) "+ty)
					}
					continue
				}
				for _, nm := range fl.Names {
					if !filled[nm.Name] {
						extra[nm.Name] = true
						nf.extraFields = append(nf.extraFields, nm.Name+" "+ty)
					}
				}
			}
		}
	}
	if !foundType {
		*shape = append(*shape, "type TryStatement not found in node/try.go")
	}
	methods := 0
	for _, d := range f.Decls {
		fd, ok := d.(*ast.FuncDecl)
		if !ok || fd.Body == nil || recvName(fd) != "TryStatement" {
			continue
		}
		methods++
		if len(fd.Recv.List[0].Names) == 0 {
			continue
		}
		recv := fd.Recv.List[0].Names[0].Name
		where := "TryStatement." + fd.Name.Name
		add := func(n ast.Node) { nf.writes = append(nf.writes, where+": "+src(fset, n)) }
		selX := map[*ast.Ident]bool{}
		ast.Inspect(fd.Body, func(x ast.Node) bool {
			switch t := x.(type) {
			case *ast.SelectorExpr:
				if id, ok := t.X.(*ast.Ident); ok {
					selX[id] = true
				}
			case *ast.StarExpr:
				if id, ok := t.X.(*ast.Ident); ok {
					selX[id] = true // (*recv).F
				}
			case *ast.AssignStmt:
				for _, l := range t.Lhs {
					if rootedField(l, recv) != "" {
						add(t)
						break
					}
				}
			case *ast.IncDecStmt:
				if rootedField(t.X, recv) != "" {
					add(t)
				}
			case *ast.UnaryExpr:
				if t.Op == token.AND && rootedField(t.X, recv) != "" {
					add(t)
				}
			case *ast.CallExpr:
				if se, ok := t.Fun.(*ast.SelectorExpr); ok {
					if fld := rootedField(se.X, recv); fld != "" && (extra[fld] || storingMethods[se.Sel.Name]) {
						add(t)
					}
				}
			}
			return true
		})
		ast.Inspect(fd.Body, func(x ast.Node) bool {
			if id, ok := x.(*ast.Ident); ok && id.Name == recv && id.Obj != nil && !selX[id] {
				nf.writes = append(nf.writes, where+": the receiver itself is used as a value")
			}
			return true
		})
	}
	if methods == 0 {
		*shape = append(*shape, "no method of TryStatement found in node/try.go")
	}
	return nf
}

func leanGuards(gs []guard) string {
	var parts []string
	for _, g := range gs {
		parts = append(parts, fmt.Sprintf(".%s %s", g.kind, ex.LeanString(g.src)))
	}
	return "[" + strings.Join(parts, ", ") + "]"
}

func leanStrings(l []string) string {
	var parts []string
	for _, s := range l {
		parts = append(parts, ex.LeanString(s))
	}
	return "[" + strings.Join(parts, ", ") + "]"
}

func genTryShape(a ex.Args) (string, error) {
	var shape []string
	pf := analyseParser(a.Repo, &shape)
	sf := analyseScan(a.Repo, &shape)
	nf := analyseNode(a.Repo, &shape)
	var sb strings.Builder
	sb.WriteString("import Model.ExcShape\nimport Model.ExcMemo\n/-! How the clause list of a try statement is built (parser/try_parser.go) and scanned (node/try.go). -/\nnamespace Generated.C05TryShape\nopen Model.ExcShape\n\n")
	sb.WriteString("def parser : ParserFacts :=\n  { writes := [")
	for i, w := range pf.writes {
		if i > 0 {
			sb.WriteString(",")
		}
		st := "." + w.stored
		if w.stored == "other" {
			st = "(.other " + ex.LeanString(w.src) + ")"
		}
		fmt.Fprintf(&sb, "\n      { role := %s, stored := %s, inClauseLoop := %v, guards := %s }", ex.LeanString(w.role), st, w.inLoop, leanGuards(w.guards))
	}
	sb.WriteString("],\n    skips := [")
	for i, s := range pf.skips {
		if i > 0 {
			sb.WriteString(", ")
		}
		sb.WriteString(leanGuards(s))
	}
	fmt.Fprintf(&sb, "],\n    tryReturns := %d,\n    otherReturns := %s,\n    clauseBodyParsed := %v,\n    clauseReturns := %d }\n\n", pf.tryReturns, leanStrings(pf.otherReturns), pf.clauseBodyParsed, pf.clauseReturns)
	sb.WriteString("def scan : ScanFacts :=\n  { loops := [")
	for i, l := range sf.loops {
		if i > 0 {
			sb.WriteString(",")
		}
		fmt.Fprintf(&sb, "\n      { fn := %s, forward := %v, testIsMatch := %v, stopsAtMatch := %v }", ex.LeanString(l.fn), l.forward, l.testIsMatch, l.stopsAtMatch)
	}
	fmt.Fprintf(&sb, "],\n    otherUses := %s,\n    storedAsGiven := %v }\n\n", leanStrings(sf.otherUses), sf.storedAsGiven)
	fmt.Fprintf(&sb, "def node : Model.ExcMemo.NodeFacts :=\n  { writes := %s,\n    extraFields := %s }\n\n", leanStrings(nf.writes), leanStrings(nf.extraFields))
	fmt.Fprintf(&sb, "def shapeChanged : List String := %s\n\nend Generated.C05TryShape\n", leanStrings(shape))
	if err := ex.WriteIfChanged(a.Out, "C05TryShape.lean", sb.String()); err != nil {
		return "", err
	}
	return fmt.Sprintf("C05TryShape: %d stores, %d skips, %d+%d returns, %d scan loops, %d other uses of CatchBlocks, %d node writes, %d extra fields, shapeChanged=%d",
		len(pf.writes), len(pf.skips), pf.tryReturns, len(pf.otherReturns), len(sf.loops), len(sf.otherUses), len(nf.writes), len(nf.extraFields), len(shape)), nil
}
