// extract/c05: regenerates lean/Generated/C05Pairs.lean (this file) and lean/Generated/C05TryShape.lean (tryshape.go).
// C05Pairs comes from node/*.go, runtime/*.go, data/*.go —
// the paired enter/leave operations on the call path. Model.Exc has no state that survives a statement
// (C05_iteration_independence); the interpreter has: counters, stacks and locks that a Go function raises on the
// way in and must lower again on EVERY way out — normal return, a control handed to the caller (return / break /
// throw travel as return values), a Go panic that TryStatement's guard turns into a script exception.
//
// A pair is recognised by name: X.Enter…/X.Leave…, X.Push…/X.Pop…, X.Begin…/X.End…, X.Acquire…/X.Release…,
// X.Lock/X.Unlock, X.RLock/X.RUnlock (same receiver expression, same suffix), and a field or package-level counter
// that one function both increments and decrements by hand (`X++ … X--`). For every function that calls an
// Enter the translator walks the statements (if / switch / type switch / select / for / range / blocks, local
// closures that call the Leave) with the number of entered-and-not-yet-left operations and reports
//   deferred   a `defer X.Leave…()` (or a deferred closure calling it) is registered while the operation is
//              entered, and every return before that point has left it explicitly,
//   everyExit  no defer, but every `return` and the end of the function are reached with the operation left,
//   leaks      some return (lines listed; 0 = the end of the function) is reached with the operation still entered,
// and whether script code is evaluated while the operation is entered (a call of …GetValue( / …Call( ): there a Go panic can
// come out of the region, so only `deferred` is safe. Methods that are themselves named like the operation and
// only pass it on (TempVM.EnterCall → vm.Base.EnterCall) are listed as forwarders. The definitions of the counter
// operations (++ / -- on a field, or the atomic spelling X.Add(±n) / atomic.AddInt64(&X, ±n)) are listed with
// their net effect. go/ast only; nothing is executed.
package main

import (
	"fmt"
	"go/ast"
	"go/token"
	"os"
	"sort"
	"strings"

	"verif/extract/ex"
)

var dirs = []string{"node", "runtime", "data"}

var pairPrefixes = [][2]string{{"Enter", "Leave"}, {"Push", "Pop"}, {"Begin", "End"}, {"Acquire", "Release"}, {"Lock", "Unlock"}, {"RLock", "RUnlock"}}

// opKind: +1 enter, -1 leave, 0 neither; key identifies the pair instance (receiver path + suffix + family)
func opKind(name string) (kind int, family, suffix string) {
	for _, p := range pairPrefixes {
		for k, pre := range p {
			if !strings.HasPrefix(name, pre) {
				continue
			}
			rest := name[len(pre):]
			if p[0] == "Lock" || p[0] == "RLock" {
				if rest != "" {
					continue
				}
			} else if rest != "" && !(rest[0] >= 'A' && rest[0] <= 'Z') {
				continue
			}
			if k == 0 {
				return 1, p[0], rest
			}
			return -1, p[0], rest
		}
	}
	return 0, "", ""
}

func path(e ast.Expr) string {
	switch t := e.(type) {
	case *ast.Ident:
		return t.Name
	case *ast.SelectorExpr:
		return path(t.X) + "." + t.Sel.Name
	case *ast.IndexExpr:
		return path(t.X) + "[]"
	case *ast.StarExpr:
		return path(t.X)
	case *ast.ParenExpr:
		return path(t.X)
	case *ast.CallExpr:
		return path(t.Fun) + "()"
	}
	return "?"
}

// callOp: the paired operation a call expression performs (method call on some receiver)
func callOp(c *ast.CallExpr) (kind int, key, written string) {
	se, ok := c.Fun.(*ast.SelectorExpr)
	if !ok {
		return 0, "", ""
	}
	k, fam, suf := opKind(se.Sel.Name)
	if k == 0 {
		return 0, "", ""
	}
	recv := path(se.X)
	return k, recv + "#" + fam + "#" + suf, recv + "." + se.Sel.Name
}

type site struct {
	file, fn     string
	enter, leave string
	mode         string
	unbalanced   []int
	runsScript   bool
}

type state map[string]int // pair key → entered and not yet left (a registered defer counts as left)

func (s state) clone() state {
	r := state{}
	for k, v := range s {
		r[k] = v
	}
	return r
}

func merge(a, b state) state {
	r := a.clone()
	for k, v := range b {
		if v > r[k] {
			r[k] = v
		}
	}
	return r
}

type analyser struct {
	fset     *token.FileSet
	closures map[string]map[string]bool // local func variable → pair keys whose Leave its body calls
	enters   map[string]string          // key → how the Enter is written
	leaves   map[string]string          // key → how the Leave is written
	deferred map[string]bool            // key → a deferred Leave was registered while entered
	unbal    map[string][]int           // key → lines of returns reached while entered
	runs     map[string]bool            // key → script code is evaluated while entered (…GetValue( / …Call( )
	counters map[string]bool            // non-local counters the function both increments and decrements
	order    []string
}

// the Leave operations a function literal performs (at any depth of its body)
func leavesIn(n ast.Node) map[string]bool {
	res := map[string]bool{}
	ast.Inspect(n, func(x ast.Node) bool {
		switch t := x.(type) {
		case *ast.CallExpr:
			if k, key, _ := callOp(t); k < 0 {
				res[key] = true
			}
		case *ast.IncDecStmt:
			if t.Tok == token.DEC {
				res[path(t.X)+"#count#"] = true
			}
		}
		return true
	})
	return res
}

// nonLocal: a field (x.f) or a package-level variable — something that outlives the call
func nonLocal(e ast.Expr, fd *ast.FuncDecl) bool {
	switch t := e.(type) {
	case *ast.SelectorExpr:
		return true
	case *ast.Ident:
		if t.Obj == nil {
			return true // declared in another file of the package
		}
		return t.Obj.Pos() < fd.Pos() || t.Obj.Pos() > fd.End()
	}
	return false
}

// counters this function both raises and lowers by hand (`X++ … X--` on a non-local X): a bracket written
// without Enter/Leave methods
func handCounters(fd *ast.FuncDecl) map[string]bool {
	inc, dec := map[string]bool{}, map[string]bool{}
	ast.Inspect(fd.Body, func(x ast.Node) bool {
		if id, ok := x.(*ast.IncDecStmt); ok && nonLocal(id.X, fd) {
			if id.Tok == token.INC {
				inc[path(id.X)] = true
			} else {
				dec[path(id.X)] = true
			}
		}
		return true
	})
	res := map[string]bool{}
	for k := range inc {
		if dec[k] {
			res[k] = true
		}
	}
	return res
}

// operations performed by the expressions of one simple statement, in source order (function literals are values,
// not executed here)
func (a *analyser) exprOps(n ast.Node, st state) {
	if n == nil {
		return
	}
	ast.Inspect(n, func(x ast.Node) bool {
		switch t := x.(type) {
		case *ast.FuncLit:
			return false
		case *ast.CallExpr:
			if k, key, w := callOp(t); k > 0 {
				if _, ok := a.enters[key]; !ok {
					a.enters[key] = w
					a.order = append(a.order, key)
				}
				st[key]++
			} else if k < 0 {
				a.leaves[key] = w
				if st[key] > 0 {
					st[key]--
				}
			} else if id, ok := t.Fun.(*ast.Ident); ok {
				for key := range a.closures[id.Name] {
					if st[key] > 0 {
						st[key]--
					}
				}
			} else if se, ok := t.Fun.(*ast.SelectorExpr); ok && (se.Sel.Name == "GetValue" || se.Sel.Name == "Call") {
				for key := range a.enters {
					if st[key] > 0 || a.deferred[key] {
						a.runs[key] = true
					}
				}
			}
		}
		return true
	})
}

func (a *analyser) atExit(st state, line int) {
	for key, v := range st {
		if v > 0 {
			a.unbal[key] = append(a.unbal[key], line)
		}
	}
}

// walk returns the state after the statements and whether control cannot fall out of them
func (a *analyser) walk(stmts []ast.Stmt, st state) (state, bool) {
	for _, s := range stmts {
		var term bool
		st, term = a.stmt(s, st)
		if term {
			return st, true
		}
	}
	return st, false
}

func (a *analyser) stmt(s ast.Stmt, st state) (state, bool) {
	switch t := s.(type) {
	case *ast.AssignStmt:
		// `leave := func() { … X.Leave() … }`
		if len(t.Lhs) == 1 && len(t.Rhs) == 1 {
			if id, ok := t.Lhs[0].(*ast.Ident); ok {
				if fl, ok := t.Rhs[0].(*ast.FuncLit); ok {
					if ls := leavesIn(fl); len(ls) > 0 {
						a.closures[id.Name] = ls
					}
					return st, false
				}
			}
		}
		a.exprOps(t, st)
	case *ast.IncDecStmt:
		if p := path(t.X); a.counters[p] {
			key := p + "#count#"
			if t.Tok == token.INC {
				if _, ok := a.enters[key]; !ok {
					a.enters[key] = p + "++"
					a.order = append(a.order, key)
				}
				st[key]++
			} else {
				a.leaves[key] = p + "--"
				if st[key] > 0 {
					st[key]--
				}
			}
		}
	case *ast.DeferStmt:
		keys := map[string]bool{}
		if k, key, w := callOp(t.Call); k < 0 {
			keys[key] = true
			a.leaves[key] = w
		} else if fl, ok := t.Call.Fun.(*ast.FuncLit); ok {
			keys = leavesIn(fl)
		} else if id, ok := t.Call.Fun.(*ast.Ident); ok {
			keys = a.closures[id.Name]
		}
		for key := range keys {
			if st[key] > 0 {
				st[key]--
				a.deferred[key] = true
			}
		}
	case *ast.ReturnStmt:
		a.exprOps(t, st)
		a.atExit(st, a.fset.Position(t.Pos()).Line)
		return st, true
	case *ast.ExprStmt:
		if c, ok := t.X.(*ast.CallExpr); ok {
			if id, ok := c.Fun.(*ast.Ident); ok && id.Name == "panic" {
				return st, true
			}
		}
		a.exprOps(t, st)
	case *ast.BlockStmt:
		return a.walk(t.List, st)
	case *ast.IfStmt:
		if t.Init != nil {
			st, _ = a.stmt(t.Init, st)
		}
		a.exprOps(t.Cond, st)
		thenSt, thenTerm := a.walk(t.Body.List, st.clone())
		elseSt, elseTerm := st.clone(), false
		if t.Else != nil {
			elseSt, elseTerm = a.stmt(t.Else, st.clone())
		}
		switch {
		case thenTerm && elseTerm:
			return st, true
		case thenTerm:
			return elseSt, false
		case elseTerm:
			return thenSt, false
		}
		return merge(thenSt, elseSt), false
	case *ast.SwitchStmt:
		if t.Init != nil {
			st, _ = a.stmt(t.Init, st)
		}
		a.exprOps(t.Tag, st)
		return a.clauses(t.Body, st)
	case *ast.TypeSwitchStmt:
		if t.Init != nil {
			st, _ = a.stmt(t.Init, st)
		}
		a.stmt(t.Assign, st)
		return a.clauses(t.Body, st)
	case *ast.SelectStmt:
		return a.clauses(t.Body, st)
	case *ast.ForStmt:
		if t.Init != nil {
			st, _ = a.stmt(t.Init, st)
		}
		a.exprOps(t.Cond, st)
		bodySt, _ := a.walk(t.Body.List, st.clone())
		return merge(st, bodySt), false
	case *ast.RangeStmt:
		a.exprOps(t.X, st)
		bodySt, _ := a.walk(t.Body.List, st.clone())
		return merge(st, bodySt), false
	case *ast.LabeledStmt:
		return a.stmt(t.Stmt, st)
	case *ast.GoStmt:
		// another goroutine: not this function's exit paths
	default:
		a.exprOps(s, st)
	}
	return st, false
}

func (a *analyser) clauses(body *ast.BlockStmt, st state) (state, bool) {
	out := state{}
	hasDefault, allTerm := false, true
	for _, c := range body.List {
		var list []ast.Stmt
		switch cc := c.(type) {
		case *ast.CaseClause:
			list = cc.Body
			if cc.List == nil {
				hasDefault = true
			}
		case *ast.CommClause:
			list = cc.Body
			if cc.Comm == nil {
				hasDefault = true
			}
		}
		cs, term := a.walk(list, st.clone())
		if !term {
			allTerm = false
			out = merge(out, cs)
		}
	}
	if !hasDefault {
		allTerm = false
		out = merge(out, st)
	}
	if allTerm {
		return st, true
	}
	return out, false
}

func recvName(fd *ast.FuncDecl) string {
	if fd.Recv == nil || len(fd.Recv.List) == 0 {
		return ""
	}
	return strings.TrimPrefix(ex.TypeString(fd.Recv.List[0].Type), "*")
}

// a constant integer argument: `1`, `-1`, `+2`
func constInt(e ast.Expr) (int, bool) {
	switch t := e.(type) {
	case *ast.ParenExpr:
		return constInt(t.X)
	case *ast.BasicLit:
		if t.Kind == token.INT {
			n := 0
			if _, err := fmt.Sscanf(t.Value, "%d", &n); err == nil {
				return n, true
			}
		}
	case *ast.UnaryExpr:
		if n, ok := constInt(t.X); ok {
			switch t.Op {
			case token.SUB:
				return -n, true
			case token.ADD:
				return n, true
			}
		}
	}
	return 0, false
}

// net effect of a function on the counters it increments / decrements: field → delta. Counter arithmetic is
// `X++` / `X--`, or its atomic spelling: `X.Add(±n)` on an atomic.Int32/Int64/Uint… field and
// `atomic.AddInt64(&X, ±n)` (after aff39ef VM.callDepth is an atomic.Int64).
func counterDeltas(fd *ast.FuncDecl) map[string]int {
	res := map[string]int{}
	ast.Inspect(fd.Body, func(x ast.Node) bool {
		switch t := x.(type) {
		case *ast.IncDecStmt:
			d := 1
			if t.Tok == token.DEC {
				d = -1
			}
			res[path(t.X)] += d
		case *ast.CallExpr:
			se, ok := t.Fun.(*ast.SelectorExpr)
			if !ok {
				break
			}
			switch {
			case se.Sel.Name == "Add" && len(t.Args) == 1 && path(se.X) != "atomic":
				if n, ok := constInt(t.Args[0]); ok {
					if _, isSel := se.X.(*ast.SelectorExpr); isSel { // a field: vm.callDepth.Add(1)
						res[path(se.X)] += n
					}
				}
			case path(se.X) == "atomic" && strings.HasPrefix(se.Sel.Name, "Add") && len(t.Args) == 2:
				if u, ok := t.Args[0].(*ast.UnaryExpr); ok && u.Op == token.AND {
					if n, ok := constInt(t.Args[1]); ok {
						res[path(u.X)] += n
					}
				}
			}
		}
		return true
	})
	return res
}

func main() {
	a := ex.ParseArgs()
	var sites []site
	var forwarders, shape []string
	type def struct {
		name  string
		delta int
		field string
	}
	var defs []def
	for _, dir := range dirs {
		fset, files, err := ex.ParseDir(a.Repo, dir)
		if err != nil {
			shape = append(shape, fmt.Sprintf("cannot parse %s/: %v", dir, err))
			continue
		}
		var names []string
		for n := range files {
			names = append(names, n)
		}
		sort.Strings(names)
		for _, n := range names {
			for _, d := range files[n].Decls {
				fd, ok := d.(*ast.FuncDecl)
				if !ok || fd.Body == nil {
					continue
				}
				fname := fd.Name.Name
				if r := recvName(fd); r != "" {
					fname = r + "." + fname
				}
				where := dir + "/" + n
				if k, _, _ := opKind(fd.Name.Name); k != 0 {
					// the operation itself: its definition (counter arithmetic) or a forwarder
					ds := counterDeltas(fd)
					if len(ds) == 0 {
						forwarders = append(forwarders, where+":"+fname)
					}
					var fields []string
					for f := range ds {
						fields = append(fields, f)
					}
					sort.Strings(fields)
					for _, f := range fields {
						defs = append(defs, def{where + ":" + fname, ds[f], f})
					}
					continue
				}
				an := &analyser{fset: fset, closures: map[string]map[string]bool{}, enters: map[string]string{}, leaves: map[string]string{},
					deferred: map[string]bool{}, unbal: map[string][]int{}, runs: map[string]bool{}, counters: handCounters(fd)}
				st, term := an.walk(fd.Body.List, state{})
				if !term {
					an.atExit(st, 0)
				}
				for _, key := range an.order {
					s := site{file: where, fn: fname, enter: an.enters[key], leave: an.leaves[key]}
					ub := an.unbal[key]
					sort.Ints(ub)
					s.unbalanced = ub
					switch {
					case len(ub) > 0:
						s.mode = "leaks"
					case an.deferred[key]:
						s.mode = "deferred"
					default:
						s.mode = "everyExit"
					}
					s.runsScript = an.runs[key]
					sites = append(sites, s)
				}
			}
		}
	}
	// the anchor of the obligation: the recursion guard of method calls
	found := false
	for _, s := range sites {
		if s.file == "node/class.go" && s.fn == "ClassMethod.Call" && strings.HasSuffix(s.enter, ".EnterCall") {
			found = true
		}
	}
	if !found {
		shape = append(shape, "node/class.go ClassMethod.Call no longer brackets the method body with EnterCall/LeaveCall")
	}

	var sb strings.Builder
	sb.WriteString("import Model.ExcPairs\n/-! Paired enter/leave operations on the call path (node/, runtime/, data/): every function that enters one, and how it leaves it. -/\nnamespace Generated.C05Pairs\nopen Model.ExcPairs\n\n")
	sb.WriteString("def sites : List Site := [")
	for i, s := range sites {
		if i > 0 {
			sb.WriteString(",")
		}
		var ub []string
		for _, l := range s.unbalanced {
			ub = append(ub, fmt.Sprint(l))
		}
		fmt.Fprintf(&sb, "\n  { file := %s, fn := %s, enter := %s, leave := %s, mode := .%s, unbalanced := [%s], runsScript := %v }",
			ex.LeanString(s.file), ex.LeanString(s.fn), ex.LeanString(s.enter), ex.LeanString(s.leave), s.mode, strings.Join(ub, ", "), s.runsScript)
	}
	sb.WriteString("]\n\n/-- methods named like an operation that only pass it on -/\ndef forwarders : List String := [")
	for i, f := range forwarders {
		if i > 0 {
			sb.WriteString(", ")
		}
		sb.WriteString(ex.LeanString(f))
	}
	sb.WriteString("]\n\n/-- the operations that are counter arithmetic: (definition, counter, net effect of one call) -/\ndef counters : List (String × String × Int) := [")
	for i, d := range defs {
		if i > 0 {
			sb.WriteString(", ")
		}
		fmt.Fprintf(&sb, "(%s, %s, %d)", ex.LeanString(d.name), ex.LeanString(d.field), d.delta)
	}
	sb.WriteString("]\n\ndef shapeChanged : List String := [")
	for i, s := range shape {
		if i > 0 {
			sb.WriteString(", ")
		}
		sb.WriteString(ex.LeanString(s))
	}
	sb.WriteString("]\n\nend Generated.C05Pairs\n")
	if err := ex.WriteIfChanged(a.Out, "C05Pairs.lean", sb.String()); err != nil {
		fmt.Fprintln(os.Stderr, err)
		os.Exit(1)
	}
	fmt.Printf("C05Pairs: %d sites, %d forwarders, %d counter operations, shapeChanged=%d\n", len(sites), len(forwarders), len(defs), len(shape))
	// second part (tryshape.go): how the clause list of a try statement is built and scanned
	summary, err := genTryShape(a)
	if err != nil {
		fmt.Fprintln(os.Stderr, err)
		os.Exit(1)
	}
	fmt.Println(summary)
}
