package main

// depthGuards / vmCounters: limits next to process-wide counters.
//
//   - vmCounters: every numeric field (int…, uint…, atomic.Int32/Int64/Uint32/Uint64) of a struct type
//     of package runtime that has a method — the VM types; one VM serves every request of the process.
//   - counter methods: methods of those types whose body changes such a field (`x.f.Add(n)`, `x.f++`,
//     `x.f += n`, `x.f = …`); the ones that increment ("enter") and the ones that decrement ("leave").
//     Methods of the same name on other types are forwarders (TempVM.EnterCall → Base.EnterCall).
//   - depthGuards: every call `….<enter>()` in a non-test Go file of the repository that is not inside
//     a method of the same name: the function it sits in, the limit the returned number is compared
//     with in the `if` that contains the call, and what the refusal under that `if` is decided on:
//     "own" when every `return` in its body is nested in an `if` whose init/condition calls a
//     parameterless function of the same package that counts frames of the calling goroutine
//     (`runtime.Callers`, no counter method), "shared" when a `return` is reached on the process-wide
//     number alone, "never" when nothing returns there. ownCounts: the method expressions `(*T).M`
//     whose name that function compares frames with. balanced: the refusal path calls the leave
//     method before it returns and a `defer ….<leave>()` follows the `if`.
//
// Syntactic, like the rest of the translator; what is not understood becomes a shape note.

import (
	"go/ast"
	"go/parser"
	"go/token"
	"io/fs"
	"path/filepath"
	"sort"
	"strconv"
	"strings"

	"verif/extract/ex"
)

type depthGuard struct {
	fn, counter string
	limit       int
	decidesOn   string
	ownLimit    int
	ownCounts   []string
	balanced    bool
}

type vmCounter struct {
	name, typ string
	atomic    bool
}

func numericType(e ast.Expr) (string, bool, bool) {
	switch t := e.(type) {
	case *ast.Ident:
		switch t.Name {
		case "int", "int8", "int16", "int32", "int64", "uint", "uint8", "uint16", "uint32", "uint64", "uintptr":
			return t.Name, false, true
		}
	case *ast.SelectorExpr:
		if x, ok := t.X.(*ast.Ident); ok && x.Name == "atomic" {
			switch t.Sel.Name {
			case "Int32", "Int64", "Uint32", "Uint64", "Uintptr":
				return "atomic." + t.Sel.Name, true, true
			}
		}
	}
	return "", false, false
}

// fieldOfRecv: x.f… rooted at the receiver → f
func fieldOfRecv(e ast.Expr, recv string) string {
	for {
		switch t := e.(type) {
		case *ast.SelectorExpr:
			if id, ok := t.X.(*ast.Ident); ok && id.Name == recv {
				return t.Sel.Name
			}
			e = t.X
		case *ast.ParenExpr:
			e = t.X
		case *ast.IndexExpr:
			e = t.X
		default:
			return ""
		}
	}
}

func intLit(e ast.Expr) (int, bool) {
	neg := false
	if u, ok := e.(*ast.UnaryExpr); ok && u.Op == token.SUB {
		neg = true
		e = u.X
	}
	if b, ok := e.(*ast.BasicLit); ok && b.Kind == token.INT {
		n, err := strconv.Atoi(b.Value)
		if err == nil {
			if neg {
				n = -n
			}
			return n, true
		}
	}
	return 0, false
}

type goPkg struct {
	rel   string
	files map[string]*ast.File
}

func (p *goPkg) last() string { return filepath.Base(p.rel) }

// constant: value of an integer constant / literal in the package
func (p *goPkg) constant(e ast.Expr) (int, bool) {
	if n, ok := intLit(e); ok {
		return n, true
	}
	id, ok := e.(*ast.Ident)
	if !ok {
		return 0, false
	}
	for _, f := range p.files {
		for _, d := range f.Decls {
			gd, ok := d.(*ast.GenDecl)
			if !ok || gd.Tok != token.CONST {
				continue
			}
			for _, sp := range gd.Specs {
				vs := sp.(*ast.ValueSpec)
				for i, n := range vs.Names {
					if n.Name == id.Name && i < len(vs.Values) {
						return intLit(vs.Values[i])
					}
				}
			}
		}
	}
	return 0, false
}

func (p *goPkg) fun(name string) *ast.FuncDecl {
	for _, f := range p.files {
		for _, d := range f.Decls {
			if fd, ok := d.(*ast.FuncDecl); ok && fd.Recv == nil && fd.Name.Name == name {
				return fd
			}
		}
	}
	return nil
}

// methodExprVars: package-level / init-assigned identifiers whose value is built from a method
// expression (*T).M  →  "T.M"
func (p *goPkg) methodExprVars() map[string]string {
	out := map[string]string{}
	find := func(rhs ast.Expr) string {
		name := ""
		ast.Inspect(rhs, func(n ast.Node) bool {
			if s, ok := n.(*ast.SelectorExpr); ok {
				if pe, ok := s.X.(*ast.ParenExpr); ok {
					if st, ok := pe.X.(*ast.StarExpr); ok {
						if id, ok := st.X.(*ast.Ident); ok {
							name = id.Name + "." + s.Sel.Name
						}
					}
				}
			}
			return true
		})
		return name
	}
	for _, f := range p.files {
		ast.Inspect(f, func(n ast.Node) bool {
			switch t := n.(type) {
			case *ast.AssignStmt:
				if len(t.Lhs) == 1 && len(t.Rhs) == 1 {
					if id, ok := t.Lhs[0].(*ast.Ident); ok {
						if m := find(t.Rhs[0]); m != "" {
							out[id.Name] = m
						}
					}
				}
			case *ast.ValueSpec:
				for i, id := range t.Names {
					if i < len(t.Values) {
						if m := find(t.Values[i]); m != "" {
							out[id.Name] = m
						}
					}
				}
			}
			return true
		})
	}
	return out
}

func containsCall(n ast.Node, names map[string]string) *ast.CallExpr {
	var hit *ast.CallExpr
	if n == nil {
		return nil
	}
	ast.Inspect(n, func(m ast.Node) bool {
		if c, ok := m.(*ast.CallExpr); ok && hit == nil {
			if s, ok := c.Fun.(*ast.SelectorExpr); ok {
				if _, ok := names[s.Sel.Name]; ok {
					hit = c
				}
			}
		}
		return hit == nil
	})
	return hit
}

func scanDepthGuards(repo string, bad func(string, ...any)) ([]depthGuard, []vmCounter) {
	// ---------------------------------------------------------------- the VM types and their counters
	_, rtFiles, err := ex.ParseDir(repo, "runtime")
	if err != nil {
		bad("runtime package not parsed: %v", err)
		return nil, nil
	}
	hasMethod := map[string]bool{}
	for _, f := range rtFiles {
		for _, d := range f.Decls {
			if fd, ok := d.(*ast.FuncDecl); ok && fd.Recv != nil && len(fd.Recv.List) > 0 {
				hasMethod[baseType(fd.Recv.List[0].Type)] = true
			}
		}
	}
	var counters []vmCounter
	counterField := map[string]map[string]bool{} // type -> field
	for _, f := range rtFiles {
		for _, d := range f.Decls {
			gd, ok := d.(*ast.GenDecl)
			if !ok || gd.Tok != token.TYPE {
				continue
			}
			for _, sp := range gd.Specs {
				ts := sp.(*ast.TypeSpec)
				st, ok := ts.Type.(*ast.StructType)
				if !ok || st.Fields == nil || !hasMethod[ts.Name.Name] || !strings.Contains(ts.Name.Name, "VM") {
					continue
				}
				for _, fl := range st.Fields.List {
					tn, atomic, ok := numericType(fl.Type)
					if !ok {
						continue
					}
					for _, id := range fl.Names {
						counters = append(counters, vmCounter{ts.Name.Name + "." + id.Name, tn, atomic})
						if counterField[ts.Name.Name] == nil {
							counterField[ts.Name.Name] = map[string]bool{}
						}
						counterField[ts.Name.Name][id.Name] = true
					}
				}
			}
		}
	}
	sort.Slice(counters, func(i, j int) bool { return counters[i].name < counters[j].name })
	enter, leave := map[string]string{}, map[string]string{} // method name -> counter
	for _, f := range rtFiles {
		for _, d := range f.Decls {
			fd, ok := d.(*ast.FuncDecl)
			if !ok || fd.Recv == nil || len(fd.Recv.List) == 0 || fd.Body == nil || len(fd.Recv.List[0].Names) == 0 {
				continue
			}
			tn := baseType(fd.Recv.List[0].Type)
			recv := fd.Recv.List[0].Names[0].Name
			if counterField[tn] == nil {
				continue
			}
			note := func(field string, delta int, known bool) {
				if !counterField[tn][field] {
					return
				}
				c := tn + "." + field
				switch {
				case known && delta > 0:
					enter[fd.Name.Name] = c
				case known && delta < 0:
					leave[fd.Name.Name] = c
				default:
					bad("counter %s is changed by %s.%s in a way the translator does not understand", c, tn, fd.Name.Name)
				}
			}
			ast.Inspect(fd.Body, func(n ast.Node) bool {
				switch t := n.(type) {
				case *ast.IncDecStmt:
					if fl := fieldOfRecv(t.X, recv); fl != "" {
						if t.Tok == token.INC {
							note(fl, 1, true)
						} else {
							note(fl, -1, true)
						}
					}
				case *ast.AssignStmt:
					for _, l := range t.Lhs {
						if fl := fieldOfRecv(l, recv); fl != "" && counterField[tn][fl] {
							v, ok := 0, false
							if len(t.Rhs) == 1 {
								v, ok = intLit(t.Rhs[0])
							}
							switch {
							case t.Tok == token.ADD_ASSIGN && ok:
								note(fl, v, true)
							case t.Tok == token.SUB_ASSIGN && ok:
								note(fl, -v, true)
							default:
								note(fl, 0, false)
							}
						}
					}
				case *ast.CallExpr:
					if s, ok := t.Fun.(*ast.SelectorExpr); ok {
						if fl := fieldOfRecv(s.X, recv); fl != "" && counterField[tn][fl] {
							switch s.Sel.Name {
							case "Add":
								if len(t.Args) == 1 {
									if v, ok := intLit(t.Args[0]); ok {
										note(fl, v, true)
										break
									}
								}
								note(fl, 0, false)
							case "Store", "Swap", "CompareAndSwap":
								note(fl, 0, false)
							}
						}
					}
				}
				return true
			})
		}
	}
	if len(counters) > 0 && len(enter) == 0 {
		bad("the VM has numeric fields but no method that increments one was recognised")
	}

	// ---------------------------------------------------------------- call sites of the enter methods
	pkgs := map[string]*goPkg{}
	filepath.WalkDir(repo, func(p string, d fs.DirEntry, err error) error {
		if err != nil {
			return nil
		}
		if d.IsDir() {
			if n := d.Name(); n == ".git" || n == "node_modules" {
				return filepath.SkipDir
			}
			return nil
		}
		if !strings.HasSuffix(p, ".go") || strings.HasSuffix(p, "_test.go") {
			return nil
		}
		rel, _ := filepath.Rel(repo, filepath.Dir(p))
		pk := pkgs[rel]
		if pk == nil {
			pk = &goPkg{rel: rel, files: map[string]*ast.File{}}
			pkgs[rel] = pk
		}
		f, err := parser.ParseFile(token.NewFileSet(), p, nil, parser.SkipObjectResolution)
		if err == nil {
			pk.files[filepath.Base(p)] = f
		}
		return nil
	})
	var rels []string
	for r := range pkgs {
		rels = append(rels, r)
	}
	sort.Strings(rels)
	var guards []depthGuard
	for _, rel := range rels {
		pk := pkgs[rel]
		var fnames []string
		for n := range pk.files {
			fnames = append(fnames, n)
		}
		sort.Strings(fnames)
		var mvars map[string]string
		for _, fname := range fnames {
			for _, d := range pk.files[fname].Decls {
				fd, ok := d.(*ast.FuncDecl)
				if !ok || fd.Body == nil {
					continue
				}
				if _, fwd := enter[fd.Name.Name]; fwd {
					continue // the method itself or a forwarder of the same name
				}
				if containsCall(fd.Body, enter) == nil {
					continue
				}
				if mvars == nil {
					mvars = pk.methodExprVars()
				}
				fn := pk.last() + "."
				if fd.Recv != nil && len(fd.Recv.List) > 0 {
					fn += baseType(fd.Recv.List[0].Type) + "."
				}
				fn += fd.Name.Name
				guards = append(guards, guardsIn(pk, fn, fd, enter, leave, mvars, bad)...)
			}
		}
	}
	sort.Slice(guards, func(i, j int) bool { return guards[i].fn < guards[j].fn })
	return guards, counters
}

// guardsIn: one fact per enter call in fd
func guardsIn(pk *goPkg, fn string, fd *ast.FuncDecl, enter, leave map[string]string, mvars map[string]string, bad func(string, ...any)) []depthGuard {
	var out []depthGuard
	seen := map[*ast.CallExpr]bool{}
	var walkBlock func(list []ast.Stmt)
	handleIf := func(ifs *ast.IfStmt, following []ast.Stmt) bool {
		var call *ast.CallExpr
		bound := ""
		if c := containsCall(ifs.Init, enter); c != nil {
			call = c
			if as, ok := ifs.Init.(*ast.AssignStmt); ok && len(as.Lhs) == 1 {
				if id, ok := as.Lhs[0].(*ast.Ident); ok {
					bound = id.Name
				}
			}
		} else if c := containsCall(ifs.Cond, enter); c != nil {
			call = c
		}
		if call == nil {
			return false
		}
		seen[call] = true
		g := depthGuard{fn: fn, counter: enter[call.Fun.(*ast.SelectorExpr).Sel.Name], decidesOn: "never"}
		// ---- the limit
		if be, ok := unparen(ifs.Cond).(*ast.BinaryExpr); ok && (be.Op == token.GTR || be.Op == token.GEQ) {
			isShared := func(e ast.Expr) bool {
				if id, ok := e.(*ast.Ident); ok && bound != "" && id.Name == bound {
					return true
				}
				return containsCall(e, enter) != nil
			}
			if isShared(be.X) {
				if n, ok := pk.constant(be.Y); ok {
					g.limit = n
					if be.Op == token.GEQ {
						g.limit = n - 1
					}
				}
			}
		}
		if g.limit <= 0 {
			bad("%s: the number returned by the counter is not compared with a constant (`> limit`)", fn)
		}
		// ---- what the refusal is decided on
		type ownIf struct {
			fn    string
			limit int
		}
		var owns []ownIf
		shared, any := false, false
		var visit func(n ast.Node, under *ownIf)
		visit = func(n ast.Node, under *ownIf) {
			switch t := n.(type) {
			case nil:
				return
			case *ast.FuncLit:
				return
			case *ast.ReturnStmt:
				any = true
				if under == nil {
					shared = true
				}
				return
			case *ast.IfStmt:
				cur := under
				if o := ownCondition(pk, t, enter, leave); o != nil {
					owns = append(owns, ownIf{o.fn, o.limit})
					cur = &ownIf{o.fn, o.limit}
				}
				visit(t.Body, cur)
				if t.Else != nil {
					visit(t.Else, under)
				}
				return
			case *ast.ExprStmt:
				if c, ok := t.X.(*ast.CallExpr); ok {
					if id, ok := c.Fun.(*ast.Ident); ok && id.Name == "panic" {
						any = true
						if under == nil {
							shared = true
						}
					}
				}
				return
			case *ast.BlockStmt:
				for _, s := range t.List {
					visit(s, under)
				}
				return
			case *ast.ForStmt:
				visit(t.Body, under)
			case *ast.RangeStmt:
				visit(t.Body, under)
			case *ast.SwitchStmt:
				visit(t.Body, under)
			case *ast.CaseClause:
				for _, s := range t.Body {
					visit(s, under)
				}
			}
		}
		visit(ifs.Body, nil)
		switch {
		case shared:
			g.decidesOn = "shared"
		case any:
			g.decidesOn = "own"
		}
		if g.decidesOn == "own" {
			for i, o := range owns {
				if i == 0 || o.limit < g.ownLimit {
					g.ownLimit = o.limit
				}
				if fdOwn := pk.fun(o.fn); fdOwn != nil {
					ast.Inspect(fdOwn.Body, func(n ast.Node) bool {
						if id, ok := n.(*ast.Ident); ok {
							if m, ok := mvars[id.Name]; ok {
								g.ownCounts = append(g.ownCounts, pk.last()+"."+m)
							}
						}
						return true
					})
				}
			}
			sort.Strings(g.ownCounts)
			g.ownCounts = dedup(g.ownCounts)
			if len(g.ownCounts) == 0 {
				bad("%s: which frames the goroutine-local count counts was not recognised", fn)
			}
		}
		// ---- balanced: leave before every return under the guard, deferred leave after it
		leftBeforeReturn := true
		var chk func(list []ast.Stmt, left bool)
		chk = func(list []ast.Stmt, left bool) {
			for _, s := range list {
				switch t := s.(type) {
				case *ast.ExprStmt:
					if containsCall(t, leave) != nil {
						left = true
					}
				case *ast.ReturnStmt:
					if !left {
						leftBeforeReturn = false
					}
				case *ast.IfStmt:
					chk(t.Body.List, left)
					if b, ok := t.Else.(*ast.BlockStmt); ok {
						chk(b.List, left)
					}
				case *ast.BlockStmt:
					chk(t.List, left)
				}
			}
		}
		chk(ifs.Body.List, false)
		deferred := false
		for _, s := range following {
			if d, ok := s.(*ast.DeferStmt); ok && containsCall(d.Call, leave) != nil {
				deferred = true
				break
			}
			if _, ok := s.(*ast.ReturnStmt); ok {
				break
			}
		}
		g.balanced = leftBeforeReturn && deferred
		out = append(out, g)
		return true
	}
	walkBlock = func(list []ast.Stmt) {
		for i, s := range list {
			switch t := s.(type) {
			case *ast.IfStmt:
				if handleIf(t, list[i+1:]) {
					continue
				}
				walkBlock(t.Body.List)
				if b, ok := t.Else.(*ast.BlockStmt); ok {
					walkBlock(b.List)
				} else if e, ok := t.Else.(*ast.IfStmt); ok {
					walkBlock([]ast.Stmt{e})
				}
			case *ast.BlockStmt:
				walkBlock(t.List)
			case *ast.ForStmt:
				walkBlock(t.Body.List)
			case *ast.RangeStmt:
				walkBlock(t.Body.List)
			case *ast.SwitchStmt:
				for _, c := range t.Body.List {
					walkBlock(c.(*ast.CaseClause).Body)
				}
			}
		}
	}
	walkBlock(fd.Body.List)
	// enter calls outside an `if` that holds them: counted, never compared
	ast.Inspect(fd.Body, func(n ast.Node) bool {
		if c, ok := n.(*ast.CallExpr); ok && !seen[c] {
			if s, ok := c.Fun.(*ast.SelectorExpr); ok {
				if ctr, ok := enter[s.Sel.Name]; ok {
					seen[c] = true
					bad("%s: %s() is called outside the `if` that compares it with a limit", fn, s.Sel.Name)
					out = append(out, depthGuard{fn: fn, counter: ctr, decidesOn: "shared"})
				}
			}
		}
		return true
	})
	return out
}

type ownCond struct {
	fn    string
	limit int
}

// ownCondition: `if own := f(); own > L {` / `if f() > L {` where f is a parameterless function of
// the package that walks the calling goroutine's stack (runtime.Callers) and touches no counter
func ownCondition(pk *goPkg, ifs *ast.IfStmt, enter, leave map[string]string) *ownCond {
	var call *ast.CallExpr
	bound := ""
	pick := func(e ast.Node) *ast.CallExpr {
		var hit *ast.CallExpr
		if e == nil {
			return nil
		}
		ast.Inspect(e, func(n ast.Node) bool {
			if c, ok := n.(*ast.CallExpr); ok && hit == nil && len(c.Args) == 0 {
				if id, ok := c.Fun.(*ast.Ident); ok && pk.fun(id.Name) != nil {
					hit = c
				}
			}
			return hit == nil
		})
		return hit
	}
	if as, ok := ifs.Init.(*ast.AssignStmt); ok && len(as.Lhs) == 1 && len(as.Rhs) == 1 {
		if c := pick(as.Rhs[0]); c != nil {
			call = c
			if id, ok := as.Lhs[0].(*ast.Ident); ok {
				bound = id.Name
			}
		}
	}
	if call == nil {
		call = pick(ifs.Cond)
	}
	if call == nil {
		return nil
	}
	name := call.Fun.(*ast.Ident).Name
	fd := pk.fun(name)
	if fd == nil || fd.Body == nil || (fd.Type.Params != nil && len(fd.Type.Params.List) > 0) {
		return nil
	}
	walksStack, touches := false, false
	ast.Inspect(fd.Body, func(n ast.Node) bool {
		if s, ok := n.(*ast.SelectorExpr); ok {
			if x, ok := s.X.(*ast.Ident); ok && x.Name == "runtime" && s.Sel.Name == "Callers" {
				walksStack = true
			}
			if _, ok := enter[s.Sel.Name]; ok {
				touches = true
			}
			if _, ok := leave[s.Sel.Name]; ok {
				touches = true
			}
		}
		return true
	})
	if !walksStack || touches {
		return nil
	}
	be, ok := unparen(ifs.Cond).(*ast.BinaryExpr)
	if !ok || (be.Op != token.GTR && be.Op != token.GEQ) {
		return nil
	}
	lhsOK := false
	if id, ok := be.X.(*ast.Ident); ok && bound != "" && id.Name == bound {
		lhsOK = true
	}
	if c, ok := be.X.(*ast.CallExpr); ok && c == call {
		lhsOK = true
	}
	if !lhsOK {
		return nil
	}
	n, ok := pk.constant(be.Y)
	if !ok {
		return nil
	}
	if be.Op == token.GEQ {
		n--
	}
	return &ownCond{name, n}
}

func dedup(l []string) []string {
	var out []string
	for i, s := range l {
		if i == 0 || l[i-1] != s {
			out = append(out, s)
		}
	}
	return out
}
