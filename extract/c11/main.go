// extract/c11: regenerates lean/Generated/C11Superglobals.lean from
// node/globals_*.go, node/env_lookup.go and std/net/http/*.go.
//
//   - cells: for every superglobal node type (the type whose GetName() returns
//     "$_GET", "$_POST", …) the package-level variables its GetValue reads or
//     assigns, directly or through functions of package node it calls; whether
//     ResetSuperglobals sets each of them to nil.
//   - entries: every function or function literal of std/net/http that receives
//     (http.ResponseWriter, *http.Request): does it run script code
//     (`X.Call(ctx)` / executeMiddlewareChain), is its first statement
//     node.ResetSuperglobals(), is every context it hands to script code created
//     inside it by CreateContext, is it registered on a function-local mux.
//   - outerReset: finalizeHandler's outermost wrapper is a function whose handler
//     literal starts with node.ResetSuperglobals(); routesFinalized: every
//     `….source.Handle(pattern, h)` passes an h assigned from finalizeHandler(…).
//   - pkgVars: all package-level variables of std/net/http and of the node files.
//   - registries: every use of a package-level map / sync.Map of std/net/http with its key
//     expression and whether that key is the *http.Request itself (registries.go).
//   - nodeWrites: every place where an evaluation-time method of a type of package node (a
//     method with a `data.Context` parameter — GetValue, Call, SetValue, … — or a method of the
//     same receiver it calls, transitively, also through embedded types) stores into a field of
//     its own receiver: `r.f = …`, `r.f[k] = …`, `r.f.g = …`, `r.f++`, `&r.f`, `delete(r.f, k)`;
//     with the flag `parserBuilt`: package parser constructs the type (`&node.T{…}`, or a
//     `node.NewX(…)` whose body builds a T, transitively) — i.e. the receiver is a syntax node,
//     shared by every request that runs the code, not an object made per evaluation; and the
//     flag `called`: a call `.method(` exists in some non-test Go file of the repository.
//
// Anything not understood becomes a `shape` entry (which fails the obligation).
// The translator never executes repository code.
package main

import (
	"fmt"
	"go/ast"
	"go/token"
	"os"
	"sort"
	"strings"

	"verif/extract/ex"
)

var kindOf = map[string]string{"$_GET": "get", "$_POST": "post", "$_COOKIE": "cookie", "$_SERVER": "server",
	"$_REQUEST": "request", "$_FILES": "files", "$_SESSION": "session", "$_ENV": "env", "$GLOBALS": "globals"}

var kindOrder = []string{"get", "post", "cookie", "server", "request", "files", "session", "env", "globals"}

type pkgVar struct{ pkg, name, typ string }

func main() {
	a := ex.ParseArgs()
	var shape []string
	bad := func(f string, x ...any) { shape = append(shape, fmt.Sprintf(f, x...)) }

	// ------------------------------------------------------------ package node
	_, nodeFiles, err := ex.ParseDir(a.Repo, "node")
	if err != nil {
		fmt.Fprintln(os.Stderr, "c11:", err)
		os.Exit(1)
	}
	isGlobalsFile := func(name string) bool {
		return strings.HasPrefix(name, "globals_") || name == "env_lookup.go"
	}
	var pkgVars []pkgVar
	nodeVars := map[string]bool{} // package-level vars declared in the globals files
	funcs := map[string]*ast.FuncDecl{}
	type meth struct {
		recv string
		fd   *ast.FuncDecl
	}
	var methods []meth
	var fileNames []string
	for n := range nodeFiles {
		fileNames = append(fileNames, n)
	}
	sort.Strings(fileNames)
	for _, fname := range fileNames {
		f := nodeFiles[fname]
		for _, d := range f.Decls {
			switch t := d.(type) {
			case *ast.GenDecl:
				if t.Tok != token.VAR || !isGlobalsFile(fname) {
					continue
				}
				for _, sp := range t.Specs {
					vs := sp.(*ast.ValueSpec)
					for _, id := range vs.Names {
						if id.Name == "_" {
							continue
						}
						typ := "?"
						if vs.Type != nil {
							typ = ex.TypeString(vs.Type)
						}
						nodeVars[id.Name] = true
						pkgVars = append(pkgVars, pkgVar{"node", id.Name, typ})
					}
				}
			case *ast.FuncDecl:
				if t.Recv == nil {
					funcs[t.Name.Name] = t
				} else if isGlobalsFile(fname) && len(t.Recv.List) > 0 {
					methods = append(methods, meth{strings.TrimPrefix(ex.TypeString(t.Recv.List[0].Type), "*"), t})
				}
			}
		}
	}
	// package-level vars reachable from a body (through package functions, transitively)
	var reach func(body ast.Node, seen map[string]bool, out map[string]bool)
	reach = func(body ast.Node, seen map[string]bool, out map[string]bool) {
		if body == nil {
			return
		}
		ast.Inspect(body, func(n ast.Node) bool {
			switch t := n.(type) {
			case *ast.SelectorExpr:
				// x.Sel: only x can be a package-level identifier
				ast.Inspect(t.X, func(m ast.Node) bool {
					if id, ok := m.(*ast.Ident); ok && nodeVars[id.Name] {
						out[id.Name] = true
					}
					return true
				})
				// method values on composite receivers (&GetVariable{…}).GetValue are handled below
				if cl, ok := unparen(t.X).(*ast.UnaryExpr); ok {
					if lit, ok := cl.X.(*ast.CompositeLit); ok {
						tn := ex.TypeString(lit.Type)
						for _, m := range methods {
							if m.recv == tn && m.fd.Name.Name == t.Sel.Name && !seen[tn+"."+t.Sel.Name] {
								seen[tn+"."+t.Sel.Name] = true
								reach(m.fd.Body, seen, out)
							}
						}
					}
				}
				return false
			case *ast.Ident:
				if nodeVars[t.Name] {
					out[t.Name] = true
				}
				if fd, ok := funcs[t.Name]; ok && !seen[t.Name] {
					seen[t.Name] = true
					reach(fd.Body, seen, out)
				}
			}
			return true
		})
	}
	// ResetSuperglobals: which vars are set to nil
	resetVars := map[string]bool{}
	if fd := funcs["ResetSuperglobals"]; fd == nil || fd.Body == nil {
		bad("node.ResetSuperglobals not found")
	} else {
		for _, st := range fd.Body.List {
			as, ok := st.(*ast.AssignStmt)
			if !ok || len(as.Lhs) != 1 || len(as.Rhs) != 1 {
				bad("ResetSuperglobals: statement that is not `x = nil`")
				continue
			}
			id, ok1 := as.Lhs[0].(*ast.Ident)
			nl, ok2 := as.Rhs[0].(*ast.Ident)
			if !ok1 || !ok2 || nl.Name != "nil" {
				bad("ResetSuperglobals: statement that is not `x = nil`")
				continue
			}
			resetVars[id.Name] = true
		}
	}
	// superglobal node types: GetName returns a known literal
	type cell struct {
		kind, name string
		vars       []string
		reset      bool
	}
	cells := map[string]cell{}
	for _, m := range methods {
		if m.fd.Name.Name != "GetName" || m.fd.Body == nil || len(m.fd.Body.List) != 1 {
			continue
		}
		ret, ok := m.fd.Body.List[0].(*ast.ReturnStmt)
		if !ok || len(ret.Results) != 1 {
			continue
		}
		lit, ok := ret.Results[0].(*ast.BasicLit)
		if !ok || lit.Kind != token.STRING {
			continue
		}
		name := strings.Trim(lit.Value, "\"`")
		kind, ok := kindOf[name]
		if !ok {
			continue
		}
		var gv *ast.FuncDecl
		for _, m2 := range methods {
			if m2.recv == m.recv && m2.fd.Name.Name == "GetValue" {
				gv = m2.fd
			}
		}
		if gv == nil {
			bad("%s: no GetValue method", m.recv)
			continue
		}
		out := map[string]bool{}
		reach(gv.Body, map[string]bool{m.recv + ".GetValue": true}, out)
		var vars []string
		for v := range out {
			vars = append(vars, v)
		}
		sort.Strings(vars)
		reset := true
		for _, v := range vars {
			if !resetVars[v] {
				reset = false
			}
		}
		if _, dup := cells[kind]; dup {
			bad("two node types named %s", name)
		}
		cells[kind] = cell{kind, name, vars, reset}
	}

	// ------------------------------------------------------------ stores into the receiver node
	nodeWrites := scanNodeWrites(a.Repo, nodeFiles, bad)

	// ------------------------------------------------------------ package std/net/http
	fset, httpFiles, err := ex.ParseDir(a.Repo, "std/net/http")
	if err != nil {
		fmt.Fprintln(os.Stderr, "c11:", err)
		os.Exit(1)
	}
	var hnames []string
	for n := range httpFiles {
		hnames = append(hnames, n)
	}
	sort.Strings(hnames)
	httpFuncs := map[string]*ast.FuncDecl{}
	for _, fname := range hnames {
		for _, d := range httpFiles[fname].Decls {
			switch t := d.(type) {
			case *ast.GenDecl:
				if t.Tok != token.VAR {
					continue
				}
				for _, sp := range t.Specs {
					vs := sp.(*ast.ValueSpec)
					for _, id := range vs.Names {
						if id.Name == "_" {
							continue
						}
						typ := "?"
						if vs.Type != nil {
							typ = ex.TypeString(vs.Type)
						}
						pkgVars = append(pkgVars, pkgVar{"std/net/http", id.Name, typ})
					}
				}
			case *ast.FuncDecl:
				if t.Recv == nil {
					httpFuncs[t.Name.Name] = t
				}
			}
		}
	}
	type entry struct {
		name                                         string
		runsScript, resetsFirst, freshContext, nested bool
	}
	var entries []entry
	isReqFunc := func(ft *ast.FuncType) bool {
		if ft == nil || ft.Params == nil {
			return false
		}
		w, r := false, false
		for _, p := range ft.Params.List {
			ts := ex.TypeString(p.Type)
			if strings.HasSuffix(ts, ".ResponseWriter") {
				w = true
			}
			if strings.HasPrefix(ts, "*") && strings.HasSuffix(ts, ".Request") {
				r = true
			}
		}
		return w && r
	}
	isResetCall := func(st ast.Stmt) bool {
		es, ok := st.(*ast.ExprStmt)
		if !ok {
			return false
		}
		c, ok := es.X.(*ast.CallExpr)
		if !ok {
			return false
		}
		s, ok := c.Fun.(*ast.SelectorExpr)
		return ok && s.Sel.Name == "ResetSuperglobals"
	}
	// analyse one request function body; nested request-function literals are separate entries
	var analyse func(name string, ft *ast.FuncType, body *ast.BlockStmt, nested bool)
	litCount := map[string]int{}
	var walkFor func(owner string, n ast.Node, localMux map[string]bool)
	analyse = func(name string, ft *ast.FuncType, body *ast.BlockStmt, nested bool) {
		e := entry{name: name, freshContext: true, nested: nested}
		if body == nil {
			return
		}
		if len(body.List) > 0 && isResetCall(body.List[0]) {
			e.resetsFirst = true
		}
		fresh := map[string]bool{}
		ast.Inspect(body, func(n ast.Node) bool {
			if fl, ok := n.(*ast.FuncLit); ok && isReqFunc(fl.Type) {
				return false
			}
			if as, ok := n.(*ast.AssignStmt); ok && as.Tok == token.DEFINE && len(as.Lhs) == 1 && len(as.Rhs) == 1 {
				if id, ok := as.Lhs[0].(*ast.Ident); ok {
					if c, ok := as.Rhs[0].(*ast.CallExpr); ok {
						if s, ok := c.Fun.(*ast.SelectorExpr); ok && s.Sel.Name == "CreateContext" {
							fresh[id.Name] = true
						}
					}
				}
			}
			return true
		})
		ast.Inspect(body, func(n ast.Node) bool {
			if fl, ok := n.(*ast.FuncLit); ok && isReqFunc(fl.Type) {
				return false
			}
			c, ok := n.(*ast.CallExpr)
			if !ok {
				return true
			}
			switch f := c.Fun.(type) {
			case *ast.SelectorExpr:
				if f.Sel.Name == "Call" && len(c.Args) == 1 {
					e.runsScript = true
					if id, ok := c.Args[0].(*ast.Ident); !ok || !fresh[id.Name] {
						e.freshContext = false
					}
				}
			case *ast.Ident:
				if f.Name == "executeMiddlewareChain" {
					e.runsScript = true
					// the chain and the controller create their own contexts: checked below
				}
			}
			return true
		})
		entries = append(entries, e)
	}
	walkFor = func(owner string, n ast.Node, localMux map[string]bool) {
		ast.Inspect(n, func(m ast.Node) bool {
			switch t := m.(type) {
			case *ast.AssignStmt:
				// mux := http.NewServeMux()  → a function-local mux
				if t.Tok == token.DEFINE && len(t.Lhs) == 1 && len(t.Rhs) == 1 {
					if id, ok := t.Lhs[0].(*ast.Ident); ok {
						if c, ok := t.Rhs[0].(*ast.CallExpr); ok {
							if s, ok := c.Fun.(*ast.SelectorExpr); ok && s.Sel.Name == "NewServeMux" {
								localMux[id.Name] = true
							}
						}
					}
				}
			case *ast.CallExpr:
				// <localmux>.HandleFunc(pattern, func(w, r){…})
				if s, ok := t.Fun.(*ast.SelectorExpr); ok && (s.Sel.Name == "HandleFunc" || s.Sel.Name == "Handle") {
					if id, ok := s.X.(*ast.Ident); ok && localMux[id.Name] {
						for _, arg := range t.Args {
							if fl, ok := arg.(*ast.FuncLit); ok && isReqFunc(fl.Type) {
								litCount[owner]++
								nm := fmt.Sprintf("%s#%d", owner, litCount[owner])
								analyse(nm, fl.Type, fl.Body, true)
								walkFor(nm, fl.Body, map[string]bool{})
							}
						}
						// continue into the other arguments
						return false
					}
				}
			case *ast.FuncLit:
				if isReqFunc(t.Type) {
					litCount[owner]++
					nm := fmt.Sprintf("%s#%d", owner, litCount[owner])
					analyse(nm, t.Type, t.Body, false)
					walkFor(nm, t.Body, map[string]bool{})
					return false
				}
			}
			return true
		})
	}
	for _, fname := range hnames {
		for _, d := range httpFiles[fname].Decls {
			fd, ok := d.(*ast.FuncDecl)
			if !ok || fd.Body == nil {
				continue
			}
			owner := fd.Name.Name
			if fd.Recv != nil && len(fd.Recv.List) > 0 {
				owner = strings.TrimPrefix(ex.TypeString(fd.Recv.List[0].Type), "*") + "." + owner
			}
			if isReqFunc(fd.Type) {
				analyse(owner, fd.Type, fd.Body, false)
			}
			walkFor(owner, fd.Body, map[string]bool{})
		}
	}
	// the helpers script-running entries delegate to must create their contexts themselves
	for _, helper := range []string{"executeMiddlewareChain", "executeControllerMethod"} {
		fd := httpFuncs[helper]
		if fd == nil {
			bad("std/net/http.%s not found", helper)
			continue
		}
		fresh := map[string]bool{}
		ast.Inspect(fd.Body, func(n ast.Node) bool {
			if as, ok := n.(*ast.AssignStmt); ok && as.Tok == token.DEFINE && len(as.Lhs) == 1 && len(as.Rhs) == 1 {
				if id, ok := as.Lhs[0].(*ast.Ident); ok {
					if c, ok := as.Rhs[0].(*ast.CallExpr); ok {
						if s, ok := c.Fun.(*ast.SelectorExpr); ok && s.Sel.Name == "CreateContext" {
							fresh[id.Name] = true
						}
					}
				}
			}
			return true
		})
		ast.Inspect(fd.Body, func(n ast.Node) bool {
			c, ok := n.(*ast.CallExpr)
			if !ok {
				return true
			}
			if s, ok := c.Fun.(*ast.SelectorExpr); ok && s.Sel.Name == "Call" && len(c.Args) == 1 {
				if id, ok := c.Args[0].(*ast.Ident); !ok || !fresh[id.Name] {
					bad("%s: script code called on a context not created there", helper)
				}
			}
			return true
		})
	}
	// finalizeHandler: outermost wrapper and registrations
	outerReset := false
	if fd := httpFuncs["finalizeHandler"]; fd != nil {
		_ = fd
	}
	var fin *ast.FuncDecl
	for _, fname := range hnames {
		for _, d := range httpFiles[fname].Decls {
			if fd, ok := d.(*ast.FuncDecl); ok && fd.Name.Name == "finalizeHandler" {
				fin = fd
			}
		}
	}
	if fin == nil || fin.Body == nil || len(fin.Body.List) == 0 {
		bad("finalizeHandler not found")
	} else if ret, ok := fin.Body.List[len(fin.Body.List)-1].(*ast.ReturnStmt); !ok || len(ret.Results) != 1 {
		bad("finalizeHandler: last statement is not a single-value return")
	} else if c, ok := ret.Results[0].(*ast.CallExpr); ok {
		if id, ok := c.Fun.(*ast.Ident); ok {
			if w := httpFuncs[id.Name]; w != nil && w.Body != nil {
				// the wrapper's handler literal must start with the reset
				ast.Inspect(w.Body, func(n ast.Node) bool {
					if fl, ok := n.(*ast.FuncLit); ok && isReqFunc(fl.Type) {
						if len(fl.Body.List) > 0 && isResetCall(fl.Body.List[0]) {
							outerReset = true
						}
						return false
					}
					return true
				})
			}
		}
	}
	routesFinalized := true
	nreg := 0
	for _, fname := range hnames {
		for _, d := range httpFiles[fname].Decls {
			fd, ok := d.(*ast.FuncDecl)
			if !ok || fd.Body == nil {
				continue
			}
			finals := map[string]bool{}
			ast.Inspect(fd.Body, func(n ast.Node) bool {
				if as, ok := n.(*ast.AssignStmt); ok && len(as.Lhs) == 1 && len(as.Rhs) == 1 {
					if id, ok := as.Lhs[0].(*ast.Ident); ok {
						if c, ok := as.Rhs[0].(*ast.CallExpr); ok {
							if s, ok := c.Fun.(*ast.SelectorExpr); ok && s.Sel.Name == "finalizeHandler" {
								finals[id.Name] = true
							} else if as.Tok == token.ASSIGN {
								delete(finals, id.Name)
							}
						}
					}
				}
				return true
			})
			ast.Inspect(fd.Body, func(n ast.Node) bool {
				c, ok := n.(*ast.CallExpr)
				if !ok {
					return true
				}
				s, ok := c.Fun.(*ast.SelectorExpr)
				if !ok || (s.Sel.Name != "Handle" && s.Sel.Name != "HandleFunc") || len(c.Args) != 2 {
					return true
				}
				// only registrations on a Server's mux: ….source.Handle(…)
				in, ok := s.X.(*ast.SelectorExpr)
				if !ok || in.Sel.Name != "source" {
					return true
				}
				nreg++
				if id, ok := c.Args[1].(*ast.Ident); !ok || !finals[id.Name] {
					routesFinalized = false
				}
				return true
			})
		}
	}
	if nreg == 0 {
		bad("no `….source.Handle(…)` registration found in std/net/http")
	}

	// ------------------------------------------------------------ output
	var sb strings.Builder
	sb.WriteString("import Model.ReqFacts\n/-! Where origami keeps the superglobal arrays and where the request path resets them\n(node/globals_*.go, node/env_lookup.go, std/net/http/*.go). -/\nnamespace Generated.C11Superglobals\nopen Model.Req\n\ndef facts : Facts := {\n  cells := [\n")
	var cl []string
	for _, k := range kindOrder {
		c, ok := cells[k]
		if !ok {
			continue
		}
		var vs []string
		for _, v := range c.vars {
			vs = append(vs, ex.LeanString(v))
		}
		cl = append(cl, fmt.Sprintf("    ⟨.%s, %s, [%s], %v⟩", c.kind, ex.LeanString(c.name), strings.Join(vs, ", "), c.reset))
	}
	sb.WriteString(strings.Join(cl, ",\n"))
	sb.WriteString("\n  ],\n  entries := [\n")
	sort.Slice(entries, func(i, j int) bool { return entries[i].name < entries[j].name })
	var el []string
	for _, e := range entries {
		el = append(el, fmt.Sprintf("    ⟨%s, %v, %v, %v, %v⟩", ex.LeanString(e.name), e.runsScript, e.resetsFirst, e.freshContext, e.nested))
	}
	sb.WriteString(strings.Join(el, ",\n"))
	fmt.Fprintf(&sb, "\n  ],\n  outerReset := %v,\n  routesFinalized := %v,\n  pkgVars := [\n", outerReset, routesFinalized)
	sort.Slice(pkgVars, func(i, j int) bool {
		if pkgVars[i].pkg != pkgVars[j].pkg {
			return pkgVars[i].pkg < pkgVars[j].pkg
		}
		return pkgVars[i].name < pkgVars[j].name
	})
	var pl []string
	for _, v := range pkgVars {
		pl = append(pl, fmt.Sprintf("    ⟨%s, %s, %s⟩", ex.LeanString(v.pkg), ex.LeanString(v.name), ex.LeanString(v.typ)))
	}
	sb.WriteString(strings.Join(pl, ",\n"))
	var nwl []string
	for _, w := range nodeWrites {
		nwl = append(nwl, fmt.Sprintf("    ⟨%s, %s, %s, %v, %v⟩", ex.LeanString(w.typ), ex.LeanString(w.method), ex.LeanString(w.field), w.parserBuilt, w.called))
	}
	guards, counters := scanDepthGuards(a.Repo, bad)
	var gl, ctl []string
	for _, g := range guards {
		var oc []string
		for _, o := range g.ownCounts {
			oc = append(oc, ex.LeanString(o))
		}
		gl = append(gl, fmt.Sprintf("    ⟨%s, %s, %d, %s, %d, [%s], %v⟩", ex.LeanString(g.fn), ex.LeanString(g.counter), g.limit, ex.LeanString(g.decidesOn), g.ownLimit, strings.Join(oc, ", "), g.balanced))
	}
	for _, c := range counters {
		ctl = append(ctl, fmt.Sprintf("    ⟨%s, %s, %v⟩", ex.LeanString(c.name), ex.LeanString(c.typ), c.atomic))
	}
	var rgl []string
	for _, s := range scanRegistries(fset, httpFiles, bad) {
		rgl = append(rgl, fmt.Sprintf("    ⟨%s, %s, %s, %s, %s⟩", ex.LeanString(s.vr), ex.LeanString(s.fn), ex.LeanString(s.op), ex.LeanString(s.key), ex.LeanString(s.keyIs)))
	}
	var cbl, scl []string
	for _, b := range scanCaptureBinds(nodeFiles, bad) {
		cbl = append(cbl, fmt.Sprintf("    ⟨%s, %s, %s, %s, %s⟩", ex.LeanString(b.fn), ex.LeanString(b.env), ex.LeanString(b.op), ex.LeanString(b.guard), ex.LeanString(b.text)))
	}
	for _, c := range scanSlotCopies(a.Repo, bad) {
		scl = append(scl, fmt.Sprintf("    ⟨%s, %s⟩", ex.LeanString(c.typ), ex.LeanString(c.clone)))
	}
	var hsl []string
	for _, h := range scanHookStores(a.Repo, httpFiles, bad) {
		hsl = append(hsl, fmt.Sprintf("    ⟨%s, %s, %s⟩", ex.LeanString(h.pkg), ex.LeanString(h.fn), ex.LeanString(h.target)))
	}
	sort.Strings(shape)
	var sl []string
	for i, s := range shape {
		if i == 0 || shape[i-1] != s {
			sl = append(sl, ex.LeanString(s))
		}
	}
	fmt.Fprintf(&sb, "\n  ],\n  nodeWrites := [\n%s\n  ],\n  depthGuards := [\n%s\n  ],\n  vmCounters := [\n%s\n  ],\n  registries := [\n%s\n  ],\n  captureBinds := [\n%s\n  ],\n  slotCopies := [\n%s\n  ],\n  hookStores := [\n%s\n  ],\n  shape := [%s]\n}\n\nend Generated.C11Superglobals\n", strings.Join(nwl, ",\n"), strings.Join(gl, ",\n"), strings.Join(ctl, ",\n"), strings.Join(rgl, ",\n"), strings.Join(cbl, ",\n"), strings.Join(scl, ",\n"), strings.Join(hsl, ",\n"), strings.Join(sl, ", "))
	if err := ex.WriteIfChanged(a.Out, "C11Superglobals.lean", sb.String()); err != nil {
		fmt.Fprintln(os.Stderr, err)
		os.Exit(1)
	}
	fmt.Printf("C11Superglobals: %d cells, %d request functions, %d package vars, %d receiver stores in evaluation methods of package node, %d guards on %d VM counters, %d registry sites, outerReset=%v routesFinalized=%v, %d shape notes\n",
		len(cl), len(el), len(pl), len(nwl), len(gl), len(ctl), len(rgl), outerReset, routesFinalized, len(sl))
}

func unparen(e ast.Expr) ast.Expr {
	for {
		p, ok := e.(*ast.ParenExpr)
		if !ok {
			return e
		}
		e = p.X
	}
}
