package main

import (
	"go/ast"
	"path"
	"sort"
	"strconv"
	"strings"

	"verif/extract/ex"
)

// Round 8: stores into ANOTHER package's package-level variable — a process-wide "current" hook
// (`data.WriteOutput = …`, a current request, a current error handler) — made by code that runs per
// request (std/net/http) or per script call (std/php/core). A request that installs its own value
// and puts the previous one back on exit is right for nested requests only.
type hookStore struct{ pkg, fn, target string }

func scanHookStores(repo string, httpFiles map[string]*ast.File, bad func(string, ...any)) []hookStore {
	var out []hookStore
	seen := map[hookStore]bool{}
	scan := func(pkg string, files map[string]*ast.File) {
		var names []string
		for n := range files {
			names = append(names, n)
		}
		sort.Strings(names)
		for _, fname := range names {
			f := files[fname]
			imports := map[string]bool{}
			for _, im := range f.Imports {
				p, _ := strconv.Unquote(im.Path.Value)
				n := path.Base(p)
				if im.Name != nil {
					n = im.Name.Name
				}
				imports[n] = true
			}
			for _, d := range f.Decls {
				fd, ok := d.(*ast.FuncDecl)
				if !ok || fd.Body == nil {
					continue
				}
				fn := fd.Name.Name
				if fd.Recv != nil && len(fd.Recv.List) > 0 {
					fn = strings.TrimPrefix(ex.TypeString(fd.Recv.List[0].Type), "*") + "." + fn
				}
				locals := map[string]bool{}
				ast.Inspect(fd, func(n ast.Node) bool {
					switch t := n.(type) {
					case *ast.Field:
						for _, id := range t.Names {
							locals[id.Name] = true
						}
					case *ast.AssignStmt:
						if t.Tok.String() == ":=" {
							for _, l := range t.Lhs {
								if id, ok := l.(*ast.Ident); ok {
									locals[id.Name] = true
								}
							}
						}
					}
					return true
				})
				ast.Inspect(fd.Body, func(n ast.Node) bool {
					as, ok := n.(*ast.AssignStmt)
					if !ok {
						return true
					}
					for _, l := range as.Lhs {
						se, ok := unparen(l).(*ast.SelectorExpr)
						if !ok {
							continue
						}
						id, ok := se.X.(*ast.Ident)
						if !ok || !imports[id.Name] || locals[id.Name] {
							continue
						}
						h := hookStore{pkg, fn, id.Name + "." + se.Sel.Name}
						if !seen[h] {
							seen[h] = true
							out = append(out, h)
						}
					}
					return true
				})
			}
		}
	}
	scan("std/net/http", httpFiles)
	if _, coreFiles, err := ex.ParseDir(repo, "std/php/core"); err == nil {
		scan("std/php/core", coreFiles)
	} else {
		bad("std/php/core does not parse: %v", err)
	}
	sort.Slice(out, func(i, j int) bool {
		if out[i].pkg != out[j].pkg {
			return out[i].pkg < out[j].pkg
		}
		if out[i].fn != out[j].fn {
			return out[i].fn < out[j].fn
		}
		return out[i].target < out[j].target
	})
	return out
}
