package main

import (
	"bytes"
	"go/ast"
	"go/printer"
	"go/token"
	"sort"
	"strings"

	"verif/extract/ex"
)

// Round 7: the copy discipline of the by-value boundary between a closure's DEFINITION-time
// environment and a call.
//
// captureBinds: every method of package node that reads values out of a context kept in a field
// of its own receiver (`f.ctx.GetIndexValue(..)`, `f.ctx.GetIndexZVal(..)`, `f.ctx.GetVariableValue(..)`
// with `ctx data.Context` a struct field: the environment the closure was defined in, which lives as
// long as the closure — for a route handler: as long as the server) and what it does with what it
// read:
//   copy    `X.SetVariableValue(var, v)`      — the slot store that copies value types
//   alias   `X.SetIndexZVal(i, z)`            — the callee's slot IS the environment's slot; guard
//           "byref" iff the statement sits under `if _, ok := ….(*VariableReference); ok`
//   direct  `<anything>.Value = v`, `x[i] = v` — the pointer read from the environment stored as is
//   escape  `g(.., v, ..)`                     — handed to another function (Clone* excepted)
//
// slotCopies: the type switch of runtime.(*Context).SetVariableValue — per case type the Clone*
// function applied to the value ("" = stored as is).
type captureBind struct{ fn, env, op, guard, text string }

type slotCopy struct{ typ, clone string }

func nodeText(n ast.Node) string {
	var b bytes.Buffer
	printer.Fprint(&b, token.NewFileSet(), n)
	return strings.Join(strings.Fields(b.String()), " ")
}

var envGetters = map[string]bool{"GetIndexValue": true, "GetIndexZVal": true, "GetVariableValue": true}

func scanCaptureBinds(nodeFiles map[string]*ast.File, bad func(string, ...any)) []captureBind {
	// struct fields of type data.Context
	ctxFields := map[string]map[string]bool{}
	var names []string
	for n := range nodeFiles {
		names = append(names, n)
	}
	sort.Strings(names)
	for _, fname := range names {
		ast.Inspect(nodeFiles[fname], func(n ast.Node) bool {
			ts, ok := n.(*ast.TypeSpec)
			if !ok {
				return true
			}
			st, ok := ts.Type.(*ast.StructType)
			if !ok {
				return true
			}
			for _, f := range st.Fields.List {
				if nodeText(f.Type) == "data.Context" {
					for _, id := range f.Names {
						if ctxFields[ts.Name.Name] == nil {
							ctxFields[ts.Name.Name] = map[string]bool{}
						}
						ctxFields[ts.Name.Name][id.Name] = true
					}
				}
			}
			return true
		})
	}
	var out []captureBind
	for _, fname := range names {
		for _, d := range nodeFiles[fname].Decls {
			fd, ok := d.(*ast.FuncDecl)
			if !ok || fd.Recv == nil || fd.Body == nil || len(fd.Recv.List) == 0 || len(fd.Recv.List[0].Names) == 0 {
				continue
			}
			typ := baseType(fd.Recv.List[0].Type)
			recv := fd.Recv.List[0].Names[0].Name
			fields := ctxFields[typ]
			if len(fields) == 0 {
				continue
			}
			// envGet: call recv.<field>.<getter>(..) → field
			envGet := func(e ast.Expr) string {
				c, ok := unparen(e).(*ast.CallExpr)
				if !ok {
					return ""
				}
				s, ok := c.Fun.(*ast.SelectorExpr)
				if !ok || !envGetters[s.Sel.Name] {
					return ""
				}
				s2, ok := s.X.(*ast.SelectorExpr)
				if !ok {
					return ""
				}
				if id, ok := s2.X.(*ast.Ident); ok && id.Name == recv && fields[s2.Sel.Name] {
					return s2.Sel.Name
				}
				return ""
			}
			env := ""
			ast.Inspect(fd.Body, func(n ast.Node) bool {
				if e, ok := n.(ast.Expr); ok {
					if f := envGet(e); f != "" {
						env = f
					}
				}
				return true
			})
			if env == "" {
				continue
			}
			fn := typ + "." + fd.Name.Name
			tainted := map[string]bool{}
			// mentions: a tainted identifier occurs in e outside the arguments of a call
			var mentions func(e ast.Expr) bool
			mentions = func(e ast.Expr) bool {
				found := false
				ast.Inspect(e, func(n ast.Node) bool {
					switch t := n.(type) {
					case *ast.CallExpr:
						return false
					case *ast.Ident:
						if tainted[t.Name] {
							found = true
						}
					}
					return true
				})
				return found
			}
			// fixpoint of the taint over assignments (type assertions, plain copies)
			for changed := true; changed; {
				changed = false
				ast.Inspect(fd.Body, func(n ast.Node) bool {
					as, ok := n.(*ast.AssignStmt)
					if !ok {
						return true
					}
					src := false
					for _, r := range as.Rhs {
						if envGet(r) != "" || mentions(r) {
							src = true
						}
					}
					if src && len(as.Lhs) > 0 {
						if id, ok := as.Lhs[0].(*ast.Ident); ok && id.Name != "_" && !tainted[id.Name] {
							tainted[id.Name] = true
							changed = true
						}
					}
					return true
				})
			}
			// guards: statements under `if _, ok := X.(*VariableReference); ok`
			byref := map[ast.Node]bool{}
			ast.Inspect(fd.Body, func(n ast.Node) bool {
				is, ok := n.(*ast.IfStmt)
				if !ok || is.Init == nil {
					return true
				}
				if strings.Contains(nodeText(is.Init), ".(*VariableReference)") {
					if id, ok := is.Cond.(*ast.Ident); ok && strings.Contains(nodeText(is.Init), id.Name+" :=") {
						ast.Inspect(is.Body, func(m ast.Node) bool {
							if m != nil {
								byref[m] = true
							}
							return true
						})
					}
				}
				return true
			})
			ast.Inspect(fd.Body, func(n ast.Node) bool {
				switch t := n.(type) {
				case *ast.AssignStmt:
					for i, l := range t.Lhs {
						if _, plain := l.(*ast.Ident); plain || i >= len(t.Rhs) {
							continue
						}
						if mentions(t.Rhs[i]) {
							out = append(out, captureBind{fn, env, "direct", "none", nodeText(t)})
						}
					}
				case *ast.CallExpr:
					if envGet(t) != "" {
						return true
					}
					any := false
					for _, a := range t.Args {
						if mentions(a) || envGet(a) != "" {
							any = true
						}
					}
					if !any {
						return true
					}
					name := nodeText(t.Fun)
					sel := name
					if s, ok := t.Fun.(*ast.SelectorExpr); ok {
						sel = s.Sel.Name
					}
					g := "none"
					if byref[t] {
						g = "byref"
					}
					switch {
					case sel == "SetVariableValue":
						out = append(out, captureBind{fn, env, "copy", g, nodeText(t)})
					case sel == "SetIndexZVal":
						out = append(out, captureBind{fn, env, "alias", g, nodeText(t)})
					case strings.HasPrefix(sel, "Clone"):
					default:
						out = append(out, captureBind{fn, env, "escape", g, name})
					}
				}
				return true
			})
		}
	}
	if len(out) == 0 {
		bad("no method of package node binds values of a definition-time context (LambdaExpression.Call expected)")
	}
	return out
}

func scanSlotCopies(repo string, bad func(string, ...any)) []slotCopy {
	_, files, err := ex.ParseDir(repo, "runtime")
	if err != nil {
		bad("package runtime not parsed: %v", err)
		return nil
	}
	var out []slotCopy
	found := false
	for _, f := range files {
		for _, d := range f.Decls {
			fd, ok := d.(*ast.FuncDecl)
			if !ok || fd.Recv == nil || fd.Name.Name != "SetVariableValue" || len(fd.Recv.List) == 0 || baseType(fd.Recv.List[0].Type) != "Context" || fd.Body == nil {
				continue
			}
			found = true
			ast.Inspect(fd.Body, func(n ast.Node) bool {
				ts, ok := n.(*ast.TypeSwitchStmt)
				if !ok {
					return true
				}
				for _, c := range ts.Body.List {
					cc := c.(*ast.CaseClause)
					clone := ""
					for _, s := range cc.Body {
						ast.Inspect(s, func(m ast.Node) bool {
							if as, ok := m.(*ast.AssignStmt); ok && len(as.Rhs) == 1 {
								if call, ok := as.Rhs[0].(*ast.CallExpr); ok {
									nm := nodeText(call.Fun)
									if i := strings.LastIndex(nm, "."); i >= 0 {
										nm = nm[i+1:]
									}
									if strings.HasPrefix(nm, "Clone") && strings.HasSuffix(nodeText(as.Lhs[0]), ".Value") {
										clone = nm
									}
								}
							}
							return true
						})
					}
					if cc.List == nil {
						out = append(out, slotCopy{"default", clone})
					}
					for _, t := range cc.List {
						tn := strings.TrimPrefix(nodeText(t), "*")
						if i := strings.LastIndex(tn, "."); i >= 0 {
							tn = tn[i+1:]
						}
						out = append(out, slotCopy{tn, clone})
					}
				}
				return false
			})
		}
	}
	if !found || len(out) == 0 {
		bad("runtime.(*Context).SetVariableValue: no type switch over the stored value found")
	}
	return out
}
