package main

import (
	"bytes"
	"go/ast"
	"go/printer"
	"go/token"
	"sort"
	"strings"

	"verif/extract/ex"
)

// Registries of per-request state (round 5).
//
// Every package-level variable of std/net/http that is a map / sync.Map (or a struct holding
// one) is a process-wide registry. For each of them every use in a non-test file is listed:
// the function it is in, the operation (Store, Load, LoadOrStore, Delete … / index, delete,
// range / Range, Clear / escapes) and the KEY expression with its class:
//
//	request   an identifier declared `*<pkg>.Request` as a parameter of the enclosing function
//	          (or function literal) that is never assigned anything but the request itself (a
//	          call of a function that returns that parameter unchanged, e.g. beginRequest), or a
//	          struct field declared `*<pkg>.Request` (RequestAttributeMethod.source)
//	derived:… anything computed: a call (`requestKey(r)`, `r.Context()`), another field, a
//	          constant, a string / int variable, a reassigned identifier
//	none      the operation has no key
//
// and, transitively, every call of a function that uses one of its parameters as such a key
// (`attachRequestAttrs(r)`, `beginRequest(r)`, `detachRequestAttrs(r)`, `requestAttrs(h.source)`),
// with the class of the argument (op "call"): handing `r.WithContext(ctx)` or a clone to
// detachRequestAttrs would delete somebody else's entry or none.
type regSite struct {
	vr, fn, op, key, keyIs string
}

func isRequestType(e ast.Expr) bool {
	ts := ex.TypeString(e)
	return strings.HasPrefix(ts, "*") && (strings.HasSuffix(ts, ".Request") || ts == "*Request")
}

func exprText(fset *token.FileSet, e ast.Expr) string {
	var b bytes.Buffer
	printer.Fprint(&b, fset, e)
	return strings.Join(strings.Fields(b.String()), " ")
}

var syncMapKeyed = map[string]bool{"Store": true, "Load": true, "LoadOrStore": true, "LoadAndDelete": true,
	"Delete": true, "Swap": true, "CompareAndSwap": true, "CompareAndDelete": true}

func scanRegistries(fset *token.FileSet, files map[string]*ast.File, bad func(string, ...any)) []regSite {
	var names []string
	for n := range files {
		names = append(names, n)
	}
	sort.Strings(names)

	// ---- struct types of the package: field → type expression; which ones hold a map
	structs := map[string]map[string]ast.Expr{}
	for _, n := range names {
		for _, d := range files[n].Decls {
			gd, ok := d.(*ast.GenDecl)
			if !ok || gd.Tok != token.TYPE {
				continue
			}
			for _, sp := range gd.Specs {
				ts := sp.(*ast.TypeSpec)
				st, ok := ts.Type.(*ast.StructType)
				if !ok {
					continue
				}
				fm := map[string]ast.Expr{}
				for _, f := range st.Fields.List {
					for _, id := range f.Names {
						fm[id.Name] = f.Type
					}
				}
				structs[ts.Name.Name] = fm
			}
		}
	}
	mapLikeType := func(ts string) bool {
		ts = strings.TrimPrefix(ts, "*")
		if ts == "sync.Map" || strings.HasPrefix(ts, "map[") {
			return true
		}
		if fm, ok := structs[ts]; ok {
			for _, ft := range fm {
				s := strings.TrimPrefix(ex.TypeString(ft), "*")
				if s == "sync.Map" || strings.HasPrefix(s, "map[") {
					return true
				}
			}
		}
		return false
	}
	// ---- the registries: package-level variables that are maps
	regVars := map[string]bool{}
	for _, n := range names {
		for _, d := range files[n].Decls {
			gd, ok := d.(*ast.GenDecl)
			if !ok || gd.Tok != token.VAR {
				continue
			}
			for _, sp := range gd.Specs {
				vs := sp.(*ast.ValueSpec)
				for i, id := range vs.Names {
					if id.Name == "_" {
						continue
					}
					is := false
					if vs.Type != nil {
						is = mapLikeType(ex.TypeString(vs.Type))
					} else if i < len(vs.Values) {
						switch v := vs.Values[i].(type) {
						case *ast.CompositeLit:
							is = mapLikeType(ex.TypeString(v.Type))
						case *ast.UnaryExpr:
							if cl, ok := v.X.(*ast.CompositeLit); ok {
								is = mapLikeType(ex.TypeString(cl.Type))
							}
						case *ast.CallExpr:
							if f, ok := v.Fun.(*ast.Ident); ok && (f.Name == "make" || f.Name == "new") && len(v.Args) > 0 {
								is = mapLikeType(ex.TypeString(v.Args[0]))
							}
						}
					}
					if is {
						regVars[id.Name] = true
					}
				}
			}
		}
	}

	// ---- functions
	type fn struct {
		name   string
		decl   *ast.FuncDecl
		params []string // names of the declared parameters, in order ("" for unnamed)
	}
	var fns []*fn
	byName := map[string]*fn{}
	for _, n := range names {
		for _, d := range files[n].Decls {
			fd, ok := d.(*ast.FuncDecl)
			if !ok || fd.Body == nil {
				continue
			}
			f := &fn{name: fd.Name.Name, decl: fd}
			if fd.Recv != nil && len(fd.Recv.List) > 0 {
				f.name = strings.TrimPrefix(ex.TypeString(fd.Recv.List[0].Type), "*") + "." + f.name
			} else {
				byName[fd.Name.Name] = f
			}
			if fd.Type.Params != nil {
				for _, p := range fd.Type.Params.List {
					if len(p.Names) == 0 {
						f.params = append(f.params, "")
					}
					for _, id := range p.Names {
						f.params = append(f.params, id.Name)
					}
				}
			}
			fns = append(fns, f)
		}
	}

	// returnsParam[F][j] = i: every `return` of F gives its parameter i as result j, and F never
	// assigns to that parameter
	assigned := func(body ast.Node, name string) bool {
		found := false
		ast.Inspect(body, func(n ast.Node) bool {
			switch t := n.(type) {
			case *ast.AssignStmt:
				for _, l := range t.Lhs {
					if id, ok := l.(*ast.Ident); ok && id.Name == name {
						found = true
					}
				}
			case *ast.IncDecStmt:
				if id, ok := t.X.(*ast.Ident); ok && id.Name == name {
					found = true
				}
			case *ast.UnaryExpr:
				if id, ok := t.X.(*ast.Ident); ok && id.Name == name && t.Op == token.AND {
					found = true
				}
			}
			return true
		})
		return found
	}
	returnsParam := map[string]map[int]int{}
	for _, f := range fns {
		if f.decl.Recv != nil || f.decl.Type.Results == nil {
			continue
		}
		nres := 0
		for _, r := range f.decl.Type.Results.List {
			if len(r.Names) == 0 {
				nres++
			}
			nres += len(r.Names)
		}
		cand := map[int]int{}
		first := true
		ok := true
		ast.Inspect(f.decl.Body, func(n ast.Node) bool {
			if _, isLit := n.(*ast.FuncLit); isLit {
				return false
			}
			ret, isRet := n.(*ast.ReturnStmt)
			if !isRet {
				return true
			}
			if len(ret.Results) != nres {
				ok = false
				return true
			}
			cur := map[int]int{}
			for j, e := range ret.Results {
				if id, isID := e.(*ast.Ident); isID {
					for i, p := range f.params {
						if p != "" && p == id.Name {
							cur[j] = i
						}
					}
				}
			}
			if first {
				cand, first = cur, false
			} else {
				for j, i := range cand {
					if c, has := cur[j]; !has || c != i {
						delete(cand, j)
					}
				}
			}
			return true
		})
		if !ok || first {
			continue
		}
		for j, i := range cand {
			if assigned(f.decl.Body, f.params[i]) {
				delete(cand, j)
			}
		}
		if len(cand) > 0 {
			returnsParam[f.name] = cand
		}
	}

	// request identifiers of one top-level function: parameters (its own and those of nested
	// literals) declared *…Request, minus the ones assigned something that is not the request
	type env struct {
		req     map[string]bool
		tainted map[string]bool
		types   map[string]string // identifier → declared type (receiver, parameters)
	}
	mkEnv := func(f *fn) env {
		e := env{map[string]bool{}, map[string]bool{}, map[string]string{}}
		addParams := func(ft *ast.FuncType) {
			if ft == nil || ft.Params == nil {
				return
			}
			for _, p := range ft.Params.List {
				for _, id := range p.Names {
					e.types[id.Name] = ex.TypeString(p.Type)
					if isRequestType(p.Type) {
						e.req[id.Name] = true
					}
				}
			}
		}
		if f.decl.Recv != nil {
			for _, p := range f.decl.Recv.List {
				for _, id := range p.Names {
					e.types[id.Name] = ex.TypeString(p.Type)
				}
			}
		}
		addParams(f.decl.Type)
		ast.Inspect(f.decl.Body, func(n ast.Node) bool {
			if fl, ok := n.(*ast.FuncLit); ok {
				addParams(fl.Type)
			}
			return true
		})
		ast.Inspect(f.decl.Body, func(n ast.Node) bool {
			as, ok := n.(*ast.AssignStmt)
			if !ok {
				return true
			}
			for li, l := range as.Lhs {
				id, ok := l.(*ast.Ident)
				if !ok || !e.req[id.Name] {
					continue
				}
				// allowed: `r, x := F(r)` where F returns its parameter as result li
				keeps := false
				if len(as.Rhs) == 1 {
					if c, ok := as.Rhs[0].(*ast.CallExpr); ok {
						if fid, ok := c.Fun.(*ast.Ident); ok {
							if pi, ok := returnsParam[fid.Name][li]; ok && pi < len(c.Args) {
								if aid, ok := c.Args[pi].(*ast.Ident); ok && aid.Name == id.Name {
									keeps = true
								}
							}
						}
					}
				}
				if !keeps {
					e.tainted[id.Name] = true
				}
			}
			return true
		})
		return e
	}
	classify := func(e env, x ast.Expr) string {
		x = unparen(x)
		switch t := x.(type) {
		case *ast.Ident:
			switch {
			case e.req[t.Name] && !e.tainted[t.Name]:
				return "request"
			case e.req[t.Name]:
				return "derived:reassigned"
			}
			return "derived:identifier"
		case *ast.SelectorExpr:
			if id, ok := t.X.(*ast.Ident); ok {
				if ty, ok := e.types[id.Name]; ok {
					if fm, ok := structs[strings.TrimPrefix(ty, "*")]; ok {
						if ft, ok := fm[t.Sel.Name]; ok && isRequestType(ft) {
							return "request"
						}
					}
				}
			}
			return "derived:field"
		case *ast.CallExpr:
			return "derived:call:" + exprText(fset, t.Fun)
		case *ast.BasicLit:
			return "derived:constant"
		}
		return "derived:expression"
	}

	var out []regSite
	// keyedParam[F][i] = set of registries reached with parameter i of F as the key
	keyedParam := map[string]map[int]map[string]bool{}
	mark := func(f *fn, id *ast.Ident, e env, vr string) {
		if f.decl.Recv != nil || !e.req[id.Name] || e.tainted[id.Name] {
			return
		}
		for i, p := range f.params {
			if p == id.Name {
				if keyedParam[f.name] == nil {
					keyedParam[f.name] = map[int]map[string]bool{}
				}
				if keyedParam[f.name][i] == nil {
					keyedParam[f.name][i] = map[string]bool{}
				}
				keyedParam[f.name][i][vr] = true
			}
		}
	}
	envs := map[*fn]env{}
	for _, f := range fns {
		e := mkEnv(f)
		envs[f] = e
		handled := map[*ast.Ident]bool{}
		site := func(vr, op string, key ast.Expr) {
			s := regSite{vr: vr, fn: f.name, op: op, key: "", keyIs: "none"}
			if key != nil {
				s.key = exprText(fset, key)
				s.keyIs = classify(e, key)
				if id, ok := key.(*ast.Ident); ok {
					mark(f, id, e, vr)
				}
			}
			out = append(out, s)
		}
		lhs := map[ast.Expr]bool{}
		ast.Inspect(f.decl.Body, func(n ast.Node) bool {
			if as, ok := n.(*ast.AssignStmt); ok {
				for _, l := range as.Lhs {
					lhs[l] = true
				}
			}
			return true
		})
		ast.Inspect(f.decl.Body, func(n ast.Node) bool {
			switch t := n.(type) {
			case *ast.CallExpr:
				if s, ok := t.Fun.(*ast.SelectorExpr); ok {
					if id, ok := s.X.(*ast.Ident); ok && regVars[id.Name] {
						handled[id] = true
						switch {
						case syncMapKeyed[s.Sel.Name] && len(t.Args) > 0:
							site(id.Name, s.Sel.Name, t.Args[0])
						case s.Sel.Name == "Range" || s.Sel.Name == "Clear":
							site(id.Name, s.Sel.Name, nil)
						default:
							var k ast.Expr
							if len(t.Args) > 0 {
								k = t.Args[0]
							}
							site(id.Name, "method:"+s.Sel.Name, k)
						}
					}
				}
				if fid, ok := t.Fun.(*ast.Ident); ok && fid.Name == "delete" && len(t.Args) == 2 {
					if id, ok := t.Args[0].(*ast.Ident); ok && regVars[id.Name] {
						handled[id] = true
						site(id.Name, "delete", t.Args[1])
					}
				}
				if fid, ok := t.Fun.(*ast.Ident); ok && (fid.Name == "len" || fid.Name == "clear") && len(t.Args) == 1 {
					if id, ok := t.Args[0].(*ast.Ident); ok && regVars[id.Name] {
						handled[id] = true
						if fid.Name == "clear" {
							site(id.Name, "Clear", nil)
						}
					}
				}
			case *ast.IndexExpr:
				if id, ok := t.X.(*ast.Ident); ok && regVars[id.Name] {
					handled[id] = true
					if lhs[t] {
						site(id.Name, "index-assign", t.Index)
					} else {
						site(id.Name, "index", t.Index)
					}
				}
			case *ast.RangeStmt:
				if id, ok := t.X.(*ast.Ident); ok && regVars[id.Name] {
					handled[id] = true
					site(id.Name, "range", nil)
				}
			case *ast.SelectorExpr:
				// x.Sel: Sel is a field / method name, never the package variable
				handled[t.Sel] = true
			}
			return true
		})
		ast.Inspect(f.decl.Body, func(n ast.Node) bool {
			if id, ok := n.(*ast.Ident); ok && regVars[id.Name] && !handled[id] {
				site(id.Name, "escapes", nil)
			}
			return true
		})
	}
	// ---- calls of functions that key a registry by one of their parameters, to a fixpoint
	type callKey struct {
		f    *fn
		call *ast.CallExpr
		i    int
		vr   string
	}
	seen := map[callKey]bool{}
	for changed := true; changed; {
		changed = false
		for _, f := range fns {
			e := envs[f]
			ast.Inspect(f.decl.Body, func(n ast.Node) bool {
				c, ok := n.(*ast.CallExpr)
				if !ok {
					return true
				}
				fid, ok := c.Fun.(*ast.Ident)
				if !ok || keyedParam[fid.Name] == nil {
					return true
				}
				for i, vrs := range keyedParam[fid.Name] {
					if i >= len(c.Args) {
						continue
					}
					for vr := range vrs {
						k := callKey{f, c, i, vr}
						if seen[k] {
							continue
						}
						seen[k] = true
						changed = true
						out = append(out, regSite{vr: vr, fn: f.name + "→" + fid.Name, op: "call",
							key: exprText(fset, c.Args[i]), keyIs: classify(e, c.Args[i])})
						if id, ok := c.Args[i].(*ast.Ident); ok {
							mark(f, id, e, vr)
						}
					}
				}
				return true
			})
		}
	}
	if len(regVars) == 0 {
		bad("no package-level map / sync.Map found in std/net/http (the request registries moved?)")
	}
	sort.Slice(out, func(i, j int) bool {
		a, b := out[i], out[j]
		if a.vr != b.vr {
			return a.vr < b.vr
		}
		if a.fn != b.fn {
			return a.fn < b.fn
		}
		if a.op != b.op {
			return a.op < b.op
		}
		return a.key < b.key
	})
	// the same (var, fn, op, key) several times (seven handlers deferring the same call): once
	var ded []regSite
	for i, s := range out {
		if i == 0 || out[i-1] != s {
			ded = append(ded, s)
		}
	}
	return ded
}
