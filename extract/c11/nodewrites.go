package main

import (
	"go/ast"
	"go/token"
	"io/fs"
	"os"
	"path/filepath"
	"regexp"
	"sort"
	"strings"

	"verif/extract/ex"
)

type nodeWrite struct {
	typ, method, field string
	parserBuilt        bool
	called             bool // some non-test Go file of the repository contains a call `.method(`
}

var selCall = regexp.MustCompile(`\.([A-Za-z_][A-Za-z0-9_]*)\(`)

// calledNames: every name that appears as `.name(` in a non-test Go file of the repository.
func calledNames(repo string) map[string]bool {
	out := map[string]bool{}
	filepath.WalkDir(repo, func(p string, d fs.DirEntry, err error) error {
		if err != nil {
			return nil
		}
		if d.IsDir() {
			if n := d.Name(); n == ".git" || n == "node_modules" {
				return filepath.SkipDir
			}
			return nil
		}
		if !strings.HasSuffix(p, ".go") || strings.HasSuffix(p, "_test.go") {
			return nil
		}
		b, err := os.ReadFile(p)
		if err != nil {
			return nil
		}
		for _, m := range selCall.FindAllSubmatch(b, -1) {
			out[string(m[1])] = true
		}
		return nil
	})
	return out
}

func baseType(e ast.Expr) string {
	for {
		switch t := e.(type) {
		case *ast.StarExpr:
			e = t.X
		case *ast.IndexExpr:
			e = t.X
		case *ast.ParenExpr:
			e = t.X
		case *ast.Ident:
			return t.Name
		default:
			return ""
		}
	}
}

// rootField: for an expression rooted at an identifier (x.f.g[i], *x.f, (x).f …) the identifier
// and the first field selected from it.
func rootField(e ast.Expr) (string, string) {
	field := ""
	for {
		switch t := e.(type) {
		case *ast.SelectorExpr:
			field = t.Sel.Name
			e = t.X
		case *ast.IndexExpr:
			e = t.X
		case *ast.StarExpr:
			e = t.X
		case *ast.ParenExpr:
			e = t.X
		case *ast.SliceExpr:
			e = t.X
		case *ast.Ident:
			return t.Name, field
		default:
			return "", ""
		}
	}
}

// scanNodeWrites: see the header of main.go.
func scanNodeWrites(repo string, nodeFiles map[string]*ast.File, bad func(string, ...any)) []nodeWrite {
	type mkey struct{ typ, name string }
	methods := map[mkey]*ast.FuncDecl{}
	embeds := map[string][]string{} // struct type -> embedded type names
	ctors := map[string]*ast.FuncDecl{}
	types := map[string]bool{}
	var names []string
	for n := range nodeFiles {
		names = append(names, n)
	}
	sort.Strings(names)
	for _, fname := range names {
		for _, d := range nodeFiles[fname].Decls {
			switch t := d.(type) {
			case *ast.FuncDecl:
				if t.Recv == nil {
					ctors[t.Name.Name] = t
					continue
				}
				if len(t.Recv.List) == 0 {
					continue
				}
				if tn := baseType(t.Recv.List[0].Type); tn != "" {
					methods[mkey{tn, t.Name.Name}] = t
				}
			case *ast.GenDecl:
				if t.Tok != token.TYPE {
					continue
				}
				for _, sp := range t.Specs {
					ts := sp.(*ast.TypeSpec)
					types[ts.Name.Name] = true
					if st, ok := ts.Type.(*ast.StructType); ok && st.Fields != nil {
						for _, f := range st.Fields.List {
							if len(f.Names) == 0 {
								if en := baseType(f.Type); en != "" {
									embeds[ts.Name.Name] = append(embeds[ts.Name.Name], en)
								}
							}
						}
					}
				}
			}
		}
	}
	if len(methods) == 0 {
		bad("package node: no methods found")
	}
	// method lookup through embedded types
	var lookup func(typ, name string, depth int) (string, *ast.FuncDecl)
	lookup = func(typ, name string, depth int) (string, *ast.FuncDecl) {
		if fd, ok := methods[mkey{typ, name}]; ok {
			return typ, fd
		}
		if depth > 4 {
			return "", nil
		}
		for _, e := range embeds[typ] {
			if t, fd := lookup(e, name, depth+1); fd != nil {
				return t, fd
			}
		}
		return "", nil
	}
	hasCtx := func(fd *ast.FuncDecl) bool {
		if fd.Type.Params == nil {
			return false
		}
		for _, p := range fd.Type.Params.List {
			if ex.TypeString(p.Type) == "data.Context" {
				return true
			}
		}
		return false
	}
	// evaluation methods: those with a data.Context parameter, closed under calls on the receiver
	eval := map[mkey]bool{}
	var work []mkey
	for k, fd := range methods {
		if fd.Body != nil && hasCtx(fd) {
			eval[k] = true
			work = append(work, k)
		}
	}
	sort.Slice(work, func(i, j int) bool { return work[i].typ+"."+work[i].name < work[j].typ+"."+work[j].name })
	for len(work) > 0 {
		k := work[0]
		work = work[1:]
		fd := methods[k]
		if fd.Body == nil || len(fd.Recv.List[0].Names) == 0 {
			continue
		}
		rn := fd.Recv.List[0].Names[0].Name
		ast.Inspect(fd.Body, func(n ast.Node) bool {
			c, ok := n.(*ast.CallExpr)
			if !ok {
				return true
			}
			sel, ok := c.Fun.(*ast.SelectorExpr)
			if !ok {
				return true
			}
			if id, ok := sel.X.(*ast.Ident); ok && id.Name == rn {
				if t, callee := lookup(k.typ, sel.Sel.Name, 0); callee != nil && !eval[mkey{t, sel.Sel.Name}] {
					eval[mkey{t, sel.Sel.Name}] = true
					work = append(work, mkey{t, sel.Sel.Name})
				}
			}
			return true
		})
	}
	// types the parser constructs
	built := map[string]bool{}
	ctorBuilds := map[string]map[string]bool{}
	for name, fd := range ctors {
		if fd.Body == nil {
			continue
		}
		set := map[string]bool{}
		ast.Inspect(fd.Body, func(n ast.Node) bool {
			switch t := n.(type) {
			case *ast.CompositeLit:
				if tn := baseType(t.Type); tn != "" && types[tn] {
					set[tn] = true
				}
			case *ast.CallExpr:
				if id, ok := t.Fun.(*ast.Ident); ok {
					if _, ok := ctors[id.Name]; ok {
						set["()"+id.Name] = true
					}
					if id.Name == "new" && len(t.Args) == 1 {
						if tn := baseType(t.Args[0]); types[tn] {
							set[tn] = true
						}
					}
				}
			}
			return true
		})
		ctorBuilds[name] = set
	}
	var mark func(fn string, seen map[string]bool)
	mark = func(fn string, seen map[string]bool) {
		if seen[fn] {
			return
		}
		seen[fn] = true
		for x := range ctorBuilds[fn] {
			if strings.HasPrefix(x, "()") {
				mark(x[2:], seen)
			} else {
				built[x] = true
			}
		}
	}
	_, parserFiles, err := ex.ParseDir(repo, "parser")
	if err != nil || len(parserFiles) == 0 {
		bad("package parser could not be parsed")
	}
	seen := map[string]bool{}
	nsites := 0
	for _, f := range parserFiles {
		ast.Inspect(f, func(n ast.Node) bool {
			switch t := n.(type) {
			case *ast.CompositeLit:
				if sel, ok := t.Type.(*ast.SelectorExpr); ok {
					if id, ok := sel.X.(*ast.Ident); ok && id.Name == "node" {
						built[sel.Sel.Name] = true
						nsites++
					}
				}
			case *ast.SelectorExpr:
				// node.NewX used as a call or as a function value
				if id, ok := t.X.(*ast.Ident); ok && id.Name == "node" {
					if _, ok := ctors[t.Sel.Name]; ok {
						mark(t.Sel.Name, seen)
						nsites++
					}
				}
			}
			return true
		})
	}
	if nsites < 50 {
		bad("package parser: only %d construction sites of package node found", nsites)
	}
	// embedded types of a built type are built with it
	for changed := true; changed; {
		changed = false
		for t := range built {
			for _, e := range embeds[t] {
				if types[e] && !built[e] {
					built[e] = true
					changed = true
				}
			}
		}
	}
	// the stores
	called := calledNames(repo)
	if !called["GetValue"] || !called["Call"] {
		bad("no call of GetValue / Call found in the repository")
	}
	seenW := map[nodeWrite]bool{}
	var out []nodeWrite
	for k := range eval {
		fd := methods[k]
		if fd.Body == nil || len(fd.Recv.List[0].Names) == 0 {
			continue
		}
		rn := fd.Recv.List[0].Names[0].Name
		rec := func(e ast.Expr) {
			r, f := rootField(e)
			if r != rn || f == "" {
				return
			}
			w := nodeWrite{k.typ, k.name, f, built[k.typ], called[k.name]}
			if !seenW[w] {
				seenW[w] = true
				out = append(out, w)
			}
		}
		ast.Inspect(fd.Body, func(n ast.Node) bool {
			switch t := n.(type) {
			case *ast.AssignStmt:
				if t.Tok == token.DEFINE {
					return true
				}
				for _, l := range t.Lhs {
					rec(l)
				}
			case *ast.IncDecStmt:
				rec(t.X)
			case *ast.UnaryExpr:
				if t.Op == token.AND {
					if _, isLit := t.X.(*ast.CompositeLit); !isLit {
						rec(t.X)
					}
				}
			case *ast.CallExpr:
				if id, ok := t.Fun.(*ast.Ident); ok && (id.Name == "delete" || id.Name == "clear") && len(t.Args) >= 1 {
					rec(t.Args[0])
				}
				// a store through a method of sync/atomic, sync.Map, sync.Pool or sync.Once on a field of the
				// receiver (`r.f.Store(x)`, `r.f.LoadOrStore(k, v)`, `r.f.Put(x)`, `r.f.Do(fn)`): the node
				// remembers something just as with `r.f = x`
				if sel, ok := t.Fun.(*ast.SelectorExpr); ok && syncStoreMethods[sel.Sel.Name] {
					rec(sel.X)
				}
			case *ast.RangeStmt:
				if t.Tok == token.ASSIGN {
					if t.Key != nil {
						rec(t.Key)
					}
					if t.Value != nil {
						rec(t.Value)
					}
				}
			}
			return true
		})
	}
	sort.Slice(out, func(i, j int) bool {
		a, b := out[i], out[j]
		if a.typ != b.typ {
			return a.typ < b.typ
		}
		if a.method != b.method {
			return a.method < b.method
		}
		return a.field < b.field
	})
	return out
}

// methods of sync/atomic values, sync.Map, sync.Pool and sync.Once that store
var syncStoreMethods = map[string]bool{"Store": true, "Swap": true, "CompareAndSwap": true, "LoadOrStore": true,
	"LoadAndDelete": true, "CompareAndDelete": true, "Add": true, "And": true, "Or": true, "Delete": true, "Clear": true,
	"Put": true, "Do": true}
