// extract/c09: regenerates lean/Generated/C09ChanLocks.lean from std/channel/*.go.
//
// For every method of *Channel it lists the sync-relevant events in source order:
// lock/unlock calls on c.mu, accesses of the closed flag (atomic method or plain
// read/write), close()/send/receive on c.channel and c.done, select boundaries,
// returns, verifYield points. The property file requires these sequences to be
// exactly the ones Model.Chan's steps stand for.
//
// Beyond `Channel` itself it covers EVERY file of std/channel (the class / dispatch layer a script
// call goes through before it reaches `Channel`): every type declared in the package with its
// fields, every statement of every function that writes state which is not a plain local variable
// (assignment / ++ / -- through a selector, an index, a pointer or to a package-level variable;
// delete / clear / copy), every package-level variable and every `go` statement. The property file
// requires the dispatch layer to be write-free after construction: its objects hold nothing but
// references to the channel / the class object, the only writes in the package are the two
// `Construct` performs inside the exclusive lock, there is no package-level state apart from the
// verif hook, and nothing starts a goroutine.
package main

import (
	"bytes"
	"fmt"
	"go/ast"
	"go/printer"
	"go/token"
	"os"
	"sort"
	"strings"

	"verif/extract/ex"
)

type walker struct {
	recv   string // receiver name, e.g. "c"
	events []string
	shape  []string
	where  string
}

func (w *walker) emit(e string) { w.events = append(w.events, e) }

// field returns the field name when e is `<recv>.<field>`
func (w *walker) field(e ast.Expr) (string, bool) {
	se, ok := e.(*ast.SelectorExpr)
	if !ok {
		return "", false
	}
	id, ok := se.X.(*ast.Ident)
	if !ok || id.Name != w.recv {
		return "", false
	}
	return se.Sel.Name, true
}

func (w *walker) call(c *ast.CallExpr, deferred bool) {
	// close(c.x)
	if id, ok := c.Fun.(*ast.Ident); ok {
		switch id.Name {
		case "close":
			if len(c.Args) == 1 {
				if f, ok := w.field(c.Args[0]); ok {
					switch f {
					case "done":
						w.emit("closeDone")
					case "channel":
						w.emit("closeChan")
					default:
						w.emit("other")
					}
					return
				}
			}
			w.emit("other")
			return
		case "verifYield":
			p := ""
			if len(c.Args) == 1 {
				if bl, ok := c.Args[0].(*ast.BasicLit); ok {
					p = strings.Trim(bl.Value, "\"")
				}
			}
			switch p {
			case "send:checked":
				w.emit("yieldSendChecked")
			case "close:flagged":
				w.emit("yieldCloseFlagged")
			case "close:signalled":
				w.emit("yieldCloseSignalled")
			default:
				w.emit("yieldOther")
			}
			return
		case "make":
			// handled by the assignment
		}
	}
	if se, ok := c.Fun.(*ast.SelectorExpr); ok {
		// c.Close() / c.Send() / c.Receive()
		if id, ok := se.X.(*ast.Ident); ok && id.Name == w.recv {
			switch se.Sel.Name {
			case "Close":
				w.emit("callClose")
			case "Send":
				w.emit("callSend")
			case "Receive":
				w.emit("callReceive")
			}
			for _, a := range c.Args {
				w.expr(a)
			}
			return
		}
		// c.<field>.<method>()
		if f, ok := w.field(se.X); ok {
			m := se.Sel.Name
			switch f {
			case "mu":
				ev := map[string]string{"RLock": "rlock", "RUnlock": "runlock", "Lock": "lock", "Unlock": "unlock"}[m]
				if ev == "" {
					ev = "other"
				}
				if deferred {
					switch ev {
					case "runlock":
						ev = "deferRUnlock"
					case "unlock":
						ev = "deferUnlock"
					default:
						ev = "other"
					}
				}
				w.emit(ev)
			case "closed":
				ev := map[string]string{"Load": "loadFlag", "CompareAndSwap": "casFlag", "Store": "storeFlag"}[m]
				if ev == "" || deferred {
					ev = "other"
				}
				w.emit(ev)
			default:
				w.emit("other")
			}
			for _, a := range c.Args {
				w.expr(a)
			}
			return
		}
	}
	w.expr(c.Fun)
	for _, a := range c.Args {
		w.expr(a)
	}
}

func (w *walker) expr(e ast.Expr) {
	if e == nil {
		return
	}
	switch x := e.(type) {
	case *ast.CallExpr:
		w.call(x, false)
	case *ast.UnaryExpr:
		if x.Op == token.ARROW {
			if f, ok := w.field(x.X); ok {
				switch f {
				case "channel":
					w.emit("recvChan")
				case "done":
					w.emit("recvDone")
				default:
					w.emit("other")
				}
				return
			}
			w.emit("other")
			return
		}
		w.expr(x.X)
	case *ast.BinaryExpr:
		w.expr(x.X)
		w.expr(x.Y)
	case *ast.ParenExpr:
		w.expr(x.X)
	case *ast.SelectorExpr:
		if f, ok := w.field(x); ok && f == "closed" {
			w.emit("readFlagPlain")
			return
		}
		w.expr(x.X)
	case *ast.FuncLit:
		w.emit("other") // closures inside the methods are not part of the expected shape
		w.block(x.Body)
	case *ast.StarExpr:
		w.expr(x.X)
	case *ast.IndexExpr:
		w.expr(x.X)
		w.expr(x.Index)
	case *ast.TypeAssertExpr:
		w.expr(x.X)
	case *ast.CompositeLit:
		for _, el := range x.Elts {
			w.expr(el)
		}
	case *ast.KeyValueExpr:
		w.expr(x.Value)
	}
}

func (w *walker) block(b *ast.BlockStmt) {
	if b == nil {
		return
	}
	for _, s := range b.List {
		w.stmt(s)
	}
}

func (w *walker) stmt(s ast.Stmt) {
	switch x := s.(type) {
	case nil:
	case *ast.ExprStmt:
		w.expr(x.X)
	case *ast.DeferStmt:
		w.call(x.Call, true)
	case *ast.GoStmt:
		w.emit("goStmt")
		w.call(x.Call, false)
	case *ast.SendStmt:
		w.expr(x.Value)
		if f, ok := w.field(x.Chan); ok && f == "channel" {
			w.emit("sendChan")
		} else {
			w.emit("other")
		}
	case *ast.AssignStmt:
		for _, r := range x.Rhs {
			if c, ok := r.(*ast.CallExpr); ok {
				if id, ok := c.Fun.(*ast.Ident); ok && id.Name == "make" {
					continue
				}
			}
			w.expr(r)
		}
		for i, l := range x.Lhs {
			if f, ok := w.field(l); ok {
				isMake := false
				if i < len(x.Rhs) {
					if c, ok := x.Rhs[i].(*ast.CallExpr); ok {
						if id, ok := c.Fun.(*ast.Ident); ok && id.Name == "make" {
							isMake = true
						}
					}
				}
				switch {
				case f == "closed":
					w.emit("writeFlagPlain")
				case f == "channel" && isMake:
					w.emit("makeChan")
				case f == "done" && isMake:
					w.emit("makeDone")
				case f == "channel" || f == "done" || f == "mu":
					w.emit("other")
				}
			} else {
				w.expr(l)
			}
		}
	case *ast.ReturnStmt:
		for _, r := range x.Results {
			w.expr(r)
		}
		w.emit("ret")
	case *ast.IfStmt:
		w.stmt(x.Init)
		w.expr(x.Cond)
		w.block(x.Body)
		w.stmt(x.Else)
	case *ast.BlockStmt:
		w.block(x)
	case *ast.ForStmt:
		w.emit("other") // a loop is not part of the expected shape
		w.stmt(x.Init)
		w.expr(x.Cond)
		w.block(x.Body)
		w.stmt(x.Post)
	case *ast.RangeStmt:
		w.emit("other")
		w.expr(x.X)
		w.block(x.Body)
	case *ast.SelectStmt:
		w.emit("selectBegin")
		for _, cc := range x.Body.List {
			c := cc.(*ast.CommClause)
			if c.Comm == nil {
				w.emit("other") // default: makes the select non-blocking — not the modelled shape
			} else {
				w.stmt(c.Comm)
			}
			for _, b := range c.Body {
				w.stmt(b)
			}
		}
		w.emit("selectEnd")
	case *ast.SwitchStmt:
		w.stmt(x.Init)
		w.expr(x.Tag)
		w.block(x.Body)
	case *ast.CaseClause:
		for _, e := range x.List {
			w.expr(e)
		}
		for _, b := range x.Body {
			w.stmt(b)
		}
	case *ast.DeclStmt:
		if gd, ok := x.Decl.(*ast.GenDecl); ok {
			for _, sp := range gd.Specs {
				if vs, ok := sp.(*ast.ValueSpec); ok {
					for _, v := range vs.Values {
						w.expr(v)
					}
				}
			}
		}
	case *ast.IncDecStmt:
		w.expr(x.X)
	case *ast.LabeledStmt:
		w.stmt(x.Stmt)
	case *ast.BranchStmt:
	default:
		w.emit("other")
	}
}

func fieldTy(t string) string {
	switch t {
	case "sync.RWMutex":
		return "rwMutex"
	case "sync.Mutex":
		return "mutex"
	case "atomic.Bool":
		return "atomicBool"
	case "bool":
		return "bool"
	case "chan struct{}":
		return "chanStruct"
	case "chan data.Value":
		return "chanValue"
	case "":
		return "missing"
	}
	return "other"
}

func typeStr(e ast.Expr) string {
	if ct, ok := e.(*ast.ChanType); ok {
		if ct.Dir != ast.SEND|ast.RECV {
			return "chan-directional"
		}
		if st, ok := ct.Value.(*ast.StructType); ok && (st.Fields == nil || len(st.Fields.List) == 0) {
			return "chan struct{}"
		}
		return "chan " + ex.TypeString(ct.Value)
	}
	return ex.TypeString(e)
}

func leanList(evs []string, prefix string) string {
	if len(evs) == 0 {
		return "[]"
	}
	var p []string
	for _, e := range evs {
		p = append(p, prefix+e)
	}
	return "[" + strings.Join(p, ", ") + "]"
}

func main() {
	a := ex.ParseArgs()
	var shape []string
	_, files, err := ex.ParseDir(a.Repo, "std/channel")
	if err != nil {
		fmt.Fprintln(os.Stderr, "c09 extract:", err)
		os.Exit(1)
	}
	// struct fields
	fields := map[string]string{}
	var extraFields []string
	for _, f := range files {
		ast.Inspect(f, func(n ast.Node) bool {
			ts, ok := n.(*ast.TypeSpec)
			if !ok || ts.Name.Name != "Channel" {
				return true
			}
			st, ok := ts.Type.(*ast.StructType)
			if !ok {
				shape = append(shape, "Channel is not a struct")
				return false
			}
			for _, fl := range st.Fields.List {
				for _, nm := range fl.Names {
					fields[nm.Name] = typeStr(fl.Type)
					switch nm.Name {
					case "mu", "closed", "done", "channel":
					default:
						extraFields = append(extraFields, nm.Name)
					}
				}
			}
			return false
		})
	}
	if len(fields) == 0 {
		shape = append(shape, "type Channel not found")
	}
	sort.Strings(extraFields)
	// methods of *Channel
	methods := map[string][]string{}
	var names []string
	fileNames := make([]string, 0, len(files))
	for n := range files {
		fileNames = append(fileNames, n)
	}
	sort.Strings(fileNames)
	for _, fn := range fileNames {
		for _, d := range files[fn].Decls {
			fd, ok := d.(*ast.FuncDecl)
			if !ok || fd.Body == nil {
				continue
			}
			recvName, recvType := "", ""
			if fd.Recv != nil && len(fd.Recv.List) > 0 {
				recvType = strings.TrimPrefix(ex.TypeString(fd.Recv.List[0].Type), "*")
				if len(fd.Recv.List[0].Names) > 0 {
					recvName = fd.Recv.List[0].Names[0].Name
				}
			}
			if recvType != "Channel" {
				continue
			}
			w := &walker{recv: recvName, where: fd.Name.Name}
			w.block(fd.Body)
			methods[fd.Name.Name] = w.events
			names = append(names, fd.Name.Name)
		}
	}
	for _, m := range []string{"Send", "Close", "Receive", "IsClosed", "Construct"} {
		if _, ok := methods[m]; !ok {
			shape = append(shape, "method Channel."+m+" not found")
		}
	}
	// every other method must be free of sync-relevant events apart from returns
	var others []string
	sort.Strings(names)
	for _, n := range names {
		switch n {
		case "Send", "Close", "Receive", "IsClosed", "Construct":
			continue
		}
		for _, e := range methods[n] {
			if e != "ret" {
				others = append(others, n+":"+e)
			}
		}
	}
	// script-level glue (channel_methods.go): which methods of Channel each `Channel*Method.Call`
	// invokes, in source order, whatever the receiver expression (aliases included)
	api := map[string]bool{}
	for _, n := range names {
		api[n] = true
	}
	wrappers := map[string][]string{}
	var wnames []string
	for _, fn := range fileNames {
		for _, d := range files[fn].Decls {
			fd, ok := d.(*ast.FuncDecl)
			if !ok || fd.Body == nil || fd.Name.Name != "Call" || fd.Recv == nil || len(fd.Recv.List) == 0 {
				continue
			}
			rt := strings.TrimPrefix(ex.TypeString(fd.Recv.List[0].Type), "*")
			if !strings.HasPrefix(rt, "Channel") || !strings.HasSuffix(rt, "Method") {
				continue
			}
			var calls []string
			ast.Inspect(fd.Body, func(n ast.Node) bool {
				switch x := n.(type) {
				case *ast.CallExpr:
					if sel, ok := x.Fun.(*ast.SelectorExpr); ok && api[sel.Sel.Name] {
						calls = append(calls, sel.Sel.Name)
					}
				case *ast.GoStmt:
					calls = append(calls, "go")
				case *ast.ForStmt, *ast.RangeStmt:
					calls = append(calls, "loop")
				}
				return true
			})
			wrappers[rt] = calls
			wnames = append(wnames, rt)
		}
	}
	sort.Strings(wnames)
	var wl []string
	for _, n := range wnames {
		wl = append(wl, fmt.Sprintf("(%s, [%s])", ex.LeanString(n), quoteAll(wrappers[n])))
	}
	// ---- the whole package: types and their fields, writes of non-local state, package variables, go statements
	fset := token.NewFileSet()
	exprStr := func(e ast.Expr) string {
		var b bytes.Buffer
		printer.Fprint(&b, fset, e)
		return strings.Join(strings.Fields(b.String()), " ")
	}
	pkgVar := map[string]bool{}
	var pkgVars, goStmts, sharedWrites []string
	type structFact struct {
		name   string
		fields [][2]string
	}
	var structs []structFact
	for _, fn := range fileNames {
		for _, d := range files[fn].Decls {
			gd, ok := d.(*ast.GenDecl)
			if !ok {
				continue
			}
			for _, sp := range gd.Specs {
				switch x := sp.(type) {
				case *ast.ValueSpec:
					if gd.Tok == token.VAR {
						for _, nm := range x.Names {
							pkgVar[nm.Name] = true
							pkgVars = append(pkgVars, nm.Name)
						}
					}
				case *ast.TypeSpec:
					if x.Name.Name == "Channel" {
						continue // its fields are the `fields` / `extraFields` facts above
					}
					sf := structFact{name: x.Name.Name}
					if st, ok := x.Type.(*ast.StructType); ok {
						for _, fl := range st.Fields.List {
							if len(fl.Names) == 0 {
								sf.fields = append(sf.fields, [2]string{"", exprStr(fl.Type)})
							}
							for _, nm := range fl.Names {
								sf.fields = append(sf.fields, [2]string{nm.Name, exprStr(fl.Type)})
							}
						}
					} else {
						sf.fields = append(sf.fields, [2]string{"<underlying>", exprStr(x.Type)})
					}
					structs = append(structs, sf)
				}
			}
		}
	}
	sort.Strings(pkgVars)
	sort.Slice(structs, func(i, j int) bool { return structs[i].name < structs[j].name })
	for _, fn := range fileNames {
		for _, d := range files[fn].Decls {
			fd, ok := d.(*ast.FuncDecl)
			if !ok || fd.Body == nil {
				continue
			}
			fname := fd.Name.Name
			if fd.Recv != nil && len(fd.Recv.List) > 0 {
				fname = strings.TrimPrefix(ex.TypeString(fd.Recv.List[0].Type), "*") + "." + fname
			}
			// names declared inside the function shadow package-level variables
			local := map[string]bool{}
			if fd.Type.Params != nil {
				for _, p := range fd.Type.Params.List {
					for _, nm := range p.Names {
						local[nm.Name] = true
					}
				}
			}
			ast.Inspect(fd.Body, func(n ast.Node) bool {
				switch x := n.(type) {
				case *ast.AssignStmt:
					if x.Tok == token.DEFINE {
						for _, l := range x.Lhs {
							if id, ok := l.(*ast.Ident); ok {
								local[id.Name] = true
							}
						}
					}
				case *ast.ValueSpec:
					for _, nm := range x.Names {
						local[nm.Name] = true
					}
				}
				return true
			})
			target := func(e ast.Expr) (string, bool) {
				for {
					if p, ok := e.(*ast.ParenExpr); ok {
						e = p.X
						continue
					}
					break
				}
				switch x := e.(type) {
				case *ast.Ident:
					if x.Name != "_" && pkgVar[x.Name] && !local[x.Name] {
						return x.Name, true
					}
					return "", false
				case *ast.SelectorExpr, *ast.IndexExpr, *ast.StarExpr:
					return exprStr(x), true
				}
				return "", false
			}
			ast.Inspect(fd.Body, func(n ast.Node) bool {
				switch x := n.(type) {
				case *ast.AssignStmt:
					for _, l := range x.Lhs {
						if t, ok := target(l); ok {
							sharedWrites = append(sharedWrites, fname+":"+t)
						}
					}
				case *ast.IncDecStmt:
					if t, ok := target(x.X); ok {
						sharedWrites = append(sharedWrites, fname+":"+t)
					}
				case *ast.RangeStmt:
					if x.Tok == token.ASSIGN {
						for _, l := range []ast.Expr{x.Key, x.Value} {
							if l == nil {
								continue
							}
							if t, ok := target(l); ok {
								sharedWrites = append(sharedWrites, fname+":"+t)
							}
						}
					}
				case *ast.CallExpr:
					if id, ok := x.Fun.(*ast.Ident); ok && len(x.Args) > 0 {
						switch id.Name {
						case "delete", "clear", "copy":
							sharedWrites = append(sharedWrites, fname+":"+id.Name+"("+exprStr(x.Args[0])+")")
						}
					}
				case *ast.GoStmt:
					goStmts = append(goStmts, fname)
				}
				return true
			})
		}
	}
	var sl []string
	for _, sf := range structs {
		var fl []string
		for _, f := range sf.fields {
			fl = append(fl, fmt.Sprintf("(%s, %s)", ex.LeanString(f[0]), ex.LeanString(f[1])))
		}
		sl = append(sl, fmt.Sprintf("(%s, [%s])", ex.LeanString(sf.name), strings.Join(fl, ", ")))
	}
	var sb strings.Builder
	sb.WriteString("import Model.Chan\n/-! Sync-relevant events of the methods of `Channel` (std/channel), in source order. -/\nnamespace Generated.C09ChanLocks\nopen Model.Chan\n\n")
	fmt.Fprintf(&sb, "/-- types of the fields mu, closed, done, channel -/\ndef fields : List FieldTy := %s\n\n", leanList([]string{fieldTy(fields["mu"]), fieldTy(fields["closed"]), fieldTy(fields["done"]), fieldTy(fields["channel"])}, "."))
	fmt.Fprintf(&sb, "/-- number of further fields of Channel -/\ndef extraFields : Nat := %d\n\n", len(extraFields))
	for _, m := range []struct{ lean, goName string }{{"send", "Send"}, {"close", "Close"}, {"receive", "Receive"}, {"isClosed", "IsClosed"}, {"construct", "Construct"}} {
		fmt.Fprintf(&sb, "def %s : List Ev := %s\n\n", m.lean, leanList(methods[m.goName], "."))
	}
	fmt.Fprintf(&sb, "/-- sync-relevant events in any other method of Channel (method:event) -/\ndef others : List String := [%s]\n\n", quoteAll(others))
	fmt.Fprintf(&sb, "/-- per script-level method object (channel_methods.go): the Channel methods its Call invokes, in source order -/\ndef wrappers : List (String × List String) := [%s]\n\n", strings.Join(wl, ", "))
	fmt.Fprintf(&sb, "/-- every type declared in std/channel except Channel: (type, [(field, type as written)]) -/\ndef dispatchTypes : List (String × List (String × String)) := [%s]\n\n", strings.Join(sl, ", "))
	fmt.Fprintf(&sb, "/-- every statement in any function of std/channel that writes state other than a plain local variable (function:target, file and source order) -/\ndef sharedWrites : List String := [%s]\n\n", quoteAll(sharedWrites))
	fmt.Fprintf(&sb, "/-- package-level variables of std/channel (all build tags) -/\ndef pkgVars : List String := [%s]\n\n", quoteAll(pkgVars))
	fmt.Fprintf(&sb, "/-- functions of std/channel that contain a go statement -/\ndef goStmts : List String := [%s]\n\n", quoteAll(goStmts))
	fmt.Fprintf(&sb, "def shapeChanged : List String := [%s]\n\nend Generated.C09ChanLocks\n", quoteAll(shape))
	if err := ex.WriteIfChanged(a.Out, "C09ChanLocks.lean", sb.String()); err != nil {
		fmt.Fprintln(os.Stderr, "c09 extract:", err)
		os.Exit(1)
	}
	fmt.Printf("C09ChanLocks: Send=%d Close=%d Receive=%d IsClosed=%d Construct=%d events, others=%d, dispatch types=%d, writes of non-local state=%d, package vars=%d, go statements=%d, shapeChanged=%d\n",
		len(methods["Send"]), len(methods["Close"]), len(methods["Receive"]), len(methods["IsClosed"]), len(methods["Construct"]), len(others), len(structs), len(sharedWrites), len(pkgVars), len(goStmts), len(shape))
}

func quoteAll(xs []string) string {
	var p []string
	for _, x := range xs {
		p = append(p, ex.LeanString(x))
	}
	return strings.Join(p, ", ")
}
