// F  binding loops: every loop of package node that binds the arguments of a call on the generic path
// (a loop whose body calls the generic-aware binder `bindTypedParameter`, i.e. the function that asks
// `genericParamType`), and what the loop does with the binder's result: tested (and returned) inside the
// iteration that produced it / kept in one variable that is tested after the loop / dropped.
package main

import (
	"fmt"
	"go/ast"
	"go/token"
	"sort"

	"verif/extract/ex"
)

type bframe struct {
	list []ast.Stmt
	idx  int
}

// binders: the functions of package node that check a parameter against the receiver's type arguments
// (they ask genericParamType and answer with a data.Control)
func binders(node *pkg) map[string]bool {
	out := map[string]bool{}
	for name, fd := range node.funcs {
		calls := false
		ast.Inspect(fd.Body, func(n ast.Node) bool {
			if ce, ok := n.(*ast.CallExpr); ok {
				if id, ok := ce.Fun.(*ast.Ident); ok && id.Name == "genericParamType" {
					calls = true
				}
			}
			return !calls
		})
		if calls && fd.Type.Results != nil && len(fd.Type.Results.List) == 1 && str(fd.Type.Results.List[0].Type) == "data.Control" {
			out[name] = true
		}
	}
	return out
}

func isBinderCall(e ast.Expr, bs map[string]bool) bool {
	ce, ok := e.(*ast.CallExpr)
	if !ok {
		return false
	}
	id, ok := ce.Fun.(*ast.Ident)
	return ok && bs[id.Name]
}

// nilReturn: `if <name> != nil { …; return … }`
func nilReturn(st ast.Stmt, name string) bool {
	is, ok := st.(*ast.IfStmt)
	if !ok || is.Init != nil {
		return false
	}
	be, ok := is.Cond.(*ast.BinaryExpr)
	if !ok || be.Op != token.NEQ || str(be.Y) != "nil" || str(be.X) != name || len(is.Body.List) == 0 {
		return false
	}
	_, ok = is.Body.List[len(is.Body.List)-1].(*ast.ReturnStmt)
	return ok
}

var shapeRank = map[string]int{".eachChecked": 0, ".lastOnly": 1, ".unchecked": 2, ".other": 3}

func bindFacts(node *pkg) []string {
	bs := binders(node)
	if len(bs) == 0 {
		changed("binding loops: no function of package node calls genericParamType and returns a data.Control (the generic-aware parameter binder is gone or renamed)")
	}
	type entry struct{ file, fn, shape string }
	var entries []entry
	for _, fd := range node.all {
		fn := fd.Name.Name
		if rt := recvType(fd); rt != "" {
			fn = rt + "." + fn
		}
		if bs[fd.Name.Name] && recvType(fd) == "" {
			continue
		}
		file := node.fileOf[fd]
		loopShapes := map[ast.Node]string{}
		var loops []ast.Node
		worsen := func(loop ast.Node, sh string) {
			if loop == nil {
				changed("binding loops: %s %s calls the parameter binder outside any loop", file, fn)
				return
			}
			if _, ok := loopShapes[loop]; !ok {
				loopShapes[loop] = ".eachChecked"
				loops = append(loops, loop)
			}
			if shapeRank[sh] > shapeRank[loopShapes[loop]] {
				loopShapes[loop] = sh
			}
		}
		// classify an assignment `name = binder(…)` met at frames[…] inside loop (frames from base on are inside it)
		classify := func(name string, frames []bframe, base int, after []ast.Stmt) string {
			for _, f := range frames[base:] {
				for j := f.idx + 1; j < len(f.list); j++ {
					if nilReturn(f.list[j], name) {
						return ".eachChecked"
					}
				}
			}
			for _, st := range after {
				if nilReturn(st, name) {
					return ".lastOnly"
				}
			}
			return ".unchecked"
		}
		var walkList func(list []ast.Stmt, frames []bframe, loop ast.Node, base int, after []ast.Stmt)
		var walkStmt func(st ast.Stmt, frames []bframe, loop ast.Node, base int, after []ast.Stmt)
		walkList = func(list []ast.Stmt, frames []bframe, loop ast.Node, base int, after []ast.Stmt) {
			for i, st := range list {
				walkStmt(st, append(append([]bframe{}, frames...), bframe{list, i}), loop, base, after)
			}
		}
		handleAssign := func(as *ast.AssignStmt, frames []bframe, loop ast.Node, base int, after []ast.Stmt) bool {
			if len(as.Rhs) != 1 || !isBinderCall(as.Rhs[0], bs) {
				return false
			}
			if len(as.Lhs) != 1 {
				worsen(loop, ".other")
				return true
			}
			name := str(as.Lhs[0])
			if name == "_" {
				worsen(loop, ".unchecked")
				return true
			}
			if loop != nil {
				worsen(loop, classify(name, frames, base, after))
			} else {
				worsen(nil, "")
			}
			return true
		}
		walkStmt = func(st ast.Stmt, frames []bframe, loop ast.Node, base int, after []ast.Stmt) {
			switch s := st.(type) {
			case *ast.AssignStmt:
				handleAssign(s, frames, loop, base, after)
			case *ast.ExprStmt:
				if isBinderCall(s.X, bs) {
					worsen(loop, ".unchecked")
				}
			case *ast.ReturnStmt:
				for _, r := range s.Results {
					if isBinderCall(r, bs) {
						worsen(loop, ".other")
					}
				}
			case *ast.BlockStmt:
				walkList(s.List, frames, loop, base, after)
			case *ast.IfStmt:
				if as, ok := s.Init.(*ast.AssignStmt); ok && len(as.Rhs) == 1 && isBinderCall(as.Rhs[0], bs) {
					// `if acl := binder(…); acl != nil { return … }`
					name := ""
					if len(as.Lhs) == 1 {
						name = str(as.Lhs[0])
					}
					probe := &ast.IfStmt{Cond: s.Cond, Body: s.Body}
					if name != "" && nilReturn(probe, name) {
						worsen(loop, ".eachChecked")
					} else if !handleAssign(as, frames, loop, base, after) {
						worsen(loop, ".other")
					}
				}
				walkList(s.Body.List, frames, loop, base, after)
				if s.Else != nil {
					walkStmt(s.Else, frames, loop, base, after)
				}
			case *ast.SwitchStmt:
				walkList(s.Body.List, frames, loop, base, after)
			case *ast.TypeSwitchStmt:
				walkList(s.Body.List, frames, loop, base, after)
			case *ast.CaseClause:
				walkList(s.Body, frames, loop, base, after)
			case *ast.LabeledStmt:
				walkStmt(s.Stmt, frames, loop, base, after)
			case *ast.ForStmt, *ast.RangeStmt:
				var body *ast.BlockStmt
				if f, ok := s.(*ast.ForStmt); ok {
					body = f.Body
				} else {
					body = s.(*ast.RangeStmt).Body
				}
				// the statements that follow this loop in its own block
				top := frames[len(frames)-1]
				walkList(body.List, frames, s, len(frames), top.list[top.idx+1:])
			}
		}
		walkList(fd.Body.List, nil, nil, 0, nil)
		for _, l := range loops {
			entries = append(entries, entry{file, fn, loopShapes[l]})
		}
	}
	sort.Slice(entries, func(i, j int) bool {
		if entries[i].file != entries[j].file {
			return entries[i].file < entries[j].file
		}
		return entries[i].fn < entries[j].fn
	})
	var out []string
	for _, e := range entries {
		out = append(out, fmt.Sprintf("{ file := %s, fn := %s, shape := %s }", ex.LeanString(e.file), ex.LeanString(e.fn), e.shape))
	}
	return out
}
