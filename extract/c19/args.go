package main

import (
	"fmt"
	"go/ast"
	"go/token"
	"sort"
	"strconv"
	"strings"

	"verif/extract/ex"
)

type argRes struct {
	argChain, parseChain, baseTypes, cmps []string
	loop                                  string
	baseDefault                           bool
}

func stepOf(fun string) (string, bool) {
	switch fun {
	case "string", "strings.Clone":
		return "", false // identity
	case "strings.ToLower":
		return ".lower", true
	case "strings.ToUpper":
		return ".upper", true
	}
	return ".other " + ex.LeanString(fun), true
}

// chainTo walks from an expression towards its source through local single definitions and wrapping calls;
// `base` says whether an expression is the source.  Returns the wrappers innermost first and the source.
func chainTo(body ast.Node, e ast.Expr, base func(ast.Expr) bool) (steps []string, src ast.Expr) {
	for depth := 0; depth < 12; depth++ {
		e = strip(e)
		if base(e) {
			src = e
			break
		}
		switch t := e.(type) {
		case *ast.Ident:
			ds := defsOf(body, t.Obj)
			if len(ds) != 1 {
				steps = append(steps, ".other "+ex.LeanString(fmt.Sprintf("%s bound %d times", t.Name, len(ds))))
				goto done
			}
			e = ds[0].rhs
			continue
		case *ast.CallExpr:
			if len(t.Args) == 0 {
				steps = append(steps, ".other "+ex.LeanString(str(t)))
				goto done
			}
			if s, ok := stepOf(str(t.Fun)); ok {
				steps = append(steps, s)
			}
			e = t.Args[0]
			continue
		case *ast.BinaryExpr, *ast.SliceExpr:
			steps = append(steps, ".other "+ex.LeanString(str(e)))
			goto done
		}
		steps = append(steps, ".other "+ex.LeanString(str(e)))
		goto done
	}
done:
	for i, j := 0, len(steps)-1; i < j; i, j = i+1, j-1 {
		steps[i], steps[j] = steps[j], steps[i]
	}
	return
}

// derivesFrom: is the identifier bound (through type assertions / local definitions) to the element of the
// current iteration — the range value `target`, or `<ranged collection>[<range key>]`?
func derivesFrom(body ast.Node, id *ast.Ident, target *ast.Object, loop *ast.RangeStmt, depth int) bool {
	if id == nil || id.Obj == nil {
		return false
	}
	if target != nil && id.Obj == target {
		return true
	}
	if depth == 0 {
		return false
	}
	for _, d := range defsOf(body, id.Obj) {
		rhs := strip(d.rhs)
		if isCurrentElem(body, rhs, loop) {
			return true
		}
		if r, _ := rootPath(rhs); r != nil {
			if _, isIndex := rhs.(*ast.IndexExpr); !isIndex && derivesFrom(body, r, target, loop, depth-1) {
				return true
			}
		}
	}
	return false
}

func isCurrentElem(body ast.Node, e ast.Expr, loop *ast.RangeStmt) bool {
	ix, ok := strip(e).(*ast.IndexExpr)
	if !ok || loop == nil {
		return false
	}
	k, ok := loop.Key.(*ast.Ident)
	if !ok || k.Obj == nil {
		return false
	}
	if i, ok := strip(ix.Index).(*ast.Ident); !ok || i.Obj != k.Obj {
		return false
	}
	return str(ix.X) == str(loop.X)
}

func argFacts(repo string, node *pkg, cf *cloneRes) *argRes {
	res := &argRes{loop: "{ indexIsRange := false, keyIsParamName := false, mapCloned := false, cloneReturned := false, ctor := \"\" }"}

	// ---- NewClassGenerated.resolveClass: the loop that builds the type-argument map
	var fd *ast.FuncDecl
	var loop *ast.RangeStmt
	isGenericList := func(body ast.Node, e ast.Expr) bool {
		e = strip(e)
		if id, ok := e.(*ast.Ident); ok {
			for _, d := range defsOf(body, id.Obj) {
				e = strip(d.rhs)
			}
		}
		c, ok := e.(*ast.CallExpr)
		if !ok {
			return false
		}
		f, ok := c.Fun.(*ast.SelectorExpr)
		return ok && f.Sel.Name == "GenericList"
	}
	for _, g := range node.all {
		if node.fileOf[g] != "new.go" {
			continue
		}
		ast.Inspect(g.Body, func(n ast.Node) bool {
			if r, ok := n.(*ast.RangeStmt); ok && isGenericList(g.Body, r.X) {
				if loop != nil && fd != g {
					changed("more than one function of node/new.go ranges over GenericList(): %s, %s", fnName(fd), fnName(g))
				}
				fd, loop = g, r
			}
			return true
		})
	}
	if loop == nil {
		changed("no `range <class>.GenericList()` loop in node/new.go (the type-argument map is built elsewhere)")
	} else {
		recv := recvObj(fd)
		var keyObj, valObj *ast.Object
		if id, ok := loop.Key.(*ast.Ident); ok {
			keyObj = id.Obj
		}
		if id, ok := loop.Value.(*ast.Ident); ok {
			valObj = id.Obj
		}
		type store struct {
			m    *ast.Ident
			k    ast.Expr
			call *ast.CallExpr
		}
		var stores []store
		ast.Inspect(loop.Body, func(n ast.Node) bool {
			s, ok := n.(*ast.AssignStmt)
			if !ok || len(s.Lhs) != 1 || len(s.Rhs) != 1 {
				return true
			}
			ix, ok := s.Lhs[0].(*ast.IndexExpr)
			if !ok {
				return true
			}
			m, ok := ix.X.(*ast.Ident)
			if !ok {
				return true
			}
			c, _ := strip(s.Rhs[0]).(*ast.CallExpr)
			if c == nil {
				if id, ok := strip(s.Rhs[0]).(*ast.Ident); ok {
					if ds := defsOf(loop.Body, id.Obj); len(ds) == 1 {
						c, _ = strip(ds[0].rhs).(*ast.CallExpr)
					}
				}
			}
			if c == nil {
				changed("%s: %s is not given the result of a constructor call", fnName(fd), str(s.Lhs[0]))
				return true
			}
			stores = append(stores, store{m, ix.Index, c})
			return true
		})
		if len(stores) != 1 {
			changed("%s: %d stores into a map inside the GenericList loop (expected 1)", fnName(fd), len(stores))
		}
		if len(stores) >= 1 {
			st := stores[0]
			var idx ast.Expr
			isArgText := func(e ast.Expr) bool {
				ix, ok := e.(*ast.IndexExpr)
				if !ok {
					return false
				}
				r, path := rootPath(ix.X)
				if r != nil && r.Obj == recv && recv != nil && len(path) >= 1 {
					idx = ix.Index
					return true
				}
				return false
			}
			var arg ast.Expr
			if len(st.call.Args) >= 1 {
				arg = st.call.Args[0]
			}
			if arg == nil {
				changed("%s: constructor %s takes no argument", fnName(fd), str(st.call.Fun))
			} else {
				steps, src := chainTo(fd.Body, arg, isArgText)
				if src == nil && len(steps) == 0 {
					steps = append(steps, ".other "+ex.LeanString(str(arg)))
				}
				if src == nil {
					changed("%s: the argument of %s does not come from the node's written type arguments: %s", fnName(fd), str(st.call.Fun), str(arg))
				}
				res.argChain = steps
			}
			indexIsRange := false
			if id, ok := strip0(idx).(*ast.Ident); ok && id.Obj != nil && id.Obj == keyObj {
				indexIsRange = true
			}
			keyIsParam := false
			switch k := strip(st.k).(type) {
			case *ast.SelectorExpr:
				if id, ok := strip(k.X).(*ast.Ident); ok && (k.Sel.Name == "Name") {
					keyIsParam = derivesFrom(fd.Body, id, valObj, loop, 3)
				}
			case *ast.CallExpr:
				if f, ok := k.Fun.(*ast.SelectorExpr); ok && len(k.Args) == 0 && (f.Sel.Name == "String" || f.Sel.Name == "GetName") {
					if id, ok := strip(f.X).(*ast.Ident); ok {
						keyIsParam = derivesFrom(fd.Body, id, valObj, loop, 3)
					}
				}
			case *ast.Ident:
				for _, d := range defsOf(fd.Body, k.Obj) {
					if r, path := rootPath(strip(d.rhs)); r != nil && len(path) == 1 && path[0] == "Name" {
						keyIsParam = derivesFrom(fd.Body, r, valObj, loop, 3)
					}
				}
			}
			mapCloned, cloneReturned := false, false
			var cloneCall *ast.CallExpr
			ast.Inspect(fd.Body, func(n ast.Node) bool {
				if c, ok := n.(*ast.CallExpr); ok && len(c.Args) == 1 {
					if f, ok := c.Fun.(*ast.SelectorExpr); ok && f.Sel.Name == "Clone" {
						if id, ok := strip(c.Args[0]).(*ast.Ident); ok && id.Obj != nil && id.Obj == st.m.Obj {
							mapCloned = true
							cloneCall = c
						}
					}
				}
				return true
			})
			if cloneCall != nil {
				// the clone must be what every later successful return hands out
				var bound *ast.Object
				var boundPos token.Pos
				ast.Inspect(fd.Body, func(n ast.Node) bool {
					switch s := n.(type) {
					case *ast.AssignStmt:
						for i, r := range s.Rhs {
							if strip(r) == ast.Expr(cloneCall) && i < len(s.Lhs) {
								if id, ok := s.Lhs[i].(*ast.Ident); ok {
									bound, boundPos = id.Obj, s.Pos()
								}
							}
						}
					case *ast.ReturnStmt:
						if len(s.Results) > 0 && strip(s.Results[0]) == ast.Expr(cloneCall) {
							cloneReturned = true
						}
					}
					return true
				})
				if bound != nil {
					rets, good := 0, 0
					ast.Inspect(fd.Body, func(n ast.Node) bool {
						if _, ok := n.(*ast.FuncLit); ok {
							return false
						}
						r, ok := n.(*ast.ReturnStmt)
						if !ok || r.Pos() < boundPos || len(r.Results) == 0 || isNilIdent(r.Results[0]) {
							return true
						}
						rets++
						res0 := strip(r.Results[0])
						if _, isSel := res0.(*ast.SelectorExpr); isSel {
							// `return n.f` right after `n.f = <the clone>`
							var lastStore ast.Expr
							ast.Inspect(fd.Body, func(m ast.Node) bool {
								if a, ok := m.(*ast.AssignStmt); ok && a.Pos() < r.Pos() && len(a.Lhs) == len(a.Rhs) {
									for i, l := range a.Lhs {
										if str(l) == str(res0) {
											lastStore = a.Rhs[i]
										}
									}
								}
								return true
							})
							if lastStore != nil {
								res0 = strip(lastStore)
							}
						}
						if id, ok := res0.(*ast.Ident); ok && id.Obj == bound {
							rebound := false
							for _, d := range defsOf(fd.Body, bound) {
								if d.pos > boundPos && d.pos < r.Pos() {
									rebound = true
								}
							}
							if !rebound {
								good++
							}
						}
						return true
					})
					cloneReturned = rets > 0 && rets == good
				}
			}
			res.loop = fmt.Sprintf("{ indexIsRange := %s, keyIsParamName := %s, mapCloned := %s, cloneReturned := %s, ctor := %s }",
				leanBool(indexIsRange), leanBool(keyIsParam), leanBool(mapCloned), leanBool(cloneReturned), ex.LeanString(str(st.call.Fun)))
		}
	}

	// ---- the parser: NewClassGenerated{T: …}
	parseChain(repo, res)

	// ---- data.NewBaseType
	baseTypes(repo, res)

	// ---- data.Class.Is
	nameCmps(repo, res)
	return res
}

func strip0(e ast.Expr) ast.Expr {
	if e == nil {
		return ast.NewIdent("_")
	}
	return strip(e)
}

func parseChain(repo string, res *argRes) {
	_, f, err := ex.ParseFile(repo, "parser/new_parser.go")
	if err != nil {
		changed("parser/new_parser.go: %v", err)
		return
	}
	found := false
	for _, d := range f.Decls {
		fd, ok := d.(*ast.FuncDecl)
		if !ok || fd.Body == nil {
			continue
		}
		ast.Inspect(fd.Body, func(n ast.Node) bool {
			cl, ok := n.(*ast.CompositeLit)
			if !ok || !strings.HasSuffix(ex.TypeString(cl.Type), "NewClassGenerated") {
				return true
			}
			for _, el := range cl.Elts {
				kv, ok := el.(*ast.KeyValueExpr)
				if !ok {
					continue
				}
				if k, ok := kv.Key.(*ast.Ident); !ok || k.Name != "T" {
					continue
				}
				found = true
				id, ok := strip(kv.Value).(*ast.Ident)
				if !ok || id.Obj == nil {
					changed("parser: NewClassGenerated.T is not a local slice: %s", str(kv.Value))
					continue
				}
				// elements stored into the slice
				var elems []ast.Expr
				ast.Inspect(fd.Body, func(m ast.Node) bool {
					s, ok := m.(*ast.AssignStmt)
					if !ok || len(s.Lhs) != 1 || len(s.Rhs) != 1 {
						return true
					}
					if ix, ok := s.Lhs[0].(*ast.IndexExpr); ok {
						if x, ok := ix.X.(*ast.Ident); ok && x.Obj == id.Obj {
							elems = append(elems, s.Rhs[0])
						}
					}
					if x, ok := s.Lhs[0].(*ast.Ident); ok && x.Obj == id.Obj {
						if c, ok := s.Rhs[0].(*ast.CallExpr); ok {
							if fn, ok := c.Fun.(*ast.Ident); ok && fn.Name == "append" && len(c.Args) >= 2 {
								elems = append(elems, c.Args[1:]...)
							}
						}
					}
					return true
				})
				if len(elems) != 1 {
					changed("parser: %d element stores into %s (expected 1)", len(elems), id.Name)
				}
				for _, e := range elems {
					isTypeString := func(x ast.Expr) bool {
						c, ok := x.(*ast.CallExpr)
						if !ok || len(c.Args) != 0 {
							return false
						}
						s, ok := c.Fun.(*ast.SelectorExpr)
						return ok && s.Sel.Name == "String"
					}
					steps, src := chainTo(fd.Body, e, isTypeString)
					if src == nil {
						changed("parser: a written type argument is not rendered with String(): %s", str(e))
						if len(steps) == 0 {
							steps = []string{".other " + ex.LeanString(str(e))}
						}
					}
					res.parseChain = append(res.parseChain, steps...)
				}
			}
			return true
		})
	}
	if !found {
		changed("parser/new_parser.go builds no NewClassGenerated{T: …}")
	}
}

func baseTypes(repo string, res *argRes) {
	_, f, err := ex.ParseFile(repo, "data/types.go")
	if err != nil {
		changed("data/types.go: %v", err)
		return
	}
	fd := ex.FuncDecl(f, "", "NewBaseType")
	if fd == nil || fd.Type.Params == nil || len(fd.Type.Params.List) != 1 || len(fd.Type.Params.List[0].Names) != 1 {
		changed("data.NewBaseType(ty string) not found")
		return
	}
	param := fd.Type.Params.List[0].Names[0].Obj
	// the argument must reach the switch untouched
	ast.Inspect(fd.Body, func(n ast.Node) bool {
		if s, ok := n.(*ast.AssignStmt); ok {
			for _, l := range s.Lhs {
				if id, ok := l.(*ast.Ident); ok && id.Obj == param {
					changed("data.NewBaseType re-binds its argument: %s", str(s.Rhs[0]))
				}
			}
		}
		return true
	})
	var sw *ast.SwitchStmt
	for _, s := range fd.Body.List {
		if x, ok := s.(*ast.SwitchStmt); ok && sw == nil {
			if id, ok := strip0(x.Tag).(*ast.Ident); ok && id.Obj == param {
				sw = x
			}
		}
	}
	if sw == nil {
		changed("data.NewBaseType has no top-level `switch <argument>`")
		return
	}
	firstReturn := func(body []ast.Stmt) ast.Expr {
		for _, s := range body {
			if r, ok := s.(*ast.ReturnStmt); ok && len(r.Results) == 1 {
				return r.Results[0]
			}
		}
		return nil
	}
	type row struct{ label, ty string }
	var rows []row
	for _, c := range sw.Body.List {
		cc := c.(*ast.CaseClause)
		if cc.List == nil {
			// default: the last statement must be `return Class{Name: <argument>}`
			if n := len(cc.Body); n > 0 {
				if r, ok := cc.Body[n-1].(*ast.ReturnStmt); ok && len(r.Results) == 1 {
					if cl, ok := r.Results[0].(*ast.CompositeLit); ok && ex.TypeString(cl.Type) == "Class" && len(cl.Elts) == 1 {
						v := cl.Elts[0]
						if kv, ok := v.(*ast.KeyValueExpr); ok {
							v = kv.Value
						}
						if id, ok := v.(*ast.Ident); ok && id.Obj == param {
							res.baseDefault = true
						}
					}
				}
			}
			continue
		}
		ret := firstReturn(cc.Body)
		ty := "?"
		if ret != nil {
			ty = str(ret)
		}
		for _, l := range cc.List {
			if bl, ok := l.(*ast.BasicLit); ok && bl.Kind == token.STRING {
				if s, err := strconv.Unquote(bl.Value); err == nil {
					rows = append(rows, row{s, ty})
					continue
				}
			}
			changed("data.NewBaseType: case label is not a string literal: %s", str(l))
		}
	}
	sort.Slice(rows, func(i, j int) bool { return rows[i].label < rows[j].label })
	for _, r := range rows {
		res.baseTypes = append(res.baseTypes, "("+ex.LeanString(r.label)+", "+ex.LeanString(r.ty)+")")
	}
}

func isNormaliserName(n string) bool {
	for _, s := range []string{"Lower", "Upper", "Fold", "Trim", "Title", "Replace", "Map"} {
		if strings.Contains(n, s) {
			return true
		}
	}
	return false
}

func nameCmps(repo string, res *argRes) {
	_, f, err := ex.ParseFile(repo, "data/type_class.go")
	if err != nil {
		changed("data/type_class.go: %v", err)
		return
	}
	fns := map[string]*ast.FuncDecl{}
	var is *ast.FuncDecl
	for _, d := range f.Decls {
		if fd, ok := d.(*ast.FuncDecl); ok && fd.Body != nil {
			if fd.Recv == nil {
				fns[fd.Name.Name] = fd
			} else if recvType(fd) == "Class" && fd.Name.Name == "Is" {
				is = fd
			}
		}
	}
	if is == nil {
		changed("data.Class.Is not found in data/type_class.go")
		return
	}
	// wanted-name parameters: start from the receiver's Name in Is, follow it into the file's helpers
	wanted := map[*ast.FuncDecl]map[*ast.Object]bool{is: {}}
	isWanted := func(fd *ast.FuncDecl, e ast.Expr) bool {
		e = strip(e)
		if fd == is {
			if s, ok := e.(*ast.SelectorExpr); ok && s.Sel.Name == "Name" {
				if id, ok := s.X.(*ast.Ident); ok && id.Obj == recvObj(fd) && id.Obj != nil {
					return true
				}
			}
		}
		if id, ok := e.(*ast.Ident); ok && id.Obj != nil {
			return wanted[fd][id.Obj]
		}
		return false
	}
	paramAt := func(fd *ast.FuncDecl, k int) *ast.Object {
		i := 0
		for _, fl := range fd.Type.Params.List {
			for _, id := range fl.Names {
				if i == k {
					return id.Obj
				}
				i++
			}
		}
		return nil
	}
	for changedAny := true; changedAny; {
		changedAny = false
		for fd := range wanted {
			ast.Inspect(fd.Body, func(n ast.Node) bool {
				c, ok := n.(*ast.CallExpr)
				if !ok {
					return true
				}
				id, ok := c.Fun.(*ast.Ident)
				if !ok || fns[id.Name] == nil {
					return true
				}
				callee := fns[id.Name]
				for k, a := range c.Args {
					if isWanted(fd, a) {
						if o := paramAt(callee, k); o != nil {
							if wanted[callee] == nil {
								wanted[callee] = map[*ast.Object]bool{}
							}
							if !wanted[callee][o] {
								wanted[callee][o] = true
								changedAny = true
							}
						}
					}
				}
				return true
			})
		}
	}
	type row struct {
		pos  token.Pos
		text string
	}
	var rows []row
	plain := func(e ast.Expr) bool {
		ok := true
		ast.Inspect(e, func(n ast.Node) bool {
			if c, isCall := n.(*ast.CallExpr); isCall {
				f, isSel := c.Fun.(*ast.SelectorExpr)
				if !isSel || len(c.Args) != 0 || !strings.HasPrefix(f.Sel.Name, "Get") {
					ok = false
				}
			}
			return true
		})
		return ok
	}
	for fd := range wanted {
		name := fnName(fd)
		ast.Inspect(fd.Body, func(n ast.Node) bool {
			switch t := n.(type) {
			case *ast.BinaryExpr:
				if t.Op != token.EQL && t.Op != token.NEQ {
					return true
				}
				var other ast.Expr
				if isWanted(fd, t.X) {
					other = t.Y
				} else if isWanted(fd, t.Y) {
					other = t.X
				}
				if other != nil {
					rows = append(rows, row{t.Pos(), fmt.Sprintf("{ fn := %s, op := .eq, plainName := %s, against := %s }",
						ex.LeanString(name), leanBool(plain(other)), ex.LeanString(str(other)))})
				}
			case *ast.CallExpr:
				f, ok := t.Fun.(*ast.SelectorExpr)
				if !ok || !isNormaliserName(f.Sel.Name) {
					return true
				}
				for _, a := range t.Args {
					if isWanted(fd, a) {
						op := ".other"
						if f.Sel.Name == "EqualFold" {
							op = ".fold"
						}
						rows = append(rows, row{t.Pos(), fmt.Sprintf("{ fn := %s, op := %s, plainName := false, against := %s }",
							ex.LeanString(name), op, ex.LeanString(str(t)))})
					}
				}
			case *ast.AssignStmt:
				for i, l := range t.Lhs {
					if isWanted(fd, l) && i < len(t.Rhs) {
						rows = append(rows, row{t.Pos(), fmt.Sprintf("{ fn := %s, op := .other, plainName := false, against := %s }",
							ex.LeanString(name), ex.LeanString(str(l)+" = "+str(t.Rhs[i])))})
					}
				}
			}
			return true
		})
	}
	sort.Slice(rows, func(i, j int) bool { return rows[i].pos < rows[j].pos })
	for _, r := range rows {
		res.cmps = append(res.cmps, r.text)
	}
	if len(rows) == 0 {
		changed("data.Class.Is compares the wanted class name nowhere")
	}
}
