package main

import (
	"fmt"
	"go/ast"
	"go/token"
	"sort"
	"strings"

	"verif/extract/ex"
)

const genericClass = "ClassGeneric"

type cloneRes struct {
	fields, returns, writes, lookups []string // Lean records
	tyargWrites                      []string
	tyargs                           string            // name of the per-instantiation type-argument field
	direct                           map[string]bool   // direct fields of ClassGeneric
	lookupFns                        map[string]string // function that reads the map -> owner
}

type fieldInfo struct {
	name, ty string
	embedded bool
}

func structFields(st *ast.StructType) []fieldInfo {
	var out []fieldInfo
	for _, f := range st.Fields.List {
		ty := ex.TypeString(f.Type)
		if len(f.Names) == 0 {
			n := strings.TrimPrefix(ty, "*")
			if i := strings.LastIndex(n, "."); i >= 0 {
				n = n[i+1:]
			}
			out = append(out, fieldInfo{n, ty, true})
			continue
		}
		for _, id := range f.Names {
			out = append(out, fieldInfo{id.Name, ty, false})
		}
	}
	return out
}

// taint: which of {receiver, parameter} an expression depends on, looking through local definitions.
func taint(body ast.Node, e ast.Node, recv, param *ast.Object, depth int) (r, p bool) {
	if e == nil {
		return
	}
	seen := map[*ast.Object]bool{}
	var visit func(n ast.Node, d int)
	visit = func(n ast.Node, d int) {
		ast.Inspect(n, func(x ast.Node) bool {
			id, ok := x.(*ast.Ident)
			if !ok || id.Obj == nil {
				return true
			}
			switch {
			case id.Obj == recv:
				r = true
			case id.Obj == param:
				p = true
			case d > 0 && !seen[id.Obj]:
				seen[id.Obj] = true
				for _, df := range defsOf(body, id.Obj) {
					visit(df.rhs, d-1)
				}
				for _, e := range flowsInto(body, id.Obj) {
					visit(e, d-1)
				}
			}
			return true
		})
	}
	visit(e, depth)
	return
}

// flowsInto: what else ends up inside a local container — element stores `x[k] = v`, `x = append(x, v…)`,
// and for a range variable the ranged expression (key as well as value).
func flowsInto(body ast.Node, obj *ast.Object) []ast.Expr {
	var out []ast.Expr
	ast.Inspect(body, func(n ast.Node) bool {
		switch s := n.(type) {
		case *ast.AssignStmt:
			for i, l := range s.Lhs {
				if _, isIdent := l.(*ast.Ident); isIdent {
					continue
				}
				if r, _ := rootPath(l); r != nil && r.Obj == obj {
					if len(s.Rhs) == len(s.Lhs) {
						out = append(out, s.Rhs[i])
					} else {
						out = append(out, s.Rhs...)
					}
				}
			}
		case *ast.RangeStmt:
			if id, ok := s.Key.(*ast.Ident); ok && id.Obj == obj {
				out = append(out, s.X)
			}
		}
		return true
	})
	return out
}

func isFreshExpr(e ast.Expr) bool {
	switch t := e.(type) {
	case *ast.CompositeLit, *ast.BasicLit, *ast.FuncLit:
		return true
	case *ast.UnaryExpr:
		return t.Op == token.AND && isFreshExpr(t.X)
	case *ast.ParenExpr:
		return isFreshExpr(t.X)
	case *ast.CallExpr:
		if id, ok := t.Fun.(*ast.Ident); ok && (id.Name == "make" || id.Name == "new") {
			return true
		}
		// sync.Map{} and friends are composite literals; a constructor call without arguments is fresh too
		return len(t.Args) == 0
	}
	return false
}

func classifySrc(body ast.Node, e ast.Expr, recv, param *ast.Object) string {
	if id, ok := e.(*ast.Ident); ok && id.Name == "nil" && id.Obj == nil {
		return ".zero"
	}
	r, p := taint(body, e, recv, param, 4)
	switch {
	case r:
		return ".receiver"
	case p:
		return ".param"
	case isFreshExpr(e):
		return ".fresh"
	}
	return ".other"
}

type consSite struct {
	copyOfRecv bool
	fields     map[string]string
	obj        *ast.Object
}

func isClassLit(e ast.Expr) *ast.CompositeLit {
	if u, ok := e.(*ast.UnaryExpr); ok && u.Op == token.AND {
		e = u.X
	}
	if cl, ok := e.(*ast.CompositeLit); ok {
		if id, ok := cl.Type.(*ast.Ident); ok && id.Name == genericClass {
			return cl
		}
	}
	return nil
}

func cloneFacts(p *pkg) *cloneRes {
	res := &cloneRes{direct: map[string]bool{}, lookupFns: map[string]string{}}
	st := p.structs[genericClass]
	if st == nil {
		changed("struct %s not found in package node", genericClass)
		return res
	}
	fields := structFields(st)
	embedded := ""
	for _, f := range fields {
		res.direct[f.name] = true
		if f.embedded && embedded == "" {
			embedded = f.name
		}
	}
	if embedded == "" {
		changed("%s embeds no declaration (expected *ClassStatement)", genericClass)
	}

	// ---- the field GenericList() hands out: the type parameters
	paramsField := ""
	if gl := p.methods[genericClass]["GenericList"]; gl != nil {
		ast.Inspect(gl.Body, func(n ast.Node) bool {
			if r, ok := n.(*ast.ReturnStmt); ok && len(r.Results) == 1 {
				if root, path := rootPath(r.Results[0]); root != nil && root.Obj == recvObj(gl) && len(path) == 1 {
					paramsField = path[0]
				}
			}
			return true
		})
	}
	if paramsField == "" {
		changed("%s.GenericList does not return a field of the receiver", genericClass)
	}

	// ---- Clone
	perField := map[string]string{}
	cl := p.methods[genericClass]["Clone"]
	var sites []*consSite
	if cl == nil {
		changed("method %s.Clone not found", genericClass)
	} else if cl.Type.Params == nil || len(cl.Type.Params.List) != 1 || len(cl.Type.Params.List[0].Names) != 1 {
		changed("%s.Clone does not take exactly one named parameter", genericClass)
	} else {
		recv, param := recvObj(cl), cl.Type.Params.List[0].Names[0].Obj
		bind := func(s *consSite, lhs ast.Expr) {
			if id, ok := lhs.(*ast.Ident); ok {
				s.obj = id.Obj
			}
		}
		mk := func(e ast.Expr) *consSite {
			if lit := isClassLit(e); lit != nil {
				s := &consSite{fields: map[string]string{}}
				for i, el := range lit.Elts {
					if kv, ok := el.(*ast.KeyValueExpr); ok {
						if k, ok := kv.Key.(*ast.Ident); ok {
							s.fields[k.Name] = classifySrc(cl.Body, kv.Value, recv, param)
						}
					} else if i < len(fields) {
						s.fields[fields[i].name] = classifySrc(cl.Body, el, recv, param)
					}
				}
				return s
			}
			if se, ok := strip(e).(*ast.StarExpr); ok {
				if id, ok := strip(se.X).(*ast.Ident); ok && id.Obj == recv && recv != nil {
					return &consSite{copyOfRecv: true, fields: map[string]string{}}
				}
			}
			if c, ok := strip(e).(*ast.CallExpr); ok && len(c.Args) == 1 {
				if f, ok := c.Fun.(*ast.Ident); ok && f.Name == "new" && f.Obj == nil {
					if t, ok := c.Args[0].(*ast.Ident); ok && t.Name == genericClass {
						return &consSite{fields: map[string]string{}} // every field zero
					}
				}
			}
			return nil
		}
		claimed := map[ast.Expr]bool{}
		ast.Inspect(cl.Body, func(n ast.Node) bool {
			switch s := n.(type) {
			case *ast.AssignStmt:
				if len(s.Lhs) == len(s.Rhs) {
					for i, r := range s.Rhs {
						if site := mk(r); site != nil {
							bind(site, s.Lhs[i])
							sites = append(sites, site)
							claimed[r] = true
						}
					}
				}
			case *ast.ValueSpec:
				for i, r := range s.Values {
					if site := mk(r); site != nil && i < len(s.Names) {
						site.obj = s.Names[i].Obj
						sites = append(sites, site)
						claimed[r] = true
					}
				}
			case *ast.ReturnStmt:
				for _, r := range s.Results {
					if !claimed[r] {
						if site := mk(r); site != nil {
							sites = append(sites, site)
							claimed[r] = true
						}
					}
				}
			}
			return true
		})
		// later field assignments on the constructed object
		ast.Inspect(cl.Body, func(n ast.Node) bool {
			s, ok := n.(*ast.AssignStmt)
			if !ok || len(s.Lhs) != len(s.Rhs) {
				return true
			}
			for i, l := range s.Lhs {
				root, path := rootPath(l)
				if root != nil && root.Obj != nil && len(path) == 0 {
					if _, isStar := strip(l).(*ast.StarExpr); isStar {
						// `*inst = <expr>`: the whole object is overwritten
						for _, site := range sites {
							if site.obj == root.Obj {
								if r, _ := taint(cl.Body, s.Rhs[i], recv, param, 4); r {
									site.copyOfRecv = true
									site.fields = map[string]string{}
								}
							}
						}
					}
					continue
				}
				if root == nil || root.Obj == nil || len(path) != 1 {
					continue
				}
				for _, site := range sites {
					if site.obj == root.Obj {
						site.fields[path[0]] = classifySrc(cl.Body, s.Rhs[i], recv, param)
					}
				}
			}
			return true
		})
		if len(sites) == 0 {
			changed("%s.Clone constructs no %s (neither a composite literal nor a copy of the receiver)", genericClass, genericClass)
		}
		for _, f := range fields {
			src := ""
			for _, site := range sites {
				s, ok := site.fields[f.name]
				if !ok {
					s = ".zero"
					if site.copyOfRecv {
						s = ".receiver"
					}
				}
				if src != "" && src != s {
					s = ".other"
				}
				src = s
			}
			if src == "" {
				src = ".other"
			}
			perField[f.name] = src
		}
		// what is returned
		ast.Inspect(cl.Body, func(n ast.Node) bool {
			if _, ok := n.(*ast.FuncLit); ok {
				return false
			}
			r, ok := n.(*ast.ReturnStmt)
			if !ok {
				return true
			}
			if len(r.Results) != 1 {
				res.returns = append(res.returns, ".other")
				return true
			}
			e := r.Results[0]
			if u, ok := e.(*ast.UnaryExpr); ok && u.Op == token.AND {
				e = u.X
			}
			e = strip(e)
			kind := ".other"
			if claimed[r.Results[0]] {
				kind = ".fresh"
			} else if id, ok := e.(*ast.Ident); ok && id.Obj != nil {
				for _, site := range sites {
					if site.obj == id.Obj {
						kind = ".fresh"
					}
				}
				if kind != ".fresh" {
					if id.Obj == recv {
						kind = ".stored"
					} else if rr, _ := taint(cl.Body, id, recv, param, 4); rr {
						kind = ".stored"
					}
				}
			} else if rr, _ := taint(cl.Body, e, recv, param, 4); rr {
				kind = ".stored"
			}
			res.returns = append(res.returns, kind)
			return true
		})
	}

	// ---- the type-argument field: the map Clone takes from its parameter
	for _, f := range fields {
		if perField[f.name] == ".param" && strings.HasPrefix(f.ty, "map[") {
			if res.tyargs != "" {
				changed("%s.Clone fills two map fields from its parameter (%s, %s)", genericClass, res.tyargs, f.name)
			}
			res.tyargs = f.name
		}
	}
	if res.tyargs == "" {
		// Clone no longer hands the parameter to a field: keep following the map by its declared type
		for _, f := range fields {
			if f.ty == "map[string]data.Types" && res.tyargs == "" {
				res.tyargs = f.name
			}
		}
		if res.tyargs == "" {
			changed("%s has no type-argument map field", genericClass)
		}
	}

	// ---- writes made by the methods of ClassGeneric
	type cw struct{ fn, field, how string }
	var writes []cw
	written := map[string]bool{}
	norm := func(field string) string {
		if field == "" || res.direct[field] {
			return field
		}
		return embedded // promoted through the embedded declaration
	}
	var mnames []string
	for n := range p.methods[genericClass] {
		mnames = append(mnames, n)
	}
	sort.Strings(mnames)
	for _, mn := range mnames {
		fd := p.methods[genericClass][mn]
		for _, w := range aliasWrites(fd, recvObj(fd)) {
			f := norm(w.field())
			how := w.how
			if f != w.field() {
				how += " " + strings.Join(w.path, ".")
			}
			writes = append(writes, cw{fnName(fd), f, how})
			written[f] = true
		}
	}
	for _, w := range writes {
		res.writes = append(res.writes, fmt.Sprintf("{ fn := %s, field := %s, how := %s }",
			ex.LeanString(w.fn), ex.LeanString(w.field), ex.LeanString(w.how)))
	}

	// ---- field table
	for _, f := range fields {
		role := ".aux"
		switch {
		case f.embedded && f.name == embedded:
			role = ".decl"
		case f.name == paramsField:
			role = ".params"
		case f.name == res.tyargs:
			role = ".tyargs"
		}
		src := perField[f.name]
		if src == "" {
			src = ".other"
		}
		res.fields = append(res.fields, fmt.Sprintf("{ name := %s, ty := %s, role := %s, clone := %s, written := %s }",
			ex.LeanString(f.name), ex.LeanString(f.ty), role, src, leanBool(written[f.name])))
	}

	// ---- reads and writes of the type-argument map anywhere in package node
	if res.tyargs != "" {
		for _, fd := range p.all {
			res.scanTyargs(p, fd, cl, sites)
		}
	}
	return res
}

type aliasWrite struct {
	path []string // from the root object ("[]" = an index step); empty = the object itself
	how  string   // assign | index | nested | call <Method> | delete | clear, " via <local>" when through an alias
	rhs  ast.Expr // stored value for a plain assignment (nil otherwise)
	pos  token.Pos
}

func (w aliasWrite) field() string {
	if len(w.path) == 0 {
		return "*"
	}
	return w.path[0]
}

var mutatorPrefixes = []string{"Set", "Add", "Append", "Remove", "Delete", "Put", "Store", "Register", "Reset", "Clear", "Insert", "Push", "Swap"}

func isMutatorName(n string) bool {
	for _, p := range mutatorPrefixes {
		if strings.HasPrefix(n, p) {
			return true
		}
	}
	return false
}

// aliasWrites: writes inside fd that reach the state of `root` (a receiver or a parameter): directly, through
// a local that aliases a part of it, or through a mutator method called on such a part.  A dereferenced copy
// (`x := *y`) is a private value for direct field assignments and for methods called on the copy itself;
// anything deeper goes through a referent it shares with the original.
func aliasWrites(fd *ast.FuncDecl, root *ast.Object) []aliasWrite {
	if root == nil {
		return nil
	}
	type origin struct {
		copy bool
		path []string
	}
	org := map[*ast.Object]origin{}
	join := func(a, b []string) []string { return append(append([]string{}, a...), b...) }
	var originOf func(e ast.Expr) (origin, bool)
	originOf = func(e ast.Expr) (origin, bool) {
		e = strip(e)
		switch t := e.(type) {
		case *ast.UnaryExpr:
			if t.Op == token.AND {
				return originOf(t.X)
			}
		case *ast.StarExpr:
			if o, ok := originOf(t.X); ok {
				return origin{copy: true, path: o.path}, true
			}
		case *ast.Ident:
			if t.Obj == nil {
				return origin{}, false
			}
			if t.Obj == root {
				return origin{}, true
			}
			o, ok := org[t.Obj]
			return o, ok
		case *ast.SelectorExpr, *ast.IndexExpr:
			r, path := rootPath(e)
			if r == nil || r.Obj == nil || len(path) == 0 {
				return origin{}, false
			}
			if r.Obj == root {
				return origin{path: path}, true
			}
			if o, ok := org[r.Obj]; ok {
				return origin{path: join(o.path, path)}, true
			}
		}
		return origin{}, false
	}
	var out []aliasWrite
	record := func(lhs ast.Expr, how string, rhs ast.Expr, pos token.Pos) {
		r, path := rootPath(lhs)
		if r == nil || r.Obj == nil {
			return
		}
		kind := how
		if kind == "" {
			kind = "assign"
			if len(path) > 1 {
				kind = "nested"
			}
			if len(path) > 0 && path[len(path)-1] == "[]" {
				kind = "index"
			}
		}
		if r.Obj == root {
			out = append(out, aliasWrite{path, kind, rhs, pos})
			return
		}
		o, ok := org[r.Obj]
		if !ok {
			return
		}
		if o.copy && (how == "" && len(path) <= 1 || how != "" && len(path) == 0) {
			return // the private copy itself
		}
		out = append(out, aliasWrite{join(o.path, path), kind + " via " + r.Name, nil, pos})
	}
	ast.Inspect(fd.Body, func(n ast.Node) bool {
		switch s := n.(type) {
		case *ast.AssignStmt:
			for i, l := range s.Lhs {
				var rhs ast.Expr
				if len(s.Rhs) == len(s.Lhs) {
					rhs = s.Rhs[i]
				} else if len(s.Rhs) == 1 && i == 0 {
					rhs = s.Rhs[0]
				}
				if id, ok := l.(*ast.Ident); ok {
					if id.Obj == nil || id.Obj == root {
						continue
					}
					if rhs != nil {
						if o, ok := originOf(rhs); ok {
							org[id.Obj] = o
						} else if s.Tok == token.ASSIGN {
							delete(org, id.Obj)
						}
					}
					continue
				}
				if len(s.Rhs) != len(s.Lhs) || s.Tok != token.ASSIGN {
					rhs = nil
				}
				record(l, "", rhs, s.Pos())
			}
		case *ast.RangeStmt:
			if o, ok := originOf(s.X); ok {
				if id, ok := s.Value.(*ast.Ident); ok && id.Obj != nil {
					org[id.Obj] = origin{path: join(o.path, []string{"[]"})}
				}
			}
		case *ast.IncDecStmt:
			record(s.X, "", nil, s.Pos())
		case *ast.CallExpr:
			switch f := s.Fun.(type) {
			case *ast.Ident:
				if (f.Name == "delete" || f.Name == "clear") && f.Obj == nil && len(s.Args) > 0 {
					record(&ast.IndexExpr{X: s.Args[0], Index: ast.NewIdent("_")}, f.Name, nil, s.Pos())
				}
			case *ast.SelectorExpr:
				if isMutatorName(f.Sel.Name) {
					record(f.X, "call "+f.Sel.Name, nil, s.Pos())
				}
			}
		}
		return true
	})
	return out
}

// scanTyargs: every `<x>.<tyargs>[k]` of one function — a read (lookup fact) or a write.
func (res *cloneRes) scanTyargs(p *pkg, fd *ast.FuncDecl, clone *ast.FuncDecl, sites []*consSite) {
	lhs := map[ast.Expr]bool{}
	isTyargsSel := func(e ast.Expr) (*ast.SelectorExpr, bool) {
		s, ok := strip(e).(*ast.SelectorExpr)
		if ok && s.Sel.Name == res.tyargs {
			return s, true
		}
		return nil, false
	}
	ast.Inspect(fd.Body, func(n ast.Node) bool {
		s, ok := n.(*ast.AssignStmt)
		if !ok {
			return true
		}
		for _, l := range s.Lhs {
			lhs[l] = true
			var sel *ast.SelectorExpr
			if ix, ok := l.(*ast.IndexExpr); ok {
				sel, _ = isTyargsSel(ix.X)
			} else if sx, ok := isTyargsSel(l); ok {
				sel = sx
			}
			if sel == nil {
				continue
			}
			if fd == clone {
				if r, _ := rootPath(sel.X); r != nil {
					own := false
					for _, site := range sites {
						own = own || site.obj == r.Obj
					}
					if own {
						continue // Clone initialising the object it builds
					}
				}
			}
			res.tyargWrites = append(res.tyargWrites, fmt.Sprintf("%s: %s", fnName(fd), str(l)))
		}
		return true
	})
	recv := recvObj(fd)
	isParam := func(o *ast.Object) bool {
		if o == nil || o == recv || fd.Type.Params == nil {
			return false
		}
		for _, f := range fd.Type.Params.List {
			for _, id := range f.Names {
				if id.Obj == o {
					return true
				}
			}
		}
		return false
	}
	ast.Inspect(fd.Body, func(n ast.Node) bool {
		ix, ok := n.(*ast.IndexExpr)
		if !ok || lhs[ix] {
			return true
		}
		sel, ok := isTyargsSel(ix.X)
		if !ok {
			return true
		}
		// whose map
		owner := ".other"
		r, _ := rootPath(sel.X)
		for step := 0; r != nil && r.Obj != nil && step < 6; step++ {
			if r.Obj == recv {
				if recvType(fd) == genericClass {
					owner = ".receiver"
				} else {
					owner = ".nodeState"
				}
				break
			}
			if isParam(r.Obj) {
				owner = ".objectClass"
				break
			}
			ds := defsOf(fd.Body, r.Obj)
			if len(ds) != 1 {
				break
			}
			r, _ = rootPath(strip(ds[0].rhs))
		}
		// under which key
		key := ".other"
		k := strip(ix.Index)
		switch t := k.(type) {
		case *ast.SelectorExpr:
			if kr, _ := rootPath(t); kr != nil && kr.Obj == recv && recvType(fd) != genericClass {
				key = ".nodeText"
			} else if t.Sel.Name == "Name" {
				key = ".genericName"
			}
		case *ast.CallExpr:
			if f, ok := t.Fun.(*ast.SelectorExpr); ok && f.Sel.Name == "String" && len(t.Args) == 0 {
				key = ".typeString"
			}
		case *ast.Ident:
			for _, d := range defsOf(fd.Body, t.Obj) {
				switch dt := strip(d.rhs).(type) {
				case *ast.CallExpr:
					if f, ok := dt.Fun.(*ast.SelectorExpr); ok && f.Sel.Name == "String" && len(dt.Args) == 0 {
						key = ".typeString"
					}
				case *ast.SelectorExpr:
					if dt.Sel.Name == "Name" {
						key = ".genericName"
					}
				}
			}
			if key == ".other" && isParam(t.Obj) {
				key = ".genericName" // the caller hands the parameter name in
			}
		}
		res.lookups = append(res.lookups, fmt.Sprintf("{ fn := %s, owner := %s, key := %s }", ex.LeanString(fnName(fd)), owner, key))
		res.lookupFns[fnName(fd)] = owner
		return true
	})
}
