// extract/c19: regenerates lean/Generated/C19Generics.lean — the facts about the anchored source that the
// C19 model (lean/Model/Gen.lean) rests on, one group per thing that has to be PER INSTANTIATION:
//
//	A  node/class_generic.go   the fields of ClassGeneric, what Clone does with each of them (taken from the
//	                           receiver / from the parameter / fresh / left zero), what Clone returns (a fresh
//	                           object or something kept in the receiver), every write a ClassGeneric method makes
//	                           to the receiver, to the declaration shared through the embedded *ClassStatement
//	                           or to the type-argument map; every read of the type-argument map in package node
//	                           (whose map, under which key)                                   clone.go
//	C  node/new.go & co        every write to a field of an AST node type of the instantiation / typed-store /
//	                           method-call path (per-node state), the discipline of each resolver that keeps
//	                           such state (does it read it back, is what it stores what it returns, is that the
//	                           specialised clone), writes to package-level state from those files        nodes.go
//	E  typed stores            every `!<type>.Is(v)` check of the path: where the checked declaration / type
//	                           comes from (looked up through the run-time object vs. kept by the node), the
//	                           conjuncts of the guard, whether it rejects                               nodes.go
//	D  type arguments          what happens to a written type argument between the parser and the specialised
//	                           data.Types value (parser/new_parser.go, NewClassGenerated.resolveClass: wrappers
//	                           around n.T[i], index = loop index, key = parameter name, constructor), the
//	                           switch of data.NewBaseType, the name comparisons of data.Class.Is        args.go
//
// go/ast only; nothing is executed.  Anything not recognised becomes a `shapeChanged` entry that says what
// was not understood.
package main

import (
	"fmt"
	"go/ast"
	"go/token"
	"go/types"
	"os"
	"sort"
	"strings"

	"verif/extract/ex"
)

var shape []string

func changed(format string, a ...any) { shape = append(shape, fmt.Sprintf(format, a...)) }

// pkg is one parsed package directory.
type pkg struct {
	fset    *token.FileSet
	files   map[string]*ast.File
	names   []string                            // file names, sorted
	structs map[string]*ast.StructType          // struct type name -> type
	inFile  map[string]string                   // struct type name -> file
	methods map[string]map[string]*ast.FuncDecl // receiver type (no '*') -> method name -> decl
	funcs   map[string]*ast.FuncDecl            // plain functions
	fileOf  map[*ast.FuncDecl]string            // decl -> file
	vars    map[string]bool                     // package-level variables
	all     []*ast.FuncDecl                     // every function with a body, in file/position order
}

func load(repo, dir string) *pkg {
	fset, files, err := ex.ParseDir(repo, dir)
	if err != nil {
		fmt.Fprintln(os.Stderr, "parse "+dir+":", err)
		os.Exit(1)
	}
	p := &pkg{fset: fset, files: files, structs: map[string]*ast.StructType{}, inFile: map[string]string{},
		methods: map[string]map[string]*ast.FuncDecl{}, funcs: map[string]*ast.FuncDecl{},
		fileOf: map[*ast.FuncDecl]string{}, vars: map[string]bool{}}
	for n := range files {
		p.names = append(p.names, n)
	}
	sort.Strings(p.names)
	for _, n := range p.names {
		for _, d := range files[n].Decls {
			switch d := d.(type) {
			case *ast.GenDecl:
				for _, sp := range d.Specs {
					switch sp := sp.(type) {
					case *ast.TypeSpec:
						if st, ok := sp.Type.(*ast.StructType); ok {
							p.structs[sp.Name.Name] = st
							p.inFile[sp.Name.Name] = n
						}
					case *ast.ValueSpec:
						if d.Tok == token.VAR {
							for _, id := range sp.Names {
								p.vars[id.Name] = true
							}
						}
					}
				}
			case *ast.FuncDecl:
				if d.Body == nil {
					continue
				}
				p.fileOf[d] = n
				p.all = append(p.all, d)
				if rt := recvType(d); rt != "" {
					if p.methods[rt] == nil {
						p.methods[rt] = map[string]*ast.FuncDecl{}
					}
					p.methods[rt][d.Name.Name] = d
				} else {
					p.funcs[d.Name.Name] = d
				}
			}
		}
	}
	return p
}

func recvType(fd *ast.FuncDecl) string {
	if fd.Recv == nil || len(fd.Recv.List) == 0 {
		return ""
	}
	return strings.TrimPrefix(ex.TypeString(fd.Recv.List[0].Type), "*")
}

func recvObj(fd *ast.FuncDecl) *ast.Object {
	if fd.Recv == nil || len(fd.Recv.List) == 0 || len(fd.Recv.List[0].Names) == 0 {
		return nil
	}
	return fd.Recv.List[0].Names[0].Obj
}

func fnName(fd *ast.FuncDecl) string {
	if rt := recvType(fd); rt != "" {
		return rt + "." + fd.Name.Name
	}
	return fd.Name.Name
}

func str(e ast.Expr) string { return types.ExprString(e) }

// strip removes parentheses, type assertions and (optionally) address-of.
func strip(e ast.Expr) ast.Expr {
	for {
		switch t := e.(type) {
		case *ast.ParenExpr:
			e = t.X
		case *ast.TypeAssertExpr:
			e = t.X
		default:
			return e
		}
	}
}

// rootPath: the identifier a selector/index/deref chain starts from and the chain ("[]" for an index).
func rootPath(e ast.Expr) (*ast.Ident, []string) {
	var path []string
	for {
		switch t := e.(type) {
		case *ast.Ident:
			return t, path
		case *ast.SelectorExpr:
			path = append([]string{t.Sel.Name}, path...)
			e = t.X
		case *ast.IndexExpr:
			path = append([]string{"[]"}, path...)
			e = t.X
		case *ast.StarExpr:
			e = t.X
		case *ast.ParenExpr:
			e = t.X
		case *ast.TypeAssertExpr:
			e = t.X
		default:
			return nil, nil
		}
	}
}

// mentions: does the expression contain an identifier bound to obj?
func mentions(e ast.Node, obj *ast.Object) bool {
	if obj == nil || e == nil {
		return false
	}
	found := false
	ast.Inspect(e, func(n ast.Node) bool {
		if id, ok := n.(*ast.Ident); ok && id.Obj == obj {
			found = true
		}
		return !found
	})
	return found
}

// defsOf: the right-hand sides bound to obj by `:=`, `=`, `var` inside body, in source order
// (a multi-value right-hand side is bound whole to every left-hand identifier).
type def struct {
	rhs ast.Expr
	pos token.Pos
}

func defsOf(body ast.Node, obj *ast.Object) []def {
	var out []def
	if obj == nil {
		return nil
	}
	ast.Inspect(body, func(n ast.Node) bool {
		switch s := n.(type) {
		case *ast.AssignStmt:
			for i, l := range s.Lhs {
				if id, ok := l.(*ast.Ident); ok && id.Obj == obj {
					if len(s.Rhs) == len(s.Lhs) {
						out = append(out, def{s.Rhs[i], s.Pos()})
					} else if len(s.Rhs) == 1 {
						out = append(out, def{s.Rhs[0], s.Pos()})
					}
				}
			}
		case *ast.ValueSpec:
			for i, id := range s.Names {
				if id.Obj == obj && i < len(s.Values) {
					out = append(out, def{s.Values[i], s.Pos()})
				}
			}
		case *ast.RangeStmt:
			if id, ok := s.Value.(*ast.Ident); ok && id.Obj == obj {
				out = append(out, def{&ast.IndexExpr{X: s.X, Index: ast.NewIdent("_")}, s.Pos()})
			}
		}
		return true
	})
	return out
}

func leanBool(b bool) string {
	if b {
		return "true"
	}
	return "false"
}

func leanList(items []string, indent string) string {
	if len(items) == 0 {
		return "[]"
	}
	return "[\n" + indent + strings.Join(items, ",\n"+indent) + "]"
}

func leanStrings(items []string) string {
	q := make([]string, len(items))
	for i, s := range items {
		q[i] = ex.LeanString(s)
	}
	return leanList(q, "  ")
}

func main() {
	args := ex.ParseArgs()
	node := load(args.Repo, "node")

	cf := cloneFacts(node)
	nf := nodeFacts(args.Repo, node, cf)
	af := argFacts(args.Repo, node, cf)
	bl := bindFacts(node)

	var b strings.Builder
	b.WriteString("import Model.GenFacts\n")
	b.WriteString("/-! C19: what is shared between the instantiations of a generic class and what is per instantiation.\n")
	b.WriteString("Sources: node/class_generic.go, node/new.go and the other files of the instantiation / typed-store /\n")
	b.WriteString("method-call path in package node, parser/new_parser.go, data/types.go, data/type_class.go. -/\n")
	b.WriteString("namespace Generated.C19\nopen Model.GenFacts\n\n")

	b.WriteString("/-- fields of `ClassGeneric`: role, how `Clone` initialises the field of the object it returns, whether a\nmethod of the type writes it (or through it) after construction -/\n")
	b.WriteString("def classFields : List Field := " + leanList(cf.fields, "  ") + "\n\n")
	b.WriteString("/-- what each `return` of `Clone` hands back -/\n")
	b.WriteString("def cloneReturns : List Ret := " + leanList(cf.returns, "  ") + "\n\n")
	b.WriteString("/-- writes of `ClassGeneric` methods to the receiver, to the shared declaration or through an alias of either -/\n")
	b.WriteString("def classWrites : List ClassWrite := " + leanList(cf.writes, "  ") + "\n\n")
	b.WriteString("/-- writes to a type-argument map outside its construction (package node) -/\n")
	b.WriteString("def tyargWrites : List String := " + leanStrings(cf.tyargWrites) + "\n\n")
	b.WriteString("/-- reads of the type-argument map (package node): whose map, under which key -/\n")
	b.WriteString("def lookups : List Lookup := " + leanList(cf.lookups, "  ") + "\n\n")

	b.WriteString("/-- files whose struct types count as AST nodes of the path -/\n")
	b.WriteString("def pathFiles : List String := " + leanStrings(nf.files) + "\n\n")
	b.WriteString("/-- writes to a field of an AST node of the path after construction (per-node state) -/\n")
	b.WriteString("def nodeWrites : List NodeWrite := " + leanList(nf.writes, "  ") + "\n\n")
	b.WriteString("/-- per function that keeps node state: is it read back, is what is stored what is returned -/\n")
	b.WriteString("def resolvers : List Resolver := " + leanList(nf.resolvers, "  ") + "\n\n")
	b.WriteString("/-- writes to package-level variables from the path files -/\n")
	b.WriteString("def pkgStateWrites : List String := " + leanStrings(nf.pkgWrites) + "\n\n")
	b.WriteString("/-- `data.ClassValue.GetPropertyStmt`, the lookup every typed store goes through -/\n")
	b.WriteString("def objectLookup : ObjLookup := " + nf.objLookup + "\n\n")
	b.WriteString("/-- the type checks of the path: origin of the checked type, guard, effect -/\n")
	b.WriteString("def sites : List Site := " + leanList(nf.sites, "  ") + "\n\n")

	b.WriteString("/-- wrappers around `n.T[i]` on its way into the constructor of the specialised type (innermost first) -/\n")
	b.WriteString("def argChain : List NameStep := " + leanList(af.argChain, "  ") + "\n\n")
	b.WriteString("/-- wrappers around `<parsed type>.String()` on its way into `NewClassGenerated.T` (parser) -/\n")
	b.WriteString("def parseChain : List NameStep := " + leanList(af.parseChain, "  ") + "\n\n")
	b.WriteString("def buildLoop : BuildLoop := " + af.loop + "\n\n")
	b.WriteString("/-- `data.NewBaseType`: case label ↦ returned type -/\n")
	b.WriteString("def baseTypes : List (String × String) := " + leanList(af.baseTypes, "  ") + "\n\n")
	b.WriteString("/-- the default of `data.NewBaseType` is `Class{Name: <the argument, untouched>}` -/\n")
	b.WriteString("def baseDefaultIsClassOfArg : Bool := " + leanBool(af.baseDefault) + "\n\n")
	b.WriteString("/-- comparisons of the wanted class name in `data.Class.Is` and its helpers -/\n")
	b.WriteString("def nameCmps : List NameCmp := " + leanList(af.cmps, "  ") + "\n\n")

	b.WriteString("/-- the loops that bind the arguments of a call on the generic path (they call the binder that asks\n`genericParamType`): what the loop does with the result of binding one argument -/\n")
	b.WriteString("def bindLoops : List BindLoop := " + leanList(bl, "  ") + "\n\n")

	sort.Strings(shape)
	b.WriteString("/-- places where the source no longer has the syntactic shape the translator expects -/\n")
	b.WriteString("def shapeChanged : List String := " + leanStrings(shape) + "\n\n")
	b.WriteString("end Generated.C19\n")

	if err := ex.WriteIfChanged(args.Out, "C19Generics.lean", b.String()); err != nil {
		fmt.Fprintln(os.Stderr, err)
		os.Exit(1)
	}
	fmt.Printf("c19: %d fields, %d class writes, %d lookups, %d node writes, %d resolvers, %d sites, %d name comparisons, %d shape notes\n",
		len(cf.fields), len(cf.writes), len(cf.lookups), len(nf.writes), len(nf.resolvers), len(nf.sites), len(af.cmps), len(shape))
}
