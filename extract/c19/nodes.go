package main

import (
	"fmt"
	"go/ast"
	"go/token"
	"sort"
	"strings"

	"verif/extract/ex"
)

// files of package node whose struct types are the AST nodes (and helpers) executed by `new C<…>(…)`,
// `$o->p = v`, `$this->p = v`, `$o->$name = v` and `$o->m(v)`
var pathFileNames = []string{
	"new.go", "new_anonymous_class.go",
	"call_object_property.go", "call_object_dynamic_property.go",
	"binary_assign.go", "binary_assign_fast.go",
	"call_object_method.go",
	"index.go", // `$o["p"] = v` on an object
}

type nodeRes struct {
	files, writes, resolvers, pkgWrites, sites []string
	objLookup                                  string
}

// objectLookup: data.ClassValue.GetPropertyStmt — the lookup every typed store goes through — asks the
// object's own class first and keeps nothing.
func objectLookup(repo string) string {
	bad := "{ ownClassFirst := false, writes := [] }"
	_, f, err := ex.ParseFile(repo, "data/value_class.go")
	if err != nil {
		changed("data/value_class.go: %v", err)
		return bad
	}
	fd := ex.FuncDecl(f, "ClassValue", "GetPropertyStmt")
	if fd == nil || fd.Body == nil || fd.Type.Params == nil || len(fd.Type.Params.List) != 1 || len(fd.Type.Params.List[0].Names) != 1 {
		changed("data.ClassValue.GetPropertyStmt(name) not found")
		return bad
	}
	recv, name := recvObj(fd), fd.Type.Params.List[0].Names[0].Obj
	// the first call of the function is <receiver>.Class.GetProperty(<name>)
	own := false
	first := true
	ast.Inspect(fd.Body, func(n ast.Node) bool {
		c, ok := n.(*ast.CallExpr)
		if !ok || !first {
			return true
		}
		first = false
		if sel, ok := c.Fun.(*ast.SelectorExpr); ok && sel.Sel.Name == "GetProperty" && len(c.Args) == 1 {
			r, path := rootPath(sel.X)
			if a, ok := c.Args[0].(*ast.Ident); ok && a.Obj == name && r != nil && r.Obj == recv && len(path) == 1 && path[0] == "Class" {
				own = true
			}
		}
		return true
	})
	var ws []string
	for _, w := range aliasWrites(fd, recv) {
		ws = append(ws, ex.LeanString(strings.Join(w.path, ".")+" ("+w.how+")"))
	}
	return fmt.Sprintf("{ ownClassFirst := %s, writes := [%s] }", leanBool(own), strings.Join(ws, ", "))
}

type nodeWrite struct {
	owner, field string
	fd           *ast.FuncDecl
	w            aliasWrite
}

// resolveField: the struct that declares the field a path (from a value of type T) ends in.
func resolveField(p *pkg, T string, path []string, depth int) (string, string, bool) {
	st := p.structs[T]
	if st == nil || len(path) == 0 || depth > 4 {
		return "", "", false
	}
	fs := structFields(st)
	for _, f := range fs {
		if f.name != path[0] {
			continue
		}
		if f.embedded && len(path) > 1 && path[1] != "[]" {
			if o, fl, ok := resolveField(p, f.name, path[1:], depth+1); ok {
				return o, fl, true
			}
		}
		return T, f.name, true
	}
	for _, f := range fs {
		if f.embedded {
			if o, fl, ok := resolveField(p, f.name, path, depth+1); ok {
				return o, fl, true
			}
		}
	}
	return "", "", false
}

func nodeFacts(repo string, p *pkg, cf *cloneRes) *nodeRes {
	res := &nodeRes{objLookup: objectLookup(repo)}
	inPath := map[string]bool{}
	for _, f := range pathFileNames {
		if p.files[f] != nil {
			res.files = append(res.files, f)
			inPath[f] = true
		}
	}
	for _, must := range []string{"new.go", "call_object_property.go", "binary_assign.go", "call_object_method.go"} {
		if !inPath[must] {
			changed("node/%s not found", must)
		}
	}
	pathType := map[string]bool{}
	for name, file := range p.inFile {
		if inPath[file] && name != genericClass {
			pathType[name] = true
		}
	}

	// ---- writes to node fields, anywhere in the package
	var writes []nodeWrite
	direct := map[*ast.FuncDecl][]nodeWrite{}
	for _, fd := range p.all {
		type rootT struct {
			obj *ast.Object
			ty  string
		}
		var roots []rootT
		if rt := recvType(fd); pathType[rt] && recvObj(fd) != nil {
			roots = append(roots, rootT{recvObj(fd), rt})
		}
		inPathFile := inPath[p.fileOf[fd]]
		if rt := recvType(fd); !pathType[rt] && inPathFile && p.structs[rt] != nil && rt != genericClass && recvObj(fd) != nil {
			roots = append(roots, rootT{recvObj(fd), rt})
		}
		if fd.Type.Params != nil {
			for _, f := range fd.Type.Params.List {
				t := strings.TrimPrefix(ex.TypeString(f.Type), "*")
				// a function of the path must not write into ANY node / declaration object it is handed
				if pathType[t] || inPathFile && p.structs[t] != nil {
					for _, id := range f.Names {
						if id.Obj != nil {
							roots = append(roots, rootT{id.Obj, t})
						}
					}
				}
			}
		}
		for _, r := range roots {
			for _, w := range aliasWrites(fd, r.obj) {
				owner, field, ok := resolveField(p, r.ty, w.path, 0)
				if !ok {
					owner, field = r.ty, w.field()
				}
				if strings.HasPrefix(w.how, "call ") {
					continue // SetValue & co. on a child node are evaluation, not node state
				}
				if ok && len(w.path) > 1 && w.path[0] == field && w.path[1] != "[]" {
					if _, emb := p.structs[field]; !emb {
						field = strings.Join(w.path, ".") // a field of whatever the child node is
					}
				}
				nw := nodeWrite{owner, field, fd, w}
				writes = append(writes, nw)
				direct[fd] = append(direct[fd], nw)
			}
		}
	}
	sort.SliceStable(writes, func(i, j int) bool {
		a, b := writes[i], writes[j]
		if fnName(a.fd) != fnName(b.fd) {
			return fnName(a.fd) < fnName(b.fd)
		}
		return a.w.pos < b.w.pos
	})
	for _, w := range writes {
		val := ""
		if w.w.rhs != nil {
			val = str(w.w.rhs)
		}
		res.writes = append(res.writes, fmt.Sprintf("{ node := %s, field := %s, fn := %s, how := %s, value := %s }",
			ex.LeanString(w.owner), ex.LeanString(w.field), ex.LeanString(fnName(w.fd)), ex.LeanString(w.w.how), ex.LeanString(val)))
	}

	// ---- resolvers: functions that keep node state
	type key struct{ owner, field string }
	writersOf := map[key][]*ast.FuncDecl{}
	for fd, ws := range direct {
		for _, w := range ws {
			writersOf[key{w.owner, w.field}] = append(writersOf[key{w.owner, w.field}], fd)
		}
	}
	readsField := func(fd *ast.FuncDecl, field string) bool {
		recv := recvObj(fd)
		lhs := map[ast.Expr]bool{}
		found := false
		ast.Inspect(fd.Body, func(n ast.Node) bool {
			switch s := n.(type) {
			case *ast.AssignStmt:
				for _, l := range s.Lhs {
					lhs[l] = true
				}
			case *ast.SelectorExpr:
				if s.Sel.Name == field && !lhs[s] {
					if r, _ := rootPath(s); r != nil && r.Obj == recv && recv != nil {
						found = true
					}
				}
			}
			return true
		})
		return found
	}
	type cand struct {
		fd *ast.FuncDecl
		k  key
	}
	var cands []cand
	seen := map[string]bool{}
	add := func(fd *ast.FuncDecl, k key) {
		id := fnName(fd) + "/" + k.owner + "." + k.field
		if !seen[id] {
			seen[id] = true
			cands = append(cands, cand{fd, k})
		}
	}
	for fd, ws := range direct {
		for _, w := range ws {
			add(fd, key{w.owner, w.field})
		}
	}
	// a function that reads the kept field itself and leaves the write to a method it calls on its own receiver
	callsWriter := func(fd *ast.FuncDecl, k key) []token.Pos {
		var out []token.Pos
		recv := recvObj(fd)
		ast.Inspect(fd.Body, func(n ast.Node) bool {
			c, ok := n.(*ast.CallExpr)
			if !ok {
				return true
			}
			f, ok := c.Fun.(*ast.SelectorExpr)
			if !ok {
				return true
			}
			r, _ := rootPath(f.X)
			if r == nil || r.Obj != recv || recv == nil {
				return true
			}
			for _, w := range writersOf[k] {
				if w != fd && w.Name.Name == f.Sel.Name && w.Recv != nil {
					out = append(out, c.Pos())
				}
			}
			return true
		})
		return out
	}
	for k := range writersOf {
		for _, fd := range p.all {
			if rt := recvType(fd); !pathType[rt] {
				continue
			}
			if len(direct[fd]) == 0 && readsField(fd, k.field) && len(callsWriter(fd, k)) > 0 {
				add(fd, k)
			}
		}
	}
	sort.Slice(cands, func(i, j int) bool {
		a, b := cands[i], cands[j]
		if fnName(a.fd) != fnName(b.fd) {
			return fnName(a.fd) < fnName(b.fd)
		}
		return a.k.field < b.k.field
	})
	for _, c := range cands {
		res.resolvers = append(res.resolvers, resolverFact(p, c.fd, c.k.owner, c.k.field, direct[c.fd], callsWriter(c.fd, key{c.k.owner, c.k.field})))
	}

	// ---- writes to package-level variables from the path files
	for _, fd := range p.all {
		if !inPath[p.fileOf[fd]] {
			continue
		}
		isPkgVar := func(id *ast.Ident) bool {
			if id == nil || !p.vars[id.Name] {
				return false
			}
			if id.Obj != nil && id.Obj.Pos() >= fd.Pos() && id.Obj.Pos() <= fd.End() {
				return false // a local of the same name
			}
			return true
		}
		ast.Inspect(fd.Body, func(n ast.Node) bool {
			switch s := n.(type) {
			case *ast.AssignStmt:
				if s.Tok == token.DEFINE {
					return true
				}
				for _, l := range s.Lhs {
					if r, _ := rootPath(l); isPkgVar(r) {
						res.pkgWrites = append(res.pkgWrites, fmt.Sprintf("%s: %s", fnName(fd), str(l)))
					}
				}
			case *ast.IncDecStmt:
				if r, _ := rootPath(s.X); isPkgVar(r) {
					res.pkgWrites = append(res.pkgWrites, fmt.Sprintf("%s: %s", fnName(fd), str(s.X)))
				}
			case *ast.CallExpr:
				if f, ok := s.Fun.(*ast.SelectorExpr); ok && (isMutatorName(f.Sel.Name) || f.Sel.Name == "LoadOrStore") {
					if r, _ := rootPath(f.X); isPkgVar(r) {
						res.pkgWrites = append(res.pkgWrites, fmt.Sprintf("%s: %s", fnName(fd), str(s.Fun)))
					}
				}
			}
			return true
		})
	}
	sort.Strings(res.pkgWrites)

	// ---- the type checks of the path
	for _, fd := range p.all {
		if inPath[p.fileOf[fd]] {
			res.sites = append(res.sites, siteFacts(p, fd, cf)...)
		}
	}
	return res
}

func isNilIdent(e ast.Expr) bool {
	id, ok := e.(*ast.Ident)
	return ok && id.Name == "nil"
}

func resolverFact(p *pkg, fd *ast.FuncDecl, owner, field string, ws []nodeWrite, calls []token.Pos) string {
	recv := recvObj(fd)
	// is the kept value read back (anywhere in a method of a type that has the field)?
	cacheRead := false
	for _, g := range p.all {
		if g.Recv == nil {
			continue
		}
		if _, _, ok := resolveField(p, recvType(g), []string{field}, 0); !ok {
			continue
		}
		lhs := map[ast.Expr]bool{}
		ast.Inspect(g.Body, func(n ast.Node) bool {
			switch s := n.(type) {
			case *ast.AssignStmt:
				for _, l := range s.Lhs {
					lhs[l] = true
				}
			case *ast.SelectorExpr:
				if s.Sel.Name == field && !lhs[s] {
					cacheRead = true
				}
			}
			return true
		})
	}
	type event struct {
		pos token.Pos
		rhs ast.Expr // nil = a callee stores something
	}
	var evs []event
	for _, w := range ws {
		if w.owner == owner && w.field == field {
			evs = append(evs, event{w.w.pos, w.w.rhs})
		}
	}
	for _, c := range calls {
		evs = append(evs, event{c, nil})
	}
	sort.Slice(evs, func(i, j int) bool { return evs[i].pos < evs[j].pos })

	isFieldRead := func(e ast.Expr) bool {
		s, ok := strip(e).(*ast.SelectorExpr)
		if !ok || s.Sel.Name != field {
			return false
		}
		r, _ := rootPath(s)
		return r != nil && r.Obj == recv
	}
	nRet, nReturned, nNone := 0, 0, 0
	specialises := false
	checkClone := func(id *ast.Ident, before token.Pos) {
		for _, d := range defsOf(fd.Body, id.Obj) {
			if c, ok := strip(d.rhs).(*ast.CallExpr); ok {
				if f, ok := c.Fun.(*ast.SelectorExpr); ok && f.Sel.Name == "Clone" && len(c.Args) == 1 && d.pos < before {
					specialises = true
				}
			}
		}
	}
	ast.Inspect(fd.Body, func(n ast.Node) bool {
		if _, ok := n.(*ast.FuncLit); ok {
			return false
		}
		r, ok := n.(*ast.ReturnStmt)
		if !ok || len(r.Results) == 0 || isNilIdent(r.Results[0]) {
			return true
		}
		var last *event
		for i := range evs {
			if evs[i].pos < r.Pos() {
				last = &evs[i]
			}
		}
		if isFieldRead(r.Results[0]) {
			// `return n.f`: before any store it is the early return of the kept value; after a direct store it
			// returns what was just stored
			if last != nil {
				nRet++
				if last.rhs != nil {
					nReturned++
					if sid, ok := last.rhs.(*ast.Ident); ok {
						checkClone(sid, r.Pos())
					}
				}
			}
			return true
		}
		nRet++
		if last == nil {
			nNone++
			return true
		}
		rid, _ := strip(r.Results[0]).(*ast.Ident)
		sid, _ := last.rhs.(*ast.Ident)
		if last.rhs != nil && rid != nil && sid != nil && rid.Obj != nil && rid.Obj == sid.Obj {
			clean := true
			for _, d := range defsOf(fd.Body, rid.Obj) {
				if d.pos > last.pos && d.pos < r.Pos() {
					clean = false // the returned variable is re-bound after it was stored
				}
			}
			if clean {
				nReturned++
			}
		}
		if rid != nil {
			checkClone(rid, r.Pos())
		}
		return true
	})
	stored := ".other"
	switch {
	case nRet == 0 && len(evs) == 0:
		stored = ".none"
	case nRet == 0:
		// nothing is returned: the state is kept for later reads (a setter); what matters is that it is read back
		stored = ".other"
	case nReturned == nRet:
		stored = ".returned"
	case nNone == nRet:
		stored = ".none"
	}
	return fmt.Sprintf("{ node := %s, field := %s, fn := %s, cacheRead := %s, stored := %s, specialises := %s }",
		ex.LeanString(owner), ex.LeanString(field), ex.LeanString(fnName(fd)), leanBool(cacheRead), stored, leanBool(specialises))
}

// siteFacts: every `if … !<type>.Is(v) …` of one function.
func siteFacts(p *pkg, fd *ast.FuncDecl, cf *cloneRes) []string {
	var out []string
	recv := recvObj(fd)
	ast.Inspect(fd.Body, func(n ast.Node) bool {
		ifs, ok := n.(*ast.IfStmt)
		if !ok {
			return true
		}
		var conjs []ast.Expr
		var flat func(e ast.Expr)
		flat = func(e ast.Expr) {
			if pe, ok := e.(*ast.ParenExpr); ok {
				flat(pe.X)
				return
			}
			if b, ok := e.(*ast.BinaryExpr); ok && b.Op == token.LAND {
				flat(b.X)
				flat(b.Y)
				return
			}
			conjs = append(conjs, e)
		}
		flat(ifs.Cond)
		isCall := func(e ast.Expr) (ast.Expr, bool) { // `!X.Is(v)` -> X
			u, ok := e.(*ast.UnaryExpr)
			if !ok || u.Op != token.NOT {
				return nil, false
			}
			c, ok := strip(u.X).(*ast.CallExpr)
			if !ok || len(c.Args) != 1 {
				return nil, false
			}
			f, ok := c.Fun.(*ast.SelectorExpr)
			if !ok || f.Sel.Name != "Is" {
				return nil, false
			}
			return f.X, true
		}
		var tyExpr ast.Expr
		for _, c := range conjs {
			if x, ok := isCall(c); ok {
				tyExpr = x
			}
		}
		if tyExpr == nil {
			// an Is-check buried in a disjunction or a nested expression is not a guard we understand
			found := false
			ast.Inspect(ifs.Cond, func(m ast.Node) bool {
				if c, ok := m.(*ast.CallExpr); ok {
					if f, ok := c.Fun.(*ast.SelectorExpr); ok && f.Sel.Name == "Is" && len(c.Args) == 1 {
						if g, ok := strip(f.X).(*ast.CallExpr); ok {
							if gf, ok := g.Fun.(*ast.SelectorExpr); ok && gf.Sel.Name == "GetType" {
								found = true
							}
						}
					}
				}
				return true
			})
			if found {
				changed("%s: type check inside a condition that is not a conjunction: %s", fnName(fd), str(ifs.Cond))
			}
			return true
		}
		// the declaration / type that is checked
		var holder ast.Expr = tyExpr
		viaDecl := false
		unwrapGetType := func(e ast.Expr) (ast.Expr, bool) {
			if c, ok := strip(e).(*ast.CallExpr); ok && len(c.Args) == 0 {
				if f, ok := c.Fun.(*ast.SelectorExpr); ok && f.Sel.Name == "GetType" {
					return f.X, true
				}
			}
			return nil, false
		}
		if h, ok := unwrapGetType(holder); ok {
			holder, viaDecl = h, true
		} else if id, ok := strip(holder).(*ast.Ident); ok {
			if ds := defsOf(fd.Body, id.Obj); len(ds) == 1 {
				if h, ok := unwrapGetType(ds[0].rhs); ok {
					holder, viaDecl = h, true
				}
			}
		}
		src := ".other"
		classify := func(rhs ast.Expr) string {
			rhs = strip(rhs)
			switch t := rhs.(type) {
			case *ast.CallExpr:
				switch f := t.Fun.(type) {
				case *ast.SelectorExpr:
					r, _ := rootPath(f.X)
					if r != nil && r.Obj != nil && r.Obj == recv {
						return ".nodeState"
					}
					if f.Sel.Name == "GetPropertyStmt" || f.Sel.Name == "GetProperty" {
						return ".objLookup"
					}
				case *ast.Ident:
					if cf.lookupFns[f.Name] == ".objectClass" {
						return ".objTypeArg"
					}
				}
			case *ast.SelectorExpr, *ast.IndexExpr:
				if r, _ := rootPath(rhs); r != nil && r.Obj == recv && recv != nil {
					return ".nodeState"
				}
			}
			return ".other"
		}
		if id, ok := strip(holder).(*ast.Ident); ok && id.Obj != nil {
			ds := defsOf(fd.Body, id.Obj)
			if len(ds) == 1 {
				src = classify(ds[0].rhs)
			} else if len(ds) > 1 {
				// several bindings: all must agree
				src = classify(ds[0].rhs)
				for _, d := range ds[1:] {
					if classify(d.rhs) != src {
						src = ".other"
					}
				}
			}
		} else {
			src = classify(holder)
		}
		kind := ".prop"
		if !viaDecl {
			kind = ".param"
		}
		var cj []string
		tyText := str(tyExpr)
		for _, c := range conjs {
			if _, ok := isCall(c); ok {
				cj = append(cj, ".notIs")
				continue
			}
			if b, ok := c.(*ast.BinaryExpr); ok && b.Op == token.NEQ && isNilIdent(b.Y) && str(b.X) == tyText {
				cj = append(cj, ".typeNotNil")
				continue
			}
			if u, ok := c.(*ast.UnaryExpr); ok && u.Op == token.NOT {
				if id, ok := u.X.(*ast.Ident); ok && id.Obj != nil {
					isNull := false
					for _, d := range defsOf(fd.Body, id.Obj) {
						if ta, ok := d.rhs.(*ast.TypeAssertExpr); ok && ta.Type != nil && strings.HasSuffix(ex.TypeString(ta.Type), "NullValue") {
							isNull = true
						}
					}
					if isNull {
						cj = append(cj, ".notNull")
						continue
					}
				}
			}
			cj = append(cj, ".other")
		}
		rejects := false
		ast.Inspect(ifs.Body, func(m ast.Node) bool {
			if _, ok := m.(*ast.FuncLit); ok {
				return false
			}
			if r, ok := m.(*ast.ReturnStmt); ok {
				for _, e := range r.Results {
					if !isNilIdent(e) {
						rejects = true
					}
				}
			}
			return true
		})
		out = append(out, fmt.Sprintf("{ file := %s, fn := %s, kind := %s, src := %s, conj := [%s], rejects := %s }",
			ex.LeanString(p.fileOf[fd]), ex.LeanString(fnName(fd)), kind, src, strings.Join(cj, ", "), leanBool(rejects)))
		return true
	})
	return out
}
