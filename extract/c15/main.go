// extract/c15: regenerates lean/Generated/C15Storage.lean from data/value_array*.go —
// for every built-in array method (the ArrayValueXxx method objects) which storage its
// Call works on: the slices it stores into (a buffer of its own, the snapshot
// `ToValueList()` it hands to callbacks, the receiver's slots), what it wraps for the
// callback's array argument, which slice the callback loop runs over, how the callback is
// invoked (the shared helper data.callArrayCallback, or inline with a context created
// outside / inside the loop), and what it wraps into the returned array. Plus the shape of
// the helper itself and the list of types that implement data.CallableValue (the second,
// currently unreachable, branch of every callback method). go/ast only; nothing is executed.
package main

import (
	"fmt"
	"go/ast"
	"go/token"
	"os"
	"path/filepath"
	"sort"
	"strings"

	"verif/extract/ex"
)

type loopFact struct {
	branch string   // "*FuncValue" | "CallableValue" | ""
	over   []string // roots of the slice(s) the loop runs over
	handed []string // roots of what NewArrayValue(…) wraps inside the loop
	invoke string   // helper | inline-shared-ctx | inline-fresh-ctx | callable
}

type methodFact struct {
	name      string
	file      string
	typ       string
	byPointer bool
	loops     []loopFact
	writes    []string
	returned  []string
}

var shape []string

func changed(format string, a ...any) { shape = append(shape, fmt.Sprintf(format, a...)) }

func uniq(xs []string) []string {
	m := map[string]bool{}
	var o []string
	for _, x := range xs {
		if !m[x] {
			m[x] = true
			o = append(o, x)
		}
	}
	sort.Strings(o)
	return o
}

func unparen(e ast.Expr) ast.Expr {
	for {
		switch t := e.(type) {
		case *ast.ParenExpr:
			e = t.X
		case *ast.StarExpr:
			e = t.X
		default:
			return e
		}
	}
}

// isRecvSource: <recv>.source, *<recv>.source, (*<recv>.source)
func isRecvSource(e ast.Expr, recv string) bool {
	s, ok := unparen(e).(*ast.SelectorExpr)
	if !ok || s.Sel.Name != "source" {
		return false
	}
	id, ok := s.X.(*ast.Ident)
	return ok && id.Name == recv
}

func callName(c *ast.CallExpr) string {
	switch f := c.Fun.(type) {
	case *ast.Ident:
		return f.Name
	case *ast.SelectorExpr:
		return f.Sel.Name
	}
	return ""
}

// analysis of one function body: where every local slice comes from
type flow struct {
	recv   string
	origin map[string][]ast.Expr // local name -> expressions assigned to it
}

func newFlow(recv string, body *ast.BlockStmt) *flow {
	f := &flow{recv: recv, origin: map[string][]ast.Expr{}}
	ast.Inspect(body, func(n ast.Node) bool {
		switch t := n.(type) {
		case *ast.AssignStmt:
			if len(t.Lhs) == len(t.Rhs) {
				for i, l := range t.Lhs {
					if id, ok := l.(*ast.Ident); ok && id.Name != "_" {
						f.origin[id.Name] = append(f.origin[id.Name], t.Rhs[i])
					}
				}
			}
		case *ast.DeclStmt:
			if gd, ok := t.Decl.(*ast.GenDecl); ok && gd.Tok == token.VAR {
				for _, sp := range gd.Specs {
					vs := sp.(*ast.ValueSpec)
					for i, id := range vs.Names {
						if i < len(vs.Values) {
							f.origin[id.Name] = append(f.origin[id.Name], vs.Values[i])
						} else {
							f.origin[id.Name] = append(f.origin[id.Name], nil) // zero value: a nil slice
						}
					}
				}
			}
		case *ast.RangeStmt:
			// `for _, item := range X`: item is an element, not a slice of the method's storage
		}
		return true
	})
	return f
}

// roots of a slice-valued expression: fresh | copy | recv | foreign:<what>
func (f *flow) roots(e ast.Expr, seen map[string]bool) []string {
	if e == nil {
		return []string{"fresh"}
	}
	if isRecvSource(e, f.recv) {
		return []string{"recv"}
	}
	switch t := e.(type) {
	case *ast.ParenExpr:
		return f.roots(t.X, seen)
	case *ast.StarExpr:
		return f.roots(t.X, seen)
	case *ast.SliceExpr:
		return f.roots(t.X, seen)
	case *ast.CompositeLit:
		return []string{"fresh"}
	case *ast.Ident:
		if t.Name == "nil" {
			return []string{"fresh"}
		}
		if seen[t.Name] {
			return nil
		}
		os, ok := f.origin[t.Name]
		if !ok {
			return []string{"foreign:" + t.Name}
		}
		seen[t.Name] = true
		var r []string
		for _, o := range os {
			r = append(r, f.roots(o, seen)...)
		}
		delete(seen, t.Name)
		if len(r) == 0 {
			return []string{"fresh"}
		}
		return r
	case *ast.CallExpr:
		switch callName(t) {
		case "make":
			return []string{"fresh"}
		case "append":
			if len(t.Args) > 0 {
				return f.roots(t.Args[0], seen)
			}
		case "ToValueList":
			// a new []Value holding the values of the wrapped list at this moment
			if s, ok := t.Fun.(*ast.SelectorExpr); ok {
				w := f.roots(s.X, seen)
				if len(w) == 1 && w[0] == "wrap:recv" {
					return []string{"copy"}
				}
				return []string{"copy-of:" + strings.Join(w, "+")}
			}
		}
		return []string{"call:" + callName(t)}
	case *ast.UnaryExpr:
		if t.Op == token.AND {
			if cl, ok := t.X.(*ast.CompositeLit); ok && ex.TypeString(cl.Type) == "ArrayValue" {
				for _, el := range cl.Elts {
					if kv, ok := el.(*ast.KeyValueExpr); ok {
						if k, ok := kv.Key.(*ast.Ident); ok && k.Name == "List" {
							r := f.roots(kv.Value, seen)
							for i := range r {
								r[i] = "wrap:" + r[i]
							}
							return r
						}
					}
				}
			}
		}
	case *ast.SelectorExpr:
		return []string{"foreign:" + ex.TypeString(t)}
	}
	return []string{"other"}
}

func (f *flow) rootsOf(e ast.Expr) []string { return uniq(f.roots(e, map[string]bool{})) }

func containsCall(n ast.Node, names ...string) bool {
	found := false
	ast.Inspect(n, func(x ast.Node) bool {
		if c, ok := x.(*ast.CallExpr); ok {
			cn := callName(c)
			for _, w := range names {
				if cn == w {
					found = true
				}
			}
		}
		return !found
	})
	return found
}

// invokesCallback: the loop body calls the helper, or `callable.Value.Call(…)` / `callable.Call(…)`
func invokesCallback(body ast.Node) (string, bool) {
	kind := ""
	ast.Inspect(body, func(x ast.Node) bool {
		c, ok := x.(*ast.CallExpr)
		if !ok {
			return true
		}
		switch callName(c) {
		case "callArrayCallback":
			kind = "helper"
		case "Call":
			if s, ok := c.Fun.(*ast.SelectorExpr); ok {
				switch ex.TypeString(s.X) {
				case "callable.Value":
					if kind == "" {
						kind = "inline"
					}
				case "callable":
					if kind == "" {
						kind = "callable"
					}
				}
			}
		}
		return true
	})
	return kind, kind != ""
}

func analyseCall(fd *ast.FuncDecl, m *methodFact) {
	recv := ""
	if fd.Recv != nil && len(fd.Recv.List) > 0 && len(fd.Recv.List[0].Names) > 0 {
		recv = fd.Recv.List[0].Names[0].Name
	}
	f := newFlow(recv, fd.Body)
	// stores
	ast.Inspect(fd.Body, func(n ast.Node) bool {
		switch t := n.(type) {
		case *ast.AssignStmt:
			for i, l := range t.Lhs {
				if ix, ok := l.(*ast.IndexExpr); ok {
					m.writes = append(m.writes, f.rootsOf(ix.X)...)
				}
				if isRecvSource(l, recv) {
					m.writes = append(m.writes, "recv")
				}
				if i < len(t.Rhs) {
					if c, ok := t.Rhs[i].(*ast.CallExpr); ok && callName(c) == "append" && len(c.Args) > 0 {
						m.writes = append(m.writes, f.rootsOf(c.Args[0])...)
					}
				}
			}
		case *ast.ExprStmt:
			if c, ok := t.X.(*ast.CallExpr); ok && callName(c) == "copy" && len(c.Args) > 0 {
				m.writes = append(m.writes, f.rootsOf(c.Args[0])...)
			}
		case *ast.ReturnStmt:
			for _, r := range t.Results {
				ast.Inspect(r, func(x ast.Node) bool {
					switch c := x.(type) {
					case *ast.CallExpr:
						if callName(c) == "NewArrayValue" && len(c.Args) == 1 {
							m.returned = append(m.returned, f.rootsOf(c.Args[0])...)
						}
					case *ast.CompositeLit:
						if ex.TypeString(c.Type) == "ArrayValue" {
							for _, w := range f.rootsOf(&ast.UnaryExpr{Op: token.AND, X: c}) {
								m.returned = append(m.returned, "raw-"+w)
							}
						}
					}
					return true
				})
			}
		}
		return true
	})
	// callback loops, by type-switch branch
	var walk func(n ast.Node, branch string, ctxOutside bool)
	walk = func(n ast.Node, branch string, ctxOutside bool) {
		ast.Inspect(n, func(x ast.Node) bool {
			switch t := x.(type) {
			case *ast.CaseClause:
				b := branch
				if len(t.List) == 1 {
					ts := ex.TypeString(t.List[0])
					if ts == "*FuncValue" || ts == "CallableValue" {
						b = ts
					}
				}
				co := false
				for _, s := range t.Body {
					if _, isLoop := s.(*ast.RangeStmt); isLoop {
						walk(s, b, co)
						continue
					}
					if _, isLoop := s.(*ast.ForStmt); isLoop {
						walk(s, b, co)
						continue
					}
					if containsCall(s, "CreateContext") {
						if _, isIf := s.(*ast.IfStmt); !isIf {
							co = true
						}
					}
					walk(s, b, co)
				}
				return false
			case *ast.RangeStmt, *ast.ForStmt:
				var body *ast.BlockStmt
				var over []string
				if r, ok := t.(*ast.RangeStmt); ok {
					body = r.Body
					over = f.rootsOf(r.X)
				} else {
					fs := t.(*ast.ForStmt)
					body = fs.Body
					if fs.Cond != nil {
						ast.Inspect(fs.Cond, func(y ast.Node) bool {
							if c, ok := y.(*ast.CallExpr); ok && callName(c) == "len" && len(c.Args) == 1 {
								over = append(over, f.rootsOf(c.Args[0])...)
							}
							return true
						})
					}
					// and every slice the body indexes for the element it passes on
					ast.Inspect(fs.Body, func(y ast.Node) bool {
						if ix, ok := y.(*ast.IndexExpr); ok {
							r := f.rootsOf(ix.X)
							for _, w := range r {
								if w == "recv" || w == "copy" {
									over = append(over, w)
								}
							}
						}
						return true
					})
				}
				kind, ok := invokesCallback(body)
				if !ok {
					return true
				}
				lf := loopFact{branch: branch, over: uniq(over)}
				ast.Inspect(body, func(y ast.Node) bool {
					if c, ok := y.(*ast.CallExpr); ok && callName(c) == "NewArrayValue" && len(c.Args) == 1 {
						lf.handed = append(lf.handed, f.rootsOf(c.Args[0])...)
					}
					return true
				})
				lf.handed = uniq(lf.handed)
				switch kind {
				case "inline":
					if containsCall(body, "CreateContext") {
						lf.invoke = "inline-fresh-ctx"
					} else {
						lf.invoke = "inline-shared-ctx"
					}
				default:
					lf.invoke = kind
				}
				m.loops = append(m.loops, lf)
				return false
			}
			return true
		})
	}
	walk(fd.Body, "", false)
	m.writes = uniq(m.writes)
	m.returned = uniq(m.returned)
}

func recvType(fd *ast.FuncDecl) string {
	if fd.Recv == nil || len(fd.Recv.List) == 0 {
		return ""
	}
	return strings.TrimPrefix(ex.TypeString(fd.Recv.List[0].Type), "*")
}

func strList(xs []string) string {
	p := make([]string, len(xs))
	for i, x := range xs {
		p[i] = ex.LeanString(x)
	}
	return "[" + strings.Join(p, ", ") + "]"
}

func leanBool(b bool) string {
	if b {
		return "true"
	}
	return "false"
}

func main() {
	a := ex.ParseArgs()
	_, files, err := ex.ParseDir(a.Repo, "data")
	if err != nil {
		changed("cannot parse data/: %v", err)
	}
	var names []string
	for n := range files {
		if strings.HasPrefix(n, "value_array") {
			names = append(names, n)
		}
	}
	sort.Strings(names)
	var methods []*methodFact
	helper := map[string]bool{}
	helperFound := false
	for _, n := range names {
		file := files[n]
		// method object types: struct with a field `source`
		types := map[string]bool{}
		pointer := map[string]bool{}
		for _, d := range file.Decls {
			gd, ok := d.(*ast.GenDecl)
			if !ok || gd.Tok != token.TYPE {
				continue
			}
			for _, sp := range gd.Specs {
				ts := sp.(*ast.TypeSpec)
				st, ok := ts.Type.(*ast.StructType)
				if !ok {
					continue
				}
				for _, fl := range st.Fields.List {
					for _, nm := range fl.Names {
						if nm.Name == "source" {
							types[ts.Name.Name] = true
							pointer[ts.Name.Name] = strings.HasPrefix(ex.TypeString(fl.Type), "*")
						}
					}
				}
			}
		}
		byType := map[string]*methodFact{}
		for _, d := range file.Decls {
			fd, ok := d.(*ast.FuncDecl)
			if !ok || fd.Body == nil {
				continue
			}
			if fd.Recv == nil && fd.Name.Name == "callArrayCallback" {
				helperFound = true
				helper["freshCtx"] = containsCall(fd.Body, "CreateContext")
				helper["bindsDeclared"] = containsCall(fd.Body, "GetParams")
				helper["nilIsNull"] = containsCall(fd.Body, "NewNullValue")
				// the context must not be kept anywhere: no assignment to a package-level name
				continue
			}
			rt := recvType(fd)
			if !types[rt] {
				continue
			}
			m := byType[rt]
			if m == nil {
				m = &methodFact{file: "data/" + n, typ: rt, byPointer: pointer[rt]}
				byType[rt] = m
				methods = append(methods, m)
			}
			switch fd.Name.Name {
			case "GetName":
				ast.Inspect(fd.Body, func(x ast.Node) bool {
					if r, ok := x.(*ast.ReturnStmt); ok && len(r.Results) == 1 {
						if bl, ok := r.Results[0].(*ast.BasicLit); ok && bl.Kind == token.STRING {
							m.name = strings.Trim(bl.Value, "\"")
						}
					}
					return true
				})
			case "GetModifier", "GetIsStatic", "GetParams", "GetVariables", "GetReturnType":
			default:
				analyseCall(fd, m) // Call and helpers such as flattenArray
			}
		}
	}
	for _, m := range methods {
		if m.name == "" {
			changed("%s: %s has no GetName() returning a literal", m.file, m.typ)
		}
	}
	sort.Slice(methods, func(i, j int) bool { return methods[i].name < methods[j].name })
	if !helperFound {
		changed("data.callArrayCallback not found")
	}

	// types implementing data.CallableValue: a receiver with both IsMethod() and GetMethodName()
	has := map[string]map[string]bool{}
	filepath.Walk(a.Repo, func(p string, info os.FileInfo, err error) error {
		if err != nil {
			return nil
		}
		if info.IsDir() {
			b := info.Name()
			if b == ".git" || b == "vendor" || b == "node_modules" || b == "testdata" {
				return filepath.SkipDir
			}
			return nil
		}
		if !strings.HasSuffix(p, ".go") || strings.HasSuffix(p, "_test.go") {
			return nil
		}
		rel, _ := filepath.Rel(a.Repo, p)
		_, f, perr := ex.ParseFile(a.Repo, rel)
		if perr != nil {
			return nil
		}
		for _, d := range f.Decls {
			fd, ok := d.(*ast.FuncDecl)
			if !ok || fd.Recv == nil {
				continue
			}
			if fd.Name.Name == "IsMethod" || fd.Name.Name == "GetMethodName" {
				k := filepath.Dir(rel) + "." + recvType(fd)
				if has[k] == nil {
					has[k] = map[string]bool{}
				}
				has[k][fd.Name.Name] = true
			}
		}
		return nil
	})
	var impl []string
	for k, v := range has {
		if v["IsMethod"] && v["GetMethodName"] {
			impl = append(impl, k)
		}
	}
	sort.Strings(impl)

	var sb strings.Builder
	sb.WriteString("/- GENERATED by extract/c15 from data/value_array*.go — do not edit.\n")
	sb.WriteString("   For every built-in array method: the storage its Call stores into, what it wraps for the\n")
	sb.WriteString("   callback's array argument, what the callback loop runs over, how the callback is invoked,\n")
	sb.WriteString("   what it wraps into the returned array.  Roots: fresh (make / var / literal), copy (ToValueList of the\n")
	sb.WriteString("   receiver's slots), recv (the receiver's slots), anything else verbatim. -/\n")
	sb.WriteString("namespace Generated.C15Storage\n\n")
	sb.WriteString("structure Loop where\n  branch : String\n  over : List String\n  handed : List String\n  invoke : String\n  deriving Repr, DecidableEq\n\n")
	sb.WriteString("structure Method where\n  name : String\n  file : String\n  byPointer : Bool\n  loops : List Loop\n  writes : List String\n  returned : List String\n  deriving Repr, DecidableEq\n\n")
	sb.WriteString("def methods : List Method := [\n")
	for i, m := range methods {
		var ls []string
		for _, l := range m.loops {
			ls = append(ls, fmt.Sprintf("⟨%s, %s, %s, %s⟩", ex.LeanString(l.branch), strList(l.over), strList(l.handed), ex.LeanString(l.invoke)))
		}
		fmt.Fprintf(&sb, "  ⟨%s, %s, %s,\n    [%s],\n    %s, %s⟩", ex.LeanString(m.name), ex.LeanString(m.file), leanBool(m.byPointer), strings.Join(ls, ",\n     "), strList(m.writes), strList(m.returned))
		if i+1 < len(methods) {
			sb.WriteString(",")
		}
		sb.WriteString("\n")
	}
	sb.WriteString("]\n\n")
	sb.WriteString("/-- data.callArrayCallback: creates its context itself / binds only the declared parameters / turns a missing result into null -/\n")
	fmt.Fprintf(&sb, "def helperFreshCtx : Bool := %s\ndef helperBindsDeclared : Bool := %s\ndef helperNilIsNull : Bool := %s\n\n", leanBool(helper["freshCtx"]), leanBool(helper["bindsDeclared"]), leanBool(helper["nilIsNull"]))
	sb.WriteString("/-- types with IsMethod() and GetMethodName(): implementers of data.CallableValue, the second branch of every callback method -/\n")
	fmt.Fprintf(&sb, "def callableImplementers : List String := %s\n\n", strList(impl))
	fmt.Fprintf(&sb, "def shapeChanged : List String := %s\n\n", strList(shape))
	sb.WriteString("end Generated.C15Storage\n")
	out := filepath.Join(a.Out, "C15Storage.lean")
	if err := os.WriteFile(out, []byte(sb.String()), 0o644); err != nil {
		fmt.Fprintln(os.Stderr, err)
		os.Exit(1)
	}
	fmt.Printf("C15Storage: %d methods, %d CallableValue implementers, shapeChanged=%d\n", len(methods), len(impl), len(shape))
}
