// Translator for C16 (ahead-of-time compilation preserves behaviour).
//
// Reads (never executes) node/*.go, data/*.go, cmd/compile/*.go and
// runtime/vm.go and regenerates lean/Generated/C16CompileNodes.lean:
//
//   - for every struct of package node that implements data.GetValue (own or
//     promoted method), every struct statically reachable from such a struct's
//     fields, and every type named in a registry: its fields with exportedness,
//     `pp:"-"` tag, "is the embedded *Node", and how emitReflectValue treats a
//     value of the field's static type (FKind);
//   - the specialHandlers and dataValueEmitters registries (type -> function);
//   - for each registered function the fields of its struct that the function
//     (and the package-local helpers it calls, not through Emit) reads: typed
//     selectors, getter methods resolved to the field they return,
//     reflect FieldByName("…");
//   - the same read sets for auxiliary structs the handlers take apart by hand
//     (ClassMethod, ClassProperty, KvPair, …);
//   - whether emitStructLiteral rebuilds an embedded *Node only when it is
//     tagged `pp:"-"`;
//   - the call sequences of VM.RunCompiledFile and VM.LoadAndRun.
//
// Anything that does not have the expected syntactic shape becomes an entry of
// `shapeChanged`, which makes an obligation in Proofs/Properties/C16.lean fail.
package main

import (
	"fmt"
	"go/ast"
	"go/token"
	"os"
	"regexp"
	"sort"
	"strconv"
	"strings"

	"verif/extract/ex"
)

var shape []string

func changed(f string, a ...any) { shape = append(shape, fmt.Sprintf(f, a...)) }

// ---------------------------------------------------------------- type universe

type field struct {
	Name     string
	Type     ast.Expr
	Exported bool
	Embedded bool
	Tag      string // value of the pp tag
}

type structT struct {
	Pkg, Name string
	Fields    []field
}

func (s *structT) q() string { return s.Pkg + "." + s.Name }

type universe struct {
	structs map[string]*structT // "node.X"
	ifaces  map[string]*ast.InterfaceType
	named   map[string]ast.Expr                 // other named types -> underlying
	methods map[string]map[string]*ast.FuncDecl // "node.X" -> method name -> decl (pointer or value receiver)
	order   []string
}

func newUniverse() *universe {
	return &universe{structs: map[string]*structT{}, ifaces: map[string]*ast.InterfaceType{}, named: map[string]ast.Expr{}, methods: map[string]map[string]*ast.FuncDecl{}}
}

func baseIdent(e ast.Expr) string {
	switch t := e.(type) {
	case *ast.Ident:
		return t.Name
	case *ast.StarExpr:
		return baseIdent(t.X)
	case *ast.SelectorExpr:
		return t.Sel.Name
	case *ast.IndexExpr:
		return baseIdent(t.X)
	}
	return ""
}

func ppTag(tag *ast.BasicLit) string {
	if tag == nil {
		return ""
	}
	s, err := strconv.Unquote(tag.Value)
	if err != nil {
		return ""
	}
	// `pp:"-"`
	for _, part := range strings.Fields(s) {
		if strings.HasPrefix(part, "pp:") {
			v, err := strconv.Unquote(strings.TrimPrefix(part, "pp:"))
			if err == nil {
				return v
			}
		}
	}
	return ""
}

func (u *universe) load(repo, pkg string) {
	_, files, err := ex.ParseDir(repo, pkg)
	if err != nil {
		changed("cannot parse package %s: %v", pkg, err)
		return
	}
	var names []string
	for n := range files {
		names = append(names, n)
	}
	sort.Strings(names)
	for _, fn := range names {
		f := files[fn]
		for _, d := range f.Decls {
			switch dd := d.(type) {
			case *ast.GenDecl:
				if dd.Tok != token.TYPE {
					continue
				}
				for _, sp := range dd.Specs {
					ts := sp.(*ast.TypeSpec)
					q := pkg + "." + ts.Name.Name
					switch t := ts.Type.(type) {
					case *ast.StructType:
						st := &structT{Pkg: pkg, Name: ts.Name.Name}
						for _, fl := range t.Fields.List {
							tag := ppTag(fl.Tag)
							if len(fl.Names) == 0 {
								nm := baseIdent(fl.Type)
								st.Fields = append(st.Fields, field{Name: nm, Type: fl.Type, Exported: ast.IsExported(nm), Embedded: true, Tag: tag})
								continue
							}
							for _, nm := range fl.Names {
								st.Fields = append(st.Fields, field{Name: nm.Name, Type: fl.Type, Exported: ast.IsExported(nm.Name), Tag: tag})
							}
						}
						u.structs[q] = st
						u.order = append(u.order, q)
					case *ast.InterfaceType:
						u.ifaces[q] = t
					default:
						u.named[q] = ts.Type
					}
				}
			case *ast.FuncDecl:
				if dd.Recv == nil || len(dd.Recv.List) == 0 {
					continue
				}
				r := pkg + "." + baseIdent(dd.Recv.List[0].Type)
				if u.methods[r] == nil {
					u.methods[r] = map[string]*ast.FuncDecl{}
				}
				u.methods[r][dd.Name.Name] = dd
			}
		}
	}
}

// qualify a type expression seen inside package pkg: "node.X", "data.Y", "sync.Map", "string", …
func qual(pkg string, e ast.Expr) string {
	switch t := e.(type) {
	case *ast.Ident:
		if isBasic(t.Name) || t.Name == "any" || t.Name == "error" {
			return t.Name
		}
		return pkg + "." + t.Name
	case *ast.SelectorExpr:
		if x, ok := t.X.(*ast.Ident); ok {
			return x.Name + "." + t.Sel.Name
		}
	}
	return ""
}

func isBasic(n string) bool {
	switch n {
	case "string", "bool", "int", "int8", "int16", "int32", "int64", "uint", "uint8", "uint16", "uint32", "uint64", "uintptr", "byte", "rune", "float32", "float64":
		return true
	}
	return false
}

// ifaceHasGetValue: the interface demands GetValue (directly or through an embedded interface).
func (u *universe) ifaceHasGetValue(q string, seen map[string]bool) bool {
	if seen[q] {
		return false
	}
	seen[q] = true
	it, ok := u.ifaces[q]
	if !ok {
		return false
	}
	pkg := q[:strings.IndexByte(q, '.')]
	for _, m := range it.Methods.List {
		if len(m.Names) > 0 {
			for _, n := range m.Names {
				if n.Name == "GetValue" {
					return true
				}
			}
			continue
		}
		if u.ifaceHasGetValue(qual(pkg, m.Type), seen) {
			return true
		}
	}
	return false
}

// structIsGetValue: *T has a GetValue method, own or promoted through an embedded struct.
func (u *universe) structIsGetValue(q string, seen map[string]bool) bool {
	if seen[q] {
		return false
	}
	seen[q] = true
	if m := u.methods[q]; m != nil && m["GetValue"] != nil {
		return true
	}
	st := u.structs[q]
	if st == nil {
		return false
	}
	for _, f := range st.Fields {
		if !f.Embedded {
			continue
		}
		tq := qual(st.Pkg, stripStar(f.Type))
		if _, isStruct := u.structs[tq]; isStruct && u.structIsGetValue(tq, seen) {
			return true
		}
		if _, isIface := u.ifaces[tq]; isIface && u.ifaceHasGetValue(tq, map[string]bool{}) {
			return true
		}
	}
	return false
}

func stripStar(e ast.Expr) ast.Expr {
	if s, ok := e.(*ast.StarExpr); ok {
		return s.X
	}
	return e
}

// kind of a field's static type = what emitReflectValue can do with a value of it.
func (u *universe) kind(pkg string, e ast.Expr) string {
	switch t := e.(type) {
	case *ast.Ident, *ast.SelectorExpr:
		q := qual(pkg, t)
		if isBasic(q) {
			return "scalar"
		}
		if q == "any" || q == "error" {
			return "dynamic"
		}
		if _, ok := u.structs[q]; ok {
			return "structVal"
		}
		if _, ok := u.ifaces[q]; ok {
			if q == "data.Types" {
				return "types"
			}
			if u.ifaceHasGetValue(q, map[string]bool{}) {
				return "node"
			}
			return "dynamic" // an interface that does not demand GetValue: decided by the dynamic value
		}
		if un, ok := u.named[q]; ok {
			p := q[:strings.IndexByte(q, '.')]
			return u.kind(p, un)
		}
		return "foreign" // type of another package (sync.Map, …)
	case *ast.StarExpr:
		q := qual(pkg, t.X)
		if _, ok := u.structs[q]; ok && u.structIsGetValue(q, map[string]bool{}) {
			return "node"
		}
		return "ptrPlain"
	case *ast.ArrayType:
		if id, ok := t.Elt.(*ast.Ident); ok && (id.Name == "byte" || id.Name == "uint8") {
			return "scalar"
		}
		switch k := u.kind(pkg, t.Elt); k {
		case "foreign", "ptrPlain":
			return k
		}
		if unnamedType(t.Elt) {
			// emitSlice writes "[]" + package + elemType.Name() + "{": a pointer, slice, map or func
			// type has no name, the text `[]{…}` is not Go and format.Source refuses the file
			return "unnamedElems"
		}
		return "nodes"
	case *ast.MapType:
		if id, ok := t.Key.(*ast.Ident); !ok || id.Name != "string" {
			return "foreign"
		}
		switch k := u.kind(pkg, t.Value); k {
		case "foreign", "ptrPlain":
			return k
		}
		if unnamedType(t.Value) {
			return "unnamedElems" // emitMap writes "map[string]" + package + valType.Name() + "{"
		}
		return "nodeMap"
	case *ast.InterfaceType:
		return "dynamic"
	case *ast.IndexExpr:
		return "foreign"
	}
	return "foreign" // func, chan, …
}

// unnamedType: a type expression whose reflect.Type has an empty Name() (the element type name that
// emitSlice / emitMap print).
func unnamedType(e ast.Expr) bool {
	switch t := e.(type) {
	case *ast.StarExpr, *ast.ArrayType, *ast.MapType, *ast.FuncType, *ast.ChanType, *ast.InterfaceType, *ast.StructType:
		return true
	case *ast.Ident:
		return t.Name == "any" // alias of interface{}: reflect's Name() is empty
	}
	return false
}

// fieldOf finds field name in struct q, looking through embedded structs (promotion).
// Returns the owner struct and the field.
func (u *universe) fieldOf(q, name string, depth int) (string, *field) {
	st := u.structs[q]
	if st == nil || depth > 4 {
		return "", nil
	}
	for i := range st.Fields {
		if st.Fields[i].Name == name {
			return q, &st.Fields[i]
		}
	}
	for i := range st.Fields {
		if st.Fields[i].Embedded {
			tq := qual(st.Pkg, stripStar(st.Fields[i].Type))
			if o, f := u.fieldOf(tq, name, depth+1); f != nil {
				return o, f
			}
		}
	}
	return "", nil
}

// methodOf finds a method on q or promoted from an embedded struct; returns owner.
func (u *universe) methodOf(q, name string, depth int) (string, *ast.FuncDecl) {
	if depth > 4 {
		return "", nil
	}
	if m := u.methods[q]; m != nil && m[name] != nil {
		return q, m[name]
	}
	st := u.structs[q]
	if st == nil {
		return "", nil
	}
	for _, f := range st.Fields {
		if f.Embedded {
			tq := qual(st.Pkg, stripStar(f.Type))
			if o, m := u.methodOf(tq, name, depth+1); m != nil {
				return o, m
			}
		}
	}
	return "", nil
}

// getterField: `func (x *T) GetFoo() R { return x.foo }` -> "foo"
func getterField(fd *ast.FuncDecl) string {
	if fd.Body == nil || len(fd.Body.List) != 1 || len(fd.Recv.List[0].Names) == 0 {
		return ""
	}
	rs, ok := fd.Body.List[0].(*ast.ReturnStmt)
	if !ok || len(rs.Results) != 1 {
		return ""
	}
	se, ok := rs.Results[0].(*ast.SelectorExpr)
	if !ok {
		return ""
	}
	if id, ok := se.X.(*ast.Ident); ok && id.Name == fd.Recv.List[0].Names[0].Name {
		return se.Sel.Name
	}
	return ""
}

// ---------------------------------------------------------------- reads analysis of cmd/compile

type reads map[string]map[string]bool // struct q -> field set

func (r reads) add(q, f string) {
	if r[q] == nil {
		r[q] = map[string]bool{}
	}
	r[q][f] = true
}

type analyzer struct {
	u     *universe
	funcs map[string]*ast.FuncDecl // compile-package functions and methods by name
	memo  map[string]reads
	calls map[string][]string
	// resolved: expressions (selector x.F, or getter call x.GetF()) that denote a slice- or
	// map-typed field of a described struct -> that field (order analysis)
	resolved map[ast.Node]fieldRef
	analysed map[string]bool // functions reached from some handler
}

type fieldRef struct {
	Owner, Field string
	IsMap        bool
}

func isContainer(e ast.Expr) (container, isMap bool) {
	switch t := e.(type) {
	case *ast.ArrayType:
		if id, ok := t.Elt.(*ast.Ident); ok && (id.Name == "byte" || id.Name == "uint8") {
			return false, false
		}
		return true, false
	case *ast.MapType:
		return true, true
	}
	return false, false
}

func (a *analyzer) noteContainer(n ast.Node, owner string, f *field) {
	if c, m := isContainer(f.Type); c {
		if a.resolved == nil {
			a.resolved = map[ast.Node]fieldRef{}
		}
		a.resolved[n] = fieldRef{owner, f.Name, m}
	}
}

// cut: the reflective machinery dispatches on dynamic types; a handler's own reads stop there
var cut = map[string]bool{"Emit": true, "genGetValue": true, "emitReflectValue": true, "emitStructLiteral": true, "emitStructValue": true, "emitSlice": true, "emitMap": true, "emitVariable": true, "printf": true}

type env map[string]string // ident -> struct q ("" unknown), or "reflect:<q>" for rv := reflect.ValueOf(n).Elem()

func (a *analyzer) typeOfField(f *field, owner string) string {
	pkg := owner[:strings.IndexByte(owner, '.')]
	return a.typeOfTypeExpr(pkg, f.Type)
}

// typeOfTypeExpr: struct q for T / *T; "[]q" / "map:q" for containers of those; "" otherwise
func (a *analyzer) typeOfTypeExpr(pkg string, e ast.Expr) string {
	switch t := e.(type) {
	case *ast.StarExpr:
		return a.typeOfTypeExpr(pkg, t.X)
	case *ast.Ident, *ast.SelectorExpr:
		q := qual(pkg, t)
		if _, ok := a.u.structs[q]; ok {
			return q
		}
	case *ast.ArrayType:
		if in := a.typeOfTypeExpr(pkg, t.Elt); in != "" {
			return "[]" + in
		}
	case *ast.MapType:
		if in := a.typeOfTypeExpr(pkg, t.Value); in != "" {
			return "[]" + in
		}
	}
	return ""
}

// compile package sees node/data types qualified already
func (a *analyzer) typeOfCompileTypeExpr(e ast.Expr) string { return a.typeOfTypeExpr("compile", e) }

func (a *analyzer) typeOf(e ast.Expr, en env, r reads) string {
	switch t := e.(type) {
	case *ast.Ident:
		return en[t.Name]
	case *ast.ParenExpr:
		return a.typeOf(t.X, en, r)
	case *ast.StarExpr:
		return a.typeOf(t.X, en, r)
	case *ast.UnaryExpr:
		return a.typeOf(t.X, en, r)
	case *ast.TypeAssertExpr:
		a.typeOf(t.X, en, r)
		if t.Type == nil {
			return ""
		}
		return a.typeOfCompileTypeExpr(t.Type)
	case *ast.IndexExpr:
		ct := a.typeOf(t.X, en, r)
		a.typeOf(t.Index, en, r)
		return strings.TrimPrefix(ct, "[]")
	case *ast.SelectorExpr:
		xt := a.typeOf(t.X, en, r)
		if xt == "" || strings.HasPrefix(xt, "[]") || strings.HasPrefix(xt, "reflect:") {
			return ""
		}
		if owner, f := a.u.fieldOf(xt, t.Sel.Name, 0); f != nil {
			a.noteRead(xt, owner, t.Sel.Name, r)
			a.noteContainer(t, owner, f)
			return a.typeOfField(f, owner)
		}
		return ""
	case *ast.CallExpr:
		// method call on a typed value: getter resolution
		if se, ok := t.Fun.(*ast.SelectorExpr); ok {
			xt := a.typeOf(se.X, en, r)
			for _, arg := range t.Args {
				a.typeOf(arg, en, r)
			}
			if strings.HasPrefix(xt, "reflect:") {
				q := strings.TrimPrefix(xt, "reflect:")
				switch se.Sel.Name {
				case "FieldByName":
					if len(t.Args) == 1 {
						if bl, ok := t.Args[0].(*ast.BasicLit); ok {
							if name, err := strconv.Unquote(bl.Value); err == nil {
								if owner, f := a.u.fieldOf(q, name, 0); f != nil {
									a.noteRead(q, owner, name, r)
								} else {
									changed("FieldByName(%q) names no field of %s", name, q)
								}
							}
						}
					}
					return ""
				case "Elem":
					return xt
				}
				return xt
			}
			if xt != "" && !strings.HasPrefix(xt, "[]") {
				if owner, m := a.u.methodOf(xt, se.Sel.Name, 0); m != nil {
					if gf := getterField(m); gf != "" {
						if o2, f := a.u.fieldOf(owner, gf, 0); f != nil {
							a.noteRead(xt, o2, gf, r)
							a.noteContainer(t, o2, f)
							return a.typeOfField(f, o2)
						}
					}
				}
				return ""
			}
			// reflect.ValueOf(n)
			if id, ok := se.X.(*ast.Ident); ok && id.Name == "reflect" && se.Sel.Name == "ValueOf" && len(t.Args) == 1 {
				if at := a.typeOf(t.Args[0], en, r); at != "" && !strings.HasPrefix(at, "[]") {
					return "reflect:" + at
				}
			}
			return ""
		}
		for _, arg := range t.Args {
			a.typeOf(arg, en, r)
		}
		return ""
	}
	return ""
}

// noteRead records field name of struct owner, reached from an expression of static struct type xt.
// When the field is promoted (owner != xt) the embedded field of xt that leads to it is read too.
func (a *analyzer) noteRead(xt, owner, name string, r reads) {
	r.add(owner, name)
	if owner != xt {
		st := a.u.structs[xt]
		for _, f := range st.Fields {
			if f.Embedded {
				tq := qual(st.Pkg, stripStar(f.Type))
				if o, ff := a.u.fieldOf(tq, name, 0); ff != nil && o == owner {
					r.add(xt, f.Name)
					if tq != owner {
						a.noteRead(tq, owner, name, r)
					}
					return
				}
			}
		}
	}
}

// analyze one function body with declared parameter types; returns its own reads and callees.
func (a *analyzer) own(name string) (reads, []string) {
	fd := a.funcs[name]
	r := reads{}
	var callees []string
	if fd == nil || fd.Body == nil {
		return r, nil
	}
	en := env{}
	for _, p := range fd.Type.Params.List {
		t := a.typeOfCompileTypeExpr(p.Type)
		for _, n := range p.Names {
			en[n.Name] = t
		}
	}
	var walk func(n ast.Node)
	bind := func(lhs ast.Expr, t string) {
		if id, ok := lhs.(*ast.Ident); ok && id.Name != "_" {
			en[id.Name] = t
		}
	}
	walk = func(n ast.Node) {
		switch s := n.(type) {
		case nil:
			return
		case *ast.BlockStmt:
			for _, st := range s.List {
				walk(st)
			}
		case *ast.AssignStmt:
			for i, rhs := range s.Rhs {
				t := a.typeOf(rhs, en, r)
				walkExprCalls(a, rhs, &callees)
				if len(s.Lhs) == len(s.Rhs) {
					if s.Tok == token.DEFINE || s.Tok == token.ASSIGN {
						bind(s.Lhs[i], t)
					}
				} else if i == 0 && len(s.Lhs) >= 1 {
					bind(s.Lhs[0], t) // x, ok := y.(*T) / v, ok := m[k]
				}
			}
		case *ast.ExprStmt:
			a.typeOf(s.X, en, r)
			walkExprCalls(a, s.X, &callees)
		case *ast.ReturnStmt:
			for _, e := range s.Results {
				a.typeOf(e, en, r)
				walkExprCalls(a, e, &callees)
			}
		case *ast.IfStmt:
			walk(s.Init)
			a.typeOf(s.Cond, en, r)
			walkExprCalls(a, s.Cond, &callees)
			walkCond(a, s.Cond, en, r)
			walk(s.Body)
			walk(s.Else)
		case *ast.ForStmt:
			walk(s.Init)
			if s.Cond != nil {
				walkCond(a, s.Cond, en, r)
			}
			walk(s.Post)
			walk(s.Body)
		case *ast.RangeStmt:
			ct := a.typeOf(s.X, en, r)
			walkExprCalls(a, s.X, &callees)
			if s.Value != nil {
				bind(s.Value, strings.TrimPrefix(ct, "[]"))
			}
			walk(s.Body)
		case *ast.SwitchStmt:
			walk(s.Init)
			if s.Tag != nil {
				a.typeOf(s.Tag, en, r)
			}
			walk(s.Body)
		case *ast.TypeSwitchStmt:
			walk(s.Init)
			var bound string
			var subject ast.Expr
			switch as := s.Assign.(type) {
			case *ast.AssignStmt:
				if id, ok := as.Lhs[0].(*ast.Ident); ok {
					bound = id.Name
				}
				if ta, ok := as.Rhs[0].(*ast.TypeAssertExpr); ok {
					subject = ta.X
				}
			case *ast.ExprStmt:
				if ta, ok := as.X.(*ast.TypeAssertExpr); ok {
					subject = ta.X
				}
			}
			if subject != nil {
				a.typeOf(subject, en, r)
			}
			for _, cc := range s.Body.List {
				cl := cc.(*ast.CaseClause)
				old, had := en[bound]
				if bound != "" && len(cl.List) == 1 {
					en[bound] = a.typeOfCompileTypeExpr(cl.List[0])
				}
				for _, st := range cl.Body {
					walk(st)
				}
				if bound != "" {
					if had {
						en[bound] = old
					} else {
						delete(en, bound)
					}
				}
			}
		case *ast.CaseClause:
			for _, e := range s.List {
				a.typeOf(e, en, r)
			}
			for _, st := range s.Body {
				walk(st)
			}
		case *ast.DeclStmt, *ast.IncDecStmt, *ast.BranchStmt, *ast.EmptyStmt:
		default:
		}
	}
	walk(fd.Body)
	return r, callees
}

func walkCond(a *analyzer, e ast.Expr, en env, r reads) {
	ast.Inspect(e, func(n ast.Node) bool {
		if x, ok := n.(ast.Expr); ok {
			switch x.(type) {
			case *ast.SelectorExpr, *ast.CallExpr:
				a.typeOf(x, en, r)
			}
		}
		return true
	})
}

// walkExprCalls collects package-local callees (g.helper(...) / helper(...)) inside e.
func walkExprCalls(a *analyzer, e ast.Expr, out *[]string) {
	ast.Inspect(e, func(n ast.Node) bool {
		ce, ok := n.(*ast.CallExpr)
		if !ok {
			return true
		}
		name := ""
		switch f := ce.Fun.(type) {
		case *ast.Ident:
			name = f.Name
		case *ast.SelectorExpr:
			if id, ok := f.X.(*ast.Ident); ok && id.Name == "g" {
				name = f.Sel.Name
			}
		}
		if name != "" && a.funcs[name] != nil && !cut[name] {
			*out = append(*out, name)
		}
		return true
	})
}

// closure: reads of fn and of everything it calls (not through the reflective machinery).
func (a *analyzer) closure(fn string) reads {
	seen := map[string]bool{}
	total := reads{}
	var rec func(n string)
	rec = func(n string) {
		if seen[n] {
			return
		}
		seen[n] = true
		if a.analysed == nil {
			a.analysed = map[string]bool{}
		}
		a.analysed[n] = true
		r, cs := a.own(n)
		for q, fs := range r {
			for f := range fs {
				total.add(q, f)
			}
		}
		for _, c := range cs {
			rec(c)
		}
	}
	rec(fn)
	return total
}

// ---------------------------------------------------------------- what a handler writes
//
// A special handler may write ANOTHER node than the one the parser built: a constructor that
// re-derives the node (NewCallTodo), a fused fast-path node, an algebraic rewrite (`$v < N` as
// `$v <= N-1`). Such a substitution is semantics-preserving only if it is on the whole operand
// domain. Per handler:
//   heads   the node/data constructors and literal types named in the format strings of the
//           handler's OWN body, in source order (`node.NewCallTodo`, `node.CallExpression`, …;
//           node.NewNode / node.NewTokenFrom apart): what the generated program calls;
//   builds  node/data constructors CALLED and node/data composite literals BUILT at generation
//           time by the handler and the package-local functions it reaches: AST nodes the parser
//           did not build (`g.Emit(node.NewBinaryLe(…))`).
// The property file keeps the expected table; a new handler, a handler that writes another head
// or starts building nodes breaks the obligation by name.

var reHead = regexp.MustCompile(`(\[\]|\]|\*)?&?\b(node|data)\.([A-Za-z_][A-Za-z0-9_]*)\s*[({]`)

// ownHeads: the heads named in the format strings of fn's own body; a handler that only delegates
// (`return g.emitClassAnnotation(…)`) has the heads of the functions it calls.
func (a *analyzer) ownHeads(fn string, depth int) []string {
	var heads []string
	// position helpers and interface names (result types of `func() data.GetValue {`) are not heads
	seenH := map[string]bool{"node.NewNode": true, "node.NewTokenFrom": true, "data.GetValue": true, "data.Method": true, "data.Variable": true, "data.Types": true}
	fd := a.funcs[fn]
	if fd == nil || fd.Body == nil {
		return nil
	}
	ast.Inspect(fd.Body, func(n ast.Node) bool {
		bl, ok := n.(*ast.BasicLit)
		if !ok || bl.Kind != token.STRING {
			return true
		}
		txt, err := strconv.Unquote(bl.Value)
		if err != nil {
			return true
		}
		for _, m := range reHead.FindAllStringSubmatch(txt, -1) {
			if m[1] != "" {
				continue // a slice / map / pointer TYPE (`[]data.GetValue{`), not a value
			}
			h := m[2] + "." + m[3]
			if !seenH[h] {
				seenH[h] = true
				heads = append(heads, h)
			}
		}
		return true
	})
	if len(heads) == 0 && depth < 3 {
		_, cs := a.own(fn)
		done := map[string]bool{}
		for _, c := range cs {
			if done[c] {
				continue
			}
			done[c] = true
			for _, h := range a.ownHeads(c, depth+1) {
				if !seenH[h] {
					seenH[h] = true
					heads = append(heads, h)
				}
			}
		}
	}
	return heads
}

func (a *analyzer) handlerOut(fn string) (heads, builds []string) {
	heads = a.ownHeads(fn, 0)
	seenF := map[string]bool{}
	seenB := map[string]bool{}
	var rec func(name string)
	rec = func(name string) {
		if seenF[name] {
			return
		}
		seenF[name] = true
		fd := a.funcs[name]
		if fd == nil || fd.Body == nil {
			return
		}
		pkgSel := func(e ast.Expr) string {
			se, ok := e.(*ast.SelectorExpr)
			if !ok {
				return ""
			}
			id, ok := se.X.(*ast.Ident)
			if !ok || (id.Name != "node" && id.Name != "data") {
				return ""
			}
			return id.Name + "." + se.Sel.Name
		}
		ast.Inspect(fd.Body, func(n ast.Node) bool {
			switch x := n.(type) {
			case *ast.CallExpr:
				if q := pkgSel(x.Fun); q != "" && strings.HasPrefix(q[strings.IndexByte(q, '.')+1:], "New") && !seenB[q] {
					seenB[q] = true
					builds = append(builds, q)
				}
			case *ast.CompositeLit:
				if q := pkgSel(x.Type); q != "" && !seenB[q] {
					seenB[q] = true
					builds = append(builds, q)
				}
			}
			return true
		})
		_, cs := a.own(name)
		for _, c := range cs {
			rec(c)
		}
	}
	rec(fn)
	sort.Strings(builds)
	return
}

// ---------------------------------------------------------------- order analysis
//
// How do the handlers traverse the ORDERED collections of the AST? For every expression of
// cmd/compile that denotes a slice- or map-typed field of a described struct, the syntactic
// context says how the collection is used:
//   range        for … := range x.F          (a slice: source order; a map: Go's random order)
//   index        x.F[k] with a computed k     (lookup by key / position)
//   index-const  x.F[0]
//   len          len(x.F) / cap(x.F)
//   nilcheck     x.F == nil / != nil
//   slice        x.F[a:b]
//   ext:<fun>    passed whole to a function outside the package (sort.Strings, slices.Reverse, …)
//   other        anything else
// A collection passed to a package-local function, or bound to a local variable, is followed:
// the uses of that parameter / variable are reported instead.

type access struct {
	Fn, Owner, Field string
	IsMap            bool
	How              string
}

func funString(e ast.Expr) string {
	switch t := e.(type) {
	case *ast.Ident:
		return t.Name
	case *ast.SelectorExpr:
		return funString(t.X) + "." + t.Sel.Name
	case *ast.IndexExpr:
		return funString(t.X)
	case *ast.ParenExpr:
		return funString(t.X)
	}
	return "?"
}

// localCallee: name of the package-local function a call goes to ("" if none)
func (a *analyzer) localCallee(ce *ast.CallExpr) string {
	switch f := ce.Fun.(type) {
	case *ast.Ident:
		if a.funcs[f.Name] != nil {
			return f.Name
		}
	case *ast.IndexExpr: // generic instantiation f[T](…)
		if id, ok := f.X.(*ast.Ident); ok && a.funcs[id.Name] != nil {
			return id.Name
		}
	case *ast.SelectorExpr:
		if id, ok := f.X.(*ast.Ident); ok && id.Name == "g" && a.funcs[f.Sel.Name] != nil {
			return f.Sel.Name
		}
	}
	return ""
}

// useOf classifies the use of expression e given the chain of its ancestors (innermost last).
func (a *analyzer) useOf(fn string, e ast.Node, parents []ast.Node, depth int) []string {
	if len(parents) == 0 || depth > 6 {
		return []string{"other"}
	}
	switch p := parents[len(parents)-1].(type) {
	case *ast.ParenExpr:
		return a.useOf(fn, p, parents[:len(parents)-1], depth)
	case *ast.RangeStmt:
		if p.X == e {
			return []string{"range"}
		}
	case *ast.IndexExpr:
		if p.X == e {
			if _, ok := p.Index.(*ast.BasicLit); ok {
				return []string{"index-const"}
			}
			return []string{"index"}
		}
	case *ast.SliceExpr:
		if p.X == e {
			return []string{"slice"}
		}
	case *ast.BinaryExpr:
		if id, ok := p.Y.(*ast.Ident); ok && id.Name == "nil" && (p.Op == token.EQL || p.Op == token.NEQ) {
			return []string{"nilcheck"}
		}
	case *ast.CallExpr:
		if id, ok := p.Fun.(*ast.Ident); ok && (id.Name == "len" || id.Name == "cap") {
			return []string{"len"}
		}
		for i, arg := range p.Args {
			if arg != e {
				continue
			}
			if callee := a.localCallee(p); callee != "" {
				return a.paramUse(callee, i, depth+1)
			}
			return []string{"ext:" + funString(p.Fun)}
		}
	case *ast.AssignStmt:
		for i, rhs := range p.Rhs {
			if rhs == e && len(p.Lhs) == len(p.Rhs) {
				if id, ok := p.Lhs[i].(*ast.Ident); ok && id.Name != "_" {
					return a.identUse(fn, id.Name, depth+1)
				}
			}
		}
	}
	return []string{"other"}
}

// identUse: every use of the local variable / parameter name in function fn
func (a *analyzer) identUse(fn, name string, depth int) []string {
	fd := a.funcs[fn]
	if fd == nil || fd.Body == nil {
		return []string{"other"}
	}
	set := map[string]bool{}
	var stack []ast.Node
	ast.Inspect(fd.Body, func(n ast.Node) bool {
		if n == nil {
			stack = stack[:len(stack)-1]
			return true
		}
		if id, ok := n.(*ast.Ident); ok && id.Name == name && len(stack) > 0 {
			skip := false
			switch p := stack[len(stack)-1].(type) {
			case *ast.AssignStmt: // the defining occurrence on the left
				for _, l := range p.Lhs {
					if l == n {
						skip = true
					}
				}
			case *ast.SelectorExpr: // x.name: a field called like the variable
				if p.Sel == id {
					skip = true
				}
			case *ast.KeyValueExpr:
				if p.Key == n {
					skip = true
				}
			}
			if !skip {
				for _, h := range a.useOf(fn, n, stack, depth) {
					set[h] = true
				}
			}
		}
		stack = append(stack, n)
		return true
	})
	if len(set) == 0 {
		return []string{"unused"}
	}
	return sortedKeys(set)
}

func (a *analyzer) paramUse(fn string, idx, depth int) []string {
	fd := a.funcs[fn]
	if fd == nil {
		return []string{"other"}
	}
	i := 0
	for _, p := range fd.Type.Params.List {
		for _, nm := range p.Names {
			if i == idx {
				return a.identUse(fn, nm.Name, depth)
			}
			i++
		}
	}
	return []string{"other"}
}

// accesses: every resolved container expression inside the functions reached from a handler
func (a *analyzer) accesses() []access {
	seen := map[access]bool{}
	var out []access
	var fns []string
	for fn := range a.analysed {
		fns = append(fns, fn)
	}
	sort.Strings(fns)
	for _, fn := range fns {
		fd := a.funcs[fn]
		if fd == nil || fd.Body == nil {
			continue
		}
		var stack []ast.Node
		ast.Inspect(fd.Body, func(n ast.Node) bool {
			if n == nil {
				stack = stack[:len(stack)-1]
				return true
			}
			if ref, ok := a.resolved[n]; ok {
				for _, h := range a.useOf(fn, n, stack, 0) {
					ac := access{fn, ref.Owner, ref.Field, ref.IsMap, h}
					if !seen[ac] {
						seen[ac] = true
						out = append(out, ac)
					}
				}
			}
			stack = append(stack, n)
			return true
		})
	}
	sort.Slice(out, func(i, j int) bool {
		x, y := out[i], out[j]
		if x.Owner != y.Owner {
			return x.Owner < y.Owner
		}
		if x.Field != y.Field {
			return x.Field < y.Field
		}
		if x.Fn != y.Fn {
			return x.Fn < y.Fn
		}
		return x.How < y.How
	})
	return out
}

// orderPairs: a struct that keeps a keyed collection twice — a map[K]V for lookup and a []K
// for the order (name of one is a prefix of the other's: Properties / PropertiesIndex)
func (u *universe) orderPairs(names []string) [][3]string {
	var out [][3]string
	for _, q := range names {
		st := u.structs[q]
		for _, m := range st.Fields {
			mt, ok := m.Type.(*ast.MapType)
			if !ok {
				continue
			}
			for _, o := range st.Fields {
				at, ok := o.Type.(*ast.ArrayType)
				if !ok || at.Len != nil {
					continue
				}
				if ex.TypeString(at.Elt) != ex.TypeString(mt.Key) {
					continue
				}
				if strings.HasPrefix(o.Name, m.Name) || strings.HasPrefix(m.Name, o.Name) {
					out = append(out, [3]string{q, m.Name, o.Name})
				}
			}
		}
	}
	return out
}

// ascendingLoops: every loop of fd is `for i := 0; i < x.Len(); i++` (or `… < x.NumField()`), there is
// no range loop over anything but MapKeys(), and nothing is handed to sort.… / slices.… — the
// reflective path emits the members of a slice front to back. Returns the loops found and what is wrong.
func ascendingLoops(fd *ast.FuncDecl) (int, []string) {
	var bad []string
	loops := 0
	ast.Inspect(fd.Body, func(n ast.Node) bool {
		switch s := n.(type) {
		case *ast.ForStmt:
			loops++
			ok := false
			if as, isAs := s.Init.(*ast.AssignStmt); isAs && len(as.Rhs) == 1 {
				if bl, isLit := as.Rhs[0].(*ast.BasicLit); isLit && bl.Value == "0" {
					if be, isBin := s.Cond.(*ast.BinaryExpr); isBin && be.Op == token.LSS {
						if inc, isInc := s.Post.(*ast.IncDecStmt); isInc && inc.Tok == token.INC {
							ok = true
						}
					}
				}
			}
			if !ok {
				bad = append(bad, "a for loop that is not `for i := 0; i < n; i++`")
			}
		case *ast.RangeStmt:
			loops++
			if !strings.Contains(funString(stripCall(s.X)), "MapKeys") {
				bad = append(bad, "a range loop over "+funString(stripCall(s.X)))
			}
		case *ast.CallExpr:
			f := funString(s.Fun)
			if strings.HasPrefix(f, "sort.") || strings.HasPrefix(f, "slices.") {
				bad = append(bad, "a call of "+f)
			}
		}
		return true
	})
	return loops, bad
}

func stripCall(e ast.Expr) ast.Expr {
	if ce, ok := e.(*ast.CallExpr); ok {
		return ce.Fun
	}
	return e
}

// ---------------------------------------------------------------- generator-wide state
//
// The Generator translates one FILE at a time and keeps per-file values (`file`, `namespace`, set by
// Generate from the ParsedFile) next to its printer state (`buf`, `indent`, `importAliases`). An AST
// node may carry the same kind of information per NODE (CallLater.namespace: the namespace in force
// where the call was written). A handler that prints the generator's value where the node has its own
// is right for every file whose nodes all agree with the file-level value (one namespace per file) and
// wrong for the others. Regenerated:
//   generatorFields   the fields of struct Generator, in source order
//   generateAssigns   `g.X = pf.Y` assignments of Generator.Generate
//   parsedNamespace   the expression parseFiles stores in ParsedFile.Namespace
//   ctxReads          per registered handler (closure over the package-local helpers it calls, not
//                     through Emit): every use of a Generator FIELD, classified
//                       emit         argument of g.printf / fmt.Sprintf …: reaches the generated text
//                       diag         argument of newEmitError / wrapEmitError / fmt.Errorf: a message
//                       write        assigned / incremented (g.indent++)
//                       pass:<fn>    handed to another function
//                       bind         bound to a local variable
//                       other

func structFieldNames(files map[string]*ast.File, name string) []string {
	var out []string
	var fnames []string
	for fn := range files {
		fnames = append(fnames, fn)
	}
	sort.Strings(fnames)
	for _, fn := range fnames {
		for _, d := range files[fn].Decls {
			gd, ok := d.(*ast.GenDecl)
			if !ok || gd.Tok != token.TYPE {
				continue
			}
			for _, sp := range gd.Specs {
				ts := sp.(*ast.TypeSpec)
				st, ok := ts.Type.(*ast.StructType)
				if !ok || ts.Name.Name != name {
					continue
				}
				for _, fl := range st.Fields.List {
					if len(fl.Names) == 0 {
						out = append(out, baseIdent(fl.Type))
					}
					for _, nm := range fl.Names {
						out = append(out, nm.Name)
					}
				}
			}
		}
	}
	return out
}

// generatorIdents: the names under which fd sees the *Generator (receiver, parameters)
func generatorIdents(fd *ast.FuncDecl) map[string]bool {
	ids := map[string]bool{}
	isGen := func(e ast.Expr) bool { return baseIdent(e) == "Generator" }
	if fd.Recv != nil {
		for _, r := range fd.Recv.List {
			if isGen(r.Type) {
				for _, n := range r.Names {
					ids[n.Name] = true
				}
			}
		}
	}
	for _, p := range fd.Type.Params.List {
		if isGen(p.Type) {
			for _, n := range p.Names {
				ids[n.Name] = true
			}
		}
	}
	return ids
}

type ctxRead struct{ Fn, Ty, Field, Use string }

// reach: fn and every package-local function it calls (not through the reflective machinery)
func (a *analyzer) reach(fn string) []string {
	seen := map[string]bool{}
	var out []string
	var rec func(n string)
	rec = func(n string) {
		if seen[n] {
			return
		}
		seen[n] = true
		out = append(out, n)
		_, cs := a.own(n)
		for _, c := range cs {
			rec(c)
		}
	}
	rec(fn)
	return out
}

func (a *analyzer) fieldUse(sel *ast.SelectorExpr, stack []ast.Node) string {
	for i := len(stack) - 1; i >= 0; i-- {
		switch p := stack[i].(type) {
		case *ast.IncDecStmt:
			return "write"
		case *ast.AssignStmt:
			for _, l := range p.Lhs {
				if l == ast.Expr(sel) {
					return "write"
				}
			}
			for _, rhs := range p.Rhs {
				if rhs == ast.Expr(sel) {
					return "bind"
				}
			}
		case *ast.CallExpr:
			inArgs := false
			for _, arg := range p.Args {
				if containsNode(arg, sel) {
					inArgs = true
				}
			}
			if !inArgs {
				continue
			}
			f := funString(p.Fun)
			switch {
			case strings.HasSuffix(f, ".printf") || f == "fmt.Sprintf" || f == "fmt.Fprintf" || f == "fmt.Sprint" || strings.HasSuffix(f, ".WriteString"):
				return "emit"
			case f == "newEmitError" || f == "wrapEmitError" || f == "fmt.Errorf" || f == "errors.New":
				return "diag"
			case f == "len" || f == "strings.Repeat":
				continue
			}
			if callee := a.localCallee(p); callee != "" {
				return "pass:" + callee
			}
			return "pass:" + f
		}
	}
	return "other"
}

func containsNode(root ast.Node, target ast.Node) bool {
	found := false
	ast.Inspect(root, func(n ast.Node) bool {
		if n == target {
			found = true
		}
		return !found
	})
	return found
}

func (a *analyzer) ctxReadsOf(fn, ty string, genFields map[string]bool) []ctxRead {
	seen := map[ctxRead]bool{}
	var out []ctxRead
	for _, name := range a.reach(fn) {
		fd := a.funcs[name]
		if fd == nil || fd.Body == nil {
			continue
		}
		ids := generatorIdents(fd)
		if len(ids) == 0 {
			continue
		}
		var stack []ast.Node
		ast.Inspect(fd.Body, func(n ast.Node) bool {
			if n == nil {
				stack = stack[:len(stack)-1]
				return true
			}
			if se, ok := n.(*ast.SelectorExpr); ok {
				if id, ok := se.X.(*ast.Ident); ok && ids[id.Name] && genFields[se.Sel.Name] {
					r := ctxRead{fn, ty, se.Sel.Name, a.fieldUse(se, stack)}
					if !seen[r] {
						seen[r] = true
						out = append(out, r)
					}
				}
			}
			stack = append(stack, n)
			return true
		})
	}
	sort.Slice(out, func(i, j int) bool {
		if out[i].Field != out[j].Field {
			return out[i].Field < out[j].Field
		}
		return out[i].Use < out[j].Use
	})
	return out
}

// generateAssigns: the `g.X = pf.Y` statements of Generator.Generate
func generateAssigns(fd *ast.FuncDecl) [][2]string {
	var out [][2]string
	if fd == nil || fd.Body == nil {
		return nil
	}
	ids := generatorIdents(fd)
	for _, st := range fd.Body.List {
		as, ok := st.(*ast.AssignStmt)
		if !ok || len(as.Lhs) != 1 || len(as.Rhs) != 1 {
			continue
		}
		se, ok := as.Lhs[0].(*ast.SelectorExpr)
		if !ok {
			continue
		}
		if id, ok := se.X.(*ast.Ident); !ok || !ids[id.Name] {
			continue
		}
		rhs := funString(as.Rhs[0])
		if strings.HasPrefix(rhs, "pf.") {
			out = append(out, [2]string{se.Sel.Name, rhs})
		}
	}
	return out
}

// parsedFileField: the expression stored in field name of the ParsedFile literal built by fd
func parsedFileField(fd *ast.FuncDecl, name string) string {
	res := ""
	if fd == nil || fd.Body == nil {
		return ""
	}
	ast.Inspect(fd.Body, func(n ast.Node) bool {
		cl, ok := n.(*ast.CompositeLit)
		if !ok || baseIdent(cl.Type) != "ParsedFile" {
			return true
		}
		for _, el := range cl.Elts {
			if kv, ok := el.(*ast.KeyValueExpr); ok {
				if id, ok := kv.Key.(*ast.Ident); ok && id.Name == name {
					res = ex.TypeString(kv.Value)
					if ce, ok := kv.Value.(*ast.CallExpr); ok {
						res = funString(ce.Fun) + "()"
					}
				}
			}
		}
		return true
	})
	return res
}

// ---------------------------------------------------------------- registries

func registry(f *ast.File, varName string) (map[string]string, []string) {
	res := map[string]string{}
	var order []string
	found := false
	ast.Inspect(f, func(n ast.Node) bool {
		as, ok := n.(*ast.AssignStmt)
		if !ok || len(as.Lhs) != 1 || len(as.Rhs) != 1 {
			return true
		}
		id, ok := as.Lhs[0].(*ast.Ident)
		if !ok || id.Name != varName {
			return true
		}
		cl, ok := as.Rhs[0].(*ast.CompositeLit)
		if !ok {
			changed("%s is not assigned a map literal", varName)
			return true
		}
		found = true
		for _, el := range cl.Elts {
			kv, ok := el.(*ast.KeyValueExpr)
			if !ok {
				changed("%s: element is not key: value", varName)
				continue
			}
			// reflect.TypeOf((*node.X)(nil))
			q := ""
			if ce, ok := kv.Key.(*ast.CallExpr); ok && len(ce.Args) == 1 {
				if conv, ok := ce.Args[0].(*ast.CallExpr); ok {
					if pe, ok := conv.Fun.(*ast.ParenExpr); ok {
						if st, ok := pe.X.(*ast.StarExpr); ok {
							q = qual("compile", st.X)
						}
					}
				}
			}
			fn, ok := kv.Value.(*ast.Ident)
			if q == "" || !ok {
				changed("%s: unexpected entry shape", varName)
				continue
			}
			res[q] = fn.Name
			order = append(order, q)
		}
		return true
	})
	if !found {
		changed("registry %s not found", varName)
	}
	return res, order
}

// nodeNeedsTag: in emitStructLiteral, is `needsNode = true` guarded by f.Tag.Get("pp") == "-" ?
func nodeNeedsTag(fd *ast.FuncDecl) (bool, bool) {
	found, needs := false, false
	ast.Inspect(fd, func(n ast.Node) bool {
		is, ok := n.(*ast.IfStmt)
		if !ok {
			return true
		}
		sets := false
		for _, st := range is.Body.List {
			if as, ok := st.(*ast.AssignStmt); ok && len(as.Lhs) == 1 {
				if id, ok := as.Lhs[0].(*ast.Ident); ok && id.Name == "needsNode" {
					sets = true
				}
			}
		}
		if !sets {
			return true
		}
		found = true
		ast.Inspect(is.Cond, func(m ast.Node) bool {
			if se, ok := m.(*ast.SelectorExpr); ok && se.Sel.Name == "Tag" {
				needs = true
			}
			return true
		})
		return true
	})
	return needs, found
}

// ptrAssertUnchecked: does the `case reflect.Ptr:` arm of emitReflectValue's kind switch hand
// `x.(data.GetValue)` (single-value form, panics on failure) to a call?
func ptrAssertUnchecked(fd *ast.FuncDecl) (bool, bool) {
	found, unchecked := false, false
	ast.Inspect(fd, func(n ast.Node) bool {
		cc, ok := n.(*ast.CaseClause)
		if !ok {
			return true
		}
		isPtr := false
		for _, e := range cc.List {
			if se, ok := e.(*ast.SelectorExpr); ok && se.Sel.Name == "Ptr" {
				isPtr = true
			}
		}
		if !isPtr {
			return true
		}
		found = true
		for _, st := range cc.Body {
			if is, ok := st.(*ast.IfStmt); ok {
				guarded := false
				ast.Inspect(is.Cond, func(m ast.Node) bool {
					if se, ok := m.(*ast.SelectorExpr); ok && se.Sel.Name == "Implements" {
						guarded = true
					}
					return true
				})
				if guarded {
					continue // the assertion inside is protected by the Implements test
				}
			}
			ast.Inspect(st, func(m ast.Node) bool {
				if ce, ok := m.(*ast.CallExpr); ok {
					for _, a := range ce.Args {
						if _, ok := a.(*ast.TypeAssertExpr); ok {
							// reached only when the value does not implement GetValue (the Implements test precedes it)
							unchecked = true
						}
					}
				}
				return true
			})
		}
		return true
	})
	return unchecked, found
}

// callSeq: the calls made by a VM method, in source order (selector names).
func callSeq(fd *ast.FuncDecl) []string {
	var seq []string
	if fd == nil {
		return nil
	}
	ast.Inspect(fd.Body, func(n ast.Node) bool {
		switch x := n.(type) {
		case *ast.CallExpr:
			switch f := x.Fun.(type) {
			case *ast.SelectorExpr:
				seq = append(seq, f.Sel.Name)
			case *ast.Ident:
				seq = append(seq, f.Name)
			}
		case *ast.IndexExpr:
			if se, ok := x.X.(*ast.SelectorExpr); ok {
				seq = append(seq, "index:"+se.Sel.Name)
			}
		}
		return true
	})
	return seq
}

// ---------------------------------------------------------------- main

func leanList(xs []string) string {
	var q []string
	for _, x := range xs {
		q = append(q, ex.LeanString(x))
	}
	return "[" + strings.Join(q, ", ") + "]"
}

func sortedKeys(m map[string]bool) []string {
	var ks []string
	for k := range m {
		ks = append(ks, k)
	}
	sort.Strings(ks)
	return ks
}

func main() {
	a := ex.ParseArgs()
	u := newUniverse()
	u.load(a.Repo, "node")
	u.load(a.Repo, "data")

	_, cfiles, err := ex.ParseDir(a.Repo, "cmd/compile")
	if err != nil {
		changed("cannot parse cmd/compile: %v", err)
		cfiles = map[string]*ast.File{}
	}
	an := &analyzer{u: u, funcs: map[string]*ast.FuncDecl{}, memo: map[string]reads{}}
	for _, f := range cfiles {
		for _, d := range f.Decls {
			if fd, ok := d.(*ast.FuncDecl); ok {
				an.funcs[fd.Name.Name] = fd
			}
		}
	}
	var special, scalars map[string]string
	var specialOrder, scalarOrder []string
	if f := cfiles["special_handlers.go"]; f != nil {
		special, specialOrder = registry(f, "specialHandlers")
	} else {
		changed("cmd/compile/special_handlers.go missing")
	}
	if f := cfiles["emit_data.go"]; f != nil {
		scalars, scalarOrder = registry(f, "dataValueEmitters")
	} else {
		changed("cmd/compile/emit_data.go missing")
	}
	needsTag, found := false, false
	if fd := an.funcs["emitStructLiteral"]; fd != nil {
		needsTag, found = nodeNeedsTag(fd)
	}
	if !found {
		changed("emitStructLiteral: assignment needsNode = true not found")
	}
	ptrUnchecked, pfound := false, false
	if fd := an.funcs["emitReflectValue"]; fd != nil {
		ptrUnchecked, pfound = ptrAssertUnchecked(fd)
	}
	if !pfound {
		changed("emitReflectValue: case reflect.Ptr not found")
	}
	// dispatch order of Emit: special, scalar, reflective
	if fd := an.funcs["Emit"]; fd != nil {
		var order []string
		ast.Inspect(fd.Body, func(n ast.Node) bool {
			switch x := n.(type) {
			case *ast.IndexExpr:
				if id, ok := x.X.(*ast.Ident); ok {
					order = append(order, id.Name)
				}
			case *ast.CallExpr:
				if se, ok := x.Fun.(*ast.SelectorExpr); ok && se.Sel.Name == "emitStructLiteral" {
					order = append(order, "emitStructLiteral")
				}
				if id, ok := x.Fun.(*ast.Ident); ok && id.Name == "newEmitError" {
					order = append(order, "newEmitError")
				}
			}
			return true
		})
		if strings.Join(order, ",") != "specialHandlers,dataValueEmitters,emitStructLiteral,newEmitError" {
			changed("Generator.Emit dispatch order is %v", order)
		}
	} else {
		changed("Generator.Emit not found")
	}

	// the reflective path walks slices front to back
	for _, fn := range []string{"emitSlice", "emitStructLiteral", "emitStructValue"} {
		fd := an.funcs[fn]
		if fd == nil || fd.Body == nil {
			changed("%s not found", fn)
			continue
		}
		loops, bad := ascendingLoops(fd)
		if loops == 0 {
			changed("%s: no loop found (order analysis of the reflective path lost its footing)", fn)
		}
		for _, b := range bad {
			changed("%s: %s (members of an ordered collection may be emitted out of order)", fn, b)
		}
	}
	// … and Generate walks the statements of the program by range
	if fd := an.funcs["Generate"]; fd != nil && fd.Body != nil {
		found := false
		ast.Inspect(fd.Body, func(n ast.Node) bool {
			if rs, ok := n.(*ast.RangeStmt); ok && funString(rs.X) == "pf.Program.Statements" {
				found = true
			}
			return true
		})
		if !found {
			changed("Generator.Generate: `range pf.Program.Statements` not found")
		}
	} else {
		changed("Generator.Generate not found")
	}

	// ---- which structs to describe
	include := map[string]bool{}
	var work []string
	push := func(q string) {
		if _, ok := u.structs[q]; ok && !include[q] {
			include[q] = true
			work = append(work, q)
		}
	}
	for _, q := range u.order {
		if strings.HasPrefix(q, "node.") && u.structIsGetValue(q, map[string]bool{}) {
			push(q)
		}
	}
	for q := range special {
		push(q)
	}
	for q := range scalars {
		push(q)
	}
	// reads closures
	handlerReads := map[string]reads{}
	for q, fn := range special {
		handlerReads[q] = an.closure(fn)
	}
	for q, fn := range scalars {
		handlerReads[q] = an.closure(fn)
	}
	// auxiliary structs: read by hand anywhere in the handlers' closures
	auxReads := reads{}
	for _, r := range handlerReads {
		for q, fs := range r {
			for f := range fs {
				auxReads.add(q, f)
			}
		}
	}
	for q := range auxReads {
		push(q)
	}
	// static closure over field types
	for len(work) > 0 {
		q := work[0]
		work = work[1:]
		st := u.structs[q]
		for _, f := range st.Fields {
			t := an.typeOfTypeExpr(st.Pkg, f.Type)
			t = strings.TrimPrefix(t, "[]")
			if t != "" && strings.HasPrefix(t, "node.") {
				push(t)
			}
		}
	}
	var names []string
	for q := range include {
		names = append(names, q)
	}
	sort.Strings(names)

	var sb strings.Builder
	sb.WriteString("import Model.Emit\nimport Model.EmitOrder\nimport Model.EmitFuse\nimport Model.EmitCtx\n/-! Struct tables of node/*.go and data/*.go, the handler registries of cmd/compile and the\nfields each handler reads; call sequences of VM.RunCompiledFile / VM.LoadAndRun. -/\nnamespace Generated.C16CompileNodes\nopen Model.Emit\n\n")
	sb.WriteString("/-- structs that can occur in an AST handed to `Generator.Emit` -/\ndef structs : List StructDesc := [\n")
	for i, q := range names {
		st := u.structs[q]
		var fs []string
		for _, f := range st.Fields {
			emb := f.Embedded && f.Name == "Node"
			fs = append(fs, fmt.Sprintf("⟨%s, %v, %v, %v, .%s⟩", ex.LeanString(f.Name), f.Exported, emb, f.Tag == "-", u.kind(st.Pkg, f.Type)))
		}
		sep := ","
		if i == len(names)-1 {
			sep = ""
		}
		fmt.Fprintf(&sb, "  ⟨%s, %v, [%s]⟩%s\n", ex.LeanString(q), u.structIsGetValue(q, map[string]bool{}), strings.Join(fs, ", "), sep)
	}
	sb.WriteString("]\n\n")
	innerOf := func(q string) string {
		st := u.structs[q]
		r := handlerReads[q]
		if st == nil || r == nil {
			return "[]"
		}
		var parts []string
		for _, f := range st.Fields {
			if !f.Embedded || f.Name == "Node" || !r[q][f.Name] {
				continue
			}
			tq := qual(st.Pkg, stripStar(f.Type))
			if _, ok := u.structs[tq]; !ok {
				continue
			}
			parts = append(parts, fmt.Sprintf("(%s, %s)", ex.LeanString(f.Name), leanList(sortedKeys(r[tq]))))
		}
		return "[" + strings.Join(parts, ", ") + "]"
	}
	writeHandlers := func(name, doc string, order []string, fnOf map[string]string, readsOf func(q string) []string) {
		fmt.Fprintf(&sb, "/-- %s -/\ndef %s : List Handler := [\n", doc, name)
		for i, q := range order {
			sep := ","
			if i == len(order)-1 {
				sep = ""
			}
			in := "[]"
			if name == "special" {
				in = innerOf(q)
			}
			fmt.Fprintf(&sb, "  ⟨%s, %s, %s, %s⟩%s\n", ex.LeanString(q), ex.LeanString(fnOf[q]), leanList(readsOf(q)), in, sep)
		}
		sb.WriteString("]\n\n")
	}
	writeHandlers("special", "`specialHandlers` (cmd/compile/special_handlers.go): type, function, fields of that type the function reads", specialOrder, special, func(q string) []string {
		return sortedKeys(handlerReads[q][q])
	})
	writeHandlers("scalars", "`dataValueEmitters` (cmd/compile/emit_data.go)", scalarOrder, scalars, func(q string) []string {
		return sortedKeys(handlerReads[q][q])
	})
	var auxOrder []string
	auxFn := map[string]string{}
	for q := range auxReads {
		if _, ok := special[q]; ok {
			continue
		}
		if _, ok := scalars[q]; ok {
			continue
		}
		auxOrder = append(auxOrder, q)
		auxFn[q] = "(by hand inside the handlers)"
	}
	sort.Strings(auxOrder)
	writeHandlers("aux", "structs without a registry entry that the handlers take apart by hand, with the fields read anywhere in cmd/compile's handlers", auxOrder, auxFn, func(q string) []string {
		return sortedKeys(auxReads[q])
	})
	sb.WriteString("/-- what every special handler writes: type, function, node/data constructors and literal types named in the\nformat strings of its own body (source order), node/data values it builds at generation time (with its helpers) -/\ndef handlerOuts : List Model.EmitFuse.HandlerOut := [\n")
	for i, q := range specialOrder {
		sep := ","
		if i == len(specialOrder)-1 {
			sep = ""
		}
		heads, builds := an.handlerOut(special[q])
		fmt.Fprintf(&sb, "  ⟨%s, %s, %s, %s⟩%s\n", ex.LeanString(q), ex.LeanString(special[q]), leanList(heads), leanList(builds), sep)
	}
	sb.WriteString("]\n\n")

	// ---- generator-wide state
	genFieldList := structFieldNames(cfiles, "Generator")
	if len(genFieldList) == 0 {
		changed("struct Generator not found in cmd/compile")
	}
	genFieldSet := map[string]bool{}
	for _, f := range genFieldList {
		genFieldSet[f] = true
	}
	fmt.Fprintf(&sb, "/-- the fields of `Generator` (cmd/compile/gen.go), in source order -/\ndef generatorFields : List String := %s\n\n", leanList(genFieldList))
	fmt.Fprintf(&sb, "/-- the fields of `ParsedFile` (cmd/compile/parse.go) -/\ndef parsedFileFields : List String := %s\n\n", leanList(structFieldNames(cfiles, "ParsedFile")))
	sb.WriteString("/-- `g.X = pf.Y` in `Generator.Generate`: the per-file values the generator keeps -/\ndef generateAssigns : List (String × String) := [")
	gas := generateAssigns(an.funcs["Generate"])
	for i, ga := range gas {
		if i > 0 {
			sb.WriteString(", ")
		}
		fmt.Fprintf(&sb, "(%s, %s)", ex.LeanString(ga[0]), ex.LeanString(ga[1]))
	}
	sb.WriteString("]\n\n")
	if len(gas) == 0 {
		changed("Generator.Generate: no `g.X = pf.Y` assignment found")
	}
	{
		// package-level variables of cmd/compile: state that outlives one file (a handler could keep a
		// "current namespace" there instead of in the Generator)
		var pv []string
		for fn, f := range cfiles {
			if strings.HasSuffix(fn, "_test.go") {
				continue
			}
			for _, d := range f.Decls {
				if gd, ok := d.(*ast.GenDecl); ok && gd.Tok == token.VAR {
					for _, sp := range gd.Specs {
						for _, nm := range sp.(*ast.ValueSpec).Names {
							pv = append(pv, nm.Name)
						}
					}
				}
			}
		}
		sort.Strings(pv)
		fmt.Fprintf(&sb, "/-- the package-level variables of cmd/compile (state that outlives one file) -/\ndef packageVars : List String := %s\n\n", leanList(pv))
	}
	pns := parsedFileField(an.funcs["parseFiles"], "Namespace")
	if pns == "" {
		changed("parseFiles: ParsedFile{… Namespace: …} not found")
	}
	fmt.Fprintf(&sb, "/-- what `parseFiles` stores in `ParsedFile.Namespace` (the parser's namespace AFTER the whole file: the last section) -/\ndef parsedNamespace : String := %s\n\n", ex.LeanString(pns))
	sb.WriteString("/-- every use of a `Generator` field in the closure of a registered handler (not through `Emit`):\nhandler, handled type, field, use (emit | diag | write | pass:<fn> | bind | other) -/\ndef ctxReads : List Model.EmitCtx.CtxRead := [\n")
	{
		var all []ctxRead
		for _, q := range specialOrder {
			all = append(all, an.ctxReadsOf(special[q], q, genFieldSet)...)
		}
		for _, q := range scalarOrder {
			all = append(all, an.ctxReadsOf(scalars[q], q, genFieldSet)...)
		}
		for i, r := range all {
			sep := ","
			if i == len(all)-1 {
				sep = ""
			}
			fmt.Fprintf(&sb, "  ⟨%s, %s, %s, %s⟩%s\n", ex.LeanString(r.Fn), ex.LeanString(r.Ty), ex.LeanString(r.Field), ex.LeanString(r.Use), sep)
		}
		if len(all) == 0 {
			changed("no use of a Generator field found in the handlers (context analysis lost its footing)")
		}
	}
	sb.WriteString("]\n\n")
	fmt.Fprintf(&sb, "/-- `emitStructLiteral` writes `Node: node.NewNode(from)` only for an embedded `*Node` tagged `pp:\"-\"` -/\ndef nodeNeedsTag : Bool := %v\n\n", needsTag)

	// runner call sequences
	_, vmf, err := ex.ParseFile(a.Repo, "runtime/vm.go")
	if err != nil {
		changed("cannot parse runtime/vm.go: %v", err)
	} else {
		rc := callSeq(ex.FuncDecl(vmf, "*VM", "RunCompiledFile"))
		lr := callSeq(ex.FuncDecl(vmf, "*VM", "LoadAndRun"))
		if rc == nil {
			changed("VM.RunCompiledFile not found")
		}
		if lr == nil {
			changed("VM.LoadAndRun not found")
		}
		fmt.Fprintf(&sb, "/-- calls of `VM.RunCompiledFile`, in source order -/\ndef runCompiledSteps : List String := %s\n\n", leanList(rc))
		fmt.Fprintf(&sb, "/-- calls of `VM.LoadAndRun`, in source order -/\ndef loadAndRunSteps : List String := %s\n\n", leanList(lr))
	}
	fmt.Fprintf(&sb, "/-- the `reflect.Ptr` arm of `emitReflectValue` asserts `.(data.GetValue)` without the comma-ok form -/\ndef ptrAssertUnchecked : Bool := %v\n\n", ptrUnchecked)
	// order facts
	pairs := u.orderPairs(names)
	sb.WriteString("/-- structs that keep a keyed collection twice: (struct, map field, slice field that carries the order) -/\ndef orderPairs : List Model.EmitOrder.OrderPair := [")
	for i, p := range pairs {
		if i > 0 {
			sb.WriteString(", ")
		}
		fmt.Fprintf(&sb, "⟨%s, %s, %s⟩", ex.LeanString(p[0]), ex.LeanString(p[1]), ex.LeanString(p[2]))
	}
	sb.WriteString("]\n\n")
	accs := an.accesses()
	sb.WriteString("/-- how the functions reached from the handlers use every slice- or map-typed field of a described struct:\nfunction, struct, field, is-a-map, use (range | index | index-const | len | nilcheck | slice | ext:<fun> | other) -/\ndef accesses : List Model.EmitOrder.Access := [\n")
	for i, ac := range accs {
		sep := ","
		if i == len(accs)-1 {
			sep = ""
		}
		fmt.Fprintf(&sb, "  ⟨%s, %s, %s, %v, %s⟩%s\n", ex.LeanString(ac.Fn), ex.LeanString(ac.Owner), ex.LeanString(ac.Field), ac.IsMap, ex.LeanString(ac.How), sep)
	}
	sb.WriteString("]\n\n")
	if len(accs) == 0 {
		changed("no container access found in the handlers (order analysis lost its footing)")
	}
	// type facts (round 7): the arms of genTypes' type switch and every type of package data that
	// implements data.Types (methods Is + String)
	{
		var arms []string
		found := false
		if fd := an.funcs["genTypes"]; fd != nil && fd.Body != nil {
			ast.Inspect(fd.Body, func(nd ast.Node) bool {
				ts, ok := nd.(*ast.TypeSwitchStmt)
				if !ok || found {
					return true
				}
				found = true
				for _, st := range ts.Body.List {
					cc, ok := st.(*ast.CaseClause)
					if !ok {
						continue
					}
					if cc.List == nil {
						arms = append(arms, "default")
					}
					for _, e := range cc.List {
						switch t := e.(type) {
						case *ast.SelectorExpr:
							arms = append(arms, baseIdent(t.X)+"."+t.Sel.Name)
						case *ast.StarExpr:
							if se, ok := t.X.(*ast.SelectorExpr); ok {
								arms = append(arms, baseIdent(se.X)+"."+se.Sel.Name)
							}
						default:
							arms = append(arms, "?")
						}
					}
				}
				return false
			})
		}
		if !found {
			changed("genTypes: no type switch over data.Types found")
		}
		var impls []string
		for q, m := range u.methods {
			if strings.HasPrefix(q, "data.") && m["Is"] != nil && m["String"] != nil {
				is := m["Is"]
				if is.Type.Params != nil && len(is.Type.Params.List) == 1 && is.Type.Results != nil && len(is.Type.Results.List) == 1 {
					impls = append(impls, q)
				}
			}
		}
		sort.Strings(impls)
		if len(impls) == 0 {
			changed("no implementation of data.Types found")
		}
		fmt.Fprintf(&sb, "/-- the arms of the type switch of `genTypes` (cmd/compile/gen_data.go), in source order -/\ndef genTypesArms : List String := %s\n\n", leanList(arms))
		fmt.Fprintf(&sb, "/-- the types of package data with methods `Is(Value) bool` and `String() string` (= the implementations of data.Types) -/\ndef typesImpls : List String := %s\n\n", leanList(impls))
	}
	sb.WriteString("def tables : Tables := { structs := structs, special := special, scalars := scalars, aux := aux, nodeNeedsTag := nodeNeedsTag, ptrAssertUnchecked := ptrAssertUnchecked }\n\n")
	sb.WriteString("/-- places where the source no longer has the syntactic shape the translator understands -/\ndef shapeChanged : List String := " + leanList(shape) + "\n\nend Generated.C16CompileNodes\n")
	if err := ex.WriteIfChanged(a.Out, "C16CompileNodes.lean", sb.String()); err != nil {
		fmt.Fprintln(os.Stderr, err)
		os.Exit(1)
	}
	fmt.Printf("C16CompileNodes: structs=%d special=%d scalars=%d aux=%d nodeNeedsTag=%v orderPairs=%d accesses=%d shapeChanged=%d\n", len(names), len(special), len(scalars), len(auxOrder), needsTag, len(pairs), len(accs), len(shape))
	for _, s := range shape {
		fmt.Println("  shapeChanged:", s)
	}
}
