// Memo facts for C17: state of runtime/reflect_*.go that is written while calls are served.
//
// The conversion applied at a call must be a function of the callee's own signature and the
// argument. The wrappers of runtime/reflect_register.go / reflect_class.go keep that trivially
// true as long as nothing written during one call is read by a call of ANOTHER callee. This file
// lists every place where a function of runtime/reflect_*.go writes
//
//   - a package-level variable of package runtime (map index, sync.Map Store/LoadOrStore/…,
//     append, plain assignment, ++, any non-reader method call, escaping through & or as an argument),
//   - a map / slice / sync.Map field of one of the wrapper structs declared there,
//
// together with what the written entry is keyed by (Model.Conv.KeyBy) and what the writing code
// belongs to (Model.Conv.Gran: a struct holding a reflect.Method / reflect.Value is one callee, a
// struct holding only a reflect.Type is one registered type). Writes inside composite literals
// (construction) are not listed. The obligation `memos_sound` (Proofs/Properties/C17.lean) demands
// that every key determines its datum; `C17_sound_memo_transparent` proves that such tables are
// invisible, `C17_name_keyed_memo_counterexample` that a table keyed by the bare method name is not.
package main

import (
	"bytes"
	"fmt"
	"go/ast"
	"go/printer"
	"go/token"
	"regexp"
	"sort"
	"strings"

	"verif/extract/ex"
)

type memoFact struct{ site, keyBy, datum string }

type structInfo struct {
	fields  map[string]string // field name -> type text
	binding string            // callee | owner | ""
}

func exprText(fset *token.FileSet, e ast.Node) string {
	var b bytes.Buffer
	printer.Fprint(&b, fset, e)
	s := strings.Join(strings.Fields(b.String()), " ")
	if len(s) > 90 {
		s = s[:90] + "…"
	}
	return s
}

func isContainerType(t string) bool {
	return strings.HasPrefix(t, "map[") || strings.HasPrefix(t, "[]") || strings.Contains(t, "sync.Map") ||
		strings.Contains(t, "sync.Pool") || strings.HasPrefix(t, "*map[") || strings.HasPrefix(t, "*[]")
}

var (
	reCallee = regexp.MustCompile(`\.method\.(Type|Func)\b|\bfnType\b|\.fn\b`)
	reType   = regexp.MustCompile(`instanceType|reflect\.TypeOf\(|\.Type\(\)|\.Type\b|\bfnType\b`)
	reMeth   = regexp.MustCompile(`\.name\b|\.Name\b|\bmethod\b|\.Index\b|[mM]ethodName|\bname\b|className`)
)

// what a key expression identifies: callee | type | meth | unknown
func classifyKey(text string) string {
	switch {
	case reCallee.MatchString(text):
		return "callee"
	case reType.MatchString(text) && reMeth.MatchString(text):
		return "callee"
	case reType.MatchString(text):
		return "type"
	case reMeth.MatchString(text):
		return "meth"
	}
	return "unknown"
}

// scope of the written table × class of the key → Model.Conv.KeyBy
func effectiveKey(scope, key string) string {
	switch scope {
	case "callee":
		return "callee"
	case "owner":
		switch key {
		case "callee", "meth":
			return "callee"
		}
		return "owner"
	}
	switch key {
	case "callee":
		return "callee"
	case "type":
		return "owner"
	case "meth":
		return "meth"
	case "none":
		return "slot"
	}
	return "unknown"
}

var readerMethods = map[string]bool{"Load": true, "Range": true, "Len": true, "Lock": true, "Unlock": true,
	"RLock": true, "RUnlock": true, "Delete": true, "String": true}
var keyedWriters = map[string]bool{"Store": true, "LoadOrStore": true, "Swap": true, "CompareAndSwap": true, "Set": true}

func memoFacts(repo string) []memoFact {
	fset, files, err := ex.ParseDir(repo, "runtime")
	if err != nil {
		changed("cannot parse package runtime: %v", err)
		return nil
	}
	var names []string
	for n := range files {
		names = append(names, n)
	}
	sort.Strings(names)

	// package-level variables of the whole package, struct declarations of the whole package
	pkgVars := map[string]string{}
	structs := map[string]*structInfo{}
	nReflect := 0
	for _, n := range names {
		if strings.HasPrefix(n, "reflect_") {
			nReflect++
		}
		for _, d := range files[n].Decls {
			gd, ok := d.(*ast.GenDecl)
			if !ok {
				continue
			}
			for _, sp := range gd.Specs {
				switch s := sp.(type) {
				case *ast.ValueSpec:
					if gd.Tok != token.VAR {
						continue
					}
					for _, id := range s.Names {
						t := ""
						if s.Type != nil {
							t = ex.TypeString(s.Type)
						}
						pkgVars[id.Name] = t
					}
				case *ast.TypeSpec:
					st, ok := s.Type.(*ast.StructType)
					if !ok {
						continue
					}
					si := &structInfo{fields: map[string]string{}}
					for _, f := range st.Fields.List {
						t := ex.TypeString(f.Type)
						for _, id := range f.Names {
							si.fields[id.Name] = t
						}
						switch t {
						case "reflect.Method", "reflect.Value":
							si.binding = "callee"
						case "reflect.Type":
							if si.binding == "" {
								si.binding = "owner"
							}
						}
					}
					structs[s.Name.Name] = si
				}
			}
		}
	}
	if nReflect == 0 {
		changed("runtime/reflect_*.go: no such file")
		return nil
	}

	var facts []memoFact
	seen := map[string]bool{}
	add := func(file, fn, what, keyBy, datum string) {
		f := memoFact{fmt.Sprintf("runtime/%s %s: %s", file, fn, what), keyBy, datum}
		if !seen[f.site+f.keyBy] {
			seen[f.site+f.keyBy] = true
			facts = append(facts, f)
		}
	}

	for _, n := range names {
		if !strings.HasPrefix(n, "reflect_") {
			continue
		}
		for _, d := range files[n].Decls {
			fd, ok := d.(*ast.FuncDecl)
			if !ok || fd.Body == nil {
				continue
			}
			fname := fd.Name.Name
			locals := map[string]string{} // identifier -> struct name
			recvStruct := ""
			bindParam := func(fl *ast.FieldList) {
				if fl == nil {
					return
				}
				for _, f := range fl.List {
					t := strings.TrimPrefix(ex.TypeString(f.Type), "*")
					if structs[t] != nil {
						for _, id := range f.Names {
							locals[id.Name] = t
						}
					}
				}
			}
			if fd.Recv != nil && len(fd.Recv.List) > 0 {
				recvStruct = strings.TrimPrefix(ex.TypeString(fd.Recv.List[0].Type), "*")
				fname = "(*" + recvStruct + ")." + fname
				bindParam(fd.Recv)
			}
			bindParam(fd.Type.Params)
			datum := "perCallee"
			if si := structs[recvStruct]; si != nil && si.binding == "owner" {
				datum = "perOwner"
			}
			defs := map[string]ast.Expr{} // local identifier -> defining expression
			ast.Inspect(fd.Body, func(nd ast.Node) bool {
				as, ok := nd.(*ast.AssignStmt)
				if !ok || as.Tok != token.DEFINE {
					return true
				}
				for i, l := range as.Lhs {
					id, ok := l.(*ast.Ident)
					if !ok {
						continue
					}
					if len(as.Rhs) == len(as.Lhs) {
						if _, dup := defs[id.Name]; !dup {
							defs[id.Name] = as.Rhs[i]
						}
						r := as.Rhs[i]
						if u, ok := r.(*ast.UnaryExpr); ok && u.Op == token.AND {
							r = u.X
						}
						if cl, ok := r.(*ast.CompositeLit); ok && cl.Type != nil {
							if t := ex.TypeString(cl.Type); structs[t] != nil {
								locals[id.Name] = t
							}
						}
					} else if len(as.Rhs) == 1 {
						if _, dup := defs[id.Name]; !dup {
							defs[id.Name] = as.Rhs[0]
						}
					}
				}
				return true
			})
			keyText := func(e ast.Expr) string {
				for depth := 0; depth < 3; depth++ {
					id, ok := e.(*ast.Ident)
					if !ok || defs[id.Name] == nil {
						break
					}
					e = defs[id.Name]
				}
				return exprText(fset, e)
			}
			// the table an expression denotes: (scope, description) or "" if it is neither a package
			// variable nor a container field of a wrapper struct
			var tableOf func(e ast.Expr) (scope string, ok bool)
			tableOf = func(e ast.Expr) (string, bool) {
				switch x := e.(type) {
				case *ast.Ident:
					if _, isVar := pkgVars[x.Name]; isVar && locals[x.Name] == "" && defs[x.Name] == nil {
						return "global", true
					}
				case *ast.SelectorExpr:
					if id, isId := x.X.(*ast.Ident); isId {
						if s := locals[id.Name]; s != "" {
							if ft, has := structs[s].fields[x.Sel.Name]; has && isContainerType(ft) {
								return structs[s].binding, true
							}
							return "", false
						}
					}
					return tableOf(x.X) // field of a package variable …
				case *ast.ParenExpr:
					return tableOf(x.X)
				case *ast.StarExpr:
					return tableOf(x.X)
				}
				return "", false
			}
			ast.Inspect(fd.Body, func(nd ast.Node) bool {
				switch x := nd.(type) {
				case *ast.AssignStmt:
					for i, l := range x.Lhs {
						if ie, ok := l.(*ast.IndexExpr); ok {
							if scope, ok := tableOf(ie.X); ok {
								add(n, fname, exprText(fset, l)+" = …", effectiveKey(scope, classifyKey(keyText(ie.Index))), datum)
							}
							continue
						}
						if x.Tok == token.DEFINE {
							continue
						}
						if scope, ok := tableOf(l); ok {
							_ = i
							add(n, fname, exprText(fset, l)+" "+x.Tok.String()+" …", effectiveKey(scope, "none"), datum)
						}
					}
				case *ast.IncDecStmt:
					if scope, ok := tableOf(x.X); ok {
						add(n, fname, exprText(fset, x.X)+x.Tok.String(), effectiveKey(scope, "none"), datum)
					}
				case *ast.UnaryExpr:
					if x.Op == token.AND {
						if scope, ok := tableOf(x.X); ok && scope == "global" {
							add(n, fname, "&"+exprText(fset, x.X)+" escapes", "unknown", datum)
						}
					}
				case *ast.CallExpr:
					if se, ok := x.Fun.(*ast.SelectorExpr); ok {
						if scope, ok := tableOf(se.X); ok && !readerMethods[se.Sel.Name] {
							switch {
							case keyedWriters[se.Sel.Name] && len(x.Args) > 0:
								add(n, fname, exprText(fset, se)+"("+exprText(fset, x.Args[0])+", …)", effectiveKey(scope, classifyKey(keyText(x.Args[0]))), datum)
							default:
								add(n, fname, exprText(fset, se)+"(…)", effectiveKey(scope, "none"), datum)
							}
						}
					}
					// a package variable handed to another function may be written there
					if id, ok := x.Fun.(*ast.Ident); !ok || (id.Name != "len" && id.Name != "cap" && id.Name != "delete") {
						for _, a := range x.Args {
							if scope, ok := tableOf(a); ok && scope == "global" {
								if aid, isId := a.(*ast.Ident); isId && isContainerType(pkgVars[aid.Name]) {
									add(n, fname, exprText(fset, a)+" passed to "+exprText(fset, x.Fun), "unknown", datum)
								}
							}
						}
					}
				}
				return true
			})
		}
	}
	sort.Slice(facts, func(i, j int) bool { return facts[i].site < facts[j].site })
	return facts
}

func writeMemos(sb *strings.Builder, facts []memoFact) {
	sb.WriteString("/-- tables of runtime/reflect_*.go that are written while calls are served: what each entry is keyed by -/\ndef memos : List MemoFact := [")
	for i, f := range facts {
		if i > 0 {
			sb.WriteString(",")
		}
		fmt.Fprintf(sb, "\n  { site := %s, keyBy := .%s, datum := .%s }", ex.LeanString(f.site), f.keyBy, f.datum)
	}
	sb.WriteString("]\n\n")
}
