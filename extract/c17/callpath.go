// Call-path writes for C17: state that outlives ONE call and is written while a call is served.
//
// Two calls of one registered callee can be in flight at once (spawn, one goroutine per HTTP
// request, a conversion or the Go code re-entering the VM). Model.ConvBuf proves that every caller's
// Go code receives exactly what that caller passed under every interleaving as long as the argument
// list (and everything else the call writes) belongs to the call alone. This file lists every place
// where a function of runtime/reflect_*.go that runs while a call is served (everything except
// New* / Register* / analyze*: construction) writes something that is NOT the call's own:
//
//   - a field of the receiver (or of a wrapper-struct parameter): rf.x = …, rf.x[i] = …, rf.x.y++ …
//   - a package-level variable of package runtime, in any form,
//   - through a local that ALIASES such state: x := rm.args / rm.args[:0] / &rm.scratch / pool.Get() …
//     followed by x[i] = …, *x = …, x.f = …, append(x, …), copy(x, …),
//   - a non-reader method call on a reference-typed field / package variable / alias (Store, Put, Get
//     of a pool, Lock …), or handing one to another function.
//
// The obligation `callPath_private` (Proofs/Properties/C17.lean) demands that every listed site is
// one that has been looked at (`knownCallPathWrites`, empty on the pinned tree).
package main

import (
	"fmt"
	"go/ast"
	"go/token"
	"sort"
	"strings"

	"verif/extract/ex"
)

func isRefType(t string) bool {
	return strings.HasPrefix(t, "[]") || strings.HasPrefix(t, "map[") || strings.HasPrefix(t, "*") ||
		strings.Contains(t, "sync.") || strings.HasPrefix(t, "chan ") || strings.Contains(t, "atomic.")
}

func isConstruction(name string) bool {
	return strings.HasPrefix(name, "New") || strings.HasPrefix(name, "Register") || strings.HasPrefix(name, "analyze") || name == "init"
}

var cpReaders = map[string]bool{"Load": true, "Range": true, "Len": true, "RLock": true, "RUnlock": true, "String": true}

func callPathWrites(repo string) []string {
	fset, files, err := ex.ParseDir(repo, "runtime")
	if err != nil {
		changed("cannot parse package runtime: %v", err)
		return nil
	}
	var names []string
	for n := range files {
		names = append(names, n)
	}
	sort.Strings(names)
	pkgVars := map[string]string{}
	structs := map[string]map[string]string{}
	for _, n := range names {
		for _, d := range files[n].Decls {
			gd, ok := d.(*ast.GenDecl)
			if !ok {
				continue
			}
			for _, sp := range gd.Specs {
				switch s := sp.(type) {
				case *ast.ValueSpec:
					if gd.Tok != token.VAR {
						continue
					}
					for _, id := range s.Names {
						t := ""
						if s.Type != nil {
							t = ex.TypeString(s.Type)
						}
						pkgVars[id.Name] = t
					}
				case *ast.TypeSpec:
					if st, ok := s.Type.(*ast.StructType); ok {
						fs := map[string]string{}
						for _, f := range st.Fields.List {
							t := ex.TypeString(f.Type)
							for _, id := range f.Names {
								fs[id.Name] = t
							}
						}
						structs[s.Name.Name] = fs
					}
				}
			}
		}
	}
	// wrapper structs = the structs declared in runtime/reflect_*.go
	wrapper := map[string]bool{}
	for _, n := range names {
		if !strings.HasPrefix(n, "reflect_") || strings.HasSuffix(n, "_test.go") {
			continue
		}
		for _, d := range files[n].Decls {
			if gd, ok := d.(*ast.GenDecl); ok {
				for _, sp := range gd.Specs {
					if ts, ok := sp.(*ast.TypeSpec); ok {
						if _, isStruct := ts.Type.(*ast.StructType); isStruct {
							wrapper[ts.Name.Name] = true
						}
					}
				}
			}
		}
	}

	var out []string
	seen := map[string]bool{}
	for _, n := range names {
		if !strings.HasPrefix(n, "reflect_") || strings.HasSuffix(n, "_test.go") {
			continue
		}
		for _, d := range files[n].Decls {
			fd, ok := d.(*ast.FuncDecl)
			if !ok || fd.Body == nil || isConstruction(fd.Name.Name) {
				continue
			}
			fname := fd.Name.Name
			owners := map[string]string{} // identifier -> wrapper struct it points to
			bind := func(fl *ast.FieldList) {
				if fl == nil {
					return
				}
				for _, f := range fl.List {
					t := strings.TrimPrefix(ex.TypeString(f.Type), "*")
					if wrapper[t] {
						for _, id := range f.Names {
							owners[id.Name] = t
						}
					}
				}
			}
			if fd.Recv != nil && len(fd.Recv.List) > 0 {
				fname = "(*" + strings.TrimPrefix(ex.TypeString(fd.Recv.List[0].Type), "*") + ")." + fname
				bind(fd.Recv)
			}
			bind(fd.Type.Params)
			// locals declared in the body shadow package variables
			shadow := map[string]bool{}
			ast.Inspect(fd.Body, func(nd ast.Node) bool {
				switch x := nd.(type) {
				case *ast.AssignStmt:
					if x.Tok == token.DEFINE {
						for _, l := range x.Lhs {
							if id, ok := l.(*ast.Ident); ok {
								shadow[id.Name] = true
							}
						}
					}
				case *ast.ValueSpec:
					for _, id := range x.Names {
						shadow[id.Name] = true
					}
				case *ast.RangeStmt:
					for _, e := range []ast.Expr{x.Key, x.Value} {
						if id, ok := e.(*ast.Ident); ok && x.Tok == token.DEFINE {
							shadow[id.Name] = true
						}
					}
				}
				return true
			})
			for _, fl := range []*ast.FieldList{fd.Type.Params, fd.Type.Results} {
				if fl != nil {
					for _, f := range fl.List {
						for _, id := range f.Names {
							shadow[id.Name] = true
						}
					}
				}
			}
			alias := map[string]string{} // local -> text of the outliving state it aliases

			// outliving state an expression reaches: (description, reference-typed?, found)
			var reach func(e ast.Expr) (string, bool, bool)
			reach = func(e ast.Expr) (string, bool, bool) {
				switch x := e.(type) {
				case *ast.Ident:
					if a, ok := alias[x.Name]; ok {
						return x.Name + " = " + a, true, true
					}
					if t, isVar := pkgVars[x.Name]; isVar && !shadow[x.Name] && owners[x.Name] == "" {
						return "package variable " + x.Name, isRefType(t) || t == "", true
					}
				case *ast.SelectorExpr:
					if id, ok := x.X.(*ast.Ident); ok {
						if s := owners[id.Name]; s != "" {
							if ft, has := structs[s][x.Sel.Name]; has {
								return exprText(fset, x), isRefType(ft), true
							}
							return "", false, false // a method value
						}
					}
					return reach(x.X) // a field of a field: reference-typed iff the outer one is
				case *ast.IndexExpr:
					return reach(x.X)
				case *ast.SliceExpr:
					return reach(x.X)
				case *ast.StarExpr:
					return reach(x.X)
				case *ast.ParenExpr:
					return reach(x.X)
				case *ast.TypeAssertExpr:
					return reach(x.X)
				case *ast.UnaryExpr:
					if x.Op == token.AND {
						d, _, ok := reach(x.X)
						return d, true, ok
					}
				case *ast.CallExpr:
					if se, ok := x.Fun.(*ast.SelectorExpr); ok {
						// what a reference-typed piece of outliving state hands out (pool.Get(), table.Load(k)) is
						// outliving too; what a reflect.Value / reflect.Type field computes is not
						if d, ref, ok := reach(se.X); ok && ref {
							return d + "." + se.Sel.Name + "()", true, true
						}
						if id, isId := se.X.(*ast.Ident); isId && owners[id.Name] != "" {
							return exprText(fset, se) + "()", true, true // a list answered by a method of the wrapper
						}
					}
				}
				return "", false, false
			}
			add := func(what string) {
				s := fmt.Sprintf("runtime/%s %s: %s", n, fname, what)
				if !seen[s] {
					seen[s] = true
					out = append(out, s)
				}
			}
			// is the written expression outliving state? a bare local (even an alias) is a rebinding, not a write
			written := func(l ast.Expr) (string, bool) {
				if _, bare := l.(*ast.Ident); bare {
					id := l.(*ast.Ident)
					if _, isAlias := alias[id.Name]; isAlias {
						return "", false
					}
				}
				d, _, ok := reach(l)
				return d, ok
			}
			var walk func(nd ast.Node) bool
			walk = func(nd ast.Node) bool {
				switch x := nd.(type) {
				case *ast.AssignStmt:
					for _, l := range x.Lhs {
						if d, ok := written(l); ok {
							add(exprText(fset, l) + " " + x.Tok.String() + " … [" + d + "]")
						}
					}
					// aliases introduced by this statement
					if len(x.Lhs) == len(x.Rhs) {
						for i, l := range x.Lhs {
							id, ok := l.(*ast.Ident)
							if !ok || id.Name == "_" {
								continue
							}
							if d, ref, ok := reach(x.Rhs[i]); ok && ref {
								_ = d
								alias[id.Name] = exprText(fset, x.Rhs[i])
							}
						}
					} else if len(x.Rhs) == 1 {
						if d, ref, ok := reach(x.Rhs[0]); ok && ref {
							if id, isId := x.Lhs[0].(*ast.Ident); isId && id.Name != "_" {
								_ = d
								alias[id.Name] = exprText(fset, x.Rhs[0])
							}
						}
					}
				case *ast.IncDecStmt:
					if d, ok := written(x.X); ok {
						add(exprText(fset, x.X) + x.Tok.String() + " [" + d + "]")
					}
				case *ast.CallExpr:
					switch f := x.Fun.(type) {
					case *ast.Ident:
						switch f.Name {
						case "append", "copy", "clear", "delete":
							if len(x.Args) > 0 {
								if d, _, ok := reach(x.Args[0]); ok {
									add(f.Name + "(" + exprText(fset, x.Args[0]) + ", …) [" + d + "]")
								}
							}
						case "len", "cap", "make", "new", "panic", "string", "int", "int64", "float64":
						default:
							for _, a := range x.Args {
								if d, ref, ok := reach(a); ok && ref {
									add(exprText(fset, a) + " passed to " + f.Name + " [" + d + "]")
								}
							}
						}
					case *ast.SelectorExpr:
						if d, ref, ok := reach(f.X); ok && ref && !cpReaders[f.Sel.Name] {
							// a method of the wrapper itself called on the receiver is followed on its own
							if id, isId := f.X.(*ast.Ident); !(isId && owners[id.Name] != "") {
								add(exprText(fset, f) + "(…) [" + d + "]")
							}
						}
						for _, a := range x.Args {
							if d, ref, ok := reach(a); ok && ref {
								add(exprText(fset, a) + " passed to " + exprText(fset, f) + " [" + d + "]")
							}
						}
					}
				}
				return true
			}
			ast.Inspect(fd.Body, walk)
		}
	}
	sort.Strings(out)
	return out
}

func writeCallPath(sb *strings.Builder, ws []string) {
	sb.WriteString("/-- writes of runtime/reflect_*.go, made while a call is served, to state that outlives the call\n(receiver fields, package-level variables, directly or through an aliasing local) -/\ndef callPathWrites : List String := [")
	for i, w := range ws {
		if i > 0 {
			sb.WriteString(",")
		}
		fmt.Fprintf(sb, "\n  %s", ex.LeanString(w))
	}
	sb.WriteString("]\n\n")
}
