// Translator for C17 (values cross the Go boundary unchanged).
//
// Reads (never executes) runtime/reflect_register.go, runtime/reflect_class.go,
// utils/utils.go and the accessor interfaces of data/*.go and regenerates
// lean/Generated/C17GoKinds.lean:
//
//   - for each `case reflect.X, …:` arm of convertToGoValue (function and
//     struct-method variants): the accessor asserted on the script value, the
//     static type of the expression handed to reflect.ValueOf and whether
//     `.Convert(goType)` follows;
//   - for each arm of convertToScriptValue: reflect accessor, cast, constructor;
//   - for each `case T:` clause of the type switches in
//     utils.convertFrom{Int,String,Float,Bool}Value: the static type of the
//     value asserted back to S and the shape of the expression;
//   - (memo.go) every table of runtime/reflect_*.go written while calls are served and
//     what its entries are keyed by.
//
// Anything that does not have the expected syntactic shape becomes an entry of
// `shapeChanged`, which makes the obligation in Proofs/Properties/C17.lean fail.
package main

import (
	"fmt"
	"go/ast"
	"go/token"
	"os"
	"sort"
	"strings"

	"verif/extract/ex"
)

var shape []string

func changed(f string, a ...any) { shape = append(shape, fmt.Sprintf(f, a...)) }

var basic = map[string]string{
	"bool": "bool", "int": "int", "int8": "int8", "int16": "int16", "int32": "int32", "int64": "int64",
	"uint": "uint", "uint8": "uint8", "uint16": "uint16", "uint32": "uint32", "uint64": "uint64",
	"float32": "float32", "float64": "float64", "string": "string",
}

var reflectKind = map[string]string{
	"Bool": "bool", "Int": "int", "Int8": "int8", "Int16": "int16", "Int32": "int32", "Int64": "int64",
	"Uint": "uint", "Uint8": "uint8", "Uint16": "uint16", "Uint32": "uint32", "Uint64": "uint64",
	"Float32": "float32", "Float64": "float64", "String": "string",
}

var accName = map[string]string{"AsString": "asString", "AsInt": "asInt", "AsFloat": "asFloat", "AsBool": "asBool"}

// what Model.Conv.Acc.kind assumes
var accModelKind = map[string]string{"AsString": "string", "AsInt": "int", "AsFloat": "float64", "AsBool": "bool"}

// ---------------------------------------------------------------- helpers

func sel(e ast.Expr) (x, name string, ok bool) {
	s, ok := e.(*ast.SelectorExpr)
	if !ok {
		return "", "", false
	}
	id, ok := s.X.(*ast.Ident)
	if !ok {
		return "", s.Sel.Name, false
	}
	return id.Name, s.Sel.Name, true
}

func returnsOf(body []ast.Stmt) []*ast.ReturnStmt {
	var rs []*ast.ReturnStmt
	for _, s := range body {
		ast.Inspect(s, func(n ast.Node) bool {
			switch r := n.(type) {
			case *ast.FuncLit:
				return false
			case *ast.ReturnStmt:
				rs = append(rs, r)
			}
			return true
		})
	}
	return rs
}

// definition of a local identifier inside stmts: the call expression on the
// right-hand side of `x := f(...)` / `x, err := f(...)` (also in `if x, ok := …; ok`).
func defCall(stmts []ast.Stmt, name string) *ast.CallExpr {
	var found *ast.CallExpr
	for _, s := range stmts {
		ast.Inspect(s, func(n ast.Node) bool {
			as, ok := n.(*ast.AssignStmt)
			if !ok || len(as.Lhs) == 0 || len(as.Rhs) != 1 {
				return true
			}
			if id, ok := as.Lhs[0].(*ast.Ident); ok && id.Name == name {
				if c, ok := as.Rhs[0].(*ast.CallExpr); ok && found == nil {
					found = c
				}
			}
			return true
		})
	}
	return found
}

// accessor method behind an expression: `x.AsInt()` or an identifier defined from such a call.
func accessorOf(e ast.Expr, scope []ast.Stmt) string {
	if c, ok := e.(*ast.CallExpr); ok {
		if _, m, _ := sel(c.Fun); accName[m] != "" && len(c.Args) == 0 {
			return m
		}
	}
	if id, ok := e.(*ast.Ident); ok {
		if c := defCall(scope, id.Name); c != nil {
			if _, m, _ := sel(c.Fun); accName[m] != "" {
				return m
			}
		}
	}
	return ""
}

// ---------------------------------------------------------------- accessor interfaces of package data

func accessorTypes(repo string) map[string]string {
	res := map[string]string{}
	_, files, err := ex.ParseDir(repo, "data")
	if err != nil {
		changed("cannot parse package data: %v", err)
		return res
	}
	names := make([]string, 0, len(files))
	for n := range files {
		names = append(names, n)
	}
	sort.Strings(names)
	for _, n := range names {
		for _, d := range files[n].Decls {
			gd, ok := d.(*ast.GenDecl)
			if !ok || gd.Tok != token.TYPE {
				continue
			}
			for _, sp := range gd.Specs {
				ts := sp.(*ast.TypeSpec)
				it, ok := ts.Type.(*ast.InterfaceType)
				if !ok || accName[ts.Name.Name] == "" {
					continue
				}
				for _, m := range it.Methods.List {
					ft, ok := m.Type.(*ast.FuncType)
					if !ok || len(m.Names) != 1 || m.Names[0].Name != ts.Name.Name {
						continue
					}
					if ft.Results != nil && len(ft.Results.List) > 0 {
						res[ts.Name.Name] = ex.TypeString(ft.Results.List[0].Type)
					}
				}
			}
		}
	}
	for _, a := range []string{"AsString", "AsInt", "AsFloat", "AsBool"} {
		if res[a] != accModelKind[a] {
			changed("data.%s: accessor result type is %q, the model assumes %q", a, res[a], accModelKind[a])
		}
	}
	return res
}

// ---------------------------------------------------------------- convertToGoValue

type inArm struct {
	kinds    []string
	acc      string
	produced string
	convert  bool
}

func kindSwitch(fd *ast.FuncDecl, where string) *ast.SwitchStmt {
	var sw *ast.SwitchStmt
	ast.Inspect(fd.Body, func(n ast.Node) bool {
		if s, ok := n.(*ast.SwitchStmt); ok && sw == nil {
			if c, ok := s.Tag.(*ast.CallExpr); ok {
				if _, m, _ := sel(c.Fun); m == "Kind" {
					sw = s
				}
			}
		}
		return sw == nil
	})
	if sw == nil {
		changed("%s: no `switch ….Kind()`", where)
	}
	return sw
}

func caseKinds(cc *ast.CaseClause, where string) []string {
	var ks []string
	for _, e := range cc.List {
		x, name, ok := sel(e)
		k := reflectKind[name]
		if !ok || x != "reflect" || k == "" {
			changed("%s: case label %s is not a modelled reflect.Kind", where, ex.TypeString(e))
			continue
		}
		ks = append(ks, k)
	}
	return ks
}

func isZeroReflectValue(e ast.Expr) bool {
	cl, ok := e.(*ast.CompositeLit)
	if !ok {
		return false
	}
	x, name, ok := sel(cl.Type)
	return ok && x == "reflect" && name == "Value" && len(cl.Elts) == 0
}

func inTable(repo, file, recv string) []inArm {
	where := recv + ".convertToGoValue"
	_, f, err := ex.ParseFile(repo, file)
	if err != nil {
		changed("%s: %v", file, err)
		return nil
	}
	fd := ex.FuncDecl(f, recv, "convertToGoValue")
	if fd == nil || fd.Body == nil {
		changed("%s not found in %s", where, file)
		return nil
	}
	typeParam := ""
	for _, p := range fd.Type.Params.List {
		if ex.TypeString(p.Type) == "reflect.Type" && len(p.Names) == 1 {
			typeParam = p.Names[0].Name
		}
	}
	if typeParam == "" {
		changed("%s: no reflect.Type parameter", where)
		return nil
	}
	sw := kindSwitch(fd, where)
	if sw == nil {
		return nil
	}
	if c := sw.Tag.(*ast.CallExpr); true {
		if x, _, ok := sel(c.Fun); !ok || x != typeParam {
			changed("%s: the switch is not over %s.Kind()", where, typeParam)
		}
	}
	var arms []inArm
	for _, st := range sw.Body.List {
		cc := st.(*ast.CaseClause)
		var succ []*ast.ReturnStmt
		for _, r := range returnsOf(cc.Body) {
			if len(r.Results) != 2 {
				changed("%s: return with %d results", where, len(r.Results))
				continue
			}
			if !isZeroReflectValue(r.Results[0]) {
				succ = append(succ, r)
			}
		}
		if cc.List == nil {
			if len(succ) > 0 {
				changed("%s: the default arm returns a value", where)
			}
			continue
		}
		arm := inArm{kinds: caseKinds(cc, where)}
		if len(succ) == 0 {
			changed("%s: arm %v never returns a value", where, arm.kinds)
			continue
		}
		for i, r := range succ {
			e := r.Results[0]
			conv := false
			if c, ok := e.(*ast.CallExpr); ok {
				if s, ok := c.Fun.(*ast.SelectorExpr); ok && s.Sel.Name == "Convert" && len(c.Args) == 1 {
					if id, ok := c.Args[0].(*ast.Ident); ok && id.Name == typeParam {
						conv = true
						e = s.X
					} else {
						changed("%s: arm %v converts to something other than %s", where, arm.kinds, typeParam)
					}
				}
			}
			c, ok := e.(*ast.CallExpr)
			x, name, ok2 := "", "", false
			if ok {
				x, name, ok2 = sel(c.Fun)
			}
			if !ok || !ok2 || x != "reflect" || name != "ValueOf" || len(c.Args) != 1 {
				changed("%s: arm %v returns something other than reflect.ValueOf(…)[.Convert(%s)]", where, arm.kinds, typeParam)
				continue
			}
			inner := c.Args[0]
			produced := ""
			if cast, ok := inner.(*ast.CallExpr); ok && len(cast.Args) == 1 {
				if id, ok := cast.Fun.(*ast.Ident); ok && basic[id.Name] != "" {
					produced = basic[id.Name]
					inner = cast.Args[0]
				}
			}
			acc := accessorOf(inner, cc.Body)
			if acc == "" {
				changed("%s: arm %v: cannot tell which accessor produced %s", where, arm.kinds, ex.TypeString(inner))
				continue
			}
			if produced == "" {
				produced = accModelKind[acc]
			}
			if i == 0 || arm.acc == "" {
				arm.acc, arm.produced, arm.convert = acc, produced, conv
			} else if arm.acc != acc || arm.produced != produced || arm.convert != conv {
				changed("%s: arm %v: its return statements disagree", where, arm.kinds)
			}
		}
		if arm.acc != "" {
			arms = append(arms, arm)
		}
	}
	return arms
}

// ---------------------------------------------------------------- convertToScriptValue

type outArm struct {
	kinds []string
	acc   string
	cast  string
	ctor  string
}

var gaccName = map[string]string{"String": "string", "Int": "int", "Uint": "uint", "Float": "float", "Bool": "bool"}
var ctorName = map[string]string{"NewStringValue": "str", "NewIntValue": "int", "NewFloatValue": "float", "NewBoolValue": "bool"}

func outTable(repo, file, recv string) []outArm {
	where := recv + ".convertToScriptValue"
	_, f, err := ex.ParseFile(repo, file)
	if err != nil {
		changed("%s: %v", file, err)
		return nil
	}
	fd := ex.FuncDecl(f, recv, "convertToScriptValue")
	if fd == nil || fd.Body == nil {
		changed("%s not found in %s", where, file)
		return nil
	}
	valParam := ""
	for _, p := range fd.Type.Params.List {
		if ex.TypeString(p.Type) == "reflect.Value" && len(p.Names) == 1 {
			valParam = p.Names[0].Name
		}
	}
	sw := kindSwitch(fd, where)
	if sw == nil || valParam == "" {
		changed("%s: unexpected signature", where)
		return nil
	}
	if x, _, ok := sel(sw.Tag.(*ast.CallExpr).Fun); !ok || x != valParam {
		changed("%s: the switch is not over %s.Kind()", where, valParam)
	}
	var arms []outArm
	sawDefault := false
	for _, st := range sw.Body.List {
		cc := st.(*ast.CaseClause)
		rs := returnsOf(cc.Body)
		if len(rs) != 1 || len(rs[0].Results) != 2 {
			changed("%s: an arm without exactly one two-valued return", where)
			continue
		}
		call, ok := rs[0].Results[0].(*ast.CallExpr)
		x, ctor, ok2 := "", "", false
		if ok {
			x, ctor, ok2 = sel(call.Fun)
		}
		if !ok || !ok2 || x != "data" || ctorName[ctor] == "" || len(call.Args) != 1 {
			changed("%s: an arm returns something other than data.New{String,Int,Float,Bool}Value(…)", where)
			continue
		}
		if id, ok := rs[0].Results[1].(*ast.Ident); !ok || id.Name != "nil" {
			changed("%s: an arm returns a non-nil error", where)
		}
		arg := call.Args[0]
		if cc.List == nil {
			sawDefault = true
			// data.NewStringValue(fmt.Sprintf("%v", goValue.Interface()))
			okShape := false
			if c, ok := arg.(*ast.CallExpr); ok && ctor == "NewStringValue" && len(c.Args) == 2 {
				if x, n, ok := sel(c.Fun); ok && x == "fmt" && n == "Sprintf" {
					if lit, ok := c.Args[0].(*ast.BasicLit); ok && lit.Value == `"%v"` {
						if ic, ok := c.Args[1].(*ast.CallExpr); ok {
							if x, n, ok := sel(ic.Fun); ok && x == valParam && n == "Interface" {
								okShape = true
							}
						}
					}
				}
			}
			if !okShape {
				changed("%s: the default arm is not data.NewStringValue(fmt.Sprintf(\"%%v\", %s.Interface()))", where, valParam)
			}
			continue
		}
		arm := outArm{kinds: caseKinds(cc, where), ctor: ctorName[ctor]}
		if cast, ok := arg.(*ast.CallExpr); ok && len(cast.Args) == 1 {
			if id, ok := cast.Fun.(*ast.Ident); ok && basic[id.Name] != "" {
				arm.cast = basic[id.Name]
				arg = cast.Args[0]
			}
		}
		ac, ok := arg.(*ast.CallExpr)
		if ok {
			x, m, ok2 := sel(ac.Fun)
			if ok2 && x == valParam && gaccName[m] != "" && len(ac.Args) == 0 {
				arm.acc = gaccName[m]
			}
		}
		if arm.acc == "" {
			changed("%s: arm %v does not read %s through String/Int/Uint/Float/Bool", where, arm.kinds, valParam)
			continue
		}
		arms = append(arms, arm)
	}
	if !sawDefault {
		changed("%s: no default arm", where)
	}
	return arms
}

// ---------------------------------------------------------------- utils.convertFrom*Value

type genArm struct {
	caseTy, exprTy, form string
}

// static type of a local identifier of a utils.convertFrom*Value function
func identType(f *ast.File, fd *ast.FuncDecl, name string) string {
	c := defCall(fd.Body.List, name)
	if c == nil {
		return ""
	}
	if _, m, _ := sel(c.Fun); accModelKind[m] != "" {
		return accModelKind[m]
	}
	if id, ok := c.Fun.(*ast.Ident); ok {
		if g := ex.FuncDecl(f, "", id.Name); g != nil && g.Type.Results != nil && len(g.Type.Results.List) > 0 {
			return basic[ex.TypeString(g.Type.Results.List[0].Type)]
		}
	}
	return ""
}

type genRet struct {
	ty, form, lit string
}

func classifyGenReturn(f *ast.File, fd *ast.FuncDecl, r *ast.ReturnStmt, where string) (genRet, bool) {
	if len(r.Results) == 1 {
		// return narrowInt[S, T](x)
		if c, ok := r.Results[0].(*ast.CallExpr); ok {
			if il, ok := c.Fun.(*ast.IndexListExpr); ok && len(il.Indices) == 2 {
				if id, ok := il.X.(*ast.Ident); ok && id.Name == "narrowInt" {
					if t, ok := il.Indices[1].(*ast.Ident); ok && basic[t.Name] != "" {
						if s, ok := il.Indices[0].(*ast.Ident); ok && s.Name == "S" {
							return genRet{ty: basic[t.Name], form: "narrow"}, true
						}
					}
				}
			}
		}
		changed("%s: unrecognised single-valued return", where)
		return genRet{}, false
	}
	if len(r.Results) != 2 {
		changed("%s: return with %d results", where, len(r.Results))
		return genRet{}, false
	}
	if id, ok := r.Results[0].(*ast.Ident); ok && id.Name == "result" {
		return genRet{form: "err"}, true
	}
	ta, ok := r.Results[0].(*ast.TypeAssertExpr)
	if !ok {
		changed("%s: return value is not any(x).(S)", where)
		return genRet{}, false
	}
	if id, ok := ta.Type.(*ast.Ident); !ok || id.Name != "S" {
		changed("%s: assertion to something other than S", where)
		return genRet{}, false
	}
	ac, ok := ta.X.(*ast.CallExpr)
	if !ok || len(ac.Args) != 1 {
		changed("%s: asserted operand is not any(x)", where)
		return genRet{}, false
	}
	if id, ok := ac.Fun.(*ast.Ident); !ok || id.Name != "any" {
		changed("%s: asserted operand is not any(x)", where)
		return genRet{}, false
	}
	x := ac.Args[0]
	switch e := x.(type) {
	case *ast.BasicLit:
		switch e.Kind {
		case token.INT:
			return genRet{ty: "int", form: "const", lit: e.Value}, true
		case token.FLOAT:
			return genRet{ty: "float64", form: "const", lit: e.Value}, true
		case token.STRING:
			return genRet{ty: "string", form: "const", lit: e.Value}, true
		}
	case *ast.BinaryExpr:
		if e.Op == token.NEQ {
			if lit, ok := e.Y.(*ast.BasicLit); ok && lit.Value == "0" {
				return genRet{ty: "bool", form: "ne0"}, true
			}
		}
	case *ast.Ident:
		if t := identType(f, fd, e.Name); t != "" {
			return genRet{ty: t, form: "ident"}, true
		}
	case *ast.CallExpr:
		if xx, n, ok := sel(e.Fun); ok && xx == "fmt" && n == "Sprintf" {
			return genRet{ty: "string", form: "sprintf"}, true
		}
		if id, ok := e.Fun.(*ast.Ident); ok && basic[id.Name] != "" && len(e.Args) == 1 {
			switch a := e.Args[0].(type) {
			case *ast.BasicLit:
				return genRet{ty: basic[id.Name], form: "const", lit: a.Value}, true
			case *ast.Ident:
				return genRet{ty: basic[id.Name], form: "cast"}, true
			}
		}
	}
	changed("%s: unrecognised asserted expression %T", where, x)
	return genRet{}, false
}

func usesParseBool(body []ast.Stmt) bool {
	found := false
	for _, s := range body {
		ast.Inspect(s, func(n ast.Node) bool {
			if c, ok := n.(*ast.CallExpr); ok {
				if id, ok := c.Fun.(*ast.Ident); ok && id.Name == "parseBool" {
					found = true
				}
			}
			return true
		})
	}
	return found
}

func genTable(f *ast.File, fn string) []genArm {
	where := "utils." + fn
	fd := ex.FuncDecl(f, "", fn)
	if fd == nil || fd.Body == nil {
		changed("%s not found", where)
		return nil
	}
	var ts *ast.TypeSwitchStmt
	for _, s := range fd.Body.List {
		if t, ok := s.(*ast.TypeSwitchStmt); ok && ts == nil {
			ts = t
		}
	}
	if ts == nil {
		changed("%s: no type switch", where)
		return nil
	}
	var arms []genArm
	for _, st := range ts.Body.List {
		cc := st.(*ast.CaseClause)
		if cc.List == nil {
			changed("%s: unexpected default clause in the type switch", where)
			continue
		}
		var tys []string
		for _, e := range cc.List {
			id, ok := e.(*ast.Ident)
			if !ok || basic[id.Name] == "" {
				changed("%s: case type %s is not a predeclared basic type", where, ex.TypeString(e))
				continue
			}
			tys = append(tys, basic[id.Name])
		}
		var succ []genRet
		bad := false
		for _, r := range returnsOf(cc.Body) {
			g, ok := classifyGenReturn(f, fd, r, where)
			if !ok {
				bad = true
				continue
			}
			if g.form != "err" {
				succ = append(succ, g)
			}
		}
		if bad {
			continue
		}
		for _, t := range tys {
			switch {
			case len(succ) == 0:
				arms = append(arms, genArm{t, t, "err"})
			case len(succ) == 1 && succ[0].form == "ident" && usesParseBool(cc.Body):
				arms = append(arms, genArm{t, succ[0].ty, "parseBool"})
			case len(succ) == 1 && succ[0].form != "const":
				arms = append(arms, genArm{t, succ[0].ty, succ[0].form})
			case len(succ) == 2 && succ[0].form == "const" && succ[1].form == "const" && succ[0].ty == succ[1].ty:
				a, b := succ[0].lit, succ[1].lit
				okv := (a == "1" && b == "0") || (a == "1.0" && b == "0.0") || (a == `"true"` && b == `"false"`)
				if !okv {
					changed("%s: case %s: constants %s / %s are not 1/0 or \"true\"/\"false\"", where, t, a, b)
					continue
				}
				arms = append(arms, genArm{t, succ[0].ty, "boolConst"})
			default:
				changed("%s: case %s: unrecognised clause shape", where, t)
			}
		}
	}
	return arms
}

// convertValue must dispatch *data.XValue to convertFromXValue[S](val)
func checkDispatch(f *ast.File) {
	fd := ex.FuncDecl(f, "", "convertValue")
	if fd == nil || fd.Body == nil {
		changed("utils.convertValue not found")
		return
	}
	want := map[string]string{"*data.IntValue": "convertFromIntValue", "*data.StringValue": "convertFromStringValue",
		"*data.FloatValue": "convertFromFloatValue", "*data.BoolValue": "convertFromBoolValue"}
	seen := map[string]bool{}
	ast.Inspect(fd.Body, func(n ast.Node) bool {
		cc, ok := n.(*ast.CaseClause)
		if !ok || len(cc.List) != 1 {
			return true
		}
		ty := ex.TypeString(cc.List[0])
		if w, ok := want[ty]; ok {
			rs := returnsOf(cc.Body)
			good := false
			if len(rs) == 1 && len(rs[0].Results) == 1 {
				if c, ok := rs[0].Results[0].(*ast.CallExpr); ok {
					if ie, ok := c.Fun.(*ast.IndexExpr); ok {
						if id, ok := ie.X.(*ast.Ident); ok && id.Name == w {
							good = true
						}
					}
				}
			}
			if !good {
				changed("utils.convertValue: case %s does not return %s[S](val)", ty, w)
			}
			seen[ty] = true
		}
		return true
	})
	for ty := range want {
		if !seen[ty] {
			changed("utils.convertValue: no case %s", ty)
		}
	}
}

// ---------------------------------------------------------------- output

func kindList(ks []string) string {
	var p []string
	for _, k := range ks {
		p = append(p, "."+k)
	}
	return "[" + strings.Join(p, ", ") + "]"
}

func main() {
	a := ex.ParseArgs()
	accessorTypes(a.Repo)
	inFn := inTable(a.Repo, "runtime/reflect_register.go", "ReflectFunction")
	inM := inTable(a.Repo, "runtime/reflect_class.go", "ReflectMethod")
	outFn := outTable(a.Repo, "runtime/reflect_register.go", "ReflectFunction")
	outM := outTable(a.Repo, "runtime/reflect_class.go", "ReflectMethod")
	var gInt, gStr, gFlt, gBool []genArm
	if _, uf, err := ex.ParseFile(a.Repo, "utils/utils.go"); err != nil {
		changed("utils/utils.go: %v", err)
	} else {
		checkDispatch(uf)
		gInt = genTable(uf, "convertFromIntValue")
		gStr = genTable(uf, "convertFromStringValue")
		gFlt = genTable(uf, "convertFromFloatValue")
		gBool = genTable(uf, "convertFromBoolValue")
	}

	var sb strings.Builder
	sb.WriteString("import Model.Conv\nimport Model.ConvReg\n")
	sb.WriteString("/-! Kind-switch tables of runtime/reflect_register.go, runtime/reflect_class.go and utils/utils.go. -/\n")
	sb.WriteString("namespace Generated.C17GoKinds\nopen Model.Conv\n\n")
	wIn := func(name, doc string, arms []inArm) {
		fmt.Fprintf(&sb, "/-- %s -/\ndef %s : List InArm := [", doc, name)
		for i, x := range arms {
			if i > 0 {
				sb.WriteString(",")
			}
			fmt.Fprintf(&sb, "\n  { kinds := %s, acc := .%s, produced := .%s, convert := %v }", kindList(x.kinds), accName[x.acc], x.produced, x.convert)
		}
		sb.WriteString("]\n\n")
	}
	wOut := func(name, doc string, arms []outArm) {
		fmt.Fprintf(&sb, "/-- %s -/\ndef %s : List OutArm := [", doc, name)
		for i, x := range arms {
			if i > 0 {
				sb.WriteString(",")
			}
			cast := "none"
			if x.cast != "" {
				cast = "some ." + x.cast
			}
			fmt.Fprintf(&sb, "\n  { kinds := %s, acc := .%s, cast := %s, ctor := .%s }", kindList(x.kinds), x.acc, cast, x.ctor)
		}
		sb.WriteString("]\n\n")
	}
	wGen := func(name, doc string, arms []genArm) {
		fmt.Fprintf(&sb, "/-- %s -/\ndef %s : List GenArm := [", doc, name)
		for i, x := range arms {
			if i > 0 {
				sb.WriteString(",")
			}
			fmt.Fprintf(&sb, "\n  { caseTy := .%s, exprTy := .%s, form := .%s }", x.caseTy, x.exprTy, x.form)
		}
		sb.WriteString("]\n\n")
	}
	wIn("table", "arms of `ReflectFunction.convertToGoValue` (runtime/reflect_register.go)", inFn)
	wIn("tableMethod", "arms of `ReflectMethod.convertToGoValue` (runtime/reflect_class.go)", inM)
	wOut("outTable", "arms of `ReflectFunction.convertToScriptValue`", outFn)
	wOut("outTableMethod", "arms of `ReflectMethod.convertToScriptValue`", outM)
	wGen("genFromInt", "clauses of `utils.convertFromIntValue`", gInt)
	wGen("genFromStr", "clauses of `utils.convertFromStringValue`", gStr)
	wGen("genFromFloat", "clauses of `utils.convertFromFloatValue`", gFlt)
	wGen("genFromBool", "clauses of `utils.convertFromBoolValue`", gBool)
	sb.WriteString("def gen : GenTables := { fromInt := genFromInt, fromStr := genFromStr, fromFloat := genFromFloat, fromBool := genFromBool }\n\n")
	memos := memoFacts(a.Repo)
	writeMemos(&sb, memos)
	cpw := callPathWrites(a.Repo)
	writeCallPath(&sb, cpw)
	sb.WriteString("/-- places where the source no longer has the syntactic shape the translator understands -/\ndef shapeChanged : List String := [")
	for i, s := range shape {
		if i > 0 {
			sb.WriteString(",")
		}
		sb.WriteString("\n  " + ex.LeanString(s))
	}
	sb.WriteString("]\n\nend Generated.C17GoKinds\n")
	if err := ex.WriteIfChanged(a.Out, "C17GoKinds.lean", sb.String()); err != nil {
		fmt.Fprintln(os.Stderr, err)
		os.Exit(1)
	}
	fmt.Printf("C17GoKinds: in=%d/%d out=%d/%d gen=%d/%d/%d/%d memos=%d shapeChanged=%d\n", len(inFn), len(inM), len(outFn), len(outM), len(gInt), len(gStr), len(gFlt), len(gBool), len(memos), len(shape))
	for _, w := range cpw {
		fmt.Printf("  call-path write: %s\n", w)
	}
	for _, m := range memos {
		fmt.Printf("  memo: %s keyBy=%s datum=%s\n", m.site, m.keyBy, m.datum)
	}
	for _, s := range shape {
		fmt.Println("  shapeChanged:", s)
	}
}
