// extract/c12: regenerates lean/Generated/C12TempVm.lean from runtime/*.go —
// for every method of runtime.TempVM (and for NewTempVM) which request-local
// definition maps it assigns, what it assigns / deletes through vm.Base, which
// methods of the base VM it calls, which of its own methods it calls, and
// whether it autoloads with its own parser; how it uses the base's parser, which parser
// calls it makes, in which context it evaluates a program, whether it assigns vm.parser;
// and for every method of runtime.VM whether it parses / autoloads with the base-bound
// parser (vm.parser) and which of its own methods it calls. go/ast only; nothing is executed.
package main

import (
	"fmt"
	"go/ast"
	"go/token"
	"os"
	"sort"
	"strings"

	"verif/extract/ex"
)

type fact struct {
	method      string
	writesLocal map[string]bool
	writesBase  map[string]bool
	baseCalls   map[string]bool
	selfCalls   map[string]bool
	ownLoader   bool
	shape       string
	baseParser  map[string]bool // how vm.Base.parser is used: "PrepareParse" (handed to vm.PrepareParse) | "other"
	parses      map[string]bool // X.Parse…(…) calls on a parser value
	evalCtx     map[string]bool // context of X.GetValue(ctx): "self.CreateContext" | "param" | "base.CreateContext" | "other"
	setsParser  bool            // assigns vm.parser
}

func newFact(m string) *fact {
	return &fact{method: m, writesLocal: map[string]bool{}, writesBase: map[string]bool{}, baseCalls: map[string]bool{}, selfCalls: map[string]bool{},
		baseParser: map[string]bool{}, parses: map[string]bool{}, evalCtx: map[string]bool{}}
}

// vmFact: one method of runtime.VM (the base)
type vmFact struct {
	method    string
	ownParser bool // parses / autoloads with vm.parser: vm.parser.Clone(), vm.parser.Parse…(…), vm.parser handed to a call
	selfCalls map[string]bool
}

func (f *fact) changed(format string, a ...any) {
	if f.shape == "" {
		f.shape = fmt.Sprintf(format, a...)
	}
}

var localMaps = map[string]bool{"addedClasses": true, "addedInterfaces": true, "addedFuncs": true}

func isIdent(e ast.Expr, name string) bool {
	id, ok := e.(*ast.Ident)
	return ok && id.Name == name
}

// isBase: <recv>.Base
func isBase(e ast.Expr, recv string) bool {
	s, ok := e.(*ast.SelectorExpr)
	return ok && s.Sel.Name == "Base" && isIdent(s.X, recv)
}

// path renders a selector/index chain; root reports what it starts with.
func path(e ast.Expr) string {
	switch t := e.(type) {
	case *ast.Ident:
		return t.Name
	case *ast.SelectorExpr:
		return path(t.X) + "." + t.Sel.Name
	case *ast.IndexExpr:
		return path(t.X) + "[]"
	case *ast.StarExpr:
		return path(t.X)
	case *ast.ParenExpr:
		return path(t.X)
	}
	return "?"
}

func (f *fact) target(e ast.Expr, recv string) {
	p := path(e)
	if p == recv+".parser" {
		f.setsParser = true
	}
	if strings.HasPrefix(p, recv+".Base.") || p == recv+".Base" {
		f.writesBase[p] = true
		return
	}
	for m := range localMaps {
		if p == recv+"."+m || p == recv+"."+m+"[]" {
			f.writesLocal[m] = true
		}
	}
}

func analyse(fd *ast.FuncDecl) *fact {
	f := newFact(fd.Name.Name)
	if fd.Recv == nil || len(fd.Recv.List) != 1 || len(fd.Recv.List[0].Names) != 1 {
		f.changed("method %s has no named receiver", fd.Name.Name)
		return f
	}
	recv := fd.Recv.List[0].Names[0].Name
	if fd.Body == nil {
		f.changed("method %s has no body", fd.Name.Name)
		return f
	}
	params := map[string]bool{}
	if fd.Type.Params != nil {
		for _, fl := range fd.Type.Params.List {
			for _, n := range fl.Names {
				params[n.Name] = true
			}
		}
	}
	// parents, to judge how vm.Base is used
	parent := map[ast.Node]ast.Node{}
	var stack []ast.Node
	ast.Inspect(fd.Body, func(n ast.Node) bool {
		if n == nil {
			stack = stack[:len(stack)-1]
			return true
		}
		if len(stack) > 0 {
			parent[n] = stack[len(stack)-1]
		}
		stack = append(stack, n)
		return true
	})
	ast.Inspect(fd.Body, func(n ast.Node) bool {
		switch t := n.(type) {
		case *ast.AssignStmt:
			for _, l := range t.Lhs {
				f.target(l, recv)
			}
			// aliasing the base or one of its maps defeats the syntactic reading
			for _, r := range t.Rhs {
				if isBase(r, recv) {
					f.changed("%s: vm.Base is copied into a variable", fd.Name.Name)
				}
			}
		case *ast.IncDecStmt:
			f.target(t.X, recv)
		case *ast.CallExpr:
			if id, ok := t.Fun.(*ast.Ident); ok && id.Name == "delete" && len(t.Args) > 0 {
				f.target(t.Args[0], recv)
			}
			sel, ok := t.Fun.(*ast.SelectorExpr)
			if !ok {
				return true
			}
			switch {
			case isBase(sel.X, recv):
				name := sel.Sel.Name
				for _, a := range t.Args {
					if isIdent(a, recv) {
						name += "@self"
						break
					}
				}
				f.baseCalls[name] = true
			case isIdent(sel.X, recv):
				f.selfCalls[sel.Sel.Name] = true
			}
			// parsing: X.Parse…(…) on a parser value (not a method of the VMs themselves)
			if strings.HasPrefix(sel.Sel.Name, "Parse") && !isIdent(sel.X, recv) && !isBase(sel.X, recv) {
				f.parses[sel.Sel.Name] = true
			}
			// evaluating: X.GetValue(ctx)
			if sel.Sel.Name == "GetValue" && len(t.Args) == 1 {
				f.evalCtx[ctxKind(t.Args[0], recv, params)] = true
			}
			// binding a parser clone / a context to the TempVM itself: X.SetVM(vm)
			if sel.Sel.Name == "SetVM" && len(t.Args) == 1 && isIdent(t.Args[0], recv) {
				f.selfCalls["SetVM(self)"] = true
			}
			if sel.Sel.Name == "LoadClass" && len(t.Args) > 0 {
				if p := path(t.Args[len(t.Args)-1]); p == recv+".parser" {
					f.ownLoader = true
				} else {
					f.changed("%s: LoadClass is called with parser %s", fd.Name.Name, p)
				}
			}
		case *ast.SelectorExpr:
			if !isBase(t, recv) {
				return true
			}
			// allowed uses of vm.Base: receiver of a method call, or read of the field `parser`
			p, _ := parent[t].(*ast.SelectorExpr)
			if p == nil || p.X != ast.Expr(t) {
				f.changed("%s: vm.Base is used as a value", fd.Name.Name)
				return true
			}
			if call, ok := parent[p].(*ast.CallExpr); ok && call.Fun == ast.Expr(p) {
				return true
			}
			if p.Sel.Name == "parser" {
				// the base's parser may only be handed to vm.PrepareParse (which clones it and
				// binds the clone to the TempVM)
				how := "other"
				if call, ok := parent[p].(*ast.CallExpr); ok {
					if cs, ok := call.Fun.(*ast.SelectorExpr); ok && cs.Sel.Name == "PrepareParse" && isIdent(cs.X, recv) {
						for _, a := range call.Args {
							if a == ast.Expr(p) {
								how = "PrepareParse"
							}
						}
					}
				}
				f.baseParser[how] = true
				if _, isAssign := parent[p].(*ast.AssignStmt); !isAssign {
					return true
				}
			}
			// any other field of the base reached directly: a write is recorded by target();
			// a read of a definition map is a route the model does not have
			if _, isIdx := parent[p].(*ast.IndexExpr); isIdx {
				if _, isAssign := parent[parent[p]].(*ast.AssignStmt); isAssign {
					return true
				}
			}
			f.changed("%s: field vm.Base.%s is accessed directly", fd.Name.Name, p.Sel.Name)
		}
		return true
	})
	return f
}

// ctxKind classifies the context a program is evaluated in
func ctxKind(e ast.Expr, recv string, params map[string]bool) string {
	switch t := e.(type) {
	case *ast.Ident:
		if params[t.Name] {
			return "param"
		}
	case *ast.CallExpr:
		if sel, ok := t.Fun.(*ast.SelectorExpr); ok && sel.Sel.Name == "CreateContext" {
			if isIdent(sel.X, recv) {
				return "self.CreateContext"
			}
			if isBase(sel.X, recv) {
				return "base.CreateContext"
			}
		}
	}
	return "other"
}

// isRecvParser: <recv>.parser
func isRecvParser(e ast.Expr, recv string) bool {
	s, ok := e.(*ast.SelectorExpr)
	return ok && s.Sel.Name == "parser" && isIdent(s.X, recv)
}

// mentionsRecvParser: the expression is, or clones, <recv>.parser
func mentionsRecvParser(e ast.Expr, recv string) bool {
	found := false
	ast.Inspect(e, func(n ast.Node) bool {
		if x, ok := n.(ast.Expr); ok && isRecvParser(x, recv) {
			found = true
		}
		return !found
	})
	return found
}

// analyseVM: one method of runtime.VM
func analyseVM(fd *ast.FuncDecl) *vmFact {
	f := &vmFact{method: fd.Name.Name, selfCalls: map[string]bool{}}
	if fd.Recv == nil || len(fd.Recv.List) != 1 || len(fd.Recv.List[0].Names) != 1 || fd.Body == nil {
		return f
	}
	recv := fd.Recv.List[0].Names[0].Name
	ast.Inspect(fd.Body, func(n ast.Node) bool {
		call, ok := n.(*ast.CallExpr)
		if !ok {
			return true
		}
		if sel, ok := call.Fun.(*ast.SelectorExpr); ok {
			if isIdent(sel.X, recv) {
				f.selfCalls[sel.Sel.Name] = true
			}
			// vm.parser.Clone() / vm.parser.Parse…(…)
			if isRecvParser(sel.X, recv) && (sel.Sel.Name == "Clone" || strings.HasPrefix(sel.Sel.Name, "Parse")) {
				f.ownParser = true
			}
		}
		// vm.parser (or a clone of it) handed to a call: LoadClass(pkg, vm.parser), parseFileOn(vm, vm.parser.Clone(), …)
		for _, a := range call.Args {
			if mentionsRecvParser(a, recv) {
				f.ownParser = true
			}
		}
		return true
	})
	return f
}

func analyseNew(fd *ast.FuncDecl) *fact {
	f := newFact("NewTempVM")
	found := false
	ast.Inspect(fd.Body, func(n ast.Node) bool {
		cl, ok := n.(*ast.CompositeLit)
		if !ok || !isIdent(cl.Type, "TempVM") {
			return true
		}
		found = true
		for _, el := range cl.Elts {
			kv, ok := el.(*ast.KeyValueExpr)
			if !ok {
				f.changed("NewTempVM: positional composite literal")
				continue
			}
			k, _ := kv.Key.(*ast.Ident)
			if k == nil || !localMaps[k.Name] {
				continue
			}
			call, ok := kv.Value.(*ast.CallExpr)
			if ok && isIdent(call.Fun, "make") {
				f.writesLocal[k.Name] = true
			} else {
				f.changed("NewTempVM: %s is not initialised with a fresh make(map…)", k.Name)
			}
		}
		return true
	})
	if !found {
		f.changed("NewTempVM: no &TempVM{…} literal")
	}
	return f
}

func sorted(m map[string]bool) []string {
	var s []string
	for k := range m {
		s = append(s, k)
	}
	sort.Strings(s)
	return s
}

func leanList(xs []string) string {
	q := make([]string, len(xs))
	for i, x := range xs {
		q[i] = ex.LeanString(x)
	}
	return "[" + strings.Join(q, ", ") + "]"
}

// ---- declaration / use nodes of package node (shared AST: one parsed body is executed through
// every VM that runs code defined on the base VM; state kept on a node is shared by all VMs)

var definingCalls = map[string]bool{"AddFunc": true, "AddClass": true, "AddInterface": true, "SetConstant": true,
	"LoadAndRun": true, "ParseFile": true, "EvalCode": true, "CompileLoad": true}
var resolvingCalls = map[string]bool{"GetFunc": true, "GetClass": true, "GetInterface": true, "GetOrLoadClass": true,
	"GetOrLoadInterface": true, "LoadPkg": true}

type nodeFact struct {
	typ, method  string
	defines      map[string]bool // defining VM methods called
	resolves     map[string]bool // resolving VM methods called
	recvWrites   map[string]bool // fields of the receiver (the AST node) assigned
	globalWrites map[string]bool // package-level variables of package node assigned into
}

func rootIdent(e ast.Expr) (string, string) { // root identifier, first field after it
	field := ""
	for {
		switch t := e.(type) {
		case *ast.Ident:
			return t.Name, field
		case *ast.SelectorExpr:
			field = t.Sel.Name
			e = t.X
		case *ast.IndexExpr:
			e = t.X
		case *ast.StarExpr:
			e = t.X
		case *ast.ParenExpr:
			e = t.X
		default:
			return "", ""
		}
	}
}

func nodeFacts(repo string) ([]*nodeFact, string) {
	_, files, err := ex.ParseDir(repo, "node")
	if err != nil {
		return nil, fmt.Sprintf("cannot parse node/: %v", err)
	}
	var names []string
	for n := range files {
		if !strings.HasSuffix(n, "_test.go") {
			names = append(names, n)
		}
	}
	sort.Strings(names)
	pkgVars := map[string]bool{}
	for _, n := range names {
		for _, d := range files[n].Decls {
			if gd, ok := d.(*ast.GenDecl); ok && gd.Tok == token.VAR {
				for _, sp := range gd.Specs {
					for _, id := range sp.(*ast.ValueSpec).Names {
						pkgVars[id.Name] = true
					}
				}
			}
		}
	}
	var out []*nodeFact
	for _, n := range names {
		for _, d := range files[n].Decls {
			fd, ok := d.(*ast.FuncDecl)
			if !ok || fd.Body == nil {
				continue
			}
			f := &nodeFact{method: fd.Name.Name, defines: map[string]bool{}, resolves: map[string]bool{}, recvWrites: map[string]bool{}, globalWrites: map[string]bool{}}
			recv := ""
			if fd.Recv != nil && len(fd.Recv.List) > 0 {
				f.typ = strings.TrimPrefix(ex.TypeString(fd.Recv.List[0].Type), "*")
				if len(fd.Recv.List[0].Names) > 0 {
					recv = fd.Recv.List[0].Names[0].Name
				}
			}
			locals := map[string]bool{}
			write := func(lhs ast.Expr) {
				root, field := rootIdent(lhs)
				switch {
				case root == "":
				case recv != "" && root == recv && field != "":
					f.recvWrites[field] = true
				case pkgVars[root] && !locals[root]:
					f.globalWrites[root] = true
				}
			}
			ast.Inspect(fd.Body, func(x ast.Node) bool {
				switch t := x.(type) {
				case *ast.AssignStmt:
					for _, l := range t.Lhs {
						if id, ok := l.(*ast.Ident); ok && t.Tok == token.DEFINE {
							locals[id.Name] = true
							continue
						}
						write(l)
					}
				case *ast.IncDecStmt:
					write(t.X)
				case *ast.CallExpr:
					if s, ok := t.Fun.(*ast.SelectorExpr); ok {
						if definingCalls[s.Sel.Name] {
							f.defines[s.Sel.Name] = true
						}
						if resolvingCalls[s.Sel.Name] {
							f.resolves[s.Sel.Name] = true
						}
					}
					if id, ok := t.Fun.(*ast.Ident); ok && id.Name == "delete" && len(t.Args) > 0 {
						write(t.Args[0])
					}
				}
				return true
			})
			if len(f.defines) > 0 || (len(f.resolves) > 0 && (len(f.recvWrites) > 0 || len(f.globalWrites) > 0)) {
				out = append(out, f)
			}
		}
	}
	sort.Slice(out, func(i, j int) bool {
		if out[i].typ != out[j].typ {
			return out[i].typ < out[j].typ
		}
		return out[i].method < out[j].method
	})
	return out, ""
}

func main() {
	a := ex.ParseArgs()
	var facts []*fact
	fset, files, err := ex.ParseDir(a.Repo, "runtime")
	_ = fset
	if err != nil {
		f := newFact("runtime")
		f.changed("cannot parse runtime/: %v", err)
		facts = append(facts, f)
	}
	var names []string
	for n := range files {
		names = append(names, n)
	}
	sort.Strings(names)
	seen := map[string]bool{}
	var vmFacts []*vmFact
	for _, n := range names {
		for _, d := range files[n].Decls {
			fd, ok := d.(*ast.FuncDecl)
			if !ok {
				continue
			}
			if fd.Recv == nil {
				if fd.Name.Name == "NewTempVM" && fd.Body != nil {
					facts = append(facts, analyseNew(fd))
				}
				continue
			}
			if len(fd.Recv.List) == 0 {
				continue
			}
			if strings.TrimPrefix(ex.TypeString(fd.Recv.List[0].Type), "*") == "VM" {
				vmFacts = append(vmFacts, analyseVM(fd))
				continue
			}
			if strings.TrimPrefix(ex.TypeString(fd.Recv.List[0].Type), "*") != "TempVM" {
				continue
			}
			f := analyse(fd)
			if seen[f.method] {
				f.changed("method %s declared twice", f.method)
			}
			seen[f.method] = true
			facts = append(facts, f)
		}
	}
	sort.Slice(facts, func(i, j int) bool { return facts[i].method < facts[j].method })
	var sb strings.Builder
	sb.WriteString("import Model.TempRoutes\nimport Model.TempShared\n")
	sb.WriteString("/-! C12: routing of every `runtime.TempVM` method (source: runtime/*.go, receiver TempVM). -/\n")
	sb.WriteString("namespace Generated.C12TempVm\nopen Model.TempRoutes Model.TempShared\n\n")
	sb.WriteString("def facts : List Fact := [\n")
	for i, f := range facts {
		shape := "none"
		if f.shape != "" {
			shape = "some " + ex.LeanString(f.shape)
		}
		own := "false"
		if f.ownLoader {
			own = "true"
		}
		sets := "false"
		if f.setsParser {
			sets = "true"
		}
		fmt.Fprintf(&sb, "  { method := %s, writesLocal := %s, writesBase := %s,\n    baseCalls := %s, selfCalls := %s, ownLoader := %s, shapeChanged := %s,\n    baseParser := %s, parses := %s, evalCtx := %s, setsParser := %s }",
			ex.LeanString(f.method), leanList(sorted(f.writesLocal)), leanList(sorted(f.writesBase)),
			leanList(sorted(f.baseCalls)), leanList(sorted(f.selfCalls)), own, shape,
			leanList(sorted(f.baseParser)), leanList(sorted(f.parses)), leanList(sorted(f.evalCtx)), sets)
		if i+1 < len(facts) {
			sb.WriteString(",")
		}
		sb.WriteString("\n")
	}
	sb.WriteString("]\n\n")
	sort.Slice(vmFacts, func(i, j int) bool { return vmFacts[i].method < vmFacts[j].method })
	sb.WriteString("/-- every method of `runtime.VM` (the base): does it parse / autoload with the base-bound parser `vm.parser`, which of its own methods does it call -/\n")
	sb.WriteString("def vmFacts : List VmFact := [\n")
	for i, f := range vmFacts {
		own := "false"
		if f.ownParser {
			own = "true"
		}
		fmt.Fprintf(&sb, "  { method := %s, ownParser := %s, selfCalls := %s }", ex.LeanString(f.method), own, leanList(sorted(f.selfCalls)))
		if i+1 < len(vmFacts) {
			sb.WriteString(",")
		}
		sb.WriteString("\n")
	}
	sb.WriteString("]\n\n")
	// least set closed under "uses vm.parser itself or calls a member on itself"
	parsing := map[string]bool{}
	for changed := true; changed; {
		changed = false
		for _, f := range vmFacts {
			if parsing[f.method] {
				continue
			}
			hit := f.ownParser
			for c := range f.selfCalls {
				if parsing[c] {
					hit = true
				}
			}
			if hit {
				parsing[f.method] = true
				changed = true
			}
		}
	}
	sb.WriteString("/-- the methods of the base that parse / autoload with `vm.parser`, directly or through their own methods (checked to be closed by `ParsersBound`) -/\n")
	fmt.Fprintf(&sb, "def vmParsing : List String := %s\n", leanList(sorted(parsing)))
	nfs, nerr := nodeFacts(a.Repo)
	sb.WriteString("\n/-- every function of package `node` that calls a defining VM method (AddFunc, AddClass, AddInterface, SetConstant, LoadAndRun, ParseFile, EvalCode, CompileLoad), or calls a resolving one (GetFunc, GetClass, GetInterface, GetOrLoad…, LoadPkg) and writes state: which fields of its receiver (the AST node, shared by every VM that executes code parsed on the base VM) and which package-level variables it assigns -/\n")
	sb.WriteString("def nodeFacts : List NodeFact := [\n")
	for i, f := range nfs {
		fmt.Fprintf(&sb, "  { typ := %s, method := %s, defines := %s, resolves := %s, recvWrites := %s, globalWrites := %s }",
			ex.LeanString(f.typ), ex.LeanString(f.method), leanList(sorted(f.defines)), leanList(sorted(f.resolves)), leanList(sorted(f.recvWrites)), leanList(sorted(f.globalWrites)))
		if i+1 < len(nfs) {
			sb.WriteString(",")
		}
		sb.WriteString("\n")
	}
	sb.WriteString("]\n")
	if nerr == "" {
		sb.WriteString("def nodeFactsError : Option String := none\n")
	} else {
		fmt.Fprintf(&sb, "def nodeFactsError : Option String := some %s\n", ex.LeanString(nerr))
	}
	sb.WriteString("\nend Generated.C12TempVm\n")
	if err := ex.WriteIfChanged(a.Out, "C12TempVm.lean", sb.String()); err != nil {
		fmt.Fprintln(os.Stderr, err)
		os.Exit(1)
	}
	nshape := 0
	for _, f := range facts {
		if f.shape != "" {
			nshape++
		}
	}
	fmt.Printf("C12TempVm.lean: %d TempVM methods, %d VM methods, %d shapeChanged\n", len(facts), len(vmFacts), nshape)
	_ = token.NoPos
}
