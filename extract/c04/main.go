// Translator for C04: regenerates lean/Generated/C04Precedence.lean from
// parser/expression_parser.go (the chain of parseXxx levels: which operator
// tokens each level tests, whether it loops over the next level (left
// associative) or recurses into itself (right associative), the ternary, the
// prefix operators of parseUnary and its assignment re-entry) and
// parser/lparen_parser.go (which level parses the operand of a cast).
package main

import (
	"fmt"
	"go/ast"
	"os"
	"strings"

	"verif/extract/ex"
)

var shape []string

func bad(s string) { shape = append(shape, s) }

// token.X selectors inside a node
func tokensIn(n ast.Node) []string {
	var out []string
	seen := map[string]bool{}
	ast.Inspect(n, func(m ast.Node) bool {
		if s, ok := m.(*ast.SelectorExpr); ok {
			if id, ok := s.X.(*ast.Ident); ok && id.Name == "token" && !seen[s.Sel.Name] {
				seen[s.Sel.Name] = true
				out = append(out, s.Sel.Name)
			}
		}
		return true
	})
	return out
}

// ep.parseXxx() calls inside a node, in source order
func callsTo(n ast.Node) []string {
	var out []string
	ast.Inspect(n, func(m ast.Node) bool {
		if c, ok := m.(*ast.CallExpr); ok {
			if s, ok := c.Fun.(*ast.SelectorExpr); ok && strings.HasPrefix(s.Sel.Name, "parse") {
				out = append(out, s.Sel.Name)
			}
		}
		return true
	})
	return out
}

type level struct {
	fn, first, shape string
	ops             []string
	sep             string
	reenterFn       string
	reenterOps      []string
}

func main() {
	a := ex.ParseArgs()
	_, f, err := ex.ParseFile(a.Repo, "parser/expression_parser.go")
	if err != nil {
		bad("parser/expression_parser.go: " + err.Error())
	}
	funcs := map[string]*ast.FuncDecl{}
	if f != nil {
		for _, d := range f.Decls {
			if fd, ok := d.(*ast.FuncDecl); ok && fd.Recv != nil {
				funcs[fd.Name.Name] = fd
			}
		}
	}
	// entry: Parse() → return ep.parseAssignment()
	entry := ""
	if p := funcs["Parse"]; p != nil {
		for _, st := range p.Body.List {
			if rs, ok := st.(*ast.ReturnStmt); ok {
				if cs := callsTo(rs); len(cs) == 1 {
					entry = cs[0]
				}
			}
		}
	}
	if entry == "" {
		bad("ExpressionParser.Parse does not return a single ep.parseXxx()")
	}
	var levels []level
	skipped := []string{}
	seen := map[string]bool{}
	cur := entry
	for cur != "" && !seen[cur] && cur != "parsePrimary" {
		seen[cur] = true
		fd := funcs[cur]
		if fd == nil {
			bad("level function not found: " + cur)
			break
		}
		l := level{fn: cur}
		// operand parser = first ep.parseXxx() in an assignment at the top of the body
		for _, st := range fd.Body.List {
			if as, ok := st.(*ast.AssignStmt); ok && l.first == "" {
				if cs := callsTo(as); len(cs) > 0 {
					l.first = cs[0]
				}
			}
		}
		switch cur {
		case "parseUnary":
			// prefix: first `if cur ∈ {…} { … ep.parseUnary() … }`; re-entry: `for ep.checkPositionIs(0, assign ops) { ep.parseAssignment() }`
			l.shape = "prefix"
			for _, st := range fd.Body.List {
				if is, ok := st.(*ast.IfStmt); ok && len(l.ops) == 0 {
					cs := callsTo(is.Body)
					if len(cs) > 0 && cs[0] == cur && len(tokensIn(is.Cond)) > 0 {
						l.ops = tokensIn(is.Cond)
					}
				}
			}
			l.first = ""
			ast.Inspect(fd, func(n ast.Node) bool {
				switch x := n.(type) {
				case *ast.AssignStmt:
					if l.first == "" {
						if cs := callsTo(x); len(cs) == 1 && cs[0] != cur {
							// the first non-recursive operand call outside the prefix branches
							if !within(fd, x, "IfStmtPrefix") {
								l.first = cs[0]
							}
						}
					}
				case *ast.ForStmt:
					if x.Cond != nil {
						toks := tokensIn(x.Cond)
						cs := callsTo(x.Body)
						if len(toks) > 3 && len(cs) > 0 && contains(toks, "ASSIGN") {
							l.reenterFn = cs[0]
							l.reenterOps = toks
						}
					}
				}
				return true
			})
			if len(l.ops) == 0 {
				bad("parseUnary: prefix operator test not found")
			}
			if l.reenterFn == "" {
				bad("parseUnary: assignment re-entry loop not found")
			}
			// the operand after the prefix branches is parsePower
			l.first = "parsePower"
			if !contains(callsTo(fd), "parsePower") {
				bad("parseUnary: does not call parsePower")
			}
		default:
			for _, st := range fd.Body.List {
				switch s := st.(type) {
				case *ast.ForStmt:
					if s.Cond != nil && len(tokensIn(s.Cond)) > 0 && l.shape == "" {
						l.ops = tokensIn(s.Cond)
						rs := callsTo(s.Body)
						right := ""
						if len(rs) > 0 {
							right = rs[len(rs)-1]
							if cur == "parseTerm" {
								right = rs[0]
							}
						}
						switch right {
						case l.first:
							l.shape = "binL"
						case cur:
							l.shape = "binR"
						default:
							bad(cur + ": loop operand parser " + right + " is neither the next level nor the level itself")
						}
					}
				case *ast.IfStmt:
					if len(tokensIn(s.Cond)) > 0 && l.shape == "" && l.first != "" {
						// multi-assignment prelude of parseAssignment tests COMMA first: skip conditions without a recursive/next call
						rs := callsTo(s.Body)
						toks := tokensIn(s.Cond)
						if cur == "parseAssignment" {
							continue
						}
						right := ""
						if len(rs) > 0 {
							right = rs[len(rs)-1]
						}
						if right == cur {
							l.shape = "binR"
							l.ops = toks
						} else if cur == "parseRangeOperand" {
							l.shape = "skip"
							l.ops = toks
						} else {
							bad(cur + ": `if` operand parser " + right + " is not the level itself")
						}
					}
				case *ast.SwitchStmt:
					if l.shape == "" && l.first != "" {
						for _, c := range s.Body.List {
							cc := c.(*ast.CaseClause)
							toks := []string{}
							for _, e := range cc.List {
								toks = append(toks, tokensIn(e)...)
							}
							if contains(toks, "TERNARY") {
								rs := callsTo(cc)
								n := 0
								for _, r := range rs {
									if r == cur {
										n++
									}
								}
								if n >= 2 && contains(tokensIn(cc), "COLON") {
									l.shape = "tern"
									l.ops = []string{"TERNARY"}
									l.sep = "COLON"
								} else {
									bad(cur + ": ternary case does not parse both branches with the level itself")
								}
							}
						}
					}
				}
			}
		}
		if cur == "parseTerm" {
			// isSignedNumberToken is not a token type; keep ADD/SUB only
			var ops []string
			for _, o := range l.ops {
				if o == "ADD" || o == "SUB" {
					ops = append(ops, o)
				}
			}
			l.ops = ops
		}
		if l.shape == "" {
			bad(cur + ": no recognisable operator loop")
			l.shape = "skip"
		}
		if l.shape == "skip" {
			skipped = append(skipped, cur)
		} else {
			levels = append(levels, l)
		}
		cur = l.first
	}
	if cur != "parsePrimary" {
		bad("the level chain does not end in parsePrimary (stopped at " + cur + ")")
	}
	// cast operand parser
	castFn := ""
	if _, lf, err := ex.ParseFile(a.Repo, "parser/lparen_parser.go"); err != nil {
		bad("parser/lparen_parser.go: " + err.Error())
	} else if fd := ex.FuncDecl(lf, "LparenParser", "parseTypeCast"); fd == nil {
		bad("LparenParser.parseTypeCast not found")
	} else {
		cs := callsTo(fd)
		if len(cs) >= 1 {
			castFn = cs[0]
		} else {
			bad("parseTypeCast: no operand parser call")
		}
	}
	// token numbering: the position of a token name in the sorted union (stable ids for Lean); names kept alongside
	names := []string{}
	id := map[string]int{}
	add := func(n string) {
		if _, ok := id[n]; !ok {
			id[n] = len(names)
			names = append(names, n)
		}
	}
	for _, l := range levels {
		for _, o := range l.ops {
			add(o)
		}
		if l.sep != "" {
			add(l.sep)
		}
		for _, o := range l.reenterOps {
			add(o)
		}
	}
	add("CAST")
	var sb strings.Builder
	sb.WriteString("import Model.Prec\nnamespace Generated.C04\nopen Model.Prec\n\n")
	sb.WriteString("/-- operator token names; an operator's id is its index in this list -/\ndef opNames : List String := [")
	for i, n := range names {
		if i > 0 {
			sb.WriteString(", ")
		}
		sb.WriteString(ex.LeanString(n))
	}
	sb.WriteString("]\n\n")
	for _, n := range names {
		fmt.Fprintf(&sb, "def O_%s : Nat := %d\n", n, id[n])
	}
	sb.WriteString("\n/-- the level functions, loosest first -/\ndef levelFns : List String := [")
	for i, l := range levels {
		if i > 0 {
			sb.WriteString(", ")
		}
		sb.WriteString(ex.LeanString(l.fn))
	}
	sb.WriteString("]\n\n")
	reenter := "none"
	castLevel := "none"
	for i, l := range levels {
		if l.fn == castFn {
			castLevel = fmt.Sprintf("some %d", i)
		}
	}
	var reOps []string
	for _, l := range levels {
		if l.shape == "prefix" && l.reenterFn != "" {
			for i, m := range levels {
				if m.fn == l.reenterFn {
					reenter = fmt.Sprintf("some %d", i)
				}
			}
			reOps = l.reenterOps
		}
	}
	sb.WriteString("/-- the precedence table read off `expression_parser.go` (casts are listed with the prefix operators\n    of the level that parses their operand, see `castLevel`) -/\ndef table : Table where\n  levels := [\n")
	for i, l := range levels {
		var ops []string
		for _, o := range l.ops {
			ops = append(ops, fmt.Sprint(id[o]))
		}
		if l.fn == castFn {
			ops = append(ops, fmt.Sprint(id["CAST"]))
		}
		sep := 0
		if l.sep != "" {
			sep = id[l.sep]
		}
		comma := ","
		if i == len(levels)-1 {
			comma = ""
		}
		fmt.Fprintf(&sb, "    { shape := .%s, ops := [%s], sep := %d }%s  -- %d %s %v\n", l.shape, strings.Join(ops, ", "), sep, comma, i, l.fn, l.ops)
	}
	fmt.Fprintf(&sb, "  ]\n  reenter := %s\n\n", reenter)
	fmt.Fprintf(&sb, "/-- level (index) whose function parses the operand of a cast `(type) e` -/\ndef castLevel : Option Nat := %s\ndef castOperandFn : String := %s\n\n", castLevel, ex.LeanString(castFn))
	sb.WriteString("/-- operator tokens tested by the assignment re-entry loop of `parseUnary` -/\ndef reenterOpsSeen : List Nat := [")
	for i, o := range reOps {
		if i > 0 {
			sb.WriteString(", ")
		}
		fmt.Fprint(&sb, id[o])
	}
	sb.WriteString("]\n\n/-- levels of the chain that carry no operator of the property's table (passed through) -/\ndef skippedFns : List String := [")
	for i, s := range skipped {
		if i > 0 {
			sb.WriteString(", ")
		}
		sb.WriteString(ex.LeanString(s))
	}
	sb.WriteString("]\n\ndef shapeChanged : List String := [")
	for i, s := range shape {
		if i > 0 {
			sb.WriteString(", ")
		}
		sb.WriteString(ex.LeanString(s))
	}
	sb.WriteString("]\n\nend Generated.C04\n")
	if err := ex.WriteIfChanged(a.Out, "C04Precedence.lean", sb.String()); err != nil {
		fmt.Fprintln(os.Stderr, err)
		os.Exit(1)
	}
	fmt.Printf("C04Precedence.lean: %d levels, cast operand=%s, skipped=%v, shapeChanged=%d %v\n", len(levels), castFn, skipped, len(shape), shape)
}

func contains(xs []string, x string) bool {
	for _, y := range xs {
		if y == x {
			return true
		}
	}
	return false
}

// within is a placeholder kept for readability of the parseUnary case (the operand after the
// prefix branches is identified by name, see the caller).
func within(fd *ast.FuncDecl, n ast.Node, what string) bool { return false }
