// extract/c02 (part): statement loops and the symbolic execution of their dispatch code.
//
// A *statement loop* is
//
//	for _, st := range <stmts> { v, c = st.GetValue(ctx); <dispatch> }
//
// (also `if v, c = st.GetValue(ctx); c == nil { continue }` as the first statement). For one class of control
// (c == nil, Break, Continue, Return, Throw) the dispatch code is executed symbolically: type assertions and type
// switches on the control are decided from the method sets of the control types (regenerated too), `IsBreak()` /
// `IsContinue()` from the constant they return; Go's own break / continue / goto are bound to the statement they
// really leave. A condition that cannot be decided contributes both branches. The result is the set of ways the
// dispatch code can end: leave / next / restart / propagate / swallow / throwNew / proceed / unknown.
package main

import (
	"go/ast"
	"go/token"
	"sort"
	"strings"
)

type kind int

const (
	kNone kind = iota
	kBreak
	kContinue
	kReturn
	kThrow
)

var kindName = map[kind]string{kNone: "none", kBreak: "break", kContinue: "continue", kReturn: "return", kThrow: "throw"}

// the concrete type that carries each class of control
var kindType = map[kind]string{kBreak: "BreakStatement", kContinue: "ContinueStatement", kReturn: "ReturnValue", kThrow: "ThrowValue"}

type tri int

const (
	tUnknown tri = iota
	tTrue
	tFalse
)

func triOf(b bool) tri {
	if b {
		return tTrue
	}
	return tFalse
}

func (t tri) not() tri {
	switch t {
	case tTrue:
		return tFalse
	case tFalse:
		return tTrue
	}
	return tUnknown
}

// typeInfo: method sets of concrete types and interfaces of packages node and data (by bare name)
type typeInfo struct {
	methods map[string]map[string]bool // concrete type -> method names
	ifaces  map[string][]string        // interface -> explicit method names (embedded known interfaces expanded)
	embeds  map[string][]string
	consts  map[string]map[string]string // type -> method -> "true"/"false" when the body is `return <bool literal>`
}

func newTypeInfo() *typeInfo {
	return &typeInfo{methods: map[string]map[string]bool{}, ifaces: map[string][]string{}, embeds: map[string][]string{}, consts: map[string]map[string]string{}}
}

func (ti *typeInfo) addFile(f *ast.File) {
	for _, d := range f.Decls {
		switch d := d.(type) {
		case *ast.FuncDecl:
			if d.Recv == nil || len(d.Recv.List) == 0 {
				continue
			}
			t := recvTypeName(d)
			if ti.methods[t] == nil {
				ti.methods[t] = map[string]bool{}
			}
			ti.methods[t][d.Name.Name] = true
			if d.Body != nil && len(d.Body.List) == 1 {
				if r, ok := d.Body.List[0].(*ast.ReturnStmt); ok && len(r.Results) == 1 {
					if id, ok := r.Results[0].(*ast.Ident); ok && (id.Name == "true" || id.Name == "false") {
						if ti.consts[t] == nil {
							ti.consts[t] = map[string]string{}
						}
						ti.consts[t][d.Name.Name] = id.Name
					}
				}
			}
		case *ast.GenDecl:
			if d.Tok != token.TYPE {
				continue
			}
			for _, sp := range d.Specs {
				ts := sp.(*ast.TypeSpec)
				it, ok := ts.Type.(*ast.InterfaceType)
				if !ok {
					continue
				}
				ti.ifaces[ts.Name.Name] = []string{}
				for _, m := range it.Methods.List {
					if len(m.Names) == 0 {
						ti.embeds[ts.Name.Name] = append(ti.embeds[ts.Name.Name], bareType(m.Type))
						continue
					}
					for _, n := range m.Names {
						ti.ifaces[ts.Name.Name] = append(ti.ifaces[ts.Name.Name], n.Name)
					}
				}
			}
		}
	}
}

// all methods an interface demands; embedded interfaces that are not declared in node/data (or are the root
// interfaces every control value implements: Control, Value, GetValue) demand nothing here
func (ti *typeInfo) demands(name string, seen map[string]bool) ([]string, bool) {
	ms, ok := ti.ifaces[name]
	if !ok {
		return nil, false
	}
	if seen[name] {
		return nil, true
	}
	seen[name] = true
	out := append([]string{}, ms...)
	for _, e := range ti.embeds[name] {
		if e == "Control" || e == "Value" || e == "GetValue" {
			continue
		}
		if more, ok := ti.demands(e, seen); ok {
			out = append(out, more...)
		}
	}
	return out, true
}

// does the control value of class k satisfy a type assertion to typ (source text of the asserted type)
func (ti *typeInfo) implements(k kind, typ string) tri {
	if k == kNone {
		return tFalse // an assertion on a nil interface value fails
	}
	ptr := strings.HasPrefix(typ, "*")
	name := strings.TrimPrefix(typ, "*")
	if i := strings.LastIndex(name, "."); i >= 0 {
		name = name[i+1:]
	}
	conc := kindType[k]
	if ptr {
		if _, known := ti.methods[name]; !known {
			return tUnknown
		}
		return triOf(name == conc)
	}
	if name == "Control" || name == "Value" || name == "GetValue" {
		return tTrue
	}
	need, ok := ti.demands(name, map[string]bool{})
	if !ok {
		return tUnknown
	}
	have := ti.methods[conc]
	if have == nil {
		return tUnknown
	}
	for _, m := range need {
		if !have[m] {
			return tFalse
		}
	}
	return tTrue
}

func bareType(e ast.Expr) string {
	switch t := e.(type) {
	case *ast.Ident:
		return t.Name
	case *ast.SelectorExpr:
		return t.Sel.Name
	case *ast.StarExpr:
		return bareType(t.X)
	}
	return ""
}

func recvTypeName(d *ast.FuncDecl) string {
	if d.Recv == nil || len(d.Recv.List) == 0 {
		return ""
	}
	return bareType(d.Recv.List[0].Type)
}

func recvVarName(d *ast.FuncDecl) string {
	if d.Recv == nil || len(d.Recv.List) == 0 || len(d.Recv.List[0].Names) == 0 {
		return ""
	}
	return d.Recv.List[0].Names[0].Name
}

func fnName(d *ast.FuncDecl) string {
	if t := recvTypeName(d); t != "" {
		return t + "." + d.Name.Name
	}
	return d.Name.Name
}

// ---------------------------------------------------------------- statement loops

type stmtLoop struct {
	fn       *ast.FuncDecl
	rng      *ast.RangeStmt
	valueVar string
	ctlVar   string
	source   *ast.AssignStmt // `v, c = st.GetValue(ctx)`
	dispatch []ast.Stmt
	path     []ast.Node // ancestors, outermost first (the function body is path[0]); rng is not included
	label    string     // label of the range statement, if any
}

func ident(e ast.Expr) string {
	if id, ok := e.(*ast.Ident); ok {
		return id.Name
	}
	return ""
}

// `a, c = <v>.GetValue(…)` / `:=`
func getValueAssign(s ast.Stmt, v string) (*ast.AssignStmt, string) {
	as, ok := s.(*ast.AssignStmt)
	if !ok || len(as.Lhs) != 2 || len(as.Rhs) != 1 {
		return nil, ""
	}
	call, ok := as.Rhs[0].(*ast.CallExpr)
	if !ok {
		return nil, ""
	}
	sel, ok := call.Fun.(*ast.SelectorExpr)
	if !ok || sel.Sel.Name != "GetValue" || ident(sel.X) != v {
		return nil, ""
	}
	c := ident(as.Lhs[1])
	if c == "" || c == "_" {
		return nil, ""
	}
	return as, c
}

// walk with an ancestor stack
func walkPath(root ast.Node, visit func(n ast.Node, path []ast.Node) bool) {
	var stack []ast.Node
	ast.Inspect(root, func(n ast.Node) bool {
		if n == nil {
			stack = stack[:len(stack)-1]
			return false
		}
		ok := visit(n, stack)
		if ok {
			stack = append(stack, n)
		}
		return ok
	})
}

func findStmtLoops(fn *ast.FuncDecl) []*stmtLoop {
	var out []*stmtLoop
	if fn.Body == nil {
		return nil
	}
	walkPath(fn.Body, func(n ast.Node, path []ast.Node) bool {
		rng, ok := n.(*ast.RangeStmt)
		if !ok || rng.Value == nil || len(rng.Body.List) == 0 {
			return true
		}
		v := ident(rng.Value)
		if v == "" || v == "_" {
			return true
		}
		first := rng.Body.List[0]
		l := &stmtLoop{fn: fn, rng: rng, valueVar: v, path: append([]ast.Node{}, path...)}
		if as, c := getValueAssign(first, v); as != nil {
			l.source, l.ctlVar, l.dispatch = as, c, rng.Body.List[1:]
		} else if is, ok := first.(*ast.IfStmt); ok && is.Init != nil {
			if as, c := getValueAssign(is.Init, v); as != nil {
				l.source, l.ctlVar, l.dispatch = as, c, rng.Body.List
			}
		}
		if l.source == nil {
			return true
		}
		if len(path) > 0 {
			if ls, ok := path[len(path)-1].(*ast.LabeledStmt); ok {
				l.label = ls.Label.Name
			}
		}
		out = append(out, l)
		return true
	})
	return out
}

// the loop (or function literal) the statement loop is nested in, with its label
func (l *stmtLoop) enclosing() (ast.Node, string) {
	for i := len(l.path) - 1; i >= 0; i-- {
		switch n := l.path[i].(type) {
		case *ast.ForStmt, *ast.RangeStmt:
			lab := ""
			if i > 0 {
				if ls, ok := l.path[i-1].(*ast.LabeledStmt); ok {
					lab = ls.Label.Name
				}
			}
			return n, lab
		case *ast.FuncLit:
			return n, ""
		}
	}
	return nil, ""
}

// ---------------------------------------------------------------- symbolic execution

type env struct {
	aliases map[string]bool // identifiers that hold the control
	oks     map[string]tri  // boolean identifiers with a known value
}

func (e env) clone() env {
	n := env{aliases: map[string]bool{}, oks: map[string]tri{}}
	for k, v := range e.aliases {
		n.aliases[k] = v
	}
	for k, v := range e.oks {
		n.oks[k] = v
	}
	return n
}

type set map[string]bool

func (s set) add(o set) {
	for k := range o {
		s[k] = true
	}
}

type executor struct {
	x        *extractor
	k        kind
	loop     *stmtLoop
	outer    ast.Node
	outerLab string
	ctlIdx   int // index of the data.Control result of the enclosing function (-1: none)
	doneIdx  int // index of a bool result beside it (runSwitchBody), -1: none
	nRes     int
	why      []string
}

func (e *executor) unknown(format string, n ast.Node) set {
	e.why = append(e.why, format+": "+e.x.src(n))
	return set{"unknown": true}
}

func (e *executor) block(list []ast.Stmt, en env) set {
	res := set{}
	for _, s := range list {
		r := e.stmt(s, en)
		for o := range r {
			if o != "fall" {
				res[o] = true
			}
		}
		if !r["fall"] {
			return res
		}
	}
	res["fall"] = true
	return res
}

func (e *executor) isCtl(en env, x ast.Expr) bool {
	n := ident(x)
	return n != "" && (n == e.loop.ctlVar || en.aliases[n])
}

// `a, ok := <control>.(T)` updates the environment; any other definition forgets what was known of its names
func (e *executor) assign(as *ast.AssignStmt, en env) set {
	if as == e.loop.source {
		return set{"fall": true}
	}
	for _, l := range as.Lhs {
		if n := ident(l); n != "" && (n == e.loop.ctlVar || en.aliases[n]) && as.Tok == token.ASSIGN {
			return e.unknown("the control variable is assigned", as)
		}
	}
	if len(as.Lhs) == 2 && len(as.Rhs) == 1 {
		if ta, ok := as.Rhs[0].(*ast.TypeAssertExpr); ok && ta.Type != nil && e.isCtl(en, ta.X) {
			r := e.x.ti.implements(e.k, e.x.src(ta.Type))
			if a := ident(as.Lhs[0]); a != "" && a != "_" {
				en.aliases[a] = true
				delete(en.oks, a)
			}
			if o := ident(as.Lhs[1]); o != "" && o != "_" {
				delete(en.aliases, o)
				en.oks[o] = r
			}
			return set{"fall": true}
		}
	}
	for _, l := range as.Lhs {
		if n := ident(l); n != "" {
			if as.Tok == token.DEFINE {
				delete(en.aliases, n)
			}
			en.oks[n] = tUnknown
			if len(as.Rhs) == len(as.Lhs) {
				continue
			}
		}
	}
	if len(as.Lhs) == len(as.Rhs) {
		for i, l := range as.Lhs {
			if n := ident(l); n != "" {
				if v := ident(as.Rhs[i]); v == "true" || v == "false" {
					en.oks[n] = triOf(v == "true")
				}
			}
		}
	}
	return set{"fall": true}
}

func (e *executor) eval(x ast.Expr, en env) tri {
	switch t := x.(type) {
	case *ast.ParenExpr:
		return e.eval(t.X, en)
	case *ast.Ident:
		if t.Name == "true" {
			return tTrue
		}
		if t.Name == "false" {
			return tFalse
		}
		if v, ok := en.oks[t.Name]; ok {
			return v
		}
	case *ast.UnaryExpr:
		if t.Op == token.NOT {
			return e.eval(t.X, en).not()
		}
	case *ast.BinaryExpr:
		switch t.Op {
		case token.LAND:
			a, b := e.eval(t.X, en), e.eval(t.Y, en)
			if a == tFalse || b == tFalse {
				return tFalse
			}
			if a == tTrue && b == tTrue {
				return tTrue
			}
		case token.LOR:
			a, b := e.eval(t.X, en), e.eval(t.Y, en)
			if a == tTrue || b == tTrue {
				return tTrue
			}
			if a == tFalse && b == tFalse {
				return tFalse
			}
		case token.EQL, token.NEQ:
			var other ast.Expr
			if e.isCtl(en, t.X) {
				other = t.Y
			} else if e.isCtl(en, t.Y) {
				other = t.X
			}
			if other != nil && ident(other) == "nil" {
				isNil := e.k == kNone
				if t.Op == token.EQL {
					return triOf(isNil)
				}
				return triOf(!isNil)
			}
		}
	case *ast.CallExpr:
		// <control>.IsBreak() / .IsContinue(): the constant the concrete type returns
		if sel, ok := t.Fun.(*ast.SelectorExpr); ok && len(t.Args) == 0 && e.isCtl(en, sel.X) && e.k != kNone {
			if c, ok := e.x.ti.consts[kindType[e.k]][sel.Sel.Name]; ok {
				return triOf(c == "true")
			}
		}
	}
	return tUnknown
}

func containsJump(n ast.Node) bool {
	found := false
	ast.Inspect(n, func(m ast.Node) bool {
		switch b := m.(type) {
		case *ast.FuncLit:
			return false
		case *ast.ReturnStmt:
			found = true
		case *ast.BranchStmt:
			if b.Tok == token.GOTO || b.Label != nil {
				found = true
			}
		}
		return !found
	})
	return found
}

func (e *executor) stmt(s ast.Stmt, en env) set {
	switch t := s.(type) {
	case nil:
		return set{"fall": true}
	case *ast.BlockStmt:
		return e.block(t.List, en.clone())
	case *ast.LabeledStmt:
		return e.stmt(t.Stmt, en)
	case *ast.EmptyStmt, *ast.ExprStmt, *ast.IncDecStmt:
		return set{"fall": true}
	case *ast.DeclStmt:
		if gd, ok := t.Decl.(*ast.GenDecl); ok {
			for _, sp := range gd.Specs {
				if vs, ok := sp.(*ast.ValueSpec); ok {
					for _, n := range vs.Names {
						delete(en.aliases, n.Name)
						delete(en.oks, n.Name)
					}
				}
			}
		}
		return set{"fall": true}
	case *ast.AssignStmt:
		return e.assign(t, en)
	case *ast.IfStmt:
		in := en.clone()
		if t.Init != nil {
			if r := e.stmt(t.Init, in); !r["fall"] || len(r) > 1 {
				return r
			}
		}
		switch e.eval(t.Cond, in) {
		case tTrue:
			return e.block(t.Body.List, in.clone())
		case tFalse:
			if t.Else == nil {
				return set{"fall": true}
			}
			return e.stmt(t.Else, in.clone())
		}
		r := e.block(t.Body.List, in.clone())
		if t.Else == nil {
			r["fall"] = true
		} else {
			r.add(e.stmt(t.Else, in.clone()))
		}
		return r
	case *ast.TypeSwitchStmt:
		return e.typeSwitch(t, en)
	case *ast.SwitchStmt:
		return e.exprSwitch(t, en)
	case *ast.ReturnStmt:
		return e.ret(t, en)
	case *ast.BranchStmt:
		return e.branch(t)
	case *ast.ForStmt, *ast.RangeStmt, *ast.SelectStmt, *ast.DeferStmt, *ast.GoStmt:
		if containsJump(t) {
			return e.unknown("a nested loop with a jump in the dispatch code", t)
		}
		return set{"fall": true}
	}
	return e.unknown("statement not understood", s)
}

func (e *executor) clauseBodies(body *ast.BlockStmt, en env, pickFrom int, withDefault bool) set {
	// union of the clauses from pickFrom on (undecided), plus falling through the switch when there is no default
	r := set{}
	hasDefault := false
	for i, c := range body.List {
		cc := c.(*ast.CaseClause)
		if cc.List == nil {
			hasDefault = true
			r.add(e.block(cc.Body, en.clone()))
			continue
		}
		if i >= pickFrom {
			r.add(e.block(cc.Body, en.clone()))
		}
	}
	if !hasDefault {
		r["fall"] = true
	}
	return r
}

func leaveSwitch(r set) set {
	if r["brk"] {
		delete(r, "brk")
		r["fall"] = true
	}
	return r
}

func (e *executor) typeSwitch(t *ast.TypeSwitchStmt, en env) set {
	in := en.clone()
	if t.Init != nil {
		e.stmt(t.Init, in)
	}
	var operand ast.Expr
	bound := ""
	switch a := t.Assign.(type) {
	case *ast.AssignStmt:
		if len(a.Lhs) == 1 && len(a.Rhs) == 1 {
			bound = ident(a.Lhs[0])
			if ta, ok := a.Rhs[0].(*ast.TypeAssertExpr); ok {
				operand = ta.X
			}
		}
	case *ast.ExprStmt:
		if ta, ok := a.X.(*ast.TypeAssertExpr); ok {
			operand = ta.X
		}
	}
	if operand == nil || !e.isCtl(in, operand) {
		// a switch on something else: every clause is possible
		return leaveSwitch(e.clauseBodies(t.Body, in, 0, true))
	}
	if bound != "" && bound != "_" {
		in.aliases[bound] = true
	}
	var deflt *ast.CaseClause
	for i, c := range t.Body.List {
		cc := c.(*ast.CaseClause)
		if cc.List == nil {
			deflt = cc
			continue
		}
		for _, ty := range cc.List {
			var r tri
			if ident(ty) == "nil" {
				r = triOf(e.k == kNone)
			} else {
				r = e.x.ti.implements(e.k, e.x.src(ty))
			}
			if r == tTrue {
				return leaveSwitch(e.block(cc.Body, in.clone()))
			}
			if r == tUnknown {
				e.why = append(e.why, "type "+e.x.src(ty)+" not known for a "+kindName[e.k]+" control")
				return leaveSwitch(e.clauseBodies(t.Body, in, i, true))
			}
		}
	}
	if deflt != nil {
		return leaveSwitch(e.block(deflt.Body, in.clone()))
	}
	return set{"fall": true}
}

func (e *executor) exprSwitch(t *ast.SwitchStmt, en env) set {
	in := en.clone()
	if t.Init != nil {
		e.stmt(t.Init, in)
	}
	if t.Tag == nil {
		var deflt *ast.CaseClause
		decided := true
		for i, c := range t.Body.List {
			cc := c.(*ast.CaseClause)
			if cc.List == nil {
				deflt = cc
				continue
			}
			v := tFalse
			for _, x := range cc.List {
				switch e.eval(x, in) {
				case tTrue:
					v = tTrue
				case tUnknown:
					if v != tTrue {
						v = tUnknown
					}
				}
				if v == tTrue {
					break
				}
			}
			if v == tTrue {
				return leaveSwitch(e.block(cc.Body, in.clone()))
			}
			if v == tUnknown {
				decided = false
				return leaveSwitch(e.clauseBodies(t.Body, in, i, true))
			}
		}
		if decided {
			if deflt != nil {
				return leaveSwitch(e.block(deflt.Body, in.clone()))
			}
			return set{"fall": true}
		}
	}
	return leaveSwitch(e.clauseBodies(t.Body, in, 0, true))
}

func (e *executor) ret(r *ast.ReturnStmt, en env) set {
	if e.ctlIdx < 0 || len(r.Results) != e.nRes {
		return e.unknown("return without a recognisable control result", r)
	}
	c := r.Results[e.ctlIdx]
	done := ""
	if e.doneIdx >= 0 {
		done = ident(r.Results[e.doneIdx])
		if done != "true" && done != "false" {
			return e.unknown("return with an undecided `done`", r)
		}
	}
	if ident(c) == "nil" {
		if done == "false" {
			return set{"next": true}
		}
		return set{"leave": true}
	}
	if e.isCtl(en, c) {
		if done == "false" {
			return e.unknown("a control returned with done == false", r)
		}
		return set{"propagate": true}
	}
	if call, ok := c.(*ast.CallExpr); ok {
		for _, a := range call.Args {
			if e.isCtl(en, a) {
				return set{"propagate": true}
			}
		}
		name := ""
		switch f := call.Fun.(type) {
		case *ast.Ident:
			name = f.Name
		case *ast.SelectorExpr:
			name = f.Sel.Name
		}
		if strings.Contains(name, "NewErrorThrow") || strings.HasPrefix(name, "NewThrow") {
			return set{"throwNew": true}
		}
	}
	return e.unknown("return of something else than nil / the control / a new throw", r)
}

func (e *executor) branch(b *ast.BranchStmt) set {
	lab := ""
	if b.Label != nil {
		lab = b.Label.Name
	}
	switch b.Tok {
	case token.BREAK:
		if lab == "" {
			return set{"brk": true}
		}
		if lab == e.loop.label {
			return set{"next": true}
		}
		if e.outer != nil && lab == e.outerLab {
			return set{"leave": true}
		}
	case token.CONTINUE:
		if lab == "" {
			return set{"cnt": true}
		}
		if lab == e.loop.label {
			return set{"cnt!": true}
		}
		if e.outer != nil && lab == e.outerLab {
			return set{"restart": true}
		}
	case token.GOTO:
		// a label on the statement right behind the statement loop: "next"; if that is the (empty) end of the
		// enclosing loop's body: the next iteration starts at once
		if len(e.loop.path) > 0 {
			var self ast.Node = e.loop.rng
			parent := e.loop.path[len(e.loop.path)-1]
			if ls, ok := parent.(*ast.LabeledStmt); ok && len(e.loop.path) > 1 {
				self, parent = ls, e.loop.path[len(e.loop.path)-2]
			}
			if blk, ok := parent.(*ast.BlockStmt); ok {
				for i, s := range blk.List {
					if s == self && i+1 < len(blk.List) {
						if ls, ok := blk.List[i+1].(*ast.LabeledStmt); ok && ls.Label.Name == lab {
							_, empty := ls.Stmt.(*ast.EmptyStmt)
							if empty && i+2 == len(blk.List) && e.outer != nil && bodyOf(e.outer) == blk {
								return set{"restart": true}
							}
							return set{"next": true}
						}
					}
				}
			}
		}
	}
	return e.unknown("jump not understood", b)
}

func bodyOf(n ast.Node) *ast.BlockStmt {
	switch t := n.(type) {
	case *ast.ForStmt:
		return t.Body
	case *ast.RangeStmt:
		return t.Body
	case *ast.FuncLit:
		return t.Body
	}
	return nil
}

// results of the function (or function literal) the loop is directly in
func (l *stmtLoop) resultTypes(x *extractor) []string {
	var ft *ast.FuncType = l.fn.Type
	for i := len(l.path) - 1; i >= 0; i-- {
		if fl, ok := l.path[i].(*ast.FuncLit); ok {
			ft = fl.Type
			break
		}
	}
	var out []string
	if ft.Results == nil {
		return out
	}
	for _, f := range ft.Results.List {
		n := len(f.Names)
		if n == 0 {
			n = 1
		}
		for i := 0; i < n; i++ {
			out = append(out, x.src(f.Type))
		}
	}
	return out
}

type dispatchFacts struct {
	noneProceeds bool
	arms         map[kind][]string
	why          []string
}

func (x *extractor) dispatchOf(l *stmtLoop) dispatchFacts {
	res := l.resultTypes(x)
	ctlIdx, doneIdx := -1, -1
	for i, t := range res {
		if t == "data.Control" || t == "Control" {
			ctlIdx = i
		}
		if t == "bool" && len(res) == 3 {
			doneIdx = i
		}
	}
	outer, outerLab := l.enclosing()
	if _, isLit := outer.(*ast.FuncLit); isLit {
		outer = nil
	}
	df := dispatchFacts{arms: map[kind][]string{}}
	for _, k := range []kind{kNone, kBreak, kContinue, kReturn, kThrow} {
		e := &executor{x: x, k: k, loop: l, outer: outer, outerLab: outerLab, ctlIdx: ctlIdx, doneIdx: doneIdx, nRes: len(res)}
		en := env{aliases: map[string]bool{}, oks: map[string]tri{}}
		r := e.block(l.dispatch, en)
		outs := set{}
		for o := range r {
			switch o {
			case "fall", "cnt", "cnt!":
				if k == kNone {
					outs["proceed"] = true
				} else {
					outs["swallow"] = true
				}
			case "brk":
				outs["next"] = true
			default:
				outs[o] = true
			}
		}
		var list []string
		for o := range outs {
			list = append(list, o)
		}
		sort.Strings(list)
		if k == kNone {
			df.noneProceeds = len(list) == 1 && list[0] == "proceed"
			if !df.noneProceeds {
				df.why = append(df.why, fnName(l.fn)+": with no control the dispatch code ends in "+strings.Join(list, "/"))
			}
		} else {
			df.arms[k] = list
		}
		for _, w := range e.why {
			df.why = append(df.why, fnName(l.fn)+" ("+kindName[k]+"): "+w)
		}
	}
	return df
}
