// extract/c02: regenerates lean/Generated/C02Shapes.lean from node/*.go and data/*.go — the facts about the
// control-flow nodes that Model.Ctl's hand-written node rules rest on (Model.CtlShape gives them their meaning,
// Proofs/Properties/C02.lean states the obligations):
//
//   loops        WhileStatement / DoWhileStatement / ForStatement (every method of the type that contains a statement
//                loop): the phases of one iteration (top-level statements of the enclosing `for { … }`: condition, body,
//                increments, other), whether the condition phase leaves the loop, the arms of the dispatch code for
//                Break / Continue / Return / Throw / no control (dispatch.go), statements in front of the loop that can
//                leave the function by another way than handing on a control (a specialised early path), and the type
//                assertions the node makes on its own fields;
//   foreach      every statement loop in a method of ForeachStatement with what it is nested in and its arms;
//   switchBody   runSwitchBody's arms; callBody: FunctionStatement.Call's arms; blocks: the statement loops of
//                IfStatement / MatchArm / MatchStatement (every control must go up);
//   scans        the clause loops of IfStatement (ElseIf), MatchStatement (Arms), SwitchStatement (Cases): forward range,
//                is the test under `if !matched`, does the branch that handles a successful test leave the scan;
//   store        data/static_locals.go: container type, "already there → return" guard of Init, every statement of Init
//                that touches the container (insert at the key / grow keeping the cells / grow dropping them / overwrite
//                / delete / clear), writes elsewhere; node/var.go: the static statement hands one index to Init, Cell and
//                SetIndexZVal, binds the slot on every execution, and calls Init only under "no cell yet" (either guard
//                is enough for "a cell is created once");
//   forCtor      NewForStatement: element rewrites of its parameters (VarPostIncr → VarStmtIncr, copied fields) and which
//                parameter is stored in which field; boolTests: the types with a testBool method and whether their
//                GetValue goes through it; controls: IsBreak / IsContinue constants of BreakStatement / ContinueStatement.
//
// go/ast only; nothing is executed. shapeNotes: a named thing was not found at all. unknownWhy: why an arm is `unknown`
// (informational; the obligations speak about the arms).
package main

import (
	"bytes"
	"fmt"
	"go/ast"
	"go/parser"
	"go/printer"
	"go/token"
	"os"
	"path/filepath"
	"sort"
	"strings"

	"verif/extract/ex"
)

type extractor struct {
	fset  *token.FileSet
	node  map[string]*ast.File
	data  map[string]*ast.File
	ti    *typeInfo
	notes []string
	why   []string
}

func (x *extractor) src(n ast.Node) string {
	var buf bytes.Buffer
	printer.Fprint(&buf, x.fset, n)
	s := strings.Join(strings.Fields(buf.String()), " ")
	if len(s) > 140 {
		s = s[:140] + "…"
	}
	return s
}

func (x *extractor) note(format string, a ...any) { x.notes = append(x.notes, fmt.Sprintf(format, a...)) }

// all non-test files of one package directory, in one shared file set
func parseDir(fset *token.FileSet, repo, rel string) (map[string]*ast.File, error) {
	pkgs, err := parser.ParseDir(fset, filepath.Join(repo, rel), func(fi os.FileInfo) bool {
		return !strings.HasSuffix(fi.Name(), "_test.go")
	}, 0)
	if err != nil {
		return nil, err
	}
	files := map[string]*ast.File{}
	for _, p := range pkgs {
		for name, f := range p.Files {
			files[filepath.Base(name)] = f
		}
	}
	return files, nil
}

func sortedFiles(m map[string]*ast.File) []string {
	var names []string
	for n := range m {
		names = append(names, n)
	}
	sort.Strings(names)
	return names
}

// functions / methods of package node, in file then source order
func (x *extractor) nodeFuncs() []*ast.FuncDecl {
	var out []*ast.FuncDecl
	for _, n := range sortedFiles(x.node) {
		for _, d := range x.node[n].Decls {
			if fd, ok := d.(*ast.FuncDecl); ok && fd.Body != nil {
				out = append(out, fd)
			}
		}
	}
	return out
}

func (x *extractor) methodsOf(typ string) []*ast.FuncDecl {
	var out []*ast.FuncDecl
	for _, fd := range x.nodeFuncs() {
		if recvTypeName(fd) == typ {
			out = append(out, fd)
		}
	}
	return out
}

func (x *extractor) funcNamed(name string) *ast.FuncDecl {
	for _, fd := range x.nodeFuncs() {
		if fnName(fd) == name {
			return fd
		}
	}
	return nil
}

// ---------------------------------------------------------------- loops

type loopFacts struct {
	fn             string
	phases         []string
	condFalseExits bool
	d              dispatchFacts
	preExits       []string
	asserts        [][2]string
}

// does n mention <recv>.<field> (field "" = any field)
func mentionsField(n ast.Node, recv, field string) bool {
	found := false
	ast.Inspect(n, func(m ast.Node) bool {
		if se, ok := m.(*ast.SelectorExpr); ok && ident(se.X) == recv && (field == "" || se.Sel.Name == field) {
			found = true
		}
		return !found
	})
	return found
}

func containsCall(n ast.Node, method string) bool {
	found := false
	ast.Inspect(n, func(m ast.Node) bool {
		if c, ok := m.(*ast.CallExpr); ok {
			if se, ok := c.Fun.(*ast.SelectorExpr); ok && se.Sel.Name == method {
				found = true
			}
		}
		return !found
	})
	return found
}

// an unlabelled `break` that leaves `loop` (not captured by a nested loop / switch / select), or a labelled one
func breaksOut(n ast.Node, label string) bool {
	found := false
	var walk func(m ast.Node, captured bool)
	walk = func(m ast.Node, captured bool) {
		ast.Inspect(m, func(c ast.Node) bool {
			if c == nil || found {
				return false
			}
			switch t := c.(type) {
			case *ast.FuncLit:
				return false
			case *ast.ForStmt, *ast.RangeStmt, *ast.SwitchStmt, *ast.TypeSwitchStmt, *ast.SelectStmt:
				if c != m {
					walk(c, true)
					return false
				}
			case *ast.BranchStmt:
				if t.Tok == token.BREAK {
					if t.Label == nil && !captured {
						found = true
					}
					if t.Label != nil && label != "" && t.Label.Name == label {
						found = true
					}
				}
			}
			return true
		})
	}
	walk(n, false)
	return found
}

// returns inside n (not in function literals)
func returnsIn(n ast.Node) []*ast.ReturnStmt {
	var out []*ast.ReturnStmt
	ast.Inspect(n, func(m ast.Node) bool {
		switch t := m.(type) {
		case *ast.FuncLit:
			return false
		case *ast.ReturnStmt:
			out = append(out, t)
		}
		return true
	})
	return out
}

func header(x *extractor, s ast.Stmt) string {
	switch t := s.(type) {
	case *ast.IfStmt:
		h := "if "
		if t.Init != nil {
			h += x.src(t.Init) + "; "
		}
		return h + x.src(t.Cond)
	case *ast.ForStmt, *ast.RangeStmt, *ast.SwitchStmt, *ast.TypeSwitchStmt:
		full := x.src(s)
		if i := strings.Index(full, "{"); i > 0 {
			return strings.TrimSpace(full[:i])
		}
		return full
	}
	return x.src(s)
}

func (x *extractor) loopFactsOf(typ string) []loopFacts {
	var out []loopFacts
	methods := x.methodsOf(typ)
	// type assertions on the node's own fields, in all methods of the type
	var asserts [][2]string
	seenA := map[[2]string]bool{}
	for _, fd := range methods {
		recv := recvVarName(fd)
		ast.Inspect(fd.Body, func(n ast.Node) bool {
			ta, ok := n.(*ast.TypeAssertExpr)
			if !ok || ta.Type == nil {
				return true
			}
			var base ast.Expr = ta.X
			for {
				if ie, ok := base.(*ast.IndexExpr); ok {
					base = ie.X
					continue
				}
				break
			}
			if se, ok := base.(*ast.SelectorExpr); ok && ident(se.X) == recv && recv != "" {
				a := [2]string{se.Sel.Name, x.src(ta.Type)}
				if !seenA[a] {
					seenA[a] = true
					asserts = append(asserts, a)
				}
			}
			return true
		})
	}
	for _, fd := range methods {
		recv := recvVarName(fd)
		for _, l := range findStmtLoops(fd) {
			lf := loopFacts{fn: fnName(fd), asserts: asserts}
			lf.d = x.dispatchOf(l)
			x.why = append(x.why, lf.d.why...)
			outer, outerLab := l.enclosing()
			fs, isFor := outer.(*ast.ForStmt)
			direct := false
			if isFor && fs.Init == nil && fs.Cond == nil && fs.Post == nil {
				// the statement loop must be a top-level statement of the outer loop
				for _, s := range fs.Body.List {
					if s == ast.Stmt(l.rng) {
						direct = true
					}
					if ls, ok := s.(*ast.LabeledStmt); ok && ls.Stmt == ast.Stmt(l.rng) {
						direct = true
					}
				}
			}
			if !direct {
				lf.phases = []string{"other"}
				if outer != nil {
					x.why = append(x.why, fmt.Sprintf("%s: the statement loop is not a top-level statement of a plain `for { … }` (it is in `%s`)", lf.fn, header(x, outer.(ast.Stmt))))
				} else {
					x.why = append(x.why, fmt.Sprintf("%s: the statement loop is in no loop", lf.fn))
				}
				out = append(out, lf)
				continue
			}
			for _, s := range fs.Body.List {
				inner := s
				if ls, ok := s.(*ast.LabeledStmt); ok {
					inner = ls.Stmt
				}
				switch t := inner.(type) {
				case *ast.RangeStmt:
					if t == l.rng {
						lf.phases = append(lf.phases, "body")
						continue
					}
					if mentionsField(t.X, recv, "Increments") && containsCall(t.Body, "GetValue") {
						lf.phases = append(lf.phases, "incr")
						continue
					}
					if containsCall(t.Body, "GetValue") || containsJump(t) {
						lf.phases = append(lf.phases, "other")
						x.why = append(x.why, fmt.Sprintf("%s: phase not understood: %s", lf.fn, header(x, t)))
					}
				case *ast.IfStmt:
					if mentionsField(t, recv, "Condition") {
						lf.phases = append(lf.phases, "cond")
						if breaksOut(t, outerLab) {
							lf.condFalseExits = true
						}
						continue
					}
					if mentionsField(t, recv, "") && (containsCall(t, "GetValue") || containsJump(t) || breaksOut(t, outerLab)) {
						lf.phases = append(lf.phases, "other")
						x.why = append(x.why, fmt.Sprintf("%s: phase not understood: %s", lf.fn, header(x, t)))
					} else if containsJump(t) || breaksOut(t, outerLab) {
						lf.phases = append(lf.phases, "other")
						x.why = append(x.why, fmt.Sprintf("%s: phase not understood: %s", lf.fn, header(x, t)))
					}
				case *ast.ExprStmt, *ast.DeclStmt, *ast.EmptyStmt, *ast.IncDecStmt:
					// a call such as checkTimeLimit(…), a declaration: no phase
				case *ast.AssignStmt:
					if containsCall(t, "GetValue") {
						lf.phases = append(lf.phases, "other")
						x.why = append(x.why, fmt.Sprintf("%s: phase not understood: %s", lf.fn, x.src(t)))
					}
				default:
					lf.phases = append(lf.phases, "other")
					x.why = append(x.why, fmt.Sprintf("%s: phase not understood: %s", lf.fn, header(x, inner)))
				}
			}
			// statements in front of the outer loop (top level of the function): a return that does not hand on a
			// control variable is another way out
			for _, s := range fd.Body.List {
				if s == ast.Stmt(fs) {
					break
				}
				if ls, ok := s.(*ast.LabeledStmt); ok && ls.Stmt == ast.Stmt(fs) {
					break
				}
				for _, r := range returnsIn(s) {
					okRet := false
					if len(r.Results) == 2 {
						if c := ident(r.Results[1]); c != "" && c != "nil" {
							okRet = true // `return nil, ctl`
						}
						if call, isCall := r.Results[1].(*ast.CallExpr); isCall && strings.Contains(x.src(call.Fun), "NewErrorThrow") {
							okRet = true
						}
					}
					if !okRet {
						lf.preExits = append(lf.preExits, header(x, s))
						break
					}
				}
			}
			out = append(out, lf)
		}
	}
	if len(out) == 0 {
		x.note("%s: no statement loop found in any method", typ)
	}
	return out
}

// ---------------------------------------------------------------- plain statement loops (foreach, switch, call, blocks)

type bodyFacts struct {
	fn   string
	over string
	d    dispatchFacts
}

func (x *extractor) bodyFactsOf(fd *ast.FuncDecl) []bodyFacts {
	var out []bodyFacts
	for _, l := range findStmtLoops(fd) {
		if se, ok := l.rng.X.(*ast.SelectorExpr); ok && testFields[se.Sel.Name] {
			continue // a loop over the tests of a clause (match arm conditions), not over statements
		}
		bf := bodyFacts{fn: fnName(fd), over: "none"}
		outer, _ := l.enclosing()
		switch t := outer.(type) {
		case *ast.RangeStmt:
			bf.over = "range"
			if se, ok := t.X.(*ast.SelectorExpr); ok {
				bf.over = "range ." + se.Sel.Name
			}
		case *ast.ForStmt:
			bf.over = "for"
		case *ast.FuncLit:
			bf.over = "closure"
		}
		bf.d = x.dispatchOf(l)
		x.why = append(x.why, bf.d.why...)
		out = append(out, bf)
	}
	return out
}

// ---------------------------------------------------------------- clause scans

type scanFacts struct {
	fn, over   string
	forward    bool
	testGuard  string // always untilMatched
	afterMatch string // stop goOn
}

// root identifier of a selector chain a.b.c
func rootIdent(e ast.Expr) string {
	for {
		switch t := e.(type) {
		case *ast.SelectorExpr:
			e = t.X
		case *ast.IndexExpr:
			e = t.X
		case *ast.ParenExpr:
			e = t.X
		case *ast.StarExpr:
			e = t.X
		case *ast.Ident:
			return t.Name
		default:
			return ""
		}
	}
}

var testFields = map[string]bool{"Condition": true, "CaseValue": true, "Conditions": true}

func (x *extractor) scanOf(fnFull, field string) *scanFacts {
	fd := x.funcNamed(fnFull)
	if fd == nil {
		x.note("%s not found", fnFull)
		return nil
	}
	recv := recvVarName(fd)
	var scan *ast.RangeStmt
	var scanPath []ast.Node
	walkPath(fd.Body, func(n ast.Node, path []ast.Node) bool {
		if r, ok := n.(*ast.RangeStmt); ok && scan == nil {
			if se, ok := r.X.(*ast.SelectorExpr); ok && ident(se.X) == recv && se.Sel.Name == field {
				scan, scanPath = r, append([]ast.Node{}, path...)
			}
		}
		return true
	})
	_ = scanPath
	if scan == nil {
		x.note("%s: no `range %s.%s` loop", fnFull, recv, field)
		return nil
	}
	sf := &scanFacts{fn: fnFull, over: field, forward: true, testGuard: "always", afterMatch: "goOn"}
	elem := ident(scan.Value)
	if elem == "" {
		elem = ident(scan.Key) // `for i := range` – the element is reached by index; treated as unknown below
	}
	// inner ranges over <elem>.Conditions bind further test variables
	testVars := map[string]bool{}
	ast.Inspect(scan.Body, func(n ast.Node) bool {
		if r, ok := n.(*ast.RangeStmt); ok {
			if se, ok := r.X.(*ast.SelectorExpr); ok && rootIdent(se) == elem && testFields[se.Sel.Name] {
				if v := ident(r.Value); v != "" {
					testVars[v] = true
				}
			}
		}
		return true
	})
	// boolean flags set to true inside the loop body
	flags := map[string]bool{}
	ast.Inspect(scan.Body, func(n ast.Node) bool {
		if as, ok := n.(*ast.AssignStmt); ok && len(as.Lhs) == len(as.Rhs) {
			for i, l := range as.Lhs {
				if ident(as.Rhs[i]) == "true" && ident(l) != "" {
					flags[ident(l)] = true
				}
			}
		}
		return true
	})
	// test sites and their guards
	tests, guarded := 0, 0
	walkPath(scan.Body, func(n ast.Node, path []ast.Node) bool {
		call, ok := n.(*ast.CallExpr)
		if !ok {
			return true
		}
		se, ok := call.Fun.(*ast.SelectorExpr)
		if !ok || se.Sel.Name != "GetValue" {
			return true
		}
		isTest := false
		if inner, ok := se.X.(*ast.SelectorExpr); ok && rootIdent(inner) == elem && testFields[inner.Sel.Name] {
			isTest = true
		}
		if testVars[ident(se.X)] {
			isTest = true
		}
		if !isTest {
			return true
		}
		tests++
		for i, p := range path {
			is, ok := p.(*ast.IfStmt)
			if !ok {
				continue
			}
			// the site must be in the body of `if !flag`
			if u, ok := is.Cond.(*ast.UnaryExpr); ok && u.Op == token.NOT && flags[ident(u.X)] {
				if i+1 < len(path) && path[i+1] == ast.Node(is.Body) {
					guarded++
					break
				}
			}
		}
		return true
	})
	if tests == 0 {
		x.why = append(x.why, fnFull+": no evaluation of a clause test found in the scan loop")
	} else if guarded == tests {
		sf.testGuard = "untilMatched"
	}
	// the branch that handles a successful test: the innermost `if` that uses the clause's body
	var match *ast.IfStmt
	inInit := false
	var matchPath []ast.Node
	walkPath(scan.Body, func(n ast.Node, path []ast.Node) bool {
		uses := false
		switch t := n.(type) {
		case *ast.SelectorExpr:
			if ident(t.X) == elem && !testFields[t.Sel.Name] && t.Sel.Name != "GetValue" {
				uses = true
			}
			if ident(t.X) == elem && t.Sel.Name == "GetValue" {
				uses = true
			}
		}
		if !uses {
			return true
		}
		for i := len(path) - 1; i >= 0; i-- {
			if is, ok := path[i].(*ast.IfStmt); ok {
				if match == nil {
					match, matchPath = is, append([]ast.Node{}, path[:i]...)
					inInit = i+1 < len(path) && is.Init != nil && path[i+1] == ast.Node(is.Init)
				}
				break
			}
		}
		return true
	})
	if match == nil {
		x.why = append(x.why, fnFull+": no branch that uses the clause body found in the scan loop")
	} else if !inInit && len(match.Body.List) > 0 {
		switch last := match.Body.List[len(match.Body.List)-1].(type) {
		case *ast.ReturnStmt:
			sf.afterMatch = "stop"
		case *ast.BranchStmt:
			if last.Tok == token.BREAK && last.Label == nil {
				captured := false
				for _, p := range matchPath {
					switch p.(type) {
					case *ast.ForStmt, *ast.RangeStmt, *ast.SwitchStmt, *ast.TypeSwitchStmt, *ast.SelectStmt:
						captured = true
					}
				}
				if !captured {
					sf.afterMatch = "stop"
				}
			}
		}
	}
	return sf
}

// ---------------------------------------------------------------- the store of static locals

type storeFacts struct {
	container       string
	presentGuard    bool
	initOps         []string
	otherWrites     [][2]string
	stmtSameKey     bool
	stmtBindsAlways bool
	stmtInitGuarded bool
}

func (x *extractor) storeOf() storeFacts {
	sf := storeFacts{container: "?"}
	f := x.data["static_locals.go"]
	if f == nil {
		x.note("data/static_locals.go not found")
		return sf
	}
	field := ""
	for _, d := range f.Decls {
		gd, ok := d.(*ast.GenDecl)
		if !ok || gd.Tok != token.TYPE {
			continue
		}
		for _, sp := range gd.Specs {
			ts := sp.(*ast.TypeSpec)
			st, ok := ts.Type.(*ast.StructType)
			if !ok || ts.Name.Name != "StaticLocals" {
				continue
			}
			for _, fl := range st.Fields.List {
				if strings.Contains(x.src(fl.Type), "ZVal") && len(fl.Names) > 0 {
					field, sf.container = fl.Names[0].Name, x.src(fl.Type)
				}
			}
		}
	}
	if field == "" {
		x.note("StaticLocals: no field that holds *ZVal cells")
		return sf
	}
	isCells := func(e ast.Expr, recv string) bool {
		se, ok := e.(*ast.SelectorExpr)
		return ok && ident(se.X) == recv && se.Sel.Name == field
	}
	foundInit := false
	for _, d := range f.Decls {
		fd, ok := d.(*ast.FuncDecl)
		if !ok || fd.Body == nil || recvTypeName(fd) != "StaticLocals" {
			continue
		}
		recv := recvVarName(fd)
		// locals that received every existing cell
		filled := map[string]bool{}
		var ops []string
		ast.Inspect(fd.Body, func(n ast.Node) bool {
			switch t := n.(type) {
			case *ast.ExprStmt:
				call, ok := t.X.(*ast.CallExpr)
				if !ok {
					return true
				}
				switch ident(call.Fun) {
				case "copy":
					if len(call.Args) == 2 {
						if isCells(call.Args[0], recv) {
							ops = append(ops, "clobber")
						} else if isCells(call.Args[1], recv) && ident(call.Args[0]) != "" {
							filled[ident(call.Args[0])] = true
						}
					}
				case "delete":
					if len(call.Args) == 2 && isCells(call.Args[0], recv) {
						ops = append(ops, "deleteKey")
					}
				case "clear":
					if len(call.Args) == 1 && isCells(call.Args[0], recv) {
						ops = append(ops, "clear")
					}
				}
			case *ast.RangeStmt:
				// for k, v := range s.cells { g[k] = v }
				if isCells(t.X, recv) && len(t.Body.List) == 1 {
					if as, ok := t.Body.List[0].(*ast.AssignStmt); ok && len(as.Lhs) == 1 {
						if ie, ok := as.Lhs[0].(*ast.IndexExpr); ok && ident(ie.X) != "" && ident(ie.Index) == ident(t.Key) && ident(as.Rhs[0]) == ident(t.Value) {
							filled[ident(ie.X)] = true
						}
					}
				}
			case *ast.AssignStmt:
				for i, l := range t.Lhs {
					var rhs ast.Expr
					if len(t.Rhs) == len(t.Lhs) {
						rhs = t.Rhs[i]
					}
					// g = append(g, s.cells...)
					if g := ident(l); g != "" && rhs != nil {
						if call, ok := rhs.(*ast.CallExpr); ok && ident(call.Fun) == "append" && len(call.Args) == 2 && call.Ellipsis.IsValid() && isCells(call.Args[1], recv) {
							filled[g] = true
						}
					}
					switch lt := l.(type) {
					case *ast.SelectorExpr:
						if isCells(lt, recv) {
							op := "growDrop"
							if rhs != nil {
								if call, ok := rhs.(*ast.CallExpr); ok && ident(call.Fun) == "append" && len(call.Args) >= 1 && isCells(call.Args[0], recv) {
									op = "growKeep"
								}
								if filled[ident(rhs)] {
									op = "growKeep"
								}
							}
							ops = append(ops, op)
						}
						// s.cells[i].Value = …
						if ie, ok := lt.X.(*ast.IndexExpr); ok && isCells(ie.X, recv) {
							ops = append(ops, "setValue")
						}
					case *ast.IndexExpr:
						if isCells(lt.X, recv) {
							op := "unknown"
							if rhs != nil {
								if call, ok := rhs.(*ast.CallExpr); ok && strings.Contains(x.src(call.Fun), "NewZVal") {
									op = "insertFresh"
								}
								if u, ok := rhs.(*ast.UnaryExpr); ok && u.Op == token.AND {
									op = "insertFresh"
								}
							}
							ops = append(ops, op)
						}
					}
				}
			}
			return true
		})
		if fd.Name.Name != "Init" {
			for _, op := range ops {
				sf.otherWrites = append(sf.otherWrites, [2]string{fd.Name.Name, op})
			}
			continue
		}
		foundInit = true
		sf.initOps = ops
		// the guard: first statement that is neither locking nor a defer
		keyParam := ""
		if len(fd.Type.Params.List) > 0 && len(fd.Type.Params.List[0].Names) > 0 {
			keyParam = fd.Type.Params.List[0].Names[0].Name
		}
		for _, s := range fd.Body.List {
			if _, ok := s.(*ast.DeferStmt); ok {
				continue
			}
			if es, ok := s.(*ast.ExprStmt); ok && (strings.HasSuffix(x.src(es.X), "Lock()") || strings.HasSuffix(x.src(es.X), "RLock()")) {
				continue
			}
			is, ok := s.(*ast.IfStmt)
			if !ok || is.Else != nil || len(is.Body.List) != 1 {
				break
			}
			if _, ok := is.Body.List[0].(*ast.ReturnStmt); !ok {
				break
			}
			okVar, cellVar := "", ""
			if as, ok := is.Init.(*ast.AssignStmt); ok && len(as.Lhs) == 2 && len(as.Rhs) == 1 {
				if ie, ok := as.Rhs[0].(*ast.IndexExpr); ok && isCells(ie.X, recv) && ident(ie.Index) == keyParam {
					cellVar, okVar = ident(as.Lhs[0]), ident(as.Lhs[1])
				}
			}
			var conj []ast.Expr
			var split func(e ast.Expr)
			split = func(e ast.Expr) {
				if p, ok := e.(*ast.ParenExpr); ok {
					split(p.X)
					return
				}
				if b, ok := e.(*ast.BinaryExpr); ok && b.Op == token.LAND {
					split(b.X)
					split(b.Y)
					return
				}
				conj = append(conj, e)
			}
			split(is.Cond)
			present, all := false, true
			for _, c := range conj {
				txt := x.src(c)
				cells := recv + "." + field
				switch {
				case okVar != "" && txt == okVar:
					present = true
				case txt == cells+"["+keyParam+"] != nil":
					present = true
				case cellVar != "" && txt == cellVar+" != nil":
				case txt == keyParam+" < len("+cells+")", txt == "len("+cells+") > "+keyParam, txt == keyParam+" >= 0", txt == "0 <= "+keyParam:
				default:
					all = false
				}
			}
			sf.presentGuard = present && all
			break
		}
	}
	if !foundInit {
		x.note("StaticLocals.Init not found")
	}
	// the static statement
	fd := x.funcNamed("StaticVarStatement.GetValue")
	if fd == nil {
		x.note("StaticVarStatement.GetValue not found")
		return sf
	}
	var initKey, cellKey, bindKey []string
	bindsOutside := true
	cellVarOK := true
	initUnguarded := false
	walkPath(fd.Body, func(n ast.Node, path []ast.Node) bool {
		call, ok := n.(*ast.CallExpr)
		if !ok {
			return true
		}
		se, ok := call.Fun.(*ast.SelectorExpr)
		if !ok || len(call.Args) == 0 {
			return true
		}
		switch se.Sel.Name {
		case "Init":
			initKey = append(initKey, x.src(call.Args[0]))
			// is the call under `if _, ok := store.Get(<same key>) / store.Cell(<same key>); !ok`
			g := false
			for i, p := range path {
				is, ok := p.(*ast.IfStmt)
				if !ok || i+1 >= len(path) || path[i+1] != ast.Node(is.Body) {
					continue
				}
				as, ok := is.Init.(*ast.AssignStmt)
				if !ok || len(as.Lhs) != 2 || len(as.Rhs) != 1 {
					continue
				}
				c, ok := as.Rhs[0].(*ast.CallExpr)
				if !ok || len(c.Args) != 1 || x.src(c.Args[0]) != x.src(call.Args[0]) {
					continue
				}
				if s2, ok := c.Fun.(*ast.SelectorExpr); !ok || (s2.Sel.Name != "Get" && s2.Sel.Name != "Cell") {
					continue
				}
				if u, ok := is.Cond.(*ast.UnaryExpr); ok && u.Op == token.NOT && ident(u.X) == ident(as.Lhs[1]) && ident(u.X) != "" {
					g = true
				}
			}
			if !g {
				initUnguarded = true
			}
		case "Cell":
			cellKey = append(cellKey, x.src(call.Args[0]))
		case "SetIndexZVal":
			bindKey = append(bindKey, x.src(call.Args[0]))
			// the bound cell comes from store.Cell(…) in the `if` that encloses the call, and the call is not inside the
			// `if` that guards Init
			fromCell := false
			for _, p := range path {
				is, ok := p.(*ast.IfStmt)
				if !ok {
					continue
				}
				if as, ok := is.Init.(*ast.AssignStmt); ok && len(as.Rhs) == 1 && len(call.Args) == 2 {
					if c, ok := as.Rhs[0].(*ast.CallExpr); ok {
						if s2, ok := c.Fun.(*ast.SelectorExpr); ok && s2.Sel.Name == "Cell" && ident(as.Lhs[0]) == ident(call.Args[1]) {
							fromCell = true
							continue
						}
					}
				}
				if containsCall(is, "Init") && (is.Init == nil || !containsCall(is.Init, "Cell")) {
					// nested in a conditional that also holds the Init call: only bound when the cell is created
					if is.Cond != nil && x.src(is.Cond) != "store != nil" {
						bindsOutside = false
					}
				}
			}
			if !fromCell {
				cellVarOK = false
			}
		}
		return true
	})
	same := len(initKey) >= 1 && len(cellKey) >= 1 && len(bindKey) >= 1
	for _, l := range [][]string{initKey, cellKey, bindKey} {
		for _, k := range l {
			if k != initKey[0] {
				same = false
			}
		}
	}
	sf.stmtSameKey = same && cellVarOK
	sf.stmtBindsAlways = len(bindKey) >= 1 && bindsOutside
	sf.stmtInitGuarded = len(initKey) >= 1 && !initUnguarded
	return sf
}

// ---------------------------------------------------------------- NewForStatement, BoolTest, control constants

type rewrite struct {
	param, from, to string
	fields          [][2]string
}

func (x *extractor) forCtor() ([]rewrite, [][2]string) {
	fd := x.funcNamed("NewForStatement")
	if fd == nil {
		x.note("NewForStatement not found")
		return nil, nil
	}
	var rws []rewrite
	var fields [][2]string
	ast.Inspect(fd.Body, func(n ast.Node) bool {
		switch t := n.(type) {
		case *ast.RangeStmt:
			param := ident(t.X)
			if param == "" {
				return true
			}
			ast.Inspect(t.Body, func(m ast.Node) bool {
				is, ok := m.(*ast.IfStmt)
				if !ok {
					return true
				}
				as, ok := is.Init.(*ast.AssignStmt)
				if !ok || len(as.Rhs) != 1 {
					return true
				}
				ta, ok := as.Rhs[0].(*ast.TypeAssertExpr)
				if !ok || ta.Type == nil {
					return true
				}
				old := ident(as.Lhs[0])
				for _, s := range is.Body.List {
					st, ok := s.(*ast.AssignStmt)
					if !ok || len(st.Lhs) != 1 {
						continue
					}
					ie, ok := st.Lhs[0].(*ast.IndexExpr)
					if !ok || ident(ie.X) != param {
						continue
					}
					rw := rewrite{param: param, from: strings.TrimPrefix(x.src(ta.Type), "*"), to: "?"}
					var lit *ast.CompositeLit
					if u, ok := st.Rhs[0].(*ast.UnaryExpr); ok {
						lit, _ = u.X.(*ast.CompositeLit)
					} else {
						lit, _ = st.Rhs[0].(*ast.CompositeLit)
					}
					if lit != nil {
						rw.to = x.src(lit.Type)
						for _, el := range lit.Elts {
							if kv, ok := el.(*ast.KeyValueExpr); ok {
								from := "?" + x.src(kv.Value)
								if se, ok := kv.Value.(*ast.SelectorExpr); ok && ident(se.X) == old {
									from = se.Sel.Name
								}
								rw.fields = append(rw.fields, [2]string{ident(kv.Key), from})
							}
						}
					} else {
						rw.to = "?" + x.src(st.Rhs[0])
					}
					rws = append(rws, rw)
				}
				return true
			})
			return false
		case *ast.CompositeLit:
			if x.src(t.Type) == "ForStatement" {
				for _, el := range t.Elts {
					if kv, ok := el.(*ast.KeyValueExpr); ok && ident(kv.Key) != "Node" {
						v := ident(kv.Value)
						if v == "" {
							v = "?" + x.src(kv.Value)
						}
						fields = append(fields, [2]string{ident(kv.Key), v})
					}
				}
			}
		}
		return true
	})
	if len(fields) == 0 {
		x.note("NewForStatement: no ForStatement literal")
	}
	return rws, fields
}

func (x *extractor) boolTests() [][2]string {
	var out [][2]string
	var types []string
	for t, ms := range x.ti.methods {
		if ms["testBool"] {
			types = append(types, t)
		}
	}
	sort.Strings(types)
	for _, t := range types {
		via := "false"
		if fd := x.funcNamed(t + ".GetValue"); fd != nil && containsCall(fd.Body, "testBool") {
			via = "true"
		}
		out = append(out, [2]string{t, via})
	}
	return out
}

// ---------------------------------------------------------------- output

var armLean = map[string]string{"leave": ".leave", "next": ".next", "restart": ".restart", "propagate": ".propagate",
	"swallow": ".swallow", "throwNew": ".throwNew", "unknown": ".unknown", "proceed": ".unknown"}

func leanArms(l []string) string {
	var p []string
	for _, a := range l {
		p = append(p, armLean[a])
	}
	return "[" + strings.Join(p, ", ") + "]"
}

func leanDispatch(d dispatchFacts) string {
	return fmt.Sprintf("{ noneProceeds := %v, onBreak := %s, onContinue := %s, onReturn := %s, onThrow := %s }",
		d.noneProceeds, leanArms(d.arms[kBreak]), leanArms(d.arms[kContinue]), leanArms(d.arms[kReturn]), leanArms(d.arms[kThrow]))
}

func leanStrings(l []string) string {
	var p []string
	for _, s := range l {
		p = append(p, ex.LeanString(s))
	}
	return "[" + strings.Join(p, ", ") + "]"
}

func leanPairs(l [][2]string) string {
	var p []string
	for _, s := range l {
		p = append(p, "("+ex.LeanString(s[0])+", "+ex.LeanString(s[1])+")")
	}
	return "[" + strings.Join(p, ", ") + "]"
}

func leanLoops(l []loopFacts) string {
	var p []string
	for _, f := range l {
		var ph []string
		for _, s := range f.phases {
			ph = append(ph, "."+s)
		}
		p = append(p, fmt.Sprintf("  { fn := %s, phases := [%s], condFalseExits := %v,\n    dispatch := %s,\n    preExits := %s, asserts := %s }",
			ex.LeanString(f.fn), strings.Join(ph, ", "), f.condFalseExits, leanDispatch(f.d), leanStrings(f.preExits), leanPairs(f.asserts)))
	}
	if len(p) == 0 {
		return "[]"
	}
	return "[\n" + strings.Join(p, ",\n") + "]"
}

func leanBodies(l []bodyFacts) string {
	var p []string
	for _, f := range l {
		p = append(p, fmt.Sprintf("  { fn := %s, over := %s,\n    dispatch := %s }", ex.LeanString(f.fn), ex.LeanString(f.over), leanDispatch(f.d)))
	}
	if len(p) == 0 {
		return "[]"
	}
	return "[\n" + strings.Join(p, ",\n") + "]"
}

func main() {
	args := ex.ParseArgs()
	x := &extractor{ti: newTypeInfo()}
	x.fset = token.NewFileSet()
	var err error
	if x.node, err = parseDir(x.fset, args.Repo, "node"); err != nil {
		fmt.Fprintln(os.Stderr, "parse node:", err)
		os.Exit(1)
	}
	if x.data, err = parseDir(x.fset, args.Repo, "data"); err != nil {
		fmt.Fprintln(os.Stderr, "parse data:", err)
		os.Exit(1)
	}
	for _, n := range sortedFiles(x.node) {
		x.ti.addFile(x.node[n])
	}
	for _, n := range sortedFiles(x.data) {
		x.ti.addFile(x.data[n])
	}
	for _, k := range []kind{kBreak, kContinue, kReturn, kThrow} {
		if x.ti.methods[kindType[k]] == nil {
			x.note("control type %s not found", kindType[k])
		}
	}
	for _, i := range []string{"BreakControl", "ContinueControl", "ReturnControl", "ThrowControl"} {
		if _, ok := x.ti.ifaces[i]; !ok {
			x.note("interface data.%s not found", i)
		}
	}

	whileL := x.loopFactsOf("WhileStatement")
	doL := x.loopFactsOf("DoWhileStatement")
	forL := x.loopFactsOf("ForStatement")

	var foreach []bodyFacts
	for _, fd := range x.methodsOf("ForeachStatement") {
		foreach = append(foreach, x.bodyFactsOf(fd)...)
	}
	if len(foreach) == 0 {
		x.note("ForeachStatement: no statement loop found in any method")
	}
	var switchBody, callBody, blocks []bodyFacts
	if fd := x.funcNamed("runSwitchBody"); fd != nil {
		switchBody = x.bodyFactsOf(fd)
	}
	if len(switchBody) == 0 {
		// the bodies may be run inline
		if fd := x.funcNamed("SwitchStatement.GetValue"); fd != nil {
			switchBody = x.bodyFactsOf(fd)
		}
	}
	if len(switchBody) == 0 {
		x.note("switch: no statement loop found in runSwitchBody / SwitchStatement.GetValue")
	}
	if fd := x.funcNamed("FunctionStatement.Call"); fd != nil {
		callBody = x.bodyFactsOf(fd)
	}
	if len(callBody) == 0 {
		x.note("FunctionStatement.Call: no statement loop found")
	}
	for _, n := range []string{"IfStatement.GetValue", "MatchArm.GetValue", "MatchStatement.GetValue"} {
		if fd := x.funcNamed(n); fd != nil {
			blocks = append(blocks, x.bodyFactsOf(fd)...)
		} else {
			x.note("%s not found", n)
		}
	}

	var scans []scanFacts
	for _, s := range [][2]string{{"IfStatement.GetValue", "ElseIf"}, {"MatchStatement.GetValue", "Arms"}, {"SwitchStatement.GetValue", "Cases"}} {
		if sf := x.scanOf(s[0], s[1]); sf != nil {
			scans = append(scans, *sf)
		}
	}
	store := x.storeOf()
	rws, ctorFields := x.forCtor()
	bts := x.boolTests()

	var b strings.Builder
	b.WriteString("import Model.CtlShape\n")
	b.WriteString("/-! C02: the shape of the control-flow nodes (source: node/while.go, do_while.go, for.go, foreach.go, switch.go,\nfunction.go, if.go, match.go, var.go, break.go, continue.go, fused_assign.go, data/static_locals.go, data/control.go). -/\n")
	b.WriteString("namespace Generated.C02\nopen Model.CtlShape\n\n")
	fmt.Fprintf(&b, "def whileLoops : List LoopFacts := %s\n\n", leanLoops(whileL))
	fmt.Fprintf(&b, "def doLoops : List LoopFacts := %s\n\n", leanLoops(doL))
	fmt.Fprintf(&b, "def forLoops : List LoopFacts := %s\n\n", leanLoops(forL))
	fmt.Fprintf(&b, "def foreachBodies : List BodyFacts := %s\n\n", leanBodies(foreach))
	fmt.Fprintf(&b, "def switchBodies : List BodyFacts := %s\n\n", leanBodies(switchBody))
	fmt.Fprintf(&b, "def callBodies : List BodyFacts := %s\n\n", leanBodies(callBody))
	fmt.Fprintf(&b, "def blocks : List BodyFacts := %s\n\n", leanBodies(blocks))
	b.WriteString("def scans : List ScanFacts := [")
	for i, s := range scans {
		if i > 0 {
			b.WriteString(",")
		}
		fmt.Fprintf(&b, "\n  { fn := %s, over := %s, forward := %v, testGuard := .%s, afterMatch := .%s }", ex.LeanString(s.fn), ex.LeanString(s.over), s.forward, s.testGuard, s.afterMatch)
	}
	b.WriteString("]\n\n")
	var ops []string
	for _, o := range store.initOps {
		ops = append(ops, "."+o)
	}
	var ow []string
	for _, o := range store.otherWrites {
		ow = append(ow, "("+ex.LeanString(o[0])+", ."+o[1]+")")
	}
	fmt.Fprintf(&b, "def store : StoreFacts :=\n  { container := %s, presentGuard := %v, initOps := [%s], otherWrites := [%s],\n    stmtSameKey := %v, stmtBindsAlways := %v, stmtInitGuarded := %v }\n\n",
		ex.LeanString(store.container), store.presentGuard, strings.Join(ops, ", "), strings.Join(ow, ", "), store.stmtSameKey, store.stmtBindsAlways, store.stmtInitGuarded)
	b.WriteString("def forCtor : ForCtor :=\n  { rewrites := [")
	for i, r := range rws {
		if i > 0 {
			b.WriteString(", ")
		}
		fmt.Fprintf(&b, "{ param := %s, fromType := %s, toType := %s, fields := %s }", ex.LeanString(r.param), ex.LeanString(r.from), ex.LeanString(r.to), leanPairs(r.fields))
	}
	fmt.Fprintf(&b, "],\n    fields := %s }\n\n", leanPairs(ctorFields))
	b.WriteString("def boolTests : List BoolTestImpl := [")
	for i, t := range bts {
		if i > 0 {
			b.WriteString(", ")
		}
		fmt.Fprintf(&b, "{ type := %s, getValueViaTestBool := %s }", ex.LeanString(t[0]), t[1])
	}
	b.WriteString("]\n\n")
	b.WriteString("def controls : List (String × List (String × Bool)) := [")
	for i, t := range []string{"BreakStatement", "ContinueStatement"} {
		if i > 0 {
			b.WriteString(", ")
		}
		var ms []string
		for _, m := range []string{"IsBreak", "IsContinue"} {
			if x.ti.methods[t][m] {
				c, ok := x.ti.consts[t][m]
				if !ok {
					x.note("%s.%s does not return a constant", t, m)
					c = "false"
				}
				ms = append(ms, "("+ex.LeanString(m)+", "+c+")")
			}
		}
		fmt.Fprintf(&b, "(%s, [%s])", ex.LeanString(t), strings.Join(ms, ", "))
	}
	b.WriteString("]\n\n")
	fmt.Fprintf(&b, "def shapeNotes : List String := %s\n\n", leanStrings(x.notes))
	// de-duplicate the reasons
	seen := map[string]bool{}
	var why []string
	for _, w := range x.why {
		if !seen[w] {
			seen[w] = true
			why = append(why, w)
		}
	}
	b.WriteString("/-- why an arm / phase above is `unknown` / `other` (informational) -/\ndef unknownWhy : List String := [")
	for i, w := range why {
		if i > 0 {
			b.WriteString(",")
		}
		b.WriteString("\n  " + ex.LeanString(w))
	}
	b.WriteString("]\n\nend Generated.C02\n")
	if err := ex.WriteIfChanged(args.Out, "C02Shapes.lean", b.String()); err != nil {
		fmt.Fprintln(os.Stderr, "write:", err)
		os.Exit(1)
	}
	if err := ex.WriteIfChanged(args.Out, "C02BodyScans.lean", x.bodyScanFacts()); err != nil {
		fmt.Fprintln(os.Stderr, "write:", err)
		os.Exit(1)
	}
	fmt.Printf("c02: %d while / %d do / %d for loops, %d foreach bodies, %d scans, store ops %v, %d notes, %d unknown reasons\n",
		len(whileL), len(doL), len(forL), len(foreach), len(scans), store.initOps, len(x.notes), len(why))
	for _, n := range x.notes {
		fmt.Println("  shape note:", n)
	}
}
