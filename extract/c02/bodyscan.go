package main

// bodyscan.go: facts about PRE-SCANS of a function body (round 7). A body scan is a package-level
// function of node/ that takes a statement (data.GetValue) or a statement list ([]data.GetValue),
// returns bool and is recursive (directly or through other such functions): containsYield /
// isYieldNode decide at construction time whether a function is a generator; a seeded
// containsStatic decided whether the static store is bound. Such a scan is right only if it opens
// every node field that can hold statements. Facts written to Generated/C02BodyScans.lean:
//
//	stmtContainers  every `Type.Field` of node/ whose field type is []data.GetValue and whose name
//	                says statement list (Body, Statements, …Branch, …Block, Default…, Children),
//	                of a type that is no function boundary (no Params field: a scan must not open a
//	                nested function) — from the struct definitions
//	fnBoundaries    the same for types with a Params field (informational)
//	otherLists      []data.GetValue fields not classified as statement lists (expression lists; informational)
//	bodyScans       for every scan (mutually recursive functions form one scan): the `Type.Field`
//	                selectors it reads, resolved through type-switch bindings and `range x.F` values

import (
	"fmt"
	"go/ast"
	"regexp"
	"sort"
	"strings"

	"verif/extract/ex"
)

var stmtListName = regexp.MustCompile(`^(Body|Statements|Stmts|.*Branch|.*Block|Default.*|Children)$`)

type structField struct {
	name string
	elem string // element type of a slice field ("" if not a slice), printed
}

func isGetValueSlice(e ast.Expr) bool {
	at, ok := e.(*ast.ArrayType)
	if !ok || at.Len != nil {
		return false
	}
	se, ok := at.Elt.(*ast.SelectorExpr)
	if !ok {
		return false
	}
	id, ok := se.X.(*ast.Ident)
	return ok && id.Name == "data" && se.Sel.Name == "GetValue"
}

func isGetValue(e ast.Expr) bool {
	se, ok := e.(*ast.SelectorExpr)
	if !ok {
		return false
	}
	id, ok := se.X.(*ast.Ident)
	return ok && id.Name == "data" && se.Sel.Name == "GetValue"
}

func typeName(e ast.Expr) string {
	switch t := e.(type) {
	case *ast.Ident:
		return t.Name
	case *ast.StarExpr:
		return typeName(t.X)
	}
	return ""
}

func (x *extractor) bodyScanFacts() string {
	structs := map[string][]structField{}      // type -> slice fields (element type name)
	stmtFields := map[string]map[string]bool{} // type -> statement-list field names
	hasParams := map[string]bool{}
	var containersL, boundaries, others []string
	for _, fn := range sortedFiles(x.node) {
		for _, d := range x.node[fn].Decls {
			gd, ok := d.(*ast.GenDecl)
			if !ok {
				continue
			}
			for _, sp := range gd.Specs {
				ts, ok := sp.(*ast.TypeSpec)
				if !ok {
					continue
				}
				st, ok := ts.Type.(*ast.StructType)
				if !ok {
					continue
				}
				for _, f := range st.Fields.List {
					for _, n := range f.Names {
						if n.Name == "Params" {
							hasParams[ts.Name.Name] = true
						}
						if at, ok := f.Type.(*ast.ArrayType); ok && at.Len == nil {
							structs[ts.Name.Name] = append(structs[ts.Name.Name], structField{n.Name, typeName(at.Elt)})
						}
						if isGetValueSlice(f.Type) {
							if stmtListName.MatchString(n.Name) {
								if stmtFields[ts.Name.Name] == nil {
									stmtFields[ts.Name.Name] = map[string]bool{}
								}
								stmtFields[ts.Name.Name][n.Name] = true
							} else {
								others = append(others, ts.Name.Name+"."+n.Name)
							}
						}
					}
				}
			}
		}
	}
	for t, fs := range stmtFields {
		for f := range fs {
			if hasParams[t] {
				boundaries = append(boundaries, t+"."+f)
			} else {
				containersL = append(containersL, t+"."+f)
			}
		}
	}
	sort.Strings(containersL)
	sort.Strings(boundaries)
	sort.Strings(others)

	// candidate scan functions
	type cand struct {
		decl   *ast.FuncDecl
		list   bool // takes a statement list
		calls  map[string]bool
		opened map[string]bool
	}
	cands := map[string]*cand{}
	for _, fn := range sortedFiles(x.node) {
		for _, d := range x.node[fn].Decls {
			fd, ok := d.(*ast.FuncDecl)
			if !ok || fd.Recv != nil || fd.Body == nil || fd.Type.Results == nil || len(fd.Type.Results.List) != 1 {
				continue
			}
			if id, ok := fd.Type.Results.List[0].Type.(*ast.Ident); !ok || id.Name != "bool" {
				continue
			}
			takes, list := false, false
			for _, p := range fd.Type.Params.List {
				if isGetValueSlice(p.Type) || isGetValue(p.Type) {
					takes = true
				}
				if isGetValueSlice(p.Type) {
					list = true
				}
			}
			if takes {
				cands[fd.Name.Name] = &cand{decl: fd, list: list, calls: map[string]bool{}, opened: map[string]bool{}}
			}
		}
	}
	for _, c := range cands {
		// variable -> node type: type-switch bindings (single-type clauses) and range values over typed slice fields
		var walk func(n ast.Node, env map[string]string)
		sel := func(e ast.Expr, env map[string]string) (string, string, bool) { // Type, Field
			se, ok := e.(*ast.SelectorExpr)
			if !ok {
				return "", "", false
			}
			id, ok := se.X.(*ast.Ident)
			if !ok {
				return "", "", false
			}
			t, ok := env[id.Name]
			return t, se.Sel.Name, ok
		}
		walk = func(n ast.Node, env map[string]string) {
			ast.Inspect(n, func(m ast.Node) bool {
				switch s := m.(type) {
				case *ast.CallExpr:
					if id, ok := s.Fun.(*ast.Ident); ok && cands[id.Name] != nil {
						c.calls[id.Name] = true
					}
				case *ast.SelectorExpr:
					if t, f, ok := sel(s, env); ok && stmtFields[t][f] {
						c.opened[t+"."+f] = true
					}
				case *ast.TypeSwitchStmt:
					bind := ""
					if as, ok := s.Assign.(*ast.AssignStmt); ok && len(as.Lhs) == 1 {
						if id, ok := as.Lhs[0].(*ast.Ident); ok {
							bind = id.Name
						}
					}
					for _, cl := range s.Body.List {
						cc := cl.(*ast.CaseClause)
						env2 := map[string]string{}
						for k, v := range env {
							env2[k] = v
						}
						if bind != "" && len(cc.List) == 1 {
							if tn := typeName(cc.List[0]); tn != "" {
								env2[bind] = tn
							}
						}
						for _, st := range cc.Body {
							walk(st, env2)
						}
					}
					return false
				case *ast.RangeStmt:
					if t, f, ok := sel(s.X, env); ok {
						if v, ok := s.Value.(*ast.Ident); ok {
							for _, sf := range structs[t] {
								if sf.name == f && sf.elem != "" {
									env2 := map[string]string{}
									for k, vv := range env {
										env2[k] = vv
									}
									env2[v.Name] = sf.elem
									walk(s.Body, env2)
									return false
								}
							}
						}
					}
				}
				return true
			})
		}
		walk(c.decl.Body, map[string]string{})
	}
	// reachability among candidates; a scan = a strongly connected group containing a cycle
	reach := func(from string) map[string]bool {
		seen := map[string]bool{}
		var go_ func(string)
		go_ = func(n string) {
			for m := range cands[n].calls {
				if !seen[m] {
					seen[m] = true
					go_(m)
				}
			}
		}
		go_(from)
		return seen
	}
	groups := map[string]map[string]bool{} // group name -> opened
	var names []string
	for n := range cands {
		names = append(names, n)
	}
	sort.Strings(names)
	for _, n := range names {
		r := reach(n)
		if !r[n] {
			continue // not recursive
		}
		var members []string
		for m := range r {
			if reach(m)[n] {
				members = append(members, m)
			}
		}
		sort.Strings(members)
		// a scan of statements: some member takes a statement list or opens a statement-list field
		// (isStrictEqual-like recursive comparisons of values are no body scan)
		isScan := false
		for _, m := range members {
			if cands[m].list || len(cands[m].opened) > 0 {
				isScan = true
			}
		}
		if !isScan {
			continue
		}
		g := strings.Join(members, "+")
		if groups[g] == nil {
			groups[g] = map[string]bool{}
		}
		for _, m := range members {
			for o := range cands[m].opened {
				groups[g][o] = true
			}
		}
	}
	var gnames []string
	for g := range groups {
		gnames = append(gnames, g)
	}
	sort.Strings(gnames)

	var b strings.Builder
	b.WriteString("import Model.CtlScan\n")
	b.WriteString("/-! C02: pre-scans of a function body (node/*.go: package-level recursive bool functions over statements) and the\nnode fields that hold statement lists (struct definitions of node/). -/\nnamespace Generated.C02\nopen Model.CtlScan\n\n")
	fmt.Fprintf(&b, "def stmtContainers : List String := %s\n\n", leanStrings(containersL))
	fmt.Fprintf(&b, "/-- statement lists of function-like nodes: a scan stops there (informational) -/\ndef fnBoundaries : List String := %s\n\n", leanStrings(boundaries))
	fmt.Fprintf(&b, "/-- []data.GetValue fields that are not statement lists (informational) -/\ndef otherLists : List String := %s\n\n", leanStrings(others))
	b.WriteString("def bodyScans : List ScanFn := [")
	for i, g := range gnames {
		if i > 0 {
			b.WriteString(",")
		}
		var op []string
		for o := range groups[g] {
			op = append(op, o)
		}
		sort.Strings(op)
		fmt.Fprintf(&b, "\n  { name := %s, opened := %s }", ex.LeanString(g), leanStrings(op))
	}
	b.WriteString("]\n\nend Generated.C02\n")
	fmt.Printf("c02: %d statement containers, %d function boundaries, %d body scans %v\n", len(containersL), len(boundaries), len(gnames), gnames)
	return b.String()
}
