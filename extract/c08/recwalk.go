package main

import (
	"fmt"
	"go/ast"
	"go/token"
	"strings"
)

// RecWalk: a function that walks the interface graph by calling itself on every parent (node/class.go checkInterfaceIs)
type recwalk struct {
	fn         string
	selfHit    bool
	over       string
	onSeen     string
	onMissing  string
	childTrue  bool
	childFalse string
	dry        bool
}

func (r recwalk) lean() string {
	return fmt.Sprintf("{ fn := %s, selfHit := %s, over := %s, onSeen := .%s, onMissing := .%s, childTrue := %s, childFalse := .%s, dry := %s }",
		leanStr(r.fn), leanBool(r.selfHit), r.over, r.onSeen, r.onMissing, leanBool(r.childTrue), r.childFalse, leanBool(r.dry))
}

// a function whose body is `return g(…)`: the walk is g (a refactoring that threads extra state through a helper)
func delegate(u *unit, fd *ast.FuncDecl) *ast.FuncDecl {
	for hop := 0; hop < 3; hop++ {
		if len(fd.Body.List) != 1 {
			return fd
		}
		r, ok := fd.Body.List[0].(*ast.ReturnStmt)
		if !ok || len(r.Results) != 1 {
			return fd
		}
		c, name := plainCall(r.Results[0])
		if c == nil || name == fd.Name.Name {
			return fd
		}
		g := u.fn("", name)
		if g == nil {
			return fd
		}
		fd = g
	}
	return fd
}

func analyseRecWalk(u *unit, fd *ast.FuncDecl, where string) (recwalk, bool) {
	r := recwalk{fn: where, over: sel("other", "no loop"), onSeen: "absent", onMissing: "next", childFalse: "next", dry: true}
	fd = delegate(u, fd)
	srcs := paramsOfType(fd, func(t string) bool { return strings.HasSuffix(t, "InterfaceStmt") })
	strs := paramsOfType(fd, func(t string) bool { return t == "string" })
	if len(srcs) != 1 || len(strs) != 1 {
		note("%s: expected one interface and one string parameter, found %v %v", where, srcs, strs)
		return r, false
	}
	source, target := srcs[0], strs[0]
	self := fd.Name.Name
	sc := newScope(fd)
	isT := func(e ast.Expr) bool { return isIdent(e, target) }
	isSourceName := func(e ast.Expr) bool {
		c, recv := selCall(e, "GetName")
		return c != nil && isIdent(recv, source)
	}

	var loop *ast.RangeStmt
	loopAt := -1
	seenSet := ""
	for i, s := range fd.Body.List {
		switch st := s.(type) {
		case *ast.IfStmt:
			if st.Init == nil && st.Else == nil && isEq(st.Cond, isSourceName, isT) {
				if ending(st.Body) == "true" {
					r.selfHit = true
				} else {
					note("%s: the name test does not return true: %q", where, u.text(st.Body))
				}
				continue
			}
			if hasJump(st) {
				note("%s: %q before the loop can leave the walk", where, u.text(st.Cond))
			}
		case *ast.RangeStmt:
			loop, loopAt = st, i
		case *ast.ForStmt:
			note("%s: a for loop %q where a range over the parents was expected", where, u.text(st.Cond))
			return r, false
		case *ast.AssignStmt:
			// seen[source.GetName()] = true
			if len(st.Lhs) == 1 {
				if ix, ok := unparen(st.Lhs[0]).(*ast.IndexExpr); ok && isSourceName(ix.Index) && identName(ix.X) != "" {
					seenSet = identName(ix.X)
				}
			}
		case *ast.ReturnStmt:
			note("%s: returns before the loop: %q", where, u.text(st))
		}
		if loop != nil {
			break
		}
	}
	if loop == nil {
		note("%s: no range over the parents of %s", where, source)
		return r, false
	}
	// what it ranges over
	x := unparen(loop.X)
	r.over = sel("other", u.text(loop.X))
	if c, recv := selCall(x, "GetExtends"); c != nil && sc.resolvesTo(recv, loop.Pos(), source) {
		r.over = ".all"
	} else if sl, ok := x.(*ast.SliceExpr); ok {
		if c, recv := selCall(sl.X, "GetExtends"); c != nil && sc.resolvesTo(recv, loop.Pos(), source) {
			if sl.Low == nil && sl.High == nil {
				r.over = ".all"
			} else if sl.High != nil && flat(sl.High) == "1" && (sl.Low == nil || flat(sl.Low) == "0") {
				r.over = ".first"
			}
		}
	}
	p := identName(loop.Value)
	if p == "" || p == "_" {
		note("%s: the loop has no value variable", where)
		return r, false
	}

	// the body
	loaded := ""
	sawCall := false
	var walk func(list []ast.Stmt, inLookup bool)
	walk = func(list []ast.Stmt, inLookup bool) {
		for _, s := range list {
			switch st := s.(type) {
			case *ast.IfStmt:
				end := ending(st.Body)
				// seen test
				v := seenSet
				if isSeen, neg := seenTest(st, p, &v); isSeen && st.Init == nil {
					seenSet = v
					switch {
					case !neg && end == "continue" && st.Else == nil:
						r.onSeen = "skip"
					case !neg && st.Else == nil:
						r.onSeen = "stop"
					case neg && st.Else == nil:
						r.onSeen = "skip"
						walk(st.Body.List, inLookup)
					default:
						note("%s: seen test %q has an unusual form", where, u.text(st.Cond))
					}
					continue
				}
				// lookup with init: if j, ok := vm.GetInterface(p); ok { … }
				if as, ok := st.Init.(*ast.AssignStmt); ok && len(as.Lhs) == 2 && len(as.Rhs) == 1 {
					if c, _ := selCall(as.Rhs[0], "GetInterface"); c != nil && len(c.Args) == 1 && isIdent(c.Args[0], p) && isIdent(st.Cond, identName(as.Lhs[1])) {
						loaded = identName(as.Lhs[0])
						if st.Else != nil {
							if eb, isBlock := st.Else.(*ast.BlockStmt); isBlock && ending(eb) == "continue" {
								r.onMissing = "next"
							} else {
								r.onMissing = "stop"
							}
						}
						walk(st.Body.List, true)
						continue
					}
				}
				// if !ok { continue }
				if ue, ok := unparen(st.Cond).(*ast.UnaryExpr); ok && ue.Op == token.NOT && st.Init == nil && loaded != "" && st.Else == nil {
					if a := sc.last(identName(ue.X), st.Pos()); a != nil && a.call != nil && a.idx == 1 {
						if c, _ := selCall(a.call, "GetInterface"); c != nil {
							if end == "continue" {
								r.onMissing = "next"
							} else {
								r.onMissing = "stop"
							}
							continue
						}
					}
				}
				// if ok { … }
				if id := identName(st.Cond); id != "" && st.Init == nil && loaded != "" {
					if a := sc.last(id, st.Pos()); a != nil && a.call != nil && a.idx == 1 {
						if c, _ := selCall(a.call, "GetInterface"); c != nil {
							if st.Else != nil {
								r.onMissing = "stop"
							}
							walk(st.Body.List, true)
							continue
						}
					}
				}
				// if self(…, j, target…) { return true }
				if c, name := plainCall(st.Cond); c != nil && name == self && st.Init == nil {
					sawCall = true
					if !recArgs(c, loaded, target) {
						note("%s: the recursive call %q is not on (parent, %s)", where, u.text(c), target)
					}
					if end == "true" {
						r.childTrue = true
					} else {
						note("%s: a parent that reaches the target leads to %q", where, u.text(st.Body))
					}
					if st.Else != nil {
						r.childFalse = "stop"
					}
					continue
				}
				if hasJump(st) {
					note("%s: %q in the loop is not understood", where, u.text(st.Cond))
				}
			case *ast.AssignStmt:
				for _, a := range assignments(st) {
					if a.call != nil && a.idx == 0 {
						if c, _ := selCall(a.call, "GetInterface"); c != nil && len(c.Args) == 1 && isIdent(c.Args[0], p) {
							loaded = a.lhs
						}
					}
				}
			case *ast.ReturnStmt:
				// return self(…): the first parent decides
				if len(st.Results) == 1 {
					if c, name := plainCall(st.Results[0]); c != nil && name == self {
						sawCall = true
						r.childTrue, r.childFalse = true, "stop"
						continue
					}
				}
				note("%s: unconditional %q in the loop", where, u.text(st))
				r.childFalse = "stop"
			case *ast.BranchStmt:
				if st.Tok == token.BREAK {
					r.childFalse = "stop"
				}
				note("%s: unconditional %s in the loop", where, st.Tok)
			default:
				if hasJump(st) {
					note("%s: %q in the loop is not understood", where, u.text(st))
				}
			}
		}
	}
	walk(loop.Body.List, false)
	if !sawCall {
		note("%s: the loop does not call %s on the parents", where, self)
	}
	rest := fd.Body.List[loopAt+1:]
	if len(rest) == 1 {
		if ret, ok := rest[0].(*ast.ReturnStmt); ok && len(ret.Results) >= 1 && isBool(ret.Results[0], "false") {
			r.dry = false
		} else {
			note("%s: after the loop: %q", where, u.text(rest[0]))
		}
	} else {
		note("%s: %d statements after the loop", where, len(rest))
	}
	if r.onSeen != "absent" && seenSet == "" {
		note("%s: seen test without a seen set", where)
	}
	return r, true
}

// the call passes the loaded parent and the target (any position, any extra arguments)
func recArgs(c *ast.CallExpr, loaded, target string) bool {
	hasL, hasT := false, false
	for _, a := range c.Args {
		if isIdent(a, loaded) {
			hasL = true
		}
		if isIdent(a, target) {
			hasT = true
		}
	}
	return hasL && hasT
}
