// extract/c08: regenerates lean/Generated/C08Walks.lean — the SHAPE of every walk over the class hierarchy that the
// C08 model (lean/Model/Hier.lean) mirrors by hand, as data for lean/Model/HierShape.lean:
//
//   worklists  data/type_class.go interfaceExtends: the start test, what the queue is seeded with, how the loop is driven
//              (`for len(q) > 0` re-reads the queue, `for … range q` iterates over a snapshot), which end is taken, the
//              order and the exits of the tests on the name taken (target test, visited test: continue / return, mark,
//              unregistered name), which parents are appended, the value after the loop;
//   recWalks   node/class.go checkInterfaceIs: the name test, the parents ranged over, a seen set if there is one and what
//              a seen parent does, what a parent that reaches / does not reach the target does to the loop;
//   chains     every `for` over the extends chain in extendISClass, ClassValue.GetPropertyStmt / GetMethod,
//              CallParentMethod, CallStaticMethod, CallStaticKeywordMethod, CallSelfMethod, findMethodInHierarchy,
//              findMagicCallOnClass: the cursor, that the class loaded is the parent of the cursor and the cursor advances to
//              the parent of the class just examined, the member tables consulted, extra conditions in the hit test, whether
//              the loop leaves at the first hit, which class is reported with the hit, what a parent that cannot be loaded
//              means, whether the class the walk starts from is itself examined;
//   deciders   isClassValueInstanceOf, Class.Is arm *ThisValue, the body of extendISClass, checkClassIs: the name test, every
//              range over the implements list (direct test, interface walk called and its argument order, early exits), where
//              the parent chain is handed to;
//   routes     which of these functions instanceof, catch and the arms of Class.Is call;
//   bases      the order in which CallParentMethod / CallStaticKeywordMethod pick the class they resolve against;
//   nodeWrites every assignment to a field of an AST node in the method-call nodes' methods.
//
// Anything that does not have the expected syntactic form is reported in shapeNotes (the Lean obligation demands []).
// go/ast only; nothing is executed.
package main

import (
	"fmt"
	"go/ast"
	"os"
	"sort"
	"strings"

	"verif/extract/ex"
)

type chainSite struct{ file, recv, fn, role string }

var chainSites = []chainSite{
	{"data/type_class.go", "", "extendISClass", "extendISClass"},
	{"data/value_class.go", "ClassValue", "GetPropertyStmt", "property"},
	{"data/value_class.go", "ClassValue", "GetMethod", "method"},
	{"node/call_parent_method.go", "CallParentMethod", "GetValue", "parent"},
	{"node/call_static_method.go", "CallStaticMethod", "GetValue", "named"},
	{"node/call_static_keyword_method.go", "CallStaticKeywordMethod", "GetValue", "static"},
	{"node/call_self_method.go", "CallSelfMethod", "GetValue", "-self"},
	{"node/like.go", "", "findMethodInHierarchy", "like"},
	{"node/call_object_method.go", "", "findMagicCallOnClass", "-magic"},
}

var nodeFiles = []string{
	"node/call_object_method.go", "node/call_parent_method.go", "node/call_self_method.go", "node/call_static_method.go",
	"node/call_static_keyword_method.go", "node/instanceof.go", "node/like.go",
}

func whereOf(rel, recv, fn string) string {
	if recv != "" {
		return rel + ":" + recv + "." + fn
	}
	return rel + ":" + fn
}

func main() {
	args := ex.ParseArgs()
	repo := args.Repo

	var ws []worklist
	var rs []recwalk
	var cs []chain
	var ds []decider
	var routes []route
	var bases []base
	var writes []nodeWrite

	// ---- interface walks
	if u := load(repo, "data/type_class.go"); u != nil {
		if fd := u.fn("", "interfaceExtends"); fd != nil {
			ifaceWalks["interfaceExtends"] = true
			w, _ := analyseWorklist(u, fd, "data/type_class.go:interfaceExtends")
			ws = append(ws, w)
		} else {
			note("data/type_class.go: func interfaceExtends not found")
		}
	}
	if u := load(repo, "node/class.go"); u != nil {
		if fd := u.fn("", "checkInterfaceIs"); fd != nil {
			ifaceWalks["checkInterfaceIs"] = true
			r, _ := analyseRecWalk(u, fd, "node/class.go:checkInterfaceIs")
			rs = append(rs, r)
		} else {
			note("node/class.go: func checkInterfaceIs not found")
		}
	}

	// ---- chain loops
	for _, site := range chainSites {
		u := load(repo, site.file)
		if u == nil {
			continue
		}
		where := whereOf(site.file, site.recv, site.fn)
		fd := u.fn(site.recv, site.fn)
		if fd == nil {
			note("%s not found", where)
			continue
		}
		sc := newScope(fd)
		loops := chainLoops(fd)
		if len(loops) == 0 {
			note("%s: no loop over the extends chain", where)
		}
		var first *chain
		k := 0
		for _, l := range loops {
			c := u.analyseChain(fd, sc, l, where, site.role)
			switch {
			case c.literal != "" && strings.HasPrefix(site.role, "-"):
			case c.literal != "":
				c.role = "-" + site.role + ".magic"
			case first == nil:
				first = &c
			default:
				k++
				switch {
				case strings.Join(c.lookups, ",") != strings.Join(first.lookups, ",") && len(c.lookups) == 1 && c.lookups[0] == "GetStaticMethod":
					c.role = site.role + ".static"
				case k == 1 && strings.Join(c.lookups, ",") == strings.Join(first.lookups, ","):
					c.role = site.role + ".dynamic"
				default:
					c.role = fmt.Sprintf("%s.%d", site.role, k)
				}
			}
			cs = append(cs, c)
		}
	}

	// ---- deciders
	if u := load(repo, "data/type_class.go"); u != nil {
		if fd := u.fn("", "isClassValueInstanceOf"); fd != nil {
			strs := paramsOfType(fd, func(t string) bool { return t == "string" })
			cls := paramsOfType(fd, func(t string) bool { return strings.HasSuffix(t, "ClassStmt") })
			if len(strs) == 1 && len(cls) == 1 {
				ds = append(ds, u.analyseDecider(fd, newScope(fd), fd.Body.List, "data/type_class.go:isClassValueInstanceOf", cls[0], strs[0], false))
			} else {
				note("data/type_class.go:isClassValueInstanceOf: parameters %v %v", strs, cls)
			}
			routes = append(routes, route{"data/type_class.go:isClassValueInstanceOf", callsIn(fd.Body, false)})
		} else {
			note("data/type_class.go: func isClassValueInstanceOf not found")
		}
		if fd := u.fn("Class", "Is"); fd != nil {
			recv := ""
			if len(fd.Recv.List[0].Names) > 0 {
				recv = fd.Recv.List[0].Names[0].Name
			}
			bind := ""
			ast.Inspect(fd.Body, func(x ast.Node) bool {
				if ts, ok := x.(*ast.TypeSwitchStmt); ok && bind == "" {
					if as, ok := ts.Assign.(*ast.AssignStmt); ok && len(as.Lhs) == 1 {
						bind = identName(as.Lhs[0])
					}
				}
				return bind == ""
			})
			for _, arm := range []string{"ClassValue", "ThisValue", "ThrowValue"} {
				cc := typeCase(fd, arm)
				if cc == nil {
					note("data/type_class.go:Class.Is: no case *%s", arm)
					continue
				}
				routes = append(routes, route{"data/type_class.go:Class.Is#" + arm, callsIn(cc, false)})
				if arm == "ThisValue" {
					ds = append(ds, u.analyseDecider(fd, newScope(fd), cc.Body, "data/type_class.go:Class.Is#ThisValue", bind+".Class", recv+".Name", false))
				}
			}
		} else {
			note("data/type_class.go: method Class.Is not found")
		}
		if fd := u.fn("", "extendISClass"); fd != nil {
			strs := paramsOfType(fd, func(t string) bool { return t == "string" })
			loops := chainLoops(fd)
			if len(strs) == 1 && len(loops) == 1 {
				loaded := ""
				for _, a := range assignments(loops[0].Body) {
					if a.idx == 0 && a.call != nil && isLoad(a.call) != nil {
						loaded = a.lhs
					}
				}
				d := u.analyseDecider(fd, newScope(fd), loops[0].Body.List, "extendISClass", loaded, strs[0], true)
				ds = append(ds, d)
			} else {
				note("data/type_class.go:extendISClass: %d string parameters, %d loops", len(strs), len(loops))
			}
			routes = append(routes, route{"data/type_class.go:extendISClass", callsIn(fd.Body, false)})
		}
	}
	if u := load(repo, "node/class.go"); u != nil {
		if fd := u.fn("", "checkClassIs"); fd != nil {
			strs := paramsOfType(fd, func(t string) bool { return t == "string" })
			cls := paramsOfType(fd, func(t string) bool { return strings.HasSuffix(t, "ClassStmt") })
			if len(strs) == 1 && len(cls) == 1 {
				ds = append(ds, u.analyseDecider(fd, newScope(fd), fd.Body.List, "node/class.go:checkClassIs", cls[0], strs[0], false))
			} else {
				note("node/class.go:checkClassIs: parameters %v %v", strs, cls)
			}
			routes = append(routes, route{"node/class.go:checkClassIs", callsIn(fd.Body, false)})
		} else {
			note("node/class.go: func checkClassIs not found")
		}
	}
	if u := load(repo, "node/instanceof.go"); u != nil {
		if fd := u.fn("", "instanceof"); fd != nil {
			routes = append(routes, route{"node/instanceof.go:instanceof", callsIn(fd.Body, false)})
		} else {
			note("node/instanceof.go: func instanceof not found")
		}
	}
	if u := load(repo, "node/try.go"); u != nil {
		if fd := u.fn("", "catchTypeMatches"); fd != nil {
			routes = append(routes, route{"node/try.go:catchTypeMatches", callsIn(fd.Body, true)})
		} else {
			note("node/try.go: func catchTypeMatches not found")
		}
	}

	// ---- bases
	if u := load(repo, "node/call_parent_method.go"); u != nil {
		if fd := u.fn("CallParentMethod", "GetValue"); fd != nil {
			bases = append(bases, u.analyseBase(fd, "node/call_parent_method.go:CallParentMethod.GetValue", "class"))
		}
	}
	if u := load(repo, "node/call_static_keyword_method.go"); u != nil {
		if fd := u.fn("CallStaticKeywordMethod", "GetValue"); fd != nil {
			bases = append(bases, u.analyseBase(fd, "node/call_static_keyword_method.go:CallStaticKeywordMethod.GetValue", "currentClass"))
		}
	}

	// ---- node writes
	for _, rel := range nodeFiles {
		if u := load(repo, rel); u != nil {
			writes = append(writes, nodeWrites(u)...)
		}
	}

	// ---- emit
	var sb strings.Builder
	sb.WriteString("import Model.HierShape\nimport Model.HierNames\n")
	sb.WriteString("/-! The shape of the walks over the class hierarchy (data/type_class.go, data/value_class.go, node/class.go, node/like.go,\nnode/call_*_method.go), regenerated by extract/c08. -/\n")
	sb.WriteString("namespace Generated.C08Walks\nopen Model.HierShape\nopen Model.Hier (NameTest NameKind)\n\n")
	list := func(name, ty string, items []string) {
		sb.WriteString(fmt.Sprintf("def %s : List %s :=\n  [", name, ty))
		sb.WriteString(strings.Join(items, ",\n    "))
		sb.WriteString("]\n\n")
	}
	var items []string
	for _, w := range ws {
		items = append(items, w.lean())
	}
	list("worklists", "Worklist", items)
	items = nil
	for _, r := range rs {
		items = append(items, r.lean())
	}
	list("recWalks", "RecWalk", items)
	items = nil
	for _, c := range cs {
		items = append(items, c.lean())
	}
	list("chains", "Chain", items)
	items = nil
	for _, d := range ds {
		items = append(items, d.lean())
	}
	list("deciders", "Decider", items)
	items = nil
	sort.Slice(routes, func(i, j int) bool { return routes[i].site < routes[j].site })
	for _, r := range routes {
		items = append(items, r.lean())
	}
	list("routes", "Route", items)
	items = nil
	for _, b := range bases {
		items = append(items, b.lean())
	}
	list("bases", "Base", items)
	items = nil
	for _, w := range writes {
		items = append(items, fmt.Sprintf("⟨%s, %s⟩", leanStr(w.fn), leanStr(w.field)))
	}
	list("nodeWrites", "NodeWrite", items)
	items = nil
	names := analyseNames(repo)
	for _, n := range names {
		items = append(items, n.lean())
	}
	list("nameTests", "NameTest", items)
	items = nil
	items = nil
	for _, n := range notes {
		items = append(items, leanStr(n))
	}
	list("shapeNotes", "String", items)
	sb.WriteString("end Generated.C08Walks\n")
	if err := ex.WriteIfChanged(args.Out, "C08Walks.lean", sb.String()); err != nil {
		fmt.Fprintln(os.Stderr, err)
		os.Exit(1)
	}
	fmt.Printf("c08: %d worklist, %d recursive walk, %d chain loops, %d deciders, %d routes, %d node writes, %d name tests, %d notes\n",
		len(ws), len(rs), len(cs), len(ds), len(routes), len(writes), len(names), len(notes))
	for _, n := range notes {
		fmt.Println("  note: " + n)
	}
}
