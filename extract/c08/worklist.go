package main

import (
	"fmt"
	"go/ast"
	"go/token"
)

// Worklist: a function that walks the interface graph with a slice used as a queue (data/type_class.go interfaceExtends)
type worklist struct {
	fn        string
	startHit  bool
	seed      string // Sel
	loop      string // Loop
	take      string // Take
	hitOnTake bool
	onSeen    string
	marks     bool
	onMissing string
	hitOnLoad bool
	push      string
	dry       bool
}

func sel(kind, src string) string {
	if kind == "other" {
		return ".other " + leanStr(src)
	}
	return "." + kind
}

func (w worklist) lean() string {
	return fmt.Sprintf("{ fn := %s, startHit := %s, seed := %s, loop := %s, take := %s, hitOnTake := %s, onSeen := .%s, marks := %s,\n      onMissing := .%s, hitOnLoad := %s, push := %s, dry := %s }",
		leanStr(w.fn), leanBool(w.startHit), w.seed, w.loop, w.take, leanBool(w.hitOnTake), w.onSeen, leanBool(w.marks),
		w.onMissing, leanBool(w.hitOnLoad), w.push, leanBool(w.dry))
}

// which parents `e` denotes when it is appended to / stored into the queue: `X.GetExtends()...` → all,
// `X.GetExtends()[0]` / `[:1]` → first; X must resolve to the interface `of`
func (u *unit) parentsOf(sc *scope, e ast.Expr, ellipsis bool, of string) string {
	e = unparen(e)
	if c, recv := selCall(e, "GetExtends"); c != nil {
		if !sc.resolvesTo(recv, e.Pos(), of) {
			return sel("other", u.text(e))
		}
		if ellipsis {
			return ".all"
		}
		return sel("other", u.text(e))
	}
	switch x := e.(type) {
	case *ast.IndexExpr:
		if c, recv := selCall(x.X, "GetExtends"); c != nil && sc.resolvesTo(recv, e.Pos(), of) {
			if bl, ok := x.Index.(*ast.BasicLit); ok && bl.Value == "0" && !ellipsis {
				return ".first"
			}
		}
	case *ast.SliceExpr:
		if c, recv := selCall(x.X, "GetExtends"); c != nil && sc.resolvesTo(recv, e.Pos(), of) && ellipsis {
			if x.Low == nil && x.High == nil {
				return ".all"
			}
			if bl, ok := x.High.(*ast.BasicLit); ok && bl.Value == "1" && (x.Low == nil || flat(x.Low) == "0") {
				return ".first"
			}
		}
	}
	return sel("other", u.text(e))
}

// the value stored into the queue variable q by `q = rhs` / `q := rhs`: which parents of `of` it adds
func (u *unit) queueStore(sc *scope, q string, rhs ast.Expr, of string) (string, bool) {
	rhs = unparen(rhs)
	if c, name := plainCall(rhs); c != nil && name == "append" && len(c.Args) >= 1 {
		// append(q, X...) adds to the queue; append([]string(nil), X...) / append([]string{}, X...) is a copy of X
		first := unparen(c.Args[0])
		base := isIdent(first, q)
		if !base {
			switch f := first.(type) {
			case *ast.CallExpr: // []string(nil)
				base = len(f.Args) == 1 && identName(f.Args[0]) == "nil"
			case *ast.CompositeLit:
				base = len(f.Elts) == 0
			}
		}
		if !base {
			return sel("other", u.text(rhs)), true
		}
		if len(c.Args) == 1 {
			return ".none", true
		}
		if len(c.Args) == 2 {
			return u.parentsOf(sc, c.Args[1], c.Ellipsis.IsValid(), of), true
		}
		return sel("other", u.text(rhs)), true
	}
	if c, _ := selCall(rhs, "GetExtends"); c != nil {
		return u.parentsOf(sc, rhs, true, of), true
	}
	if c, name := plainCall(rhs); c != nil && name == "make" {
		return ".none", true
	}
	if cl, ok := rhs.(*ast.CompositeLit); ok && len(cl.Elts) == 0 {
		return ".none", true
	}
	if identName(rhs) == "nil" {
		return ".none", true
	}
	return "", false
}

func mergeSel(a, b string) string {
	switch {
	case a == "" || a == ".none":
		return b
	case b == "" || b == ".none":
		return a
	case a == b:
		return a
	}
	return sel("other", a+" + "+b)
}

func analyseWorklist(u *unit, fd *ast.FuncDecl, where string) (worklist, bool) {
	w := worklist{fn: where, seed: ".none", loop: sel("other", "no loop"), take: sel("other", "not found"), onSeen: "absent", onMissing: "next", push: ".none"}
	strs := paramsOfType(fd, func(t string) bool { return t == "string" })
	if len(strs) != 2 {
		note("%s: expected (start, target string) parameters, found %v", where, strs)
		return w, false
	}
	start, target := strs[0], strs[1]
	sc := newScope(fd)
	isT := func(e ast.Expr) bool { return isIdent(e, target) }

	// the loop: the first top-level for / range statement
	var loop ast.Stmt
	loopAt := -1
	for i, s := range fd.Body.List {
		switch s.(type) {
		case *ast.ForStmt, *ast.RangeStmt:
			loop, loopAt = s, i
		}
		if loop != nil {
			break
		}
	}
	if loop == nil {
		note("%s: no top-level loop", where)
		return w, false
	}

	// the queue variable and how the loop is driven
	var q, name, idx string
	var body *ast.BlockStmt
	switch l := loop.(type) {
	case *ast.ForStmt:
		body = l.Body
		lenOf := func(e ast.Expr) string {
			if c, n := plainCall(e); c != nil && n == "len" && len(c.Args) == 1 {
				return identName(c.Args[0])
			}
			return ""
		}
		if b, ok := unparen(l.Cond).(*ast.BinaryExpr); ok {
			x, y := lenOf(b.X), lenOf(b.Y)
			switch {
			case x != "" && (b.Op == token.GTR || b.Op == token.NEQ) && flat(b.Y) == "0":
				q = x
			case y != "" && (b.Op == token.LSS || b.Op == token.NEQ) && flat(b.X) == "0":
				q = y
			case x != "" && b.Op == token.GEQ && flat(b.Y) == "1":
				q = x
			case y != "" && b.Op == token.LSS && identName(b.X) != "":
				q, idx = y, identName(b.X) // for i := 0; i < len(q); i++
			}
		}
		if q == "" {
			w.loop = sel("other", u.text(l.Cond))
			note("%s: the loop condition %q does not read the length of a queue", where, u.text(l.Cond))
			return w, false
		}
		w.loop = ".live"
		if idx != "" {
			ok := false
			if inc, isInc := l.Post.(*ast.IncDecStmt); isInc && inc.Tok == token.INC && isIdent(inc.X, idx) {
				ok = true
			}
			if !ok {
				w.loop = sel("other", u.text(l.Post))
			}
		}
	case *ast.RangeStmt:
		body = l.Body
		q = identName(l.X)
		if q == "" {
			w.loop = sel("other", "range "+u.text(l.X))
			note("%s: the loop ranges over %q, not over a queue variable", where, u.text(l.X))
			return w, false
		}
		w.loop = ".snapshot"
		name = identName(l.Value)
		if name != "" && name != "_" {
			w.take = ".head"
		}
	}

	// before the loop: the start test, the start interface, what the queue is seeded with
	var startIface string
	for _, s := range fd.Body.List[:loopAt] {
		switch st := s.(type) {
		case *ast.IfStmt:
			if st.Init == nil && isEq(st.Cond, func(e ast.Expr) bool { return isIdent(e, start) }, isT) && ending(st.Body) == "true" && startIface == "" {
				w.startHit = true
			}
		}
		for _, a := range assignments(s) {
			if a.call != nil && a.idx == 0 {
				if c, _ := selCall(a.call, "GetInterface"); c != nil && len(c.Args) == 1 && isIdent(c.Args[0], start) && startIface == "" {
					startIface = a.lhs
				}
			}
			if a.lhs == q && a.rhs != nil {
				if k, ok := u.queueStore(sc, q, a.rhs, startIface); ok {
					w.seed = mergeSel(w.seed, k)
				} else {
					w.seed = sel("other", u.text(a.rhs))
				}
			}
		}
		if ds, ok := s.(*ast.DeclStmt); ok && mentions(ds, q) {
			// `var queue []string`: empty
			_ = ds
		}
	}
	if startIface == "" {
		note("%s: the start interface is not looked up with GetInterface(%s) before the loop", where, start)
	}

	// the body, statement by statement
	var visited, loaded string
	removed := false
	looked := false
	var walk func(list []ast.Stmt, top bool)
	walk = func(list []ast.Stmt, top bool) {
		for _, s := range list {
			switch st := s.(type) {
			case *ast.AssignStmt:
				handled := false
				for _, a := range assignments(st) {
					switch {
					case a.rhs != nil && name == "" && a.lhs != q && isQueueIndex(a.rhs, q, "0"):
						name, w.take, handled = a.lhs, ".head", true
					case a.rhs != nil && name == "" && a.lhs != q && idx != "" && isQueueIndex(a.rhs, q, idx):
						name, w.take, handled, removed = a.lhs, ".head", true, true
					case a.rhs != nil && name == "" && a.lhs != q && isQueueIndex(a.rhs, q, "len("+q+")-1"):
						name, w.take, handled = a.lhs, ".last", true
					case a.lhs == q && a.rhs != nil && isSliceFrom(a.rhs, q, "1", ""):
						removed, handled = true, true
						if w.take != ".head" {
							w.take = sel("other", u.text(st))
						}
					case a.lhs == q && a.rhs != nil && isSliceFrom(a.rhs, q, "", "len("+q+")-1"):
						removed, handled = true, true
						if w.take != ".last" {
							w.take = sel("other", u.text(st))
						}
					case a.lhs == q && a.rhs != nil:
						handled = true
						if k, ok := u.queueStore(sc, q, a.rhs, loaded); ok {
							if !top {
								k = sel("other", "conditional: "+u.text(st))
							}
							w.push = mergeSel(w.push, k)
						} else {
							w.push = sel("other", u.text(st))
						}
					case a.call != nil && a.idx == 0:
						if c, _ := selCall(a.call, "GetInterface"); c != nil && len(c.Args) == 1 && isIdent(c.Args[0], name) {
							loaded, looked, handled = a.lhs, true, true
						}
					}
				}
				// visited[name] = true
				if len(st.Lhs) == 1 && len(st.Rhs) == 1 {
					if ix, ok := unparen(st.Lhs[0]).(*ast.IndexExpr); ok && isIdent(ix.Index, name) && identName(ix.X) != "" {
						if visited == "" || identName(ix.X) == visited {
							visited = identName(ix.X)
							if top && w.push == ".none" {
								w.marks = true
							}
							handled = true
						}
					}
				}
				if !handled && (mentions(st, q) || (name != "" && assignsTo(st, name))) {
					note("%s: statement %q in the loop touches the queue in a way the translator does not know", where, u.text(st))
				}
			case *ast.IfStmt:
				u.worklistIf(&w, sc, st, where, q, name, target, &visited, &loaded, &looked, top, walk)
			case *ast.RangeStmt:
				// for _, e := range parent.GetExtends() { queue = append(queue, e) }   (possibly under `if !visited[e]`)
				if k, ok := u.pushLoop(sc, st, q, loaded, visited); ok {
					if !top {
						k = sel("other", "conditional: "+u.text(st))
					}
					w.push = mergeSel(w.push, k)
				} else if mentions(st, q) || hasJump(st) {
					note("%s: inner loop %q is not understood", where, u.text(st))
				}
			case *ast.ExprStmt, *ast.DeclStmt, *ast.EmptyStmt, *ast.IncDecStmt:
				if mentions(st, q) {
					note("%s: statement %q mentions the queue", where, u.text(st))
				}
			case *ast.BranchStmt:
				if st.Tok != token.CONTINUE || !top {
					note("%s: unconditional %s in the loop", where, st.Tok)
				} else {
					note("%s: unconditional continue in the loop", where)
				}
			default:
				if hasJump(st) || mentions(st, q) {
					note("%s: statement %q in the loop is not understood", where, u.text(st))
				}
			}
		}
	}
	walk(body.List, true)
	if _, isFor := loop.(*ast.ForStmt); isFor && !removed && w.take != sel("other", "not found") {
		w.take = sel("other", "the element taken is never removed from "+q)
	}
	if name == "" {
		note("%s: no element is taken from the queue %s", where, q)
	}
	_ = looked

	// after the loop
	w.dry = true
	rest := fd.Body.List[loopAt+1:]
	if len(rest) == 1 {
		if r, ok := rest[0].(*ast.ReturnStmt); ok && len(r.Results) == 1 && isBool(r.Results[0], "false") {
			w.dry = false
		} else {
			note("%s: after the loop: %q", where, u.text(rest[0]))
		}
	} else {
		note("%s: %d statements after the loop", where, len(rest))
	}
	return w, true
}

func assignsTo(st *ast.AssignStmt, name string) bool {
	for _, l := range st.Lhs {
		if isIdent(l, name) {
			return true
		}
	}
	return false
}

func isQueueIndex(e ast.Expr, q, index string) bool {
	ix, ok := unparen(e).(*ast.IndexExpr)
	return ok && isIdent(ix.X, q) && flat(ix.Index) == index
}

func isSliceFrom(e ast.Expr, q, low, high string) bool {
	sl, ok := unparen(e).(*ast.SliceExpr)
	if !ok || !isIdent(sl.X, q) || sl.Slice3 {
		return false
	}
	l, h := "", ""
	if sl.Low != nil {
		l = flat(sl.Low)
	}
	if sl.High != nil {
		h = flat(sl.High)
	}
	if l == "0" {
		l = ""
	}
	return l == low && h == high
}

// `visited[name]`, `!visited[name]`, or an identifier bound by the if's init `_, seen := visited[name]`
func seenTest(st *ast.IfStmt, name string, visited *string) (bool, bool) {
	cond := unparen(st.Cond)
	neg := false
	if ue, ok := cond.(*ast.UnaryExpr); ok && ue.Op == token.NOT {
		neg, cond = true, unparen(ue.X)
	}
	if ix, ok := cond.(*ast.IndexExpr); ok && isIdent(ix.Index, name) && identName(ix.X) != "" {
		if *visited == "" || *visited == identName(ix.X) {
			*visited = identName(ix.X)
			return true, neg
		}
	}
	if id := identName(cond); id != "" && st.Init != nil {
		if as, ok := st.Init.(*ast.AssignStmt); ok && len(as.Lhs) == 2 && len(as.Rhs) == 1 && isIdent(as.Lhs[1], id) {
			if ix, ok := unparen(as.Rhs[0]).(*ast.IndexExpr); ok && isIdent(ix.Index, name) && identName(ix.X) != "" {
				*visited = identName(ix.X)
				return true, neg
			}
		}
	}
	return false, false
}

func (u *unit) worklistIf(w *worklist, sc *scope, st *ast.IfStmt, where, q, name, target string, visited, loaded *string, looked *bool, top bool, walk func([]ast.Stmt, bool)) {
	isT := func(e ast.Expr) bool { return isIdent(e, target) }
	end := ending(st.Body)
	// if name == target { return true }
	if st.Init == nil && st.Else == nil && isEq(st.Cond, func(e ast.Expr) bool { return isIdent(e, name) }, isT) {
		if end == "true" && top && !*looked {
			w.hitOnTake = true
			return
		}
		if end == "true" && top {
			w.hitOnLoad = true // the same test after the lookup only sees registered names
			return
		}
	}
	// if parent.GetName() == target { return true }
	if st.Init == nil && st.Else == nil && *loaded != "" && isEq(st.Cond, func(e ast.Expr) bool {
		c, recv := selCall(e, "GetName")
		return c != nil && isIdent(recv, *loaded)
	}, isT) {
		if end == "true" {
			w.hitOnLoad = true
			return
		}
	}
	// the visited test
	if isSeen, neg := seenTest(st, name, visited); isSeen && name != "" {
		if !neg && st.Else == nil {
			switch end {
			case "continue":
				w.onSeen = "skip"
			default:
				w.onSeen = "stop"
			}
			if len(st.Body.List) != 1 {
				note("%s: the visited branch %q does more than leave", where, u.text(st.Body))
			}
			return
		}
		if neg && st.Else == nil {
			// if !visited[name] { …the rest of the trip… }
			w.onSeen = "skip"
			walk(st.Body.List, top)
			return
		}
		note("%s: visited test %q has an unusual form", where, u.text(st.Cond))
		return
	}
	// the lookup: `if p, ok := vm.GetInterface(name); ok { … }` / `if !ok { continue }`
	if st.Init != nil {
		if as, ok := st.Init.(*ast.AssignStmt); ok && len(as.Lhs) == 2 && len(as.Rhs) == 1 {
			if c, _ := selCall(as.Rhs[0], "GetInterface"); c != nil && len(c.Args) == 1 && isIdent(c.Args[0], name) && isIdent(st.Cond, identName(as.Lhs[1])) {
				*loaded, *looked = identName(as.Lhs[0]), true
				if st.Else != nil {
					if eb, isBlock := st.Else.(*ast.BlockStmt); isBlock && ending(eb) == "continue" {
						w.onMissing = "next"
					} else {
						w.onMissing = "stop"
					}
				}
				walk(st.Body.List, top)
				return
			}
		}
	}
	if ue, ok := unparen(st.Cond).(*ast.UnaryExpr); ok && ue.Op == token.NOT && st.Init == nil && *looked && st.Else == nil {
		if okVar := identName(ue.X); okVar != "" {
			if a := sc.last(okVar, st.Pos()); a != nil && a.call != nil && a.idx == 1 {
				if c, _ := selCall(a.call, "GetInterface"); c != nil {
					if end == "continue" {
						w.onMissing = "next"
					} else {
						w.onMissing = "stop"
					}
					return
				}
			}
		}
	}
	if id := identName(st.Cond); id != "" && st.Init == nil && *looked && st.Else == nil {
		if a := sc.last(id, st.Pos()); a != nil && a.call != nil && a.idx == 1 {
			if c, _ := selCall(a.call, "GetInterface"); c != nil {
				walk(st.Body.List, top)
				return
			}
		}
	}
	// anything else: harmless unless it can leave the loop or touches the queue / the visited set
	if hasJump(st) || mentions(st, q) || (*visited != "" && mentions(st, *visited)) {
		note("%s: %q in the loop is not understood", where, u.text(st.Cond))
		walk(st.Body.List, false)
	}
}

// for _, e := range P.GetExtends() { q = append(q, e) }   — optionally guarded by `if !visited[e]`
func (u *unit) pushLoop(sc *scope, st *ast.RangeStmt, q, loaded, visited string) (string, bool) {
	c, recv := selCall(st.X, "GetExtends")
	if c == nil || !sc.resolvesTo(recv, st.Pos(), loaded) {
		return "", false
	}
	e := identName(st.Value)
	if e == "" || len(st.Body.List) != 1 {
		return "", false
	}
	inner := st.Body.List[0]
	if is, ok := inner.(*ast.IfStmt); ok && is.Else == nil && is.Init == nil && len(is.Body.List) == 1 {
		if ue, ok := unparen(is.Cond).(*ast.UnaryExpr); ok && ue.Op == token.NOT {
			if ix, ok := unparen(ue.X).(*ast.IndexExpr); ok && isIdent(ix.Index, e) && (visited == "" || isIdent(ix.X, visited)) {
				inner = is.Body.List[0]
			}
		}
	}
	as, ok := inner.(*ast.AssignStmt)
	if !ok || len(as.Lhs) != 1 || len(as.Rhs) != 1 || !isIdent(as.Lhs[0], q) {
		return "", false
	}
	if call, name := plainCall(as.Rhs[0]); call != nil && name == "append" && len(call.Args) == 2 && isIdent(call.Args[0], q) && isIdent(call.Args[1], e) && !call.Ellipsis.IsValid() {
		return ".all", true
	}
	return "", false
}
