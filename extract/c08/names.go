package main

// Name-based special cases of the subtype deciders: every comparison of a (type-name) string with a string
// literal inside catchTypeMatches, Class.Is, isClassValueInstanceOf, extendISClass, interfaceExtends,
// instanceof, checkClassIs, checkInterfaceIs and every plain function of the same file they call
// (isThrowableTypeName …). Recorded as (function, literal, kind of comparison); what a kind MEANS is
// Model.Hier.NameKind.holds, which kinds are exact is Model.Hier.NameKind.exact.

import (
	"fmt"
	"go/ast"
	"go/token"
	"sort"
	"strconv"
	"strings"
)

type nameTest struct{ fn, special, kind string }

func (n nameTest) lean() string {
	return fmt.Sprintf("⟨%s, %s, .%s⟩", leanStr(n.fn), leanStr(n.special), n.kind)
}

type nameSite struct{ file, recv, fn string }

var nameSites = []nameSite{
	{"data/type_class.go", "Class", "Is"},
	{"data/type_class.go", "", "isClassValueInstanceOf"},
	{"data/type_class.go", "", "extendISClass"},
	{"data/type_class.go", "", "interfaceExtends"},
	{"node/class.go", "", "checkClassIs"},
	{"node/class.go", "", "checkInterfaceIs"},
	{"node/instanceof.go", "", "instanceof"},
	{"node/try.go", "", "catchTypeMatches"},
}

func strLit(e ast.Expr) (string, bool) {
	b, ok := unparen(e).(*ast.BasicLit)
	if !ok || b.Kind != token.STRING {
		return "", false
	}
	s, err := strconv.Unquote(b.Value)
	if err != nil {
		return "", false
	}
	return s, true
}

// strings.<fn>(args…)
func stringsCall(e ast.Expr) (string, []ast.Expr) {
	c, ok := unparen(e).(*ast.CallExpr)
	if !ok {
		return "", nil
	}
	s, ok := c.Fun.(*ast.SelectorExpr)
	if !ok || identName(s.X) != "strings" {
		return "", nil
	}
	return s.Sel.Name, c.Args
}

// how the string compared with `==` against a literal was obtained from the name
func operandKind(fd *ast.FuncDecl, e ast.Expr, depth int) string {
	e = unparen(e)
	if fn, args := stringsCall(e); fn != "" {
		switch fn {
		case "TrimPrefix":
			if len(args) == 2 {
				if l, ok := strLit(args[1]); ok && l == "\\" && operandKind(fd, args[0], depth+1) == "eq" {
					return "eqStripLead"
				}
			}
			return "other"
		case "ToLower", "ToUpper", "Title":
			return "fold"
		}
		return "other"
	}
	switch x := e.(type) {
	case *ast.SelectorExpr:
		return "eq"
	case *ast.SliceExpr, *ast.IndexExpr:
		return "baseName"
	case *ast.CallExpr:
		// c.GetName(), class.GetName(): the name of a declaration, not a transformation
		if s, ok := x.Fun.(*ast.SelectorExpr); ok && len(x.Args) == 0 && strings.HasPrefix(s.Sel.Name, "Get") {
			return "eq"
		}
		return "other"
	case *ast.StarExpr:
		return operandKind(fd, x.X, depth+1)
	case *ast.Ident:
		if depth > 4 {
			return "other"
		}
		kind := "eq"
		ast.Inspect(fd.Body, func(n ast.Node) bool {
			as, ok := n.(*ast.AssignStmt)
			if !ok || len(as.Lhs) != len(as.Rhs) {
				return true
			}
			for i, l := range as.Lhs {
				if identName(l) != x.Name {
					continue
				}
				if id, ok := unparen(as.Rhs[i]).(*ast.Ident); ok && id.Name == x.Name {
					continue
				}
				k := operandKind(fd, as.Rhs[i], depth+1)
				if k != "eq" && (kind == "eq" || k == "other") {
					kind = k
				}
			}
			return true
		})
		return kind
	}
	return "other"
}

func isNameLiteral(s string) bool {
	return s != "" && strings.Trim(s, "\\") != ""
}

func nameTestsOf(u *unit, fd *ast.FuncDecl, where string) []nameTest {
	var out []nameTest
	add := func(special, kind string) {
		if !isNameLiteral(special) {
			return
		}
		out = append(out, nameTest{where, special, kind})
	}
	ast.Inspect(fd.Body, func(n ast.Node) bool {
		switch x := n.(type) {
		case *ast.BinaryExpr:
			if x.Op != token.EQL && x.Op != token.NEQ {
				return true
			}
			if l, ok := strLit(x.Y); ok {
				add(l, operandKind(fd, x.X, 0))
			} else if l, ok := strLit(x.X); ok {
				add(l, operandKind(fd, x.Y, 0))
			}
		case *ast.CallExpr:
			fn, args := stringsCall(x)
			if fn == "" || len(args) < 2 {
				return true
			}
			l, ok := strLit(args[1])
			if !ok {
				if l0, ok0 := strLit(args[0]); ok0 && fn == "EqualFold" {
					add(l0, "fold")
				}
				return true
			}
			switch fn {
			case "HasSuffix":
				if strings.HasPrefix(l, "\\") && operandKind(fd, args[0], 0) == "eq" {
					add(strings.TrimPrefix(l, "\\"), "suffixSep")
				} else {
					add(l, "suffix")
				}
			case "HasPrefix":
				add(l, "«prefix»")
			case "Contains", "Index", "LastIndex", "Count":
				add(l, "contains")
			case "EqualFold":
				add(l, "fold")
			case "TrimPrefix", "TrimSuffix", "TrimLeft", "TrimRight", "Trim", "Split", "SplitN", "ReplaceAll", "Replace":
				// transformations: what matters is the comparison made with the result
			default:
				add(l, "other")
			}
		case *ast.SwitchStmt:
			if x.Tag == nil {
				return true
			}
			kind := operandKind(fd, x.Tag, 0)
			for _, st := range x.Body.List {
				if cc, ok := st.(*ast.CaseClause); ok {
					for _, e := range cc.List {
						if l, ok := strLit(e); ok {
							add(l, kind)
						}
					}
				}
			}
		}
		return true
	})
	return out
}

// plain functions of the same file called from fd (transitively)
func sameFileCallees(u *unit, fd *ast.FuncDecl, seen map[string]bool) []*ast.FuncDecl {
	var out []*ast.FuncDecl
	ast.Inspect(fd.Body, func(n ast.Node) bool {
		c, ok := n.(*ast.CallExpr)
		if !ok {
			return true
		}
		id, ok := c.Fun.(*ast.Ident)
		if !ok || seen[id.Name] {
			return true
		}
		if g := u.fn("", id.Name); g != nil && g.Body != nil {
			seen[id.Name] = true
			out = append(out, g)
			out = append(out, sameFileCallees(u, g, seen)...)
		}
		return true
	})
	return out
}

func analyseNames(repo string) []nameTest {
	var out []nameTest
	walkSeen := map[string]bool{}
	for _, s := range nameSites {
		u := load(repo, s.file)
		if u == nil {
			continue
		}
		fd := u.fn(s.recv, s.fn)
		if fd == nil || fd.Body == nil {
			note("%s not found (name tests)", whereOf(s.file, s.recv, s.fn))
			continue
		}
		key := s.file + ":" + s.recv + "." + s.fn
		if walkSeen[key] {
			continue
		}
		walkSeen[key] = true
		out = append(out, nameTestsOf(u, fd, whereOf(s.file, s.recv, s.fn))...)
		seen := map[string]bool{s.fn: true}
		for _, n := range nameSites {
			if n.file == s.file && n.recv == "" {
				seen[n.fn] = true // has its own entry
			}
		}
		for _, g := range sameFileCallees(u, fd, seen) {
			k := s.file + ":." + g.Name.Name
			if walkSeen[k] {
				continue
			}
			walkSeen[k] = true
			out = append(out, nameTestsOf(u, g, whereOf(s.file, "", g.Name.Name))...)
		}
	}
	sort.SliceStable(out, func(i, j int) bool {
		if out[i].fn != out[j].fn {
			return out[i].fn < out[j].fn
		}
		if out[i].special != out[j].special {
			return out[i].special < out[j].special
		}
		return out[i].kind < out[j].kind
	})
	// one record per (function, literal, kind)
	var uniq []nameTest
	for i, n := range out {
		if i == 0 || n != out[i-1] {
			uniq = append(uniq, n)
		}
	}
	return uniq
}
