package main

import (
	"fmt"
	"go/ast"
	"go/token"
	"sort"
	"strings"
)

// Chain: a loop over the extends chain
type chain struct {
	fn        string
	role      string
	start     string
	from      string // From
	advance   string // Adv
	lookups   []string
	extra     []string
	onHit     string
	found     string
	onMissing string
	repair    bool
	literal   string // the lookup asks for a fixed name ("__callStatic"): a magic-method walk
}

func (c chain) lean() string {
	return fmt.Sprintf("{ fn := %s, role := %s, start := %s, «from» := %s, advance := %s,\n      lookups := %s, extra := %s, onHit := .%s, found := %s, repair := %s, onMissing := %s }",
		leanStr(c.fn), leanStr(c.role), leanStr(c.start), c.from, c.advance, leanStrs(c.lookups), leanStrs(c.extra), c.onHit, c.found, leanBool(c.repair), leanStr(c.onMissing))
}

var memberLookups = map[string]bool{"GetMethod": true, "GetStaticMethod": true, "GetProperty": true, "GetStaticProperty": true, "GetConstant": true}

func isLoad(e ast.Expr) *ast.CallExpr {
	for _, n := range []string{"GetClass", "GetOrLoadClass"} {
		if c, _ := selCall(e, n); c != nil && len(c.Args) == 1 {
			return c
		}
	}
	return nil
}

// flat text of e with local names replaced by what they were last assigned (copies, derefs, GetExtend() calls), the
// names in stop left alone
func (sc *scope) expand(e ast.Expr, pos token.Pos, stop map[string]bool, depth int) string {
	e = unparen(e)
	if depth > 5 {
		return flat(e)
	}
	switch x := e.(type) {
	case *ast.Ident:
		if stop[x.Name] {
			return x.Name
		}
		if a := sc.last(x.Name, pos); a != nil && a.rhs != nil && a.call == nil {
			switch r := unparen(a.rhs).(type) {
			case *ast.StarExpr, *ast.SelectorExpr:
				return sc.expand(r, a.pos, stop, depth+1)
			case *ast.Ident:
				if r.Name != "nil" {
					return sc.expand(r, a.pos, stop, depth+1)
				}
			case *ast.CallExpr:
				if c, _ := selCall(r, "GetExtend"); c != nil {
					return sc.expand(r, a.pos, stop, depth+1)
				}
			}
		}
		return x.Name
	case *ast.StarExpr:
		return "*" + sc.expand(x.X, pos, stop, depth+1)
	case *ast.ParenExpr:
		return sc.expand(x.X, pos, stop, depth+1)
	case *ast.CallExpr:
		if c, recv := selCall(x, "GetExtend"); c != nil {
			// the class whose parent is taken is named as written
			return flat(recv) + ".GetExtend()"
		}
	}
	return flat(e)
}

// every for statement of the function that walks the extends chain, outermost only
func chainLoops(fd *ast.FuncDecl) []*ast.ForStmt {
	var out []*ast.ForStmt
	var visit func(n ast.Node)
	visit = func(n ast.Node) {
		ast.Inspect(n, func(x ast.Node) bool {
			switch l := x.(type) {
			case *ast.FuncLit:
				return false
			case *ast.ForStmt:
				uses := false
				ast.Inspect(l, func(y ast.Node) bool {
					if c, _ := selCall(exprOf(y), "GetExtend"); c != nil {
						uses = true
					}
					return !uses
				})
				if uses {
					out = append(out, l)
					return false
				}
			}
			return true
		})
	}
	visit(fd.Body)
	return out
}

func exprOf(n ast.Node) ast.Expr {
	if e, ok := n.(ast.Expr); ok {
		return e
	}
	return nil
}

type lookupCall struct {
	method string
	member string // variable that receives the member
	okVar  string
	pos    token.Pos
	lit    string
}

func (u *unit) analyseChain(fd *ast.FuncDecl, sc *scope, loop *ast.ForStmt, where, role string) chain {
	c := chain{fn: where, role: role, from: sel("other", "unknown"), advance: sel("other", "never advanced"), onHit: "goOn", found: ".unrecorded", onMissing: "unchecked"}
	bad := func(format string, a ...any) chain {
		note("%s [%s]: "+format, append([]any{where, role}, a...)...)
		return c
	}
	// 1. the cursor
	cur := ""
	classCond := false
	if b, ok := unparen(loop.Cond).(*ast.BinaryExpr); ok && b.Op == token.NEQ && identName(b.Y) == "nil" {
		if id := identName(b.X); id != "" {
			cur = id
		} else if call, recv := selCall(b.X, "GetExtend"); call != nil && identName(recv) != "" {
			cur, classCond = identName(recv), true
		}
	}
	if cur == "" {
		return bad("the loop condition %q is not `x != nil` / `x.GetExtend() != nil`", u.text(loop.Cond))
	}
	stop := map[string]bool{cur: true}

	// 2. the load
	var load *asg
	for _, a := range assignments(loop.Body) {
		a := a
		if a.idx == 0 && a.call != nil && isLoad(a.call) != nil {
			if load != nil {
				return bad("more than one class is loaded per trip")
			}
			load = &a
		}
	}
	if load == nil {
		return bad("no GetClass / GetOrLoadClass in the loop")
	}
	loaded := load.lhs
	arg := sc.expand(isLoad(load.call).Args[0], load.pos, stop, 0)
	pointer := false
	switch arg {
	case "*" + cur:
		pointer = true
		if classCond {
			return bad("the cursor %s is tested as a class and dereferenced as a pointer", cur)
		}
	case "*" + cur + ".GetExtend()":
	default:
		c.advance = sel("other", "loads "+arg)
		return bad("the class loaded is %q, not the parent of the cursor %s", arg, cur)
	}
	errVar := ""
	if as, ok := load.stmt.(*ast.AssignStmt); ok && len(as.Lhs) == 2 {
		errVar = identName(as.Lhs[1])
	}

	// 3. lookups and the class they are made on
	recvIs := func(e ast.Expr, pos token.Pos, name string) bool {
		return sc.reaches(e, pos, name)
	}
	var onCur, onLoaded []lookupCall
	isDecider := false
	ast.Inspect(loop.Body, func(x ast.Node) bool {
		call, ok := x.(*ast.CallExpr)
		if !ok {
			return true
		}
		se, ok := call.Fun.(*ast.SelectorExpr)
		if !ok {
			return true
		}
		if se.Sel.Name == "GetImplements" && (recvIs(se.X, call.Pos(), loaded) || recvIs(se.X, call.Pos(), cur)) {
			isDecider = true
		}
		if !memberLookups[se.Sel.Name] {
			return true
		}
		lc := lookupCall{method: se.Sel.Name, pos: call.Pos()}
		if len(call.Args) == 1 {
			if bl, ok := call.Args[0].(*ast.BasicLit); ok {
				lc.lit = strings.Trim(bl.Value, "\"")
			}
		}
		switch {
		case recvIs(se.X, call.Pos(), loaded) && call.Pos() > load.pos:
			onLoaded = append(onLoaded, lc)
		case recvIs(se.X, call.Pos(), cur):
			onCur = append(onCur, lc)
		}
		return true
	})
	visited := loaded
	calls := onLoaded
	if !pointer && len(onCur) > 0 && len(onLoaded) == 0 {
		visited, calls = cur, onCur
	} else if len(onCur) > 0 && len(onLoaded) > 0 {
		return bad("members are looked up on the cursor and on the loaded class")
	}
	// who receives the results
	for i := range calls {
		for _, a := range assignments(loop.Body) {
			if a.call != nil && a.call.Pos() <= calls[i].pos && calls[i].pos < a.call.End() {
				if a.idx == 0 {
					calls[i].member = a.lhs
				} else if a.idx == 1 {
					calls[i].okVar = a.lhs
				}
			}
		}
		// `if m, ok := x.GetMethod(n); ok` binds in the if's init: found by assignments() as well (it inspects init statements)
	}
	sort.Slice(calls, func(i, j int) bool { return calls[i].pos < calls[j].pos })
	seenLookup := map[string]bool{}
	for _, lc := range calls {
		if !seenLookup[lc.method] {
			seenLookup[lc.method] = true
			c.lookups = append(c.lookups, lc.method)
		}
		if lc.lit != "" {
			c.literal = lc.lit
		}
	}
	if isDecider && len(calls) == 0 {
		c.lookups = []string{"decider"}
	}

	// 4. how the cursor moves
	adv := ""
	moves := 0
	for _, a := range assignments(loop) {
		if a.lhs != cur || a.pos < loop.Body.Pos() {
			continue
		}
		if a.rhs == nil {
			adv = sel("other", u.text(a.stmt))
			continue
		}
		if identName(a.rhs) == "nil" && pointer {
			continue
		}
		moves++
		ok := false
		if pointer {
			if call, recv := selCall(a.rhs, "GetExtend"); call != nil && recvIs(recv, a.pos, loaded) && a.pos > load.pos {
				ok = true
			}
		} else if recvIs(a.rhs, a.pos, loaded) && a.pos > load.pos {
			ok = true
		}
		if !ok {
			adv = sel("other", u.text(a.stmt))
		}
	}
	if loop.Post != nil {
		adv = sel("other", "post statement "+u.text(loop.Post))
	}
	switch {
	case adv != "":
		c.advance = adv
	case moves == 0:
		c.advance = sel("other", "never advanced")
	default:
		c.advance = ".parentOfVisited"
	}

	// 5. the hit
	okVars, members := map[string]bool{}, map[string]bool{}
	for _, lc := range calls {
		if lc.okVar != "" {
			okVars[lc.okVar] = true
		}
		if lc.member != "" {
			members[lc.member] = true
		}
	}
	foundIn := map[string]bool{}
	var hitBodies []*ast.BlockStmt
	if len(calls) > 0 {
		nHit, leaves := 0, 0
		ast.Inspect(loop.Body, func(x ast.Node) bool {
			st, ok := x.(*ast.IfStmt)
			if !ok {
				return true
			}
			terms := split(st.Cond, token.LAND)
			positive := false
			var extra []string
			for _, t := range terms {
				switch {
				case okVars[identName(t)]:
					positive = true
				case isNotNil(t, members):
				default:
					extra = append(extra, u.text(t))
				}
			}
			if !positive {
				return true
			}
			nHit++
			hitBodies = append(hitBodies, st.Body)
			c.extra = append(c.extra, extra...)
			switch ending(st.Body) {
			case "true", "false", "return", "break":
				leaves++
			default:
				// a nested hit test (`if getter, ok := …; ok { if m, ok := …; ok { … break } }`) is judged on its own
				inner := false
				ast.Inspect(st.Body, func(y ast.Node) bool {
					if is, ok := y.(*ast.IfStmt); ok && is != st {
						for _, t := range split(is.Cond, token.LAND) {
							if okVars[identName(t)] {
								inner = true
							}
						}
					}
					return !inner
				})
				if inner {
					nHit--
					hitBodies = hitBodies[:len(hitBodies)-1]
				}
			}
			for _, a := range assignments(st.Body) {
				if a.rhs != nil && (isIdent(a.rhs, visited)) {
					foundIn[a.lhs] = true
				}
			}
			return true
		})
		switch {
		case nHit == 0:
			note("%s [%s]: no `if <found>` after the lookup", where, role)
		case leaves == nHit:
			c.onHit = "leave"
		}
	} else if isDecider {
		c.onHit = "leave" // judged by the decider facts: every hit returns true
	}
	// the class reported with the hit
	inHit := func(p token.Pos) bool {
		for _, b := range hitBodies {
			if b.Pos() <= p && p < b.End() {
				return true
			}
		}
		return false
	}
	staleSrc, staleVar := "", ""
	staleIsStart := false
	for _, a := range sc.asgs {
		if a.rhs == nil || a.lhs == cur || a.lhs == loaded || inHit(a.pos) {
			continue
		}
		if _, isTA := unparen(a.rhs).(*ast.TypeAssertExpr); isTA {
			continue
		}
		if (isIdent(a.rhs, cur) && !pointer || isIdent(a.rhs, loaded)) && !foundIn[a.lhs] {
			// only assignments in or right before this loop count (other loops of the function reuse the names)
			if a.pos > loop.End() || a.pos < loopInitPos(sc, cur, loop) {
				continue
			}
			if a.pos > loop.Body.Pos() && (members[a.lhs] || okVars[a.lhs]) {
				continue
			}
			if a.pos > loop.Body.Pos() && isAdvanceAlias(a, loaded, cur) {
				continue
			}
			staleSrc, staleVar = u.text(a.stmt), a.lhs
			// the cursor, copied before the first trip: the class the walk starts from
			staleIsStart = isIdent(a.rhs, cur) && !pointer && visited == cur && a.pos < loop.Pos()
		}
	}
	foundVars := map[string]bool{}
	for v := range foundIn {
		foundVars[v] = true
	}
	switch {
	case staleSrc != "" && staleIsStart:
		c.found = ".start " + leanStr(staleSrc)
		foundVars[staleVar] = true
	case staleSrc != "":
		c.found = ".stale " + leanStr(staleSrc)
	case len(foundIn) > 0:
		c.found = ".current"
	}
	// after the loop: lexicalClassOfMethod(vm, <found variable>, <member>) re-derives the class
	ast.Inspect(fd.Body, func(x ast.Node) bool {
		call, name := plainCall(exprOf(x))
		if call == nil || name != "lexicalClassOfMethod" || call.Pos() < loop.End() || len(call.Args) != 3 {
			return true
		}
		if foundVars[identName(call.Args[1])] && members[identName(call.Args[2])] {
			c.repair = true
		}
		return true
	})

	// 6. a parent that cannot be loaded
	c.onMissing = u.missingPolicy(loop, load, errVar, loaded)

	// 7. where the walk starts
	c.start, c.from = u.chainStart(fd, sc, loop, cur, pointer, visited == cur, calls, c.lookups, stop)
	return c
}

func isAdvanceAlias(a asg, loaded, cur string) bool { return a.lhs == cur }

// position of the statement that initialises the cursor (or of the loop when it is a parameter)
func loopInitPos(sc *scope, cur string, loop *ast.ForStmt) token.Pos {
	if a := sc.last(cur, loop.Body.Pos()); a != nil && a.pos < loop.Body.Pos() {
		return a.pos
	}
	return loop.Pos()
}

// `m != nil` with m one of the member variables
func isNotNil(e ast.Expr, members map[string]bool) bool {
	b, ok := unparen(e).(*ast.BinaryExpr)
	if !ok || b.Op != token.NEQ {
		return false
	}
	return members[identName(b.X)] && identName(b.Y) == "nil" || members[identName(b.Y)] && identName(b.X) == "nil"
}

func (u *unit) missingPolicy(loop *ast.ForStmt, load *asg, errVar, loaded string) string {
	policy := "unchecked"
	if errVar == "" {
		return policy
	}
	ast.Inspect(loop.Body, func(x ast.Node) bool {
		st, ok := x.(*ast.IfStmt)
		if !ok || st.Pos() < load.pos || policy != "unchecked" {
			return true
		}
		if !mentions(st.Cond, errVar) {
			return true
		}
		if isIdent(st.Cond, errVar) {
			// c, ok := vm.GetClass(…); if ok { … }  — without else: the walk just ends
			if st.Else == nil {
				policy = "stop"
			} else {
				policy = "other"
			}
			return false
		}
		switch ending(st.Body) {
		case "return", "false", "true":
			ret := st.Body.List[len(st.Body.List)-1].(*ast.ReturnStmt)
			policy = "notFound"
			for _, r := range ret.Results {
				if isIdent(r, errVar) {
					policy = "error"
				}
			}
		case "break":
			policy = "notFound"
		default:
			policy = "other"
		}
		return false
	})
	return policy
}

func (u *unit) chainStart(fd *ast.FuncDecl, sc *scope, loop *ast.ForStmt, cur string, pointer, ownForm bool, calls []lookupCall, lookups []string, stop map[string]bool) (string, string) {
	var init ast.Expr
	initPos := loop.Pos()
	if as, ok := loop.Init.(*ast.AssignStmt); ok && len(as.Lhs) == 1 && isIdent(as.Lhs[0], cur) && len(as.Rhs) == 1 {
		init = as.Rhs[0]
	} else if a := sc.last(cur, loop.Pos()); a != nil && a.rhs != nil {
		init, initPos = a.rhs, a.pos
	} else if isParam(fd, cur) {
		return cur, ".handed"
	}
	if init == nil {
		return "?", sel("other", "the cursor "+cur+" has no visible initial value")
	}
	// was the same member looked up on class B before the loop?
	ownBefore := func(b ast.Expr) bool {
		want := flat(sc.resolve(b, initPos))
		found := false
		ast.Inspect(fd.Body, func(x ast.Node) bool {
			call, ok := x.(*ast.CallExpr)
			if !ok || call.Pos() >= loop.Pos() {
				return true
			}
			se, ok := call.Fun.(*ast.SelectorExpr)
			if !ok || len(lookups) == 0 || se.Sel.Name != lookups[0] {
				return true
			}
			if flat(se.X) == flat(b) || flat(sc.resolve(se.X, call.Pos())) == want {
				found = true
			}
			return !found
		})
		return found
	}
	if pointer {
		call, recv := selCall(init, "GetExtend")
		if call == nil {
			return u.text(init), sel("other", "pointer cursor initialised from "+u.text(init))
		}
		if ownBefore(recv) {
			return flat(recv), ".base"
		}
		return flat(recv), ".above"
	}
	if !ownForm {
		// for last.GetExtend() != nil { next := load(*last.GetExtend()); look at next; last = next }
		if ownBefore(init) {
			return flat(init), ".base"
		}
		return flat(init), ".above"
	}
	// for c := B; c != nil; { look at c; c = load(*c.GetExtend()) }: B itself is examined. If B is the loaded parent of K the
	// walk is `above` K.
	if id := identName(init); id != "" {
		if a := sc.last(id, initPos); a != nil && a.call != nil && a.idx == 0 {
			if lc := isLoad(a.call); lc != nil {
				arg := sc.expand(lc.Args[0], a.pos, map[string]bool{}, 0)
				if strings.HasPrefix(arg, "*") && strings.HasSuffix(arg, ".GetExtend()") {
					return strings.TrimSuffix(strings.TrimPrefix(arg, "*"), ".GetExtend()"), ".above"
				}
			}
		}
	}
	return flat(init), ".base"
}

// ---------------------------------------------------------------- what parent:: / static:: are resolved against

type base struct {
	fn    string
	order []string
}

func (b base) lean() string { return fmt.Sprintf("{ fn := %s, order := %s }", leanStr(b.fn), leanStrs(b.order)) }

// the preference order in which variable v receives its class inside the `*data.ClassMethodContext` branch
func (u *unit) analyseBase(fd *ast.FuncDecl, where, v string) base {
	b := base{fn: where}
	var branch *ast.IfStmt
	for _, s := range fd.Body.List {
		if is, ok := s.(*ast.IfStmt); ok && is.Init != nil && strings.Contains(u.text(is.Init), "ClassMethodContext") {
			branch = is
			break
		}
	}
	if branch == nil {
		note("%s: no `if …, ok := ctx.(*data.ClassMethodContext); ok` branch", where)
		return b
	}
	ctxVar := ""
	if as, ok := branch.Init.(*ast.AssignStmt); ok && len(as.Lhs) >= 1 {
		ctxVar = identName(as.Lhs[0])
	}
	sc := newScope(fd)
	source := func(e ast.Expr, pos token.Pos, guard ast.Expr) string {
		if se, ok := unparen(e).(*ast.SelectorExpr); ok && isIdent(se.X, ctxVar) {
			return se.Sel.Name
		}
		if id := identName(e); id != "" {
			if a := sc.last(id, pos); a != nil && a.call != nil {
				if c, _ := selCall(a.call, "GetClass"); c != nil && len(c.Args) == 1 && strings.HasSuffix(flat(c.Args[0]), ".CurrentClass") {
					if guard != nil && mentions(guard, id) && strings.Contains(u.text(guard), id+".GetExtend() != nil") {
						return "CurrentClass"
					}
					return "CurrentClass(unguarded)"
				}
			}
		}
		return "?" + u.text(e)
	}
	var eval func(list []ast.Stmt, cur []string, guard ast.Expr) []string
	eval = func(list []ast.Stmt, cur []string, guard ast.Expr) []string {
		for _, s := range list {
			switch st := s.(type) {
			case *ast.AssignStmt:
				for i, l := range st.Lhs {
					if isIdent(l, v) && len(st.Rhs) == len(st.Lhs) {
						cur = []string{source(st.Rhs[i], st.Pos(), guard)}
					}
				}
			case *ast.IfStmt:
				if !mentions(st, v) {
					continue
				}
				then := eval(st.Body.List, nil, st.Cond)
				// the guard of a field source must be `<ctx>.<Field> != nil`
				for _, t := range then {
					if t == "SelfClass" || t == "StaticClass" {
						if !strings.Contains(u.text(st.Cond), ctxVar+"."+t+" != nil") {
							note("%s: %s is chosen under %q", where, t, u.text(st.Cond))
						}
					}
				}
				var els []string
				switch e := st.Else.(type) {
				case *ast.BlockStmt:
					els = eval(e.List, nil, nil)
				case *ast.IfStmt:
					els = eval([]ast.Stmt{e}, nil, nil)
				case nil:
					els = cur
				}
				if len(then) == 0 {
					then = cur
				}
				cur = append(append([]string{}, then...), els...)
			}
		}
		return cur
	}
	order := eval(branch.Body.List, nil, nil)
	seen := map[string]bool{}
	for _, o := range order {
		if !seen[o] {
			seen[o] = true
			b.order = append(b.order, o)
		}
	}
	return b
}

// ---------------------------------------------------------------- state kept on AST nodes

type nodeWrite struct{ fn, field string }

func nodeWrites(u *unit) []nodeWrite {
	var out []nodeWrite
	seen := map[nodeWrite]bool{}
	for _, d := range u.file.Decls {
		fd, ok := d.(*ast.FuncDecl)
		if !ok || fd.Recv == nil || len(fd.Recv.List) == 0 || len(fd.Recv.List[0].Names) == 0 || fd.Body == nil {
			continue
		}
		if _, isPtr := fd.Recv.List[0].Type.(*ast.StarExpr); !isPtr {
			continue
		}
		recv := fd.Recv.List[0].Names[0].Name
		tname := strings.TrimPrefix(typeText(fd.Recv.List[0].Type), "*")
		add := func(e ast.Expr) {
			for {
				switch x := unparen(e).(type) {
				case *ast.IndexExpr:
					e = x.X
					continue
				case *ast.StarExpr:
					e = x.X
					continue
				}
				break
			}
			if se, ok := unparen(e).(*ast.SelectorExpr); ok && isIdent(se.X, recv) {
				w := nodeWrite{u.rel + ":" + tname + "." + fd.Name.Name, se.Sel.Name}
				if !seen[w] {
					seen[w] = true
					out = append(out, w)
				}
			}
		}
		ast.Inspect(fd.Body, func(x ast.Node) bool {
			switch s := x.(type) {
			case *ast.AssignStmt:
				for _, l := range s.Lhs {
					add(l)
				}
			case *ast.IncDecStmt:
				add(s.X)
			}
			return true
		})
	}
	return out
}

func typeText(e ast.Expr) string {
	switch t := e.(type) {
	case *ast.Ident:
		return t.Name
	case *ast.StarExpr:
		return "*" + typeText(t.X)
	}
	return "?"
}
