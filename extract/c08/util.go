package main

import (
	"bytes"
	"fmt"
	"go/ast"
	"go/printer"
	"go/token"
	"strings"

	"verif/extract/ex"
)

// one parsed source file of the repository
type unit struct {
	fset *token.FileSet
	file *ast.File
	rel  string
}

var notes []string

func note(format string, a ...any) { notes = append(notes, fmt.Sprintf(format, a...)) }

var units = map[string]*unit{}

func load(repo, rel string) *unit {
	if u, ok := units[rel]; ok {
		return u
	}
	fset, f, err := ex.ParseFile(repo, rel)
	if err != nil {
		note("%s: cannot parse: %v", rel, err)
		units[rel] = nil
		return nil
	}
	u := &unit{fset, f, rel}
	units[rel] = u
	return u
}

func (u *unit) text(n ast.Node) string {
	if n == nil {
		return ""
	}
	var buf bytes.Buffer
	printer.Fprint(&buf, u.fset, n)
	s := strings.Join(strings.Fields(buf.String()), " ")
	if len(s) > 140 {
		s = s[:140] + "…"
	}
	return s
}

func (u *unit) fn(recv, name string) *ast.FuncDecl { return ex.FuncDecl(u.file, recv, name) }

func unparen(e ast.Expr) ast.Expr {
	for {
		p, ok := e.(*ast.ParenExpr)
		if !ok {
			return e
		}
		e = p.X
	}
}

func identName(e ast.Expr) string {
	if e == nil {
		return ""
	}
	if id, ok := unparen(e).(*ast.Ident); ok {
		return id.Name
	}
	return ""
}

func isIdent(e ast.Expr, name string) bool { return name != "" && identName(e) == name }

// `X.sel(args…)`: the call, its receiver
func selCall(e ast.Expr, sel string) (*ast.CallExpr, ast.Expr) {
	if e == nil {
		return nil, nil
	}
	c, ok := unparen(e).(*ast.CallExpr)
	if !ok {
		return nil, nil
	}
	se, ok := c.Fun.(*ast.SelectorExpr)
	if !ok || se.Sel.Name != sel {
		return nil, nil
	}
	return c, se.X
}

// `f(args…)` with f a plain identifier
func plainCall(e ast.Expr) (*ast.CallExpr, string) {
	if e == nil {
		return nil, ""
	}
	c, ok := unparen(e).(*ast.CallExpr)
	if !ok {
		return nil, ""
	}
	if id, ok := c.Fun.(*ast.Ident); ok {
		return c, id.Name
	}
	return nil, ""
}

// flat expression text without positions, for comparing small expressions (`c.Class`, `i.Name`)
func flat(e ast.Expr) string {
	switch x := unparen(e).(type) {
	case *ast.Ident:
		return x.Name
	case *ast.SelectorExpr:
		return flat(x.X) + "." + x.Sel.Name
	case *ast.StarExpr:
		return "*" + flat(x.X)
	case *ast.CallExpr:
		var as []string
		for _, a := range x.Args {
			as = append(as, flat(a))
		}
		return flat(x.Fun) + "(" + strings.Join(as, ",") + ")"
	case *ast.BasicLit:
		return x.Value
	case *ast.IndexExpr:
		return flat(x.X) + "[" + flat(x.Index) + "]"
	case *ast.UnaryExpr:
		return x.Op.String() + flat(x.X)
	case *ast.BinaryExpr:
		return flat(x.X) + x.Op.String() + flat(x.Y)
	case *ast.TypeAssertExpr:
		return flat(x.X) + ".(T)"
	}
	return fmt.Sprintf("<%T>", e)
}

// terms of a conjunction / disjunction
func split(e ast.Expr, op token.Token) []ast.Expr {
	e = unparen(e)
	if b, ok := e.(*ast.BinaryExpr); ok && b.Op == op {
		return append(split(b.X, op), split(b.Y, op)...)
	}
	return []ast.Expr{e}
}

// `a == b` with p(a) && q(b), in either order
func isEq(e ast.Expr, p, q func(ast.Expr) bool) bool {
	b, ok := unparen(e).(*ast.BinaryExpr)
	if !ok || b.Op != token.EQL {
		return false
	}
	return p(b.X) && q(b.Y) || p(b.Y) && q(b.X)
}

func isBool(e ast.Expr, v string) bool { return identName(e) == v }

// how a block ends: "true" (`return true[, nil]`), "false" (`return false[, …]`), "return" (anything else returned),
// "break", "continue", "" (falls through)
func ending(b *ast.BlockStmt) string {
	if b == nil || len(b.List) == 0 {
		return ""
	}
	switch s := b.List[len(b.List)-1].(type) {
	case *ast.ReturnStmt:
		if len(s.Results) >= 1 {
			if isBool(s.Results[0], "true") {
				return "true"
			}
			if isBool(s.Results[0], "false") {
				return "false"
			}
		}
		return "return"
	case *ast.BranchStmt:
		switch s.Tok {
		case token.BREAK:
			return "break"
		case token.CONTINUE:
			return "continue"
		}
		return "goto"
	}
	return ""
}

// does the node contain a statement that leaves the enclosing loop / function (nested function literals excluded)
func hasJump(n ast.Node) bool {
	found := false
	ast.Inspect(n, func(x ast.Node) bool {
		switch x.(type) {
		case *ast.FuncLit:
			return false
		case *ast.ReturnStmt, *ast.BranchStmt:
			found = true
		}
		return !found
	})
	return found
}

func mentions(n ast.Node, name string) bool {
	if n == nil || name == "" {
		return false
	}
	found := false
	ast.Inspect(n, func(x ast.Node) bool {
		if id, ok := x.(*ast.Ident); ok && id.Name == name {
			found = true
		}
		return !found
	})
	return found
}

// names of the parameters of the given type text ("string", "data.InterfaceStmt", …), in order
func paramsOfType(fd *ast.FuncDecl, want func(string) bool) []string {
	var out []string
	for _, f := range fd.Type.Params.List {
		if want(ex.TypeString(f.Type)) {
			for _, n := range f.Names {
				out = append(out, n.Name)
			}
		}
	}
	return out
}

func isParam(fd *ast.FuncDecl, name string) bool {
	for _, f := range fd.Type.Params.List {
		for _, n := range f.Names {
			if n.Name == name {
				return true
			}
		}
	}
	return false
}

// every assignment / short declaration / `var x = e` inside n, in source order: (lhs name, rhs, position, the statement)
type asg struct {
	lhs  string
	rhs  ast.Expr // nil when the statement has one call on the right and several names on the left and lhs is not the first
	idx  int      // index of lhs on the left-hand side
	call ast.Expr // the single right-hand side of a multi-value assignment
	pos  token.Pos
	stmt ast.Stmt
}

func assignments(n ast.Node) []asg {
	var out []asg
	ast.Inspect(n, func(x ast.Node) bool {
		switch s := x.(type) {
		case *ast.FuncLit:
			return false
		case *ast.AssignStmt:
			for i, l := range s.Lhs {
				name := identName(l)
				if name == "" || name == "_" {
					continue
				}
				a := asg{lhs: name, idx: i, pos: s.Pos(), stmt: s}
				if len(s.Rhs) == len(s.Lhs) {
					a.rhs = s.Rhs[i]
				} else if len(s.Rhs) == 1 {
					a.call = s.Rhs[0]
					if i == 0 {
						a.rhs = s.Rhs[0]
					}
				}
				out = append(out, a)
			}
		case *ast.DeclStmt:
			if gd, ok := s.Decl.(*ast.GenDecl); ok {
				for _, sp := range gd.Specs {
					if vs, ok := sp.(*ast.ValueSpec); ok {
						for i, nm := range vs.Names {
							a := asg{lhs: nm.Name, idx: i, pos: s.Pos(), stmt: s}
							if len(vs.Values) == len(vs.Names) {
								a.rhs = vs.Values[i]
							}
							out = append(out, a)
						}
					}
				}
			}
		}
		return true
	})
	return out
}

// aliases: `a := b`, `a, ok := b.(T)`, `a := b.(T)` make a another name for b. resolve follows them backwards from a
// position (the latest assignment to the name before pos decides), so a name re-bound inside a loop resolves to what it
// holds there.
type scope struct {
	asgs []asg
}

func newScope(fd *ast.FuncDecl) *scope { return &scope{assignments(fd.Body)} }

func (sc *scope) last(name string, pos token.Pos) *asg {
	var best *asg
	for i := range sc.asgs {
		a := &sc.asgs[i]
		if a.lhs == name && a.pos < pos {
			if best == nil || a.pos > best.pos {
				best = a
			}
		}
	}
	return best
}

// the expression a name stands for at pos, through plain copies and type assertions (at most 6 hops)
func (sc *scope) resolve(e ast.Expr, pos token.Pos) ast.Expr {
	for hop := 0; hop < 6; hop++ {
		e = unparen(e)
		if ta, ok := e.(*ast.TypeAssertExpr); ok && ta.Type != nil {
			e = ta.X
			continue
		}
		name := identName(e)
		if name == "" {
			return e
		}
		a := sc.last(name, pos)
		if a == nil {
			return e
		}
		src := a.rhs
		if src == nil && a.call != nil && a.idx == 0 {
			src = a.call
		}
		if src == nil {
			return e
		}
		src = unparen(src)
		switch s := src.(type) {
		case *ast.Ident:
			if s.Name == "nil" {
				return e
			}
			e, pos = s, a.pos
		case *ast.TypeAssertExpr:
			if s.Type == nil {
				return e
			}
			e, pos = s.X, a.pos
		case *ast.SelectorExpr:
			// a field path (`c.Class`, `classCtx.Class`) is as far as a name resolves
			return s
		default:
			return e
		}
	}
	return e
}

// does e stand for the variable `name` at pos: directly, or through copies / type assertions (checked at every hop, so
// a cursor that was itself copied from something else is still recognised)
func (sc *scope) reaches(e ast.Expr, pos token.Pos, name string) bool {
	for hop := 0; hop < 6; hop++ {
		e = unparen(e)
		if ta, ok := e.(*ast.TypeAssertExpr); ok && ta.Type != nil {
			e = ta.X
			continue
		}
		id := identName(e)
		if id == "" {
			return false
		}
		if id == name {
			return true
		}
		a := sc.last(id, pos)
		if a == nil || a.rhs == nil {
			return false
		}
		switch s := unparen(a.rhs).(type) {
		case *ast.Ident:
			e, pos = s, a.pos
		case *ast.TypeAssertExpr:
			if s.Type == nil {
				return false
			}
			e, pos = s.X, a.pos
		default:
			return false
		}
	}
	return false
}

func (sc *scope) resolvesTo(e ast.Expr, pos token.Pos, want string) bool {
	if want == "" {
		return false
	}
	if flat(e) == want {
		return true
	}
	return flat(sc.resolve(e, pos)) == want
}

func leanStr(s string) string { return ex.LeanString(s) }

func leanStrs(l []string) string {
	var p []string
	for _, s := range l {
		p = append(p, leanStr(s))
	}
	return "[" + strings.Join(p, ", ") + "]"
}

func leanBool(b bool) string {
	if b {
		return "true"
	}
	return "false"
}
