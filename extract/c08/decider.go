package main

import (
	"fmt"
	"go/ast"
	"go/token"
	"sort"
	"strings"
)

// Decider: what a subtype test does with one class
type implLoop struct {
	direct bool
	walk   string
	argsOK bool
	onMiss string
}

type decider struct {
	fn       string
	nameTest bool
	impls    []implLoop
	chain    string // Via
}

func (d decider) lean() string {
	var ls []string
	for _, l := range d.impls {
		ls = append(ls, fmt.Sprintf("{ direct := %s, walk := %s, argsOK := %s, onMiss := .%s }", leanBool(l.direct), leanStr(l.walk), leanBool(l.argsOK), l.onMiss))
	}
	return fmt.Sprintf("{ fn := %s, nameTest := %s,\n      impls := [%s],\n      chain := %s }", leanStr(d.fn), leanBool(d.nameTest), strings.Join(ls, ",\n                "), d.chain)
}

// the functions that walk the interface graph (filled in by main from the worklist / recwalk sites)
var ifaceWalks = map[string]bool{}

// analyse the statements `list` as a subtype test of the class `subject` (flat text; aliases: names that resolve to it)
// against `target` (flat text). self = the enclosing function, for recursion.
func (u *unit) analyseDecider(fd *ast.FuncDecl, sc *scope, list []ast.Stmt, where, subject, target string, inLoop bool) decider {
	d := decider{fn: where, chain: ".none"}
	isSubj := func(e ast.Expr) bool {
		if flat(e) == subject {
			return true
		}
		return flat(sc.resolve(e, e.Pos())) == subject
	}
	isT := func(e ast.Expr) bool { return flat(e) == target }
	isSubjName := func(e ast.Expr) bool {
		c, recv := selCall(e, "GetName")
		return c != nil && isSubj(recv)
	}
	self := fd.Name.Name

	var visit func(n ast.Node)
	visit = func(n ast.Node) {
		ast.Inspect(n, func(x ast.Node) bool {
			switch st := x.(type) {
			case *ast.FuncLit:
				return false
			case *ast.IfStmt:
				if isEq(st.Cond, isSubjName, isT) {
					if ending(st.Body) == "true" {
						d.nameTest = true
					} else {
						note("%s: the name test leads to %q", where, u.text(st.Body))
					}
				}
			case *ast.RangeStmt:
				if c, recv := selCall(st.X, "GetImplements"); c != nil && isSubj(recv) {
					d.impls = append(d.impls, u.implLoop(sc, st, where, target))
					return false
				}
			case *ast.ReturnStmt:
				// return f(target, subject.GetExtend(), …)
				for _, r := range st.Results {
					if c, name := plainCall(r); c != nil {
						for _, a := range c.Args {
							if ge, recv := selCall(a, "GetExtend"); ge != nil && isSubj(recv) {
								d.chain = ".call " + leanStr(name)
							}
						}
					}
				}
			case *ast.CallExpr:
				// self(ctx, next, target) with next the loaded parent of the subject
				if id, ok := st.Fun.(*ast.Ident); ok && id.Name == self && !inLoop {
					for _, a := range st.Args {
						if an := identName(a); an != "" {
							if as := sc.last(an, st.Pos()); as != nil && as.call != nil && isLoad(as.call) != nil {
								arg := sc.expand(isLoad(as.call).Args[0], as.pos, map[string]bool{}, 0)
								if strings.HasPrefix(arg, "*") && strings.HasSuffix(arg, ".GetExtend()") {
									k := strings.TrimSuffix(strings.TrimPrefix(arg, "*"), ".GetExtend()")
									if k == subject || aliasOf(sc, k, subject, st.Pos()) {
										d.chain = ".recurse"
									} else {
										d.chain = sel("other", "recurses on the parent of "+k)
									}
								}
							}
						}
					}
				}
			}
			return true
		})
	}
	for _, s := range list {
		visit(s)
	}
	if inLoop {
		d.chain = ".loop"
	}
	return d
}

func aliasOf(sc *scope, name, subject string, pos token.Pos) bool {
	if a := sc.last(name, pos); a != nil && a.rhs != nil {
		return flat(a.rhs) == subject
	}
	return false
}

// one `for _, s := range X.GetImplements() { … }`
func (u *unit) implLoop(sc *scope, st *ast.RangeStmt, where, target string) implLoop {
	l := implLoop{argsOK: true, onMiss: "next"}
	s := identName(st.Value)
	isS := func(e ast.Expr) bool { return isIdent(e, s) }
	isT := func(e ast.Expr) bool { return flat(e) == target }
	// the interface statement loaded for s: `if stmt, ok := vm.GetInterface(s); ok`
	loadedFrom := func(e ast.Expr) bool {
		id := identName(e)
		if id == "" {
			return false
		}
		if a := sc.last(id, e.Pos()); a != nil && a.call != nil {
			if c, _ := selCall(a.call, "GetInterface"); c != nil && len(c.Args) == 1 && isS(c.Args[0]) {
				return true
			}
		}
		return false
	}
	var conds func(e ast.Expr, body *ast.BlockStmt)
	conds = func(e ast.Expr, body *ast.BlockStmt) {
		for _, t := range split(e, token.LOR) {
			switch {
			case isEq(t, isS, isT):
				if ending(body) == "true" {
					l.direct = true
				} else {
					note("%s: `%s` leads to %q", where, u.text(t), u.text(body))
				}
			default:
				if c, name := plainCall(t); c != nil && ifaceWalks[name] {
					l.walk = name
					si, ti := -1, -1
					for i, a := range c.Args {
						if isS(a) || loadedFrom(a) {
							si = i
						}
						if isT(a) {
							ti = i
						}
					}
					l.argsOK = si >= 0 && ti >= 0 && si < ti
					if ending(body) != "true" {
						note("%s: `%s` leads to %q", where, u.text(t), u.text(body))
					}
				}
			}
		}
	}
	ast.Inspect(st.Body, func(x ast.Node) bool {
		switch n := x.(type) {
		case *ast.FuncLit:
			return false
		case *ast.IfStmt:
			conds(n.Cond, n.Body)
			// an else branch that leaves, or a `return false` / `break` anywhere in the loop body, ends the scan early
		case *ast.ReturnStmt:
			if !(len(n.Results) >= 1 && isBool(n.Results[0], "true")) {
				l.onMiss = "stop"
			}
		case *ast.BranchStmt:
			if n.Tok == token.BREAK || n.Tok == token.GOTO {
				l.onMiss = "stop"
			}
		}
		return true
	})
	return l
}

// ---------------------------------------------------------------- routes

type route struct {
	site  string
	calls []string
}

func (r route) lean() string { return fmt.Sprintf("⟨%s, %s⟩", leanStr(r.site), leanStrs(r.calls)) }

var routeTargets = map[string]bool{"isClassValueInstanceOf": true, "extendISClass": true, "interfaceExtends": true, "checkClassIs": true, "checkInterfaceIs": true}

func callsIn(n ast.Node, withIs bool) []string {
	set := map[string]bool{}
	ast.Inspect(n, func(x ast.Node) bool {
		c, ok := x.(*ast.CallExpr)
		if !ok {
			return true
		}
		switch f := c.Fun.(type) {
		case *ast.Ident:
			if routeTargets[f.Name] || ifaceWalks[f.Name] {
				set[f.Name] = true
			}
		case *ast.SelectorExpr:
			if withIs && f.Sel.Name == "Is" {
				set["Is"] = true
			}
		}
		return true
	})
	var out []string
	for k := range set {
		out = append(out, k)
	}
	sort.Strings(out)
	return out
}

// the case clause of `switch c := value.(type)` for the pointer type *<name>
func typeCase(fd *ast.FuncDecl, name string) *ast.CaseClause {
	var out *ast.CaseClause
	ast.Inspect(fd.Body, func(x ast.Node) bool {
		cc, ok := x.(*ast.CaseClause)
		if !ok {
			return true
		}
		for _, t := range cc.List {
			if typeText(t) == "*"+name {
				out = cc
			}
		}
		return out == nil
	})
	return out
}
