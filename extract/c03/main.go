// Translator for C03 (scalar operators, truthiness is context-independent).
//
// Reads (never executes) data/value_*.go, node/{if,while,do_while,for,ternary,expression,
// binary_*}.go and std/convert_bool.go and regenerates lean/Generated/C03Truthiness.lean:
//
//   - table.asBoolImpl: the shape of the test in `AsBool()` of every value type
//     (`s.Value != 0`, `s.Value > 0`, `s.Value != ""`, `len(a.List) > 0`, `s.Value`, true/false);
//   - table.sites: for every place that decides whether a value is "true" (if, elseif, while,
//     do-while, for, ?:, !, && left/right, || left/right, (bool)): the concrete-type arms it tries
//     before `AsBool` with the shape of each arm's test, and whether it ends in `AsBool`;
//   - implementsTbl: which value type has which accessor (AsInt/AsFloat/AsBool/AsString, data.Value)
//     with exactly the signature the interface of package data demands;
//   - unchecked: every type assertion without comma-ok on an operand in node/binary_*.go and
//     node/expression.go, with the `case *data.XValue` arm guarding it (if any);
//   - compareSites: for each of == != < <= > >= <=> the way its node derives its result: the value
//     returned under the identity shortcut `if lv == rv` (== and != only) and the test applied to the
//     one call `data.LooseCompare(<left>, <right>)` (`== 0`, `!= 0`, `== -1`, `== -1 || == 0`, `== 1`,
//     `== 1 || == 0`, or the integer itself with Unordered mapped to 0); anything else is `other`.
//
// Anything that does not have the expected syntactic shape becomes an entry of
// `table.shapeChanged`, which makes the obligations in Proofs/Properties/C03.lean fail.
package main

import (
	"fmt"
	"go/ast"
	"go/token"
	"os"
	"sort"
	"strings"

	"verif/extract/ex"
)

var shape []string

func changed(f string, a ...any) { shape = append(shape, fmt.Sprintf(f, a...)) }

// value types of the model, by Go type name
var kindOf = map[string]string{
	"IntValue": "int", "FloatValue": "float", "BoolValue": "bool", "StringValue": "str",
	"NullValue": "null", "ArrayValue": "arr", "ObjectValue": "obj", "ClassValue": "cls",
}
var kindOrder = []string{"IntValue", "FloatValue", "BoolValue", "StringValue", "NullValue", "ArrayValue", "ObjectValue", "ClassValue"}

var ifaceOf = map[string]string{"AsInt": "asInt", "AsFloat": "asFloat", "AsBool": "asBool", "AsString": "asString", "Value": "value"}

// ---------------------------------------------------------------- expression shapes

func isIdent(e ast.Expr, name string) bool {
	id, ok := e.(*ast.Ident)
	return ok && id.Name == name
}

// x.Value / x.List → field name, receiver ident
func fieldOf(e ast.Expr) (recv, field string, ok bool) {
	s, ok := e.(*ast.SelectorExpr)
	if !ok {
		return "", "", false
	}
	id, ok := s.X.(*ast.Ident)
	if !ok {
		return "", "", false
	}
	return id.Name, s.Sel.Name, true
}

func isLenOfField(e ast.Expr) bool {
	c, ok := e.(*ast.CallExpr)
	if !ok || len(c.Args) != 1 || !isIdent(c.Fun, "len") {
		return false
	}
	_, f, ok := fieldOf(c.Args[0])
	return ok && (f == "Value" || f == "List")
}

func isLit(e ast.Expr, kind token.Token, val string) bool {
	l, ok := e.(*ast.BasicLit)
	return ok && l.Kind == kind && l.Value == val
}

// classify the boolean test applied to a value: "" when unrecognised
func classify(e ast.Expr) string {
	if p, ok := e.(*ast.ParenExpr); ok {
		return classify(p.X)
	}
	if id, ok := e.(*ast.Ident); ok {
		switch id.Name {
		case "true":
			return "constTrue"
		case "false":
			return "constFalse"
		}
		return ""
	}
	if _, f, ok := fieldOf(e); ok && f == "Value" {
		return "field"
	}
	b, ok := e.(*ast.BinaryExpr)
	if !ok {
		return ""
	}
	if _, f, ok := fieldOf(b.X); ok && f == "Value" {
		switch {
		case b.Op == token.NEQ && (isLit(b.Y, token.INT, "0") || isLit(b.Y, token.FLOAT, "0.0")):
			return "ne0"
		case b.Op == token.GTR && (isLit(b.Y, token.INT, "0") || isLit(b.Y, token.FLOAT, "0.0")):
			return "gt0"
		case b.Op == token.NEQ && isLit(b.Y, token.STRING, `""`):
			return "nonEmpty"
		}
		return ""
	}
	if isLenOfField(b.X) && b.Op == token.GTR && isLit(b.Y, token.INT, "0") {
		return "lenGt0"
	}
	return ""
}

// *data.XValue / *XValue → "XValue"
func concreteValueType(e ast.Expr) string {
	st, ok := e.(*ast.StarExpr)
	if !ok {
		return ""
	}
	switch t := st.X.(type) {
	case *ast.SelectorExpr:
		if isIdent(t.X, "data") {
			return t.Sel.Name
		}
	case *ast.Ident:
		return t.Name
	}
	return ""
}

// data.AsBool → "AsBool"
func dataIface(e ast.Expr) string {
	if s, ok := e.(*ast.SelectorExpr); ok && isIdent(s.X, "data") {
		return s.Sel.Name
	}
	return ""
}

// ---------------------------------------------------------------- AsBool implementations and method sets

type method struct{ name, sig string }

func funcSig(ft *ast.FuncType) string {
	var ps, rs []string
	if ft.Params != nil {
		for _, f := range ft.Params.List {
			n := len(f.Names)
			if n == 0 {
				n = 1
			}
			for i := 0; i < n; i++ {
				ps = append(ps, ex.TypeString(f.Type))
			}
		}
	}
	if ft.Results != nil {
		for _, f := range ft.Results.List {
			n := len(f.Names)
			if n == 0 {
				n = 1
			}
			for i := 0; i < n; i++ {
				rs = append(rs, ex.TypeString(f.Type))
			}
		}
	}
	return "(" + strings.Join(ps, ",") + ")(" + strings.Join(rs, ",") + ")"
}

type dataPkg struct {
	methods map[string][]method      // receiver type → methods
	decls   map[string]*ast.FuncDecl // "Type.Method" → decl
	embeds  map[string][]string      // struct type → embedded type names (without *)
	ifaces  map[string]*ast.InterfaceType
}

func loadData(repo string) *dataPkg {
	d := &dataPkg{methods: map[string][]method{}, decls: map[string]*ast.FuncDecl{}, embeds: map[string][]string{}, ifaces: map[string]*ast.InterfaceType{}}
	_, files, err := ex.ParseDir(repo, "data")
	if err != nil {
		changed("cannot parse package data: %v", err)
		return d
	}
	names := make([]string, 0, len(files))
	for n := range files {
		names = append(names, n)
	}
	sort.Strings(names)
	for _, n := range names {
		for _, decl := range files[n].Decls {
			switch t := decl.(type) {
			case *ast.FuncDecl:
				if t.Recv == nil || len(t.Recv.List) == 0 {
					continue
				}
				r := strings.TrimPrefix(ex.TypeString(t.Recv.List[0].Type), "*")
				d.methods[r] = append(d.methods[r], method{t.Name.Name, funcSig(t.Type)})
				d.decls[r+"."+t.Name.Name] = t
			case *ast.GenDecl:
				if t.Tok != token.TYPE {
					continue
				}
				for _, sp := range t.Specs {
					ts := sp.(*ast.TypeSpec)
					switch tt := ts.Type.(type) {
					case *ast.StructType:
						for _, f := range tt.Fields.List {
							if len(f.Names) == 0 {
								d.embeds[ts.Name.Name] = append(d.embeds[ts.Name.Name], strings.TrimPrefix(ex.TypeString(f.Type), "*"))
							}
						}
					case *ast.InterfaceType:
						d.ifaces[ts.Name.Name] = tt
					}
				}
			}
		}
	}
	return d
}

// does value type t have method m with signature sig, itself or through an embedded struct
// (or an embedded interface that declares it)?
func (d *dataPkg) has(t string, m method, depth int) bool {
	for _, x := range d.methods[t] {
		if x == m {
			return true
		}
	}
	if depth > 3 {
		return false
	}
	for _, e := range d.embeds[t] {
		if _, isIface := d.ifaces[e]; isIface {
			if d.ifaceHas(e, m, 0) {
				return true
			}
			continue
		}
		if d.has(e, m, depth+1) {
			return true
		}
	}
	return false
}

func (d *dataPkg) ifaceMethods(name string, depth int) []method {
	it, ok := d.ifaces[name]
	if !ok || depth > 4 {
		return nil
	}
	var ms []method
	for _, f := range it.Methods.List {
		if ft, ok := f.Type.(*ast.FuncType); ok {
			for _, n := range f.Names {
				ms = append(ms, method{n.Name, funcSig(ft)})
			}
			continue
		}
		// embedded interface
		ms = append(ms, d.ifaceMethods(ex.TypeString(f.Type), depth+1)...)
	}
	return ms
}

func (d *dataPkg) ifaceHas(name string, m method, depth int) bool {
	for _, x := range d.ifaceMethods(name, depth) {
		if x == m {
			return true
		}
	}
	return false
}

// does value type t implement interface iface of package data (GetValue's own method is taken for
// granted when the type declares a GetValue method of any signature: every value type has it)
func (d *dataPkg) implements(t, iface string) bool {
	ms := d.ifaceMethods(iface, 0)
	if len(ms) == 0 {
		changed("interface data.%s not found or empty", iface)
		return false
	}
	for _, m := range ms {
		if !d.has(t, m, 0) {
			return false
		}
	}
	return true
}

// the AsBool body of value type t: a single `return <test>, nil`
func (d *dataPkg) asBoolShape(t string) string {
	fd := d.decls[t+".AsBool"]
	owner := t
	if fd == nil {
		for _, e := range d.embeds[t] {
			if fd = d.decls[e+".AsBool"]; fd != nil {
				owner = e
				break
			}
		}
	}
	if fd == nil || fd.Body == nil {
		changed("%s has no AsBool method", t)
		return ""
	}
	if len(fd.Body.List) != 1 {
		changed("%s.AsBool: body is not a single return", owner)
		return ""
	}
	rs, ok := fd.Body.List[0].(*ast.ReturnStmt)
	if !ok || len(rs.Results) != 2 || !isIdent(rs.Results[1], "nil") {
		changed("%s.AsBool: not `return <test>, nil`", owner)
		return ""
	}
	c := classify(rs.Results[0])
	if c == "" {
		changed("%s.AsBool: unrecognised test", owner)
	}
	return c
}

// ---------------------------------------------------------------- truthiness sites

type arm struct{ kind, cmp string }
type site struct {
	name   string
	arms   []arm
	asBool bool
}

// the expression assigned / returned inside an arm body as the boolean decision
func decisionExpr(body []ast.Stmt) ast.Expr {
	var found ast.Expr
	n := 0
	for _, s := range body {
		ast.Inspect(s, func(x ast.Node) bool {
			switch t := x.(type) {
			case *ast.FuncLit:
				return false
			case *ast.AssignStmt:
				if len(t.Lhs) == 1 && len(t.Rhs) == 1 {
					if _, ok := t.Lhs[0].(*ast.Ident); ok {
						found = t.Rhs[0]
						n++
					}
				}
			case *ast.ReturnStmt:
				// return data.NewBoolValue(<test>), nil
				if len(t.Results) >= 1 {
					if c, ok := t.Results[0].(*ast.CallExpr); ok && len(c.Args) == 1 {
						if s, ok := c.Fun.(*ast.SelectorExpr); ok && s.Sel.Name == "NewBoolValue" {
							found = c.Args[0]
							n++
						}
					}
				}
			}
			return true
		})
	}
	if n != 1 {
		return nil
	}
	return found
}

// analyse how `operand` is tested inside root (a function body or a sub-statement)
func analyseSite(name, where string, root ast.Node, operand string) site {
	s := site{name: name}
	asBoolPos := token.NoPos
	type posArm struct {
		pos token.Pos
		a   arm
	}
	var arms []posArm
	ast.Inspect(root, func(n ast.Node) bool {
		switch t := n.(type) {
		case *ast.FuncLit:
			return false
		case *ast.TypeAssertExpr:
			if t.Type != nil && isIdent(t.X, operand) && dataIface(t.Type) == "AsBool" {
				if asBoolPos == token.NoPos || t.Pos() < asBoolPos {
					asBoolPos = t.Pos()
				}
			}
		case *ast.TypeSwitchStmt:
			subj := ""
			bound := ""
			switch a := t.Assign.(type) {
			case *ast.AssignStmt:
				if ta, ok := a.Rhs[0].(*ast.TypeAssertExpr); ok {
					if id, ok := ta.X.(*ast.Ident); ok {
						subj = id.Name
					}
				}
				if id, ok := a.Lhs[0].(*ast.Ident); ok {
					bound = id.Name
				}
			case *ast.ExprStmt:
				if ta, ok := a.X.(*ast.TypeAssertExpr); ok {
					if id, ok := ta.X.(*ast.Ident); ok {
						subj = id.Name
					}
				}
			}
			if subj != operand {
				return true
			}
			for _, cc := range t.Body.List {
				cl := cc.(*ast.CaseClause)
				for _, ty := range cl.List {
					if vt := concreteValueType(ty); vt != "" {
						k, ok := kindOf[vt]
						if !ok {
							continue // a value type outside the model (ThisValue, …)
						}
						e := decisionExpr(cl.Body)
						c := ""
						if e != nil {
							c = classify(e)
						}
						if c == "" {
							changed("%s: arm %s of the type switch on %s has an unrecognised test", where, vt, operand)
							continue
						}
						arms = append(arms, posArm{cl.Pos(), arm{k, c}})
					} else if dataIface(ty) == "AsBool" {
						// `case data.AsBool:` — the bound variable's AsBool is called
						if asBoolPos == token.NoPos || cl.Pos() < asBoolPos {
							asBoolPos = cl.Pos()
						}
					}
				}
				if cl.List == nil && bound != "" {
					// default arm: look for bound.(data.AsBool)
					ast.Inspect(cl, func(m ast.Node) bool {
						if ta, ok := m.(*ast.TypeAssertExpr); ok && ta.Type != nil && isIdent(ta.X, bound) && dataIface(ta.Type) == "AsBool" {
							if asBoolPos == token.NoPos || ta.Pos() < asBoolPos {
								asBoolPos = ta.Pos()
							}
						}
						return true
					})
				}
			}
		case *ast.IfStmt:
			// if bv, ok := operand.(*data.XValue); ok { … = bv.Value }
			as, ok := t.Init.(*ast.AssignStmt)
			if !ok || len(as.Rhs) != 1 {
				return true
			}
			ta, ok := as.Rhs[0].(*ast.TypeAssertExpr)
			if !ok || ta.Type == nil || !isIdent(ta.X, operand) {
				return true
			}
			vt := concreteValueType(ta.Type)
			if vt == "" {
				return true
			}
			k, ok := kindOf[vt]
			if !ok {
				return true
			}
			e := decisionExpr(t.Body.List)
			c := ""
			if e != nil {
				c = classify(e)
			}
			if c == "" {
				changed("%s: `if _, ok := %s.(*data.%s)` has an unrecognised test", where, operand, vt)
				return true
			}
			arms = append(arms, posArm{t.Pos(), arm{k, c}})
		}
		return true
	})
	s.asBool = asBoolPos != token.NoPos
	sort.SliceStable(arms, func(i, j int) bool { return arms[i].pos < arms[j].pos })
	for _, a := range arms {
		if s.asBool && a.pos > asBoolPos {
			changed("%s: concrete-type arm for %s after the AsBool test", where, a.a.kind)
			continue
		}
		s.arms = append(s.arms, a.a)
	}
	if !s.asBool && len(s.arms) == 0 {
		changed("%s: no truthiness test on %s found", where, operand)
	}
	return s
}

// the statement list of `case "<lit>":` inside fn
func caseBody(fn *ast.FuncDecl, lit string) ast.Node {
	var res ast.Node
	ast.Inspect(fn, func(n ast.Node) bool {
		cc, ok := n.(*ast.CaseClause)
		if !ok {
			return true
		}
		for _, e := range cc.List {
			if isLit(e, token.STRING, lit) {
				res = &ast.BlockStmt{List: cc.Body}
			}
		}
		return true
	})
	return res
}

// the sub-tree that first assigns `name` (… := X.GetValue(ctx)) and everything after it in the same block
func blockFrom(fn *ast.FuncDecl, name string) ast.Node {
	var res ast.Node
	ast.Inspect(fn, func(n ast.Node) bool {
		b, ok := n.(*ast.BlockStmt)
		if !ok || res != nil {
			return res == nil
		}
		for i, s := range b.List {
			if as, ok := s.(*ast.AssignStmt); ok && as.Tok == token.DEFINE && len(as.Lhs) >= 1 && isIdent(as.Lhs[0], name) {
				res = &ast.BlockStmt{List: b.List[i:]}
				return false
			}
		}
		return true
	})
	return res
}

func siteOf(repo, name, file, recv, fn, operand, caseLit string) site {
	_, f, err := ex.ParseFile(repo, file)
	if err != nil {
		changed("%s: %v", file, err)
		return site{name: name}
	}
	fd := ex.FuncDecl(f, recv, fn)
	if fd == nil {
		changed("%s: func (%s) %s not found", file, recv, fn)
		return site{name: name}
	}
	var root ast.Node = fd.Body
	where := file + ":" + fn
	if caseLit != "" {
		root = caseBody(fd, caseLit)
		where += " case " + caseLit
		if root == nil {
			changed("%s: not found", where)
			return site{name: name}
		}
	} else if operand != "v" && operand != "lv" && operand != "rv" {
		root = blockFrom(fd, operand)
		if root == nil {
			changed("%s: variable %s not found", where, operand)
			return site{name: name}
		}
	}
	return analyseSite(name, where, root, operand)
}

// ---------------------------------------------------------------- unchecked assertions

type assertion struct{ file, expr, iface, guard string }

var opFiles = []string{"binary_add", "binary_sub", "binary_mul", "binary_quo", "binary_rem", "binary_pow", "binary_bitwise",
	"binary_shift", "binary_eq", "binary_ne", "binary_eq_strict", "binary_ne_strict", "binary_lt", "binary_le", "binary_gt",
	"binary_ge", "binary_spaceship", "binary_land", "binary_lor", "binary_dot", "binary_operand", "expression"}

type swFrame struct {
	subj, bound string
	clause      *ast.CaseClause
}

func uncheckedIn(repo, base string) []assertion {
	file := "node/" + base + ".go"
	if _, err := os.Stat(repo + "/" + file); err != nil {
		if base == "binary_operand" {
			return nil // helper file added by the operand-check fix; absent before it
		}
		changed("%s missing", file)
		return nil
	}
	_, f, err := ex.ParseFile(repo, file)
	if err != nil {
		changed("%s: %v", file, err)
		return nil
	}
	// comma-ok assertions
	checked := map[*ast.TypeAssertExpr]bool{}
	ast.Inspect(f, func(n ast.Node) bool {
		switch t := n.(type) {
		case *ast.AssignStmt:
			if len(t.Lhs) == 2 && len(t.Rhs) == 1 {
				if ta, ok := t.Rhs[0].(*ast.TypeAssertExpr); ok {
					checked[ta] = true
				}
			}
		case *ast.ValueSpec:
			if len(t.Names) == 2 && len(t.Values) == 1 {
				if ta, ok := t.Values[0].(*ast.TypeAssertExpr); ok {
					checked[ta] = true
				}
			}
		}
		return true
	})
	var res []assertion
	var stack []swFrame
	var walk func(n ast.Node)
	walk = func(n ast.Node) {
		if n == nil {
			return
		}
		switch t := n.(type) {
		case *ast.TypeSwitchStmt:
			fr := swFrame{}
			var ta *ast.TypeAssertExpr
			switch a := t.Assign.(type) {
			case *ast.AssignStmt:
				ta, _ = a.Rhs[0].(*ast.TypeAssertExpr)
				if id, ok := a.Lhs[0].(*ast.Ident); ok {
					fr.bound = id.Name
				}
			case *ast.ExprStmt:
				ta, _ = a.X.(*ast.TypeAssertExpr)
			}
			if ta != nil {
				if id, ok := ta.X.(*ast.Ident); ok {
					fr.subj = id.Name
				}
			}
			if t.Init != nil {
				walk(t.Init)
			}
			for _, cc := range t.Body.List {
				cl := cc.(*ast.CaseClause)
				fr.clause = cl
				stack = append(stack, fr)
				for _, s := range cl.Body {
					walk(s)
				}
				stack = stack[:len(stack)-1]
			}
			return
		case *ast.TypeAssertExpr:
			if t.Type != nil && !checked[t] {
				id, ok := t.X.(*ast.Ident)
				if !ok {
					if _, isCall := t.X.(*ast.CallExpr); !isCall {
						changed("%s: unchecked assertion on a non-identifier operand", file)
					}
					// assertion on a constructor result (data.NewArrayValue(...).(*data.ArrayValue)): not an operand
				} else {
					in := dataIface(t.Type)
					lean, ok := ifaceOf[in]
					if !ok {
						changed("%s: unchecked assertion %s.(%s)", file, id.Name, ex.TypeString(t.Type))
					} else {
						guards := []string{""}
						for i := len(stack) - 1; i >= 0; i-- {
							fr := stack[i]
							if fr.subj == id.Name || (fr.bound != "" && fr.bound == id.Name) {
								var gs []string
								allConcrete := len(fr.clause.List) > 0
								for _, ty := range fr.clause.List {
									vt := concreteValueType(ty)
									k, ok := kindOf[vt]
									if vt == "" || !ok {
										allConcrete = false
										break
									}
									gs = append(gs, k)
								}
								if allConcrete {
									guards = gs
								}
								break
							}
						}
						for _, g := range guards {
							res = append(res, assertion{file, id.Name, lean, g})
						}
					}
				}
			}
		}
		// generic traversal of children
		ast.Inspect(n, func(m ast.Node) bool {
			if m == n {
				return true
			}
			if m != nil {
				walk(m)
			}
			return false
		})
	}
	walk(f)
	return res
}

// ---------------------------------------------------------------- comparison sites

type cmpSite struct{ op, test, identity string }

// why a comparison node was classified `other` (diagnostics only)
var cmpNotes []string

// operand variables of GetValue: `x, _ := b.Left.GetValue(ctx)` / `b.Right.GetValue(ctx)` / `operandValue(ctx, b.Left)`
func operandVars(fn *ast.FuncDecl) (left, right string) {
	ast.Inspect(fn.Body, func(n ast.Node) bool {
		as, ok := n.(*ast.AssignStmt)
		if !ok || len(as.Lhs) != 2 || len(as.Rhs) != 1 {
			return true
		}
		call, ok := as.Rhs[0].(*ast.CallExpr)
		if !ok {
			return true
		}
		var operand ast.Expr
		if sel, ok := call.Fun.(*ast.SelectorExpr); ok && sel.Sel.Name == "GetValue" {
			operand = sel.X
		} else if fid, ok := call.Fun.(*ast.Ident); ok && fid.Name == "operandValue" && len(call.Args) == 2 {
			// operandValue(ctx, b.Left): GetValue with 'no value' turned into null (fix: valueless operand)
			operand = call.Args[1]
		} else {
			return true
		}
		_, f, ok := fieldOf(operand)
		id, ok2 := as.Lhs[0].(*ast.Ident)
		if !ok || !ok2 {
			return true
		}
		switch f {
		case "Left":
			left = id.Name
		case "Right":
			right = id.Name
		}
		return true
	})
	return
}

func isDataCall(e ast.Expr, name string) (*ast.CallExpr, bool) {
	c, ok := e.(*ast.CallExpr)
	if !ok {
		return nil, false
	}
	s, ok := c.Fun.(*ast.SelectorExpr)
	if !ok || !isIdent(s.X, "data") || s.Sel.Name != name {
		return nil, false
	}
	return c, true
}

func intLit(e ast.Expr) (string, bool) {
	if u, ok := e.(*ast.UnaryExpr); ok && u.Op == token.SUB {
		if l, ok := u.X.(*ast.BasicLit); ok && l.Kind == token.INT {
			return "-" + l.Value, true
		}
	}
	if l, ok := e.(*ast.BasicLit); ok && l.Kind == token.INT {
		return l.Value, true
	}
	return "", false
}

// analyseCompare classifies how node/<file> GetValue of <recv> derives its result.
func analyseCompare(repo, op, file, recv string) cmpSite {
	res := cmpSite{op: op, identity: "none"}
	bad := func(f string, a ...any) cmpSite {
		cmpNotes = append(cmpNotes, fmt.Sprintf("%s: %s", file, fmt.Sprintf(f, a...)))
		res.test = "other"
		return res
	}
	_, f, err := ex.ParseFile(repo, file)
	if err != nil {
		return bad("%v", err)
	}
	fn := ex.FuncDecl(f, recv, "GetValue")
	if fn == nil || fn.Body == nil {
		return bad("%s.GetValue not found", recv)
	}
	left, right := operandVars(fn)
	if left == "" || right == "" {
		return bad("operand evaluation not recognised")
	}
	// is e the helper call on (left, right), or an identifier bound to it?
	bound := ""
	isHelper := func(e ast.Expr) bool {
		if id, ok := e.(*ast.Ident); ok {
			return bound != "" && id.Name == bound
		}
		c, ok := isDataCall(e, "LooseCompare")
		return ok && len(c.Args) == 2 && isIdent(c.Args[0], left) && isIdent(c.Args[1], right)
	}
	// X == k
	atom := func(e ast.Expr) (string, bool) {
		if p, ok := e.(*ast.ParenExpr); ok {
			e = p.X
		}
		b, ok := e.(*ast.BinaryExpr)
		if !ok || !isHelper(b.X) {
			return "", false
		}
		k, ok := intLit(b.Y)
		if !ok {
			return "", false
		}
		switch b.Op {
		case token.EQL:
			return "==" + k, true
		case token.NEQ:
			return "!=" + k, true
		}
		return "", false
	}
	classifyTest := func(e ast.Expr) string {
		if a, ok := atom(e); ok {
			switch a {
			case "==0":
				return "isEq"
			case "!=0":
				return "isNe"
			case "==-1":
				return "isLt"
			case "==1":
				return "isGt"
			}
			return ""
		}
		if b, ok := e.(*ast.BinaryExpr); ok && b.Op == token.LOR {
			x, ok1 := atom(b.X)
			y, ok2 := atom(b.Y)
			if ok1 && ok2 && y == "==0" {
				switch x {
				case "==-1":
					return "isLe"
				case "==1":
					return "isGe"
				}
			}
		}
		return ""
	}
	unorderedToZero := false
	nValue := 0
	for _, st := range fn.Body.List {
		switch t := st.(type) {
		case *ast.AssignStmt:
			// operand evaluation, or `c := data.LooseCompare(l, r)`
			if len(t.Lhs) == 1 && len(t.Rhs) == 1 && t.Tok == token.DEFINE {
				if id, ok := t.Lhs[0].(*ast.Ident); ok && bound == "" && isHelper(t.Rhs[0]) {
					bound = id.Name
					continue
				}
				return bad("unexpected assignment")
			}
			if len(t.Lhs) == 2 {
				continue
			}
			return bad("unexpected assignment")
		case *ast.IfStmt:
			if t.Init != nil || t.Else != nil || len(t.Body.List) != 1 {
				return bad("unexpected if statement")
			}
			// control propagation: if xCtl != nil { return nil, xCtl }
			if r, ok := t.Body.List[0].(*ast.ReturnStmt); ok && len(r.Results) == 2 && isIdent(r.Results[0], "nil") {
				continue
			}
			c, ok := t.Cond.(*ast.BinaryExpr)
			if !ok || c.Op != token.EQL {
				return bad("unexpected condition")
			}
			// identity shortcut: if lv == rv { return data.NewBoolValue(<const>), nil }
			if isIdent(c.X, left) && isIdent(c.Y, right) {
				r, ok := t.Body.List[0].(*ast.ReturnStmt)
				if !ok || len(r.Results) != 2 || !isIdent(r.Results[1], "nil") {
					return bad("identity shortcut does not return a value")
				}
				call, ok := isDataCall(r.Results[0], "NewBoolValue")
				if !ok || len(call.Args) != 1 || !(isIdent(call.Args[0], "true") || isIdent(call.Args[0], "false")) {
					return bad("identity shortcut returns something else than a constant")
				}
				res.identity = "some " + call.Args[0].(*ast.Ident).Name
				continue
			}
			// if c == data.Unordered { c = 0 }
			if bound != "" && isIdent(c.X, bound) {
				if s, ok := c.Y.(*ast.SelectorExpr); ok && isIdent(s.X, "data") && s.Sel.Name == "Unordered" {
					if as, ok := t.Body.List[0].(*ast.AssignStmt); ok && as.Tok == token.ASSIGN && len(as.Lhs) == 1 &&
						isIdent(as.Lhs[0], bound) && len(as.Rhs) == 1 && isLit(as.Rhs[0], token.INT, "0") {
						unorderedToZero = true
						continue
					}
				}
			}
			return bad("unexpected if statement")
		case *ast.ReturnStmt:
			if len(t.Results) != 2 || !isIdent(t.Results[1], "nil") {
				return bad("unexpected return")
			}
			nValue++
			if call, ok := isDataCall(t.Results[0], "NewBoolValue"); ok && len(call.Args) == 1 {
				res.test = classifyTest(call.Args[0])
			} else if call, ok := isDataCall(t.Results[0], "NewIntValue"); ok && len(call.Args) == 1 &&
				bound != "" && isIdent(call.Args[0], bound) && unorderedToZero {
				res.test = "toInt"
			}
			if res.test == "" {
				return bad("result is not a test of data.LooseCompare(%s, %s)", left, right)
			}
		default:
			return bad("unexpected statement %T", st)
		}
	}
	if nValue != 1 {
		return bad("%d value returns", nValue)
	}
	return res
}

// ---------------------------------------------------------------- output

func main() {
	a := ex.ParseArgs()
	d := loadData(a.Repo)

	var sb strings.Builder
	sb.WriteString("import Model.Ops\n")
	sb.WriteString("/-! Truthiness tests, accessor method sets and unchecked operand assertions of the operator nodes. -/\n")
	sb.WriteString("namespace Generated.C03Truthiness\nopen Model.Ops\n\n")

	// AsBool implementations
	var impl []string
	for _, t := range kindOrder {
		c := d.asBoolShape(t)
		if c != "" {
			impl = append(impl, fmt.Sprintf("(.%s, .%s)", kindOf[t], c))
		}
	}

	sites := []site{
		siteOf(a.Repo, "if", "node/if.go", "IfStatement", "GetValue", "conditionValue", ""),
		siteOf(a.Repo, "elseif", "node/if.go", "IfStatement", "GetValue", "elseIfConditionValue", ""),
		siteOf(a.Repo, "while", "node/while.go", "WhileStatement", "GetValue", "condValue", ""),
		siteOf(a.Repo, "dowhile", "node/do_while.go", "DoWhileStatement", "GetValue", "condValue", ""),
		siteOf(a.Repo, "for", "node/for.go", "ForStatement", "GetValue", "condValue", ""),
		siteOf(a.Repo, "ternary", "node/ternary.go", "TernaryExpression", "GetValue", "conditionValue", ""),
		siteOf(a.Repo, "not", "node/expression.go", "UnaryExpression", "GetValue", "right", "\"!\""),
		siteOf(a.Repo, "landL", "node/binary_land.go", "BinaryLand", "GetValue", "lv", ""),
		siteOf(a.Repo, "landR", "node/binary_land.go", "BinaryLand", "GetValue", "rv", ""),
		siteOf(a.Repo, "lorL", "node/binary_lor.go", "BinaryLor", "GetValue", "lv", ""),
		siteOf(a.Repo, "lorR", "node/binary_lor.go", "BinaryLor", "GetValue", "rv", ""),
		siteOf(a.Repo, "castb", "std/convert_bool.go", "BoolFunction", "Call", "v", ""),
	}

	var un []assertion
	for _, f := range opFiles {
		un = append(un, uncheckedIn(a.Repo, f)...)
	}

	cmps := []cmpSite{
		analyseCompare(a.Repo, "eq", "node/binary_eq.go", "BinaryEq"),
		analyseCompare(a.Repo, "ne", "node/binary_ne.go", "BinaryNe"),
		analyseCompare(a.Repo, "lt", "node/binary_lt.go", "BinaryLt"),
		analyseCompare(a.Repo, "le", "node/binary_le.go", "BinaryLe"),
		analyseCompare(a.Repo, "gt", "node/binary_gt.go", "BinaryGt"),
		analyseCompare(a.Repo, "ge", "node/binary_ge.go", "BinaryGe"),
		analyseCompare(a.Repo, "cmp", "node/binary_spaceship.go", "BinarySpaceship"),
	}

	// implements table
	var implLines []string
	for _, t := range kindOrder {
		var is []string
		for _, in := range []string{"AsInt", "AsFloat", "AsBool", "AsString", "Value"} {
			ok := false
			if in == "Value" {
				// GetValue + AsString; GetValue's signature mentions Context/Control, compare AsString and the presence of GetValue
				ok = d.has(t, method{"AsString", "()(string)"}, 0)
				hasGV := false
				for _, m := range d.methods[t] {
					if m.name == "GetValue" {
						hasGV = true
					}
				}
				if !hasGV {
					for _, e := range d.embeds[t] {
						for _, m := range d.methods[e] {
							if m.name == "GetValue" {
								hasGV = true
							}
						}
						if e == "Value" {
							hasGV, ok = true, true
						}
					}
				}
				ok = ok && hasGV
			} else {
				ok = d.implements(t, in)
			}
			if ok {
				is = append(is, "."+ifaceOf[in])
			}
		}
		implLines = append(implLines, fmt.Sprintf("  (.%s, [%s])", kindOf[t], strings.Join(is, ", ")))
	}

	sb.WriteString("/-- `AsBool` bodies (data/value_*.go), truthiness sites (node/*.go, std/convert_bool.go) -/\n")
	sb.WriteString("def table : TruthTable := {\n")
	sb.WriteString("  asBoolImpl := [" + strings.Join(impl, ", ") + "],\n")
	sb.WriteString("  sites := [\n")
	for i, s := range sites {
		var as []string
		for _, x := range s.arms {
			as = append(as, fmt.Sprintf("(.%s, .%s)", x.kind, x.cmp))
		}
		sep := ","
		if i == len(sites)-1 {
			sep = ""
		}
		fmt.Fprintf(&sb, "    { name := %s, arms := [%s], asBool := %v }%s\n", ex.LeanString(s.name), strings.Join(as, ", "), s.asBool, sep)
	}
	sb.WriteString("  ],\n")
	var sh []string
	for _, s := range shape {
		sh = append(sh, ex.LeanString(s))
	}
	sb.WriteString("  shapeChanged := [" + strings.Join(sh, ", ") + "] }\n\n")

	sb.WriteString("/-- accessor interfaces implemented by each value type (method sets of package data) -/\n")
	sb.WriteString("def implementsTbl : List (Kind × List Iface) := [\n" + strings.Join(implLines, ",\n") + "]\n\n")

	sb.WriteString("/-- type assertions without comma-ok on an operand (node/binary_*.go, node/expression.go) -/\n")
	sb.WriteString("def unchecked : List Assertion := [\n")
	for i, u := range un {
		g := "none"
		if u.guard != "" {
			g = "some ." + u.guard
		}
		sep := ","
		if i == len(un)-1 {
			sep = ""
		}
		fmt.Fprintf(&sb, "  { file := %s, expr := %s, iface := .%s, guard := %s }%s\n", ex.LeanString(u.file), ex.LeanString(u.expr), u.iface, g, sep)
	}
	sb.WriteString("]\n\n")

	sb.WriteString("/-- how each comparison node derives its result from `data.LooseCompare` (node/binary_{eq,ne,lt,le,gt,ge,spaceship}.go) -/\n")
	sb.WriteString("def compareSites : List CmpSite := [\n")
	for i, c := range cmps {
		sep := ","
		if i == len(cmps)-1 {
			sep = ""
		}
		fmt.Fprintf(&sb, "  { op := .%s, test := .%s, identity := %s }%s\n", c.op, c.test, c.identity, sep)
	}
	sb.WriteString("]\n\n")
	var cn []string
	for _, n := range cmpNotes {
		cn = append(cn, ex.LeanString(n))
	}
	sb.WriteString("/-- why a comparison node was classified `other` -/\ndef compareNotes : List String := [" + strings.Join(cn, ", ") + "]\n\nend Generated.C03Truthiness\n")

	if err := ex.WriteIfChanged(a.Out, "C03Truthiness.lean", sb.String()); err != nil {
		fmt.Fprintln(os.Stderr, err)
		os.Exit(1)
	}
	fmt.Printf("C03Truthiness: %d sites, %d unchecked operand assertions, %d comparison sites, %d shapeChanged\n", len(sites), len(un), len(cmps), len(shape))
}
