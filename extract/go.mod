module verif/extract

go 1.25.0
