package main

// Facts of the hand-written PHP serialize reader / writer (std/php/unserialize.go, serialize.go):
//
//   tagSwitches    every `switch s[i]` over a byte of the input: the byte literals of its cases, what the default does
//   gate           the prefixes `Call` tests before it hands the text to the reader (`strings.HasPrefix(raw, "N;") || …`)
//   keyTypes       the value types the entry loop accepts as array keys (type switch with empty accepting cases and a
//                  rejecting default)
//   writerTags     per value type of the writer's type switch: the first format literal it writes ("N;" → N, "i:%d;" → i,
//                  through one helper call if the case has no literal of its own)
//   lengthReads    every integer parsed from the input (`strconv.Atoi`, `ParseInt`): whether the rejection that follows
//                  bounds it by the input length (`n > len(s)`) / from below (`n < 0`), and how it is used afterwards
//                  (arith: in an addition that builds an index; alloc: a `make` size; loop: a loop bound; value: handed on)
//   indexSites     every `s[e]` / `s[a:b]` on a string / []byte parameter with the linear form of the index (`*idx+3` →
//                  base `*idx`, offset 3), how much room it needs up to `len(s)` (offset+1 for an index, the offset for a
//                  slice bound) and how much the tests in force at that point guarantee (`base + have <= len(s)`), found by a
//                  walk of the function that follows `if … { return }`, `&&` / `||` short-circuit and kills facts on
//                  assignment
//   floatCalls     the strconv calls (with their literal arguments) and the literal spellings in the float writer

import (
	"fmt"
	"go/ast"
	"go/token"
	"sort"
	"strings"
)

type tagSwitch struct {
	fn   string
	tags []string
	dflt string
}
type writerTag struct{ typ, tag string }
type lengthRead struct {
	fn, call, v  string
	upper, lower bool
	uses         []string
}
type indexSite struct {
	fn, expr, base string
	need           int
	have           int // -1: nothing known
}

type serFacts struct {
	tagSwitches []tagSwitch
	gate        []string
	keyTypes    []string
	writerTags  []writerTag
	lengthReads []lengthRead
	indexSites  []indexSite
	floatCalls  []string
	floatLits   []string
	notes       notes
}

func analyseSer(p *pkgInfo, sf *serFacts) {
	for _, n := range p.names {
		f := p.fns[n]
		switch f.file {
		case "unserialize.go":
			readerFacts(p, f, sf)
			indexFacts(p, f, sf)
			lengthFacts(p, f, sf)
		case "serialize.go":
			writerFacts(p, f, sf)
		}
	}
}

func inputParams(f *fnInfo) map[string]bool {
	m := map[string]bool{}
	for _, q := range f.params {
		if q.typ == "string" || q.typ == "[]byte" {
			m[q.name] = true
		}
	}
	return m
}

// ---- reader: tag switches, gate, key types

func readerFacts(p *pkgInfo, f *fnInfo, sf *serFacts) {
	in := inputParams(f)
	ast.Inspect(f.decl.Body, func(x ast.Node) bool {
		switch t := x.(type) {
		case *ast.SwitchStmt:
			ix, ok := unparen(t.Tag).(*ast.IndexExpr)
			if t.Tag == nil || !ok || !in[identName(ix.X)] {
				return true
			}
			ts := tagSwitch{fn: f.name, dflt: "none"}
			for _, c := range t.Body.List {
				cc := c.(*ast.CaseClause)
				if cc.List == nil {
					ts.dflt = rejectOrOther(cc.Body)
					continue
				}
				for _, e := range cc.List {
					if ch, ok := charLit(e); ok {
						ts.tags = append(ts.tags, ch)
					} else {
						sf.notes.add("%s: a case of `switch %s` is not a byte literal: %s", f.name, src(t.Tag), src(e))
					}
				}
			}
			sf.tagSwitches = append(sf.tagSwitches, ts)
		case *ast.TypeSwitchStmt:
			var accepted []string
			rejecting := false
			plain := true
			for _, c := range t.Body.List {
				cc := c.(*ast.CaseClause)
				if cc.List == nil {
					rejecting = rejectOrOther(cc.Body) == "reject"
					continue
				}
				if len(cc.Body) != 0 {
					plain = false
				}
				for _, e := range cc.List {
					accepted = append(accepted, strings.TrimPrefix(strings.TrimPrefix(src(e), "*"), "data."))
				}
			}
			if rejecting && plain {
				sf.keyTypes = append(sf.keyTypes, accepted...)
			}
		case *ast.IfStmt:
			if f.decl.Name.Name != "Call" {
				return true
			}
			ds := splitOp(t.Cond, token.LOR)
			var lits []string
			for _, d := range ds {
				c, ok := unparen(d).(*ast.CallExpr)
				if !ok || len(c.Args) != 2 {
					lits = nil
					break
				}
				if _, name, ok := p.pkgCall(f.file, c); !ok || name != "strings.HasPrefix" {
					lits = nil
					break
				}
				s, ok := strLit(c.Args[1])
				if !ok {
					lits = nil
					break
				}
				lits = append(lits, s)
			}
			if len(lits) >= 2 && len(sf.gate) == 0 {
				sf.gate = lits
			}
		}
		return true
	})
}

// rejectOrOther: the statement list only returns, and the last result is `false` / an error
func rejectOrOther(body []ast.Stmt) string {
	r := endsInReturn(body)
	if r == nil {
		return "other"
	}
	l := lastResult(r)
	if l == "false" || (l != "nil" && l != "true" && len(body) == 1 && len(r.Results) > 1) {
		return "reject"
	}
	return "other"
}

// ---- writer

func firstTagLiteral(n ast.Node) string {
	tag := ""
	ast.Inspect(n, func(x ast.Node) bool {
		if tag != "" {
			return false
		}
		if s, ok := x.(*ast.BasicLit); ok && s.Kind == token.STRING {
			if v, ok := strLit(s); ok && len(v) >= 2 && (v[1] == ':' || v[1] == ';') &&
				(v[0] >= 'a' && v[0] <= 'z' || v[0] >= 'A' && v[0] <= 'Z') {
				tag = v[:1]
			}
		}
		return true
	})
	return tag
}

func writerFacts(p *pkgInfo, f *fnInfo, sf *serFacts) {
	// the float writer: one float64 parameter, returns a string
	if len(f.params) == 1 && f.params[0].typ == "float64" && f.decl.Type.Results != nil && len(f.decl.Type.Results.List) == 1 &&
		identName(f.decl.Type.Results.List[0].Type) == "string" {
		callsPost(f.decl.Body, func(c *ast.CallExpr) {
			if path, name, ok := p.pkgCall(f.file, c); ok && path == "strconv" {
				sf.floatCalls = append(sf.floatCalls, callSig(name, c))
			} else if ok && path != "math" && path != "strings" {
				sf.floatCalls = append(sf.floatCalls, callSig(name, c))
			}
		})
		ast.Inspect(f.decl.Body, func(x ast.Node) bool {
			if r, ok := x.(*ast.ReturnStmt); ok && len(r.Results) == 1 {
				if s, ok := strLit(r.Results[0]); ok {
					sf.floatLits = append(sf.floatLits, s)
				}
			}
			return true
		})
		sort.Strings(sf.floatCalls)
		sf.floatCalls = uniq(sf.floatCalls)
	}
	// the value writer: a type switch whose cases write format literals
	ast.Inspect(f.decl.Body, func(x ast.Node) bool {
		ts, ok := x.(*ast.TypeSwitchStmt)
		if !ok {
			return true
		}
		var out []writerTag
		for _, c := range ts.Body.List {
			cc := c.(*ast.CaseClause)
			body := &ast.BlockStmt{List: cc.Body}
			tag := firstTagLiteral(body)
			if tag == "" { // one step through a helper of the same package
				ast.Inspect(body, func(y ast.Node) bool {
					if call, ok := y.(*ast.CallExpr); ok && tag == "" {
						if g := p.resolve(f, call); g != "" && g != f.name {
							tag = firstTagLiteral(p.fns[g].decl.Body)
						}
					}
					return true
				})
			}
			if cc.List == nil {
				if tag != "" {
					out = append(out, writerTag{"default", tag})
				}
				continue
			}
			for _, e := range cc.List {
				out = append(out, writerTag{strings.TrimPrefix(strings.TrimPrefix(src(e), "*"), "data."), tag})
			}
		}
		n := 0
		for _, o := range out {
			if o.tag != "" {
				n++
			}
		}
		if n >= 3 && len(sf.writerTags) == 0 {
			sf.writerTags = out
		}
		return true
	})
}

// ---- lengths parsed from the input

func lengthFacts(p *pkgInfo, f *fnInfo, sf *serFacts) {
	in := inputParams(f)
	if len(in) == 0 {
		return
	}
	forEachStmtList(f.decl.Body, func(list []ast.Stmt) {
		for i, s := range list {
			as, ok := s.(*ast.AssignStmt)
			if !ok || len(as.Rhs) != 1 || len(as.Lhs) != 2 {
				continue
			}
			c, ok := as.Rhs[0].(*ast.CallExpr)
			if !ok {
				continue
			}
			path, name, ok := p.pkgCall(f.file, c)
			if !ok || path != "strconv" || !(name == "strconv.Atoi" || name == "strconv.ParseInt" || name == "strconv.ParseUint") {
				continue
			}
			v := identName(as.Lhs[0])
			if v == "" {
				continue
			}
			lr := lengthRead{fn: f.name, call: name, v: v}
			rest := list[i+1:]
			for _, t := range rest {
				is, ok := t.(*ast.IfStmt)
				if !ok || !terminates(is.Body.List) {
					if mentions(t, v) {
						break
					}
					continue
				}
				for _, d := range splitOp(is.Cond, token.LOR) {
					b, ok := unparen(d).(*ast.BinaryExpr)
					if !ok {
						continue
					}
					isLen := func(e ast.Expr) bool {
						cl, ok := unparen(e).(*ast.CallExpr)
						return ok && identName(cl.Fun) == "len" && len(cl.Args) == 1 && in[identName(cl.Args[0])]
					}
					switch {
					case identName(b.X) == v && isLen(b.Y) && (b.Op == token.GTR || b.Op == token.GEQ),
						identName(b.Y) == v && isLen(b.X) && (b.Op == token.LSS || b.Op == token.LEQ):
						lr.upper = true
					}
					if k, ok := intLit(b.Y); ok && identName(b.X) == v && ((b.Op == token.LSS && k == 0) || (b.Op == token.LEQ && k == -1)) {
						lr.lower = true
					}
					if k, ok := intLit(b.X); ok && identName(b.Y) == v && b.Op == token.GTR && k == 0 {
						lr.lower = true
					}
				}
				break
			}
			uses := map[string]bool{}
			for _, t := range rest {
				ast.Inspect(t, func(x ast.Node) bool {
					switch u := x.(type) {
					case *ast.BinaryExpr:
						if (u.Op == token.ADD || u.Op == token.SUB || u.Op == token.MUL || u.Op == token.SHL) && (mentions(u.X, v) || mentions(u.Y, v)) {
							uses["arith"] = true
						}
					case *ast.CallExpr:
						if identName(u.Fun) == "make" {
							for _, a := range u.Args[1:] {
								if mentions(a, v) {
									uses["alloc"] = true
								}
							}
						} else {
							for _, a := range u.Args {
								if mentions(a, v) {
									uses["value"] = true
								}
							}
						}
					case *ast.ForStmt:
						if u.Cond != nil && mentions(u.Cond, v) {
							uses["loop"] = true
						}
					case *ast.IndexExpr:
						if mentions(u.Index, v) {
							uses["index"] = true
						}
					case *ast.SliceExpr:
						if mentions(u.Low, v) || mentions(u.High, v) {
							uses["index"] = true
						}
					}
					return true
				})
			}
			for u := range uses {
				lr.uses = append(lr.uses, u)
			}
			sort.Strings(lr.uses)
			sf.lengthReads = append(sf.lengthReads, lr)
		}
	})
}

// ---- index / slice sites on the input and the bounds tests that cover them

type lin struct {
	vars []string
	c    int
}

func (l lin) key() string { return strings.Join(l.vars, "+") }

func parseLin(e ast.Expr) (lin, bool) {
	e = unparen(e)
	if v, ok := intLit(e); ok {
		return lin{nil, v}, true
	}
	switch t := e.(type) {
	case *ast.Ident:
		if t.Name == "true" || t.Name == "false" || t.Name == "nil" {
			return lin{}, false
		}
		return lin{[]string{t.Name}, 0}, true
	case *ast.StarExpr:
		if id := identName(t.X); id != "" {
			return lin{[]string{"*" + id}, 0}, true
		}
	case *ast.CallExpr:
		if identName(t.Fun) == "len" && len(t.Args) == 1 {
			if s, ok := strLit(t.Args[0]); ok {
				return lin{nil, len(s)}, true
			}
		}
	case *ast.BinaryExpr:
		a, oka := parseLin(t.X)
		b, okb := parseLin(t.Y)
		if !oka || !okb {
			return lin{}, false
		}
		switch t.Op {
		case token.ADD:
			vs := append(append([]string{}, a.vars...), b.vars...)
			sort.Strings(vs)
			return lin{vs, a.c + b.c}, true
		case token.SUB:
			if len(b.vars) == 0 {
				return lin{a.vars, a.c - b.c}, true
			}
		}
	}
	return lin{}, false
}

type env map[string]int // "S|key" -> c with key + c <= len(S)

func (e env) copy() env {
	o := env{}
	for k, v := range e {
		o[k] = v
	}
	return o
}

func (e env) learn(s string, l lin) {
	if l.c < 0 {
		return
	}
	k := s + "|" + l.key()
	if old, ok := e[k]; !ok || l.c > old {
		e[k] = l.c
	}
}

func (e env) kill(v string) {
	for k := range e {
		key := k[strings.Index(k, "|")+1:]
		for _, t := range strings.Split(key, "+") {
			if t == v || t == "*"+v {
				delete(e, k)
			}
		}
	}
}

// assignedVars: terms (`j`, `*idx`) whose value may change while the node runs
func assignedVars(n ast.Node, ptrParams map[string]bool, closures map[string]*ast.FuncLit, depth int) []string {
	var out []string
	if n == nil {
		return nil
	}
	ast.Inspect(n, func(x ast.Node) bool {
		switch t := x.(type) {
		case *ast.AssignStmt:
			for _, l := range t.Lhs {
				l = unparen(l)
				if id := identName(l); id != "" {
					out = append(out, id)
				}
				if st, ok := l.(*ast.StarExpr); ok {
					if id := identName(st.X); id != "" {
						out = append(out, "*"+id)
					}
				}
			}
		case *ast.IncDecStmt:
			if id := identName(t.X); id != "" {
				out = append(out, id)
			}
			if st, ok := unparen(t.X).(*ast.StarExpr); ok {
				if id := identName(st.X); id != "" {
					out = append(out, "*"+id)
				}
			}
		case *ast.RangeStmt:
			for _, e := range []ast.Expr{t.Key, t.Value} {
				if e != nil {
					if id := identName(e); id != "" {
						out = append(out, id)
					}
				}
			}
		case *ast.CallExpr:
			for _, a := range t.Args {
				if id := identName(a); id != "" && ptrParams[id] {
					out = append(out, "*"+id)
				}
				if u, ok := unparen(a).(*ast.UnaryExpr); ok && u.Op == token.AND {
					if id := identName(u.X); id != "" {
						out = append(out, id)
					}
				}
			}
			if id := identName(t.Fun); id != "" && closures[id] != nil && depth < 3 {
				out = append(out, assignedVars(closures[id].Body, ptrParams, closures, depth+1)...)
			}
		}
		return true
	})
	return out
}

func indexFacts(p *pkgInfo, f *fnInfo, sf *serFacts) {
	in := inputParams(f)
	if len(in) == 0 {
		return
	}
	ptr := map[string]bool{}
	for _, q := range f.params {
		if strings.HasPrefix(q.typ, "*") {
			ptr[q.name] = true
		}
	}
	closures := map[string]*ast.FuncLit{}
	ast.Inspect(f.decl.Body, func(x ast.Node) bool {
		if as, ok := x.(*ast.AssignStmt); ok && len(as.Lhs) == 1 && len(as.Rhs) == 1 {
			if fl, ok := as.Rhs[0].(*ast.FuncLit); ok {
				closures[identName(as.Lhs[0])] = fl
			}
		}
		return true
	})
	indexOf := map[string]struct {
		s string
		l lin
	}{} // end := strings.IndexByte(S[X:], c)  ->  X + end + 1 <= len(S) once end >= 0

	record := func(e ast.Expr, s string, idx ast.Expr, need int, ev env) {
		l, ok := parseLin(idx)
		site := indexSite{fn: f.name, expr: src(e), have: -1}
		if !ok {
			site.base = src(idx)
			site.need = need
			sf.notes.add("%s: index `%s` of %s is not a sum of variables and literals", f.name, src(idx), src(e))
		} else {
			site.base = l.key()
			site.need = l.c + need
			if site.need < 0 {
				site.need = 0
			}
			if c, ok := ev[s+"|"+l.key()]; ok {
				site.have = c
			} else if len(l.vars) == 0 {
				// a literal index: only a test of len(S) itself can cover it
				if c, ok := ev[s+"|"]; ok {
					site.have = c
				}
			}
		}
		for _, o := range sf.indexSites {
			if o == site {
				return
			}
		}
		sf.indexSites = append(sf.indexSites, site)
	}

	var assume func(c ast.Expr, positive bool, ev env)
	assume = func(c ast.Expr, positive bool, ev env) {
		c = unparen(c)
		if u, ok := c.(*ast.UnaryExpr); ok && u.Op == token.NOT {
			assume(u.X, !positive, ev)
			return
		}
		b, ok := c.(*ast.BinaryExpr)
		if !ok {
			return
		}
		if b.Op == token.LAND && positive || b.Op == token.LOR && !positive {
			assume(b.X, positive, ev)
			assume(b.Y, positive, ev)
			return
		}
		if b.Op == token.LAND || b.Op == token.LOR {
			return
		}
		lenOf := func(e ast.Expr) string {
			cl, ok := unparen(e).(*ast.CallExpr)
			if ok && identName(cl.Fun) == "len" && len(cl.Args) == 1 && in[identName(cl.Args[0])] {
				return identName(cl.Args[0])
			}
			return ""
		}
		op := b.Op
		x, y := b.X, b.Y
		if lenOf(x) != "" && lenOf(y) == "" { // put len(S) on the right
			x, y = y, x
			op = map[token.Token]token.Token{token.LSS: token.GTR, token.LEQ: token.GEQ, token.GTR: token.LSS, token.GEQ: token.LEQ,
				token.EQL: token.EQL, token.NEQ: token.NEQ}[op]
		}
		if !positive {
			op = map[token.Token]token.Token{token.LSS: token.GEQ, token.LEQ: token.GTR, token.GTR: token.LEQ, token.GEQ: token.LSS,
				token.EQL: token.NEQ, token.NEQ: token.EQL}[op]
		}
		if s := lenOf(y); s != "" {
			l, ok := parseLin(x)
			if !ok {
				return
			}
			switch op {
			case token.LEQ, token.EQL:
				ev.learn(s, l)
			case token.LSS:
				ev.learn(s, lin{l.vars, l.c + 1})
			case token.NEQ:
				if len(l.vars) == 0 && l.c == 0 { // len(S) != 0
					ev.learn(s, lin{nil, 1})
				}
			}
			return
		}
		// `end >= 0` for end := strings.IndexByte(S[X:], c)
		if id := identName(x); id != "" {
			if io, ok := indexOf[id]; ok {
				if k, ok := intLit(y); ok && ((op == token.GEQ && k == 0) || (op == token.GTR && k == -1) || (op == token.NEQ && k == -1)) {
					vs := append(append([]string{}, io.l.vars...), id)
					sort.Strings(vs)
					ev.learn(io.s, lin{vs, io.l.c + 1})
				}
			}
		}
	}

	var checkCond func(c ast.Expr, ev env)
	var checkExpr func(n ast.Node, ev env)
	checkCond = func(c ast.Expr, ev env) {
		c = unparen(c)
		if b, ok := c.(*ast.BinaryExpr); ok && (b.Op == token.LAND || b.Op == token.LOR) {
			checkCond(b.X, ev)
			e2 := ev.copy()
			assume(b.X, b.Op == token.LAND, e2)
			checkCond(b.Y, e2)
			return
		}
		checkExpr(c, ev)
	}
	checkExpr = func(n ast.Node, ev env) {
		if n == nil {
			return
		}
		ast.Inspect(n, func(x ast.Node) bool {
			switch t := x.(type) {
			case *ast.BinaryExpr:
				if t.Op == token.LAND || t.Op == token.LOR {
					checkCond(t, ev)
					return false
				}
			case *ast.IndexExpr:
				if s := identName(t.X); in[s] {
					record(t, s, t.Index, 1, ev)
				}
			case *ast.SliceExpr:
				if s := identName(t.X); in[s] {
					if t.High != nil {
						record(t, s, t.High, 0, ev)
					} else if t.Low != nil {
						record(t, s, t.Low, 0, ev)
					}
				}
			case *ast.FuncLit:
				walkClosure(t, ev)
				return false
			}
			return true
		})
	}
	var walkList func(list []ast.Stmt, ev env)
	var walkStmt func(s ast.Stmt, ev env)
	killAll := func(n ast.Node, ev env) {
		for _, v := range assignedVars(n, ptr, closures, 0) {
			ev.kill(v)
		}
	}
	walkClosureImpl := func(fl *ast.FuncLit, ev env) {
		// a closure may run at any later time: nothing about variables the function assigns anywhere is kept
		e2 := ev.copy()
		killAll(f.decl.Body, e2)
		walkList(fl.Body.List, e2)
	}
	walkClosure = walkClosureImpl
	walkList = func(list []ast.Stmt, ev env) {
		for _, s := range list {
			walkStmt(s, ev)
		}
	}
	walkStmt = func(s ast.Stmt, ev env) {
		switch t := s.(type) {
		case *ast.BlockStmt:
			walkList(t.List, ev)
		case *ast.IfStmt:
			if t.Init != nil {
				walkStmt(t.Init, ev)
			}
			checkCond(t.Cond, ev)
			eb := ev.copy()
			assume(t.Cond, true, eb)
			walkList(t.Body.List, eb)
			bodyEnds := terminates(t.Body.List)
			elseEnds := false
			if t.Else != nil {
				ee := ev.copy()
				assume(t.Cond, false, ee)
				walkStmt(t.Else, ee)
				elseEnds = terminates([]ast.Stmt{t.Else})
			}
			if !bodyEnds {
				killAll(t.Body, ev)
			}
			if t.Else != nil && !elseEnds {
				killAll(t.Else, ev)
			}
			if bodyEnds && !elseEnds {
				assume(t.Cond, false, ev)
			}
			if elseEnds && !bodyEnds {
				assume(t.Cond, true, ev)
			}
		case *ast.ForStmt:
			if t.Init != nil {
				walkStmt(t.Init, ev)
			}
			killAll(t.Body, ev)
			if t.Post != nil {
				killAll(t.Post, ev)
			}
			if t.Cond != nil {
				checkCond(t.Cond, ev)
			}
			eb := ev.copy()
			if t.Cond != nil {
				assume(t.Cond, true, eb)
			}
			walkList(t.Body.List, eb)
			if t.Post != nil {
				walkStmt(t.Post, eb)
			}
		case *ast.RangeStmt:
			checkExpr(t.X, ev)
			killAll(t, ev)
			walkList(t.Body.List, ev.copy())
		case *ast.SwitchStmt:
			if t.Init != nil {
				walkStmt(t.Init, ev)
			}
			checkExpr(t.Tag, ev)
			for _, c := range t.Body.List {
				cc := c.(*ast.CaseClause)
				for _, e := range cc.List {
					checkExpr(e, ev)
				}
				walkList(cc.Body, ev.copy())
			}
			for _, c := range t.Body.List {
				cc := c.(*ast.CaseClause)
				if !terminates(cc.Body) {
					killAll(&ast.BlockStmt{List: cc.Body}, ev)
				}
			}
		case *ast.TypeSwitchStmt:
			for _, c := range t.Body.List {
				cc := c.(*ast.CaseClause)
				walkList(cc.Body, ev.copy())
				if !terminates(cc.Body) {
					killAll(&ast.BlockStmt{List: cc.Body}, ev)
				}
			}
		case *ast.LabeledStmt:
			walkStmt(t.Stmt, ev)
		case *ast.AssignStmt:
			for _, r := range t.Rhs {
				checkExpr(r, ev)
			}
			for _, l := range t.Lhs {
				if _, ok := unparen(l).(*ast.IndexExpr); ok {
					checkExpr(l, ev)
				}
			}
			killAll(t, ev)
			// end := strings.IndexByte(S[X:], c)
			if len(t.Lhs) == 1 && len(t.Rhs) == 1 {
				if c, ok := t.Rhs[0].(*ast.CallExpr); ok && len(c.Args) == 2 {
					if _, name, ok := p.pkgCall(f.file, c); ok && (name == "strings.IndexByte" || name == "strings.Index" || name == "bytes.IndexByte" || name == "bytes.Index") {
						if se, ok := unparen(c.Args[0]).(*ast.SliceExpr); ok && se.High == nil && in[identName(se.X)] {
							l := lin{}
							okl := true
							if se.Low != nil {
								l, okl = parseLin(se.Low)
							}
							if id := identName(t.Lhs[0]); okl && id != "" {
								indexOf[id] = struct {
									s string
									l lin
								}{identName(se.X), l}
							}
						}
					}
				}
			}
		default:
			checkExpr(s, ev)
			killAll(s, ev)
		}
	}
	walkList(f.decl.Body.List, env{})
}

var walkClosure func(fl *ast.FuncLit, ev env)

// ---- rendering

func (s *serFacts) lean() string {
	var sb strings.Builder
	var ts, ws, ls, is []string
	for _, t := range s.tagSwitches {
		ts = append(ts, fmt.Sprintf("⟨%s, %s, %s⟩", leanStr(t.fn), leanStrs(t.tags), leanStr(t.dflt)))
	}
	for _, w := range s.writerTags {
		ws = append(ws, fmt.Sprintf("(%s, %s)", leanStr(w.typ), leanStr(w.tag)))
	}
	for _, l := range s.lengthReads {
		ls = append(ls, fmt.Sprintf("⟨%s, %s, %s, %s, %s, %s⟩", leanStr(l.fn), leanStr(l.call), leanStr(l.v), leanBool(l.upper), leanBool(l.lower), leanStrs(l.uses)))
	}
	for _, i := range s.indexSites {
		have := "none"
		if i.have >= 0 {
			have = fmt.Sprintf("some %d", i.have)
		}
		is = append(is, fmt.Sprintf("⟨%s, %s, %s, %d, %s⟩", leanStr(i.fn), leanStr(i.expr), leanStr(i.base), i.need, have))
	}
	sb.WriteString("def tagSwitches : List TagSwitch := " + leanList(ts, "  ") + "\n\n")
	sb.WriteString("def gate : List String := " + leanStrs(s.gate) + "\n\n")
	sb.WriteString("def keyTypes : List String := " + leanStrs(s.keyTypes) + "\n\n")
	sb.WriteString("def writerTags : List (String × String) := " + leanList(ws, "  ") + "\n\n")
	sb.WriteString("def lengthReads : List LengthRead := " + leanList(ls, "  ") + "\n\n")
	sb.WriteString("def indexSites : List IndexSite := " + leanList(is, "  ") + "\n\n")
	sb.WriteString("def floatCalls : List String := " + leanStrs(s.floatCalls) + "\n\n")
	sb.WriteString("def floatLits : List String := " + leanStrs(s.floatLits) + "\n\n")
	return sb.String()
}
