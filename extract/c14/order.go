// order.go: the ORDER of the readers of `UnserializeFunction.Call` and the marker literals of the decoders.
//
//	readers   the top-level `if strings.HasPrefix(<text>, "…") [|| …] { … }` statements of `Call` (std/php/unserialize.go) in
//	          source order. Each is one reader attempt: its gate (the prefixes), its kind — `exact` when the body hands the text
//	          to a function of the package (the recursive-descent reader) and compares it with no literal, `sniff` when the body
//	          compares (parts of) the text with string literals (strings.HasPrefix / HasSuffix / Contains / Index / TrimPrefix /
//	          Cut* / EqualFold, == / != / case), `mixed` for both, `other` for neither —, those literals, and whether every path
//	          through the body returns (`final`) or the next statement can be reached (`falls`).
//	          Any other top-level statement of `Call` that calls a package function with the text or compares it with a literal
//	          of two or more bytes is a shape note.
//	markers   every string literal of ≥ 2 bytes in a comparison position of a decoder file (std/php/{unserialize,json_decode,
//	          base64_decode,urldecode,rawurldecode}.go, std/serializer/json), with the file: a new in-band marker anywhere in a
//	          decoder changes this list.
package main

import (
	"fmt"
	"go/ast"
	"go/token"
	"sort"
	"strings"
)

type readerStep struct {
	kind, tail string
	gate       []string
	markers    []string
}

type orderFacts struct {
	readers []readerStep
	markers []string // "file: literal"
	notes   notes
}

var cmpNames = map[string]bool{"HasPrefix": true, "HasSuffix": true, "Contains": true, "Index": true, "LastIndex": true, "TrimPrefix": true,
	"TrimSuffix": true, "CutPrefix": true, "CutSuffix": true, "Cut": true, "EqualFold": true, "Equal": true, "Split": true, "SplitN": true, "Count": true}

// cmpLits: the string literals in a comparison position under n (calls of strings./bytes. comparison functions, == / !=, case labels)
func cmpLits(p *pkgInfo, file string, n ast.Node) []string {
	var out []string
	if n == nil {
		return nil
	}
	ast.Inspect(n, func(x ast.Node) bool {
		switch t := x.(type) {
		case *ast.CallExpr:
			if path, name, ok := p.pkgCall(file, t); ok && (path == "strings" || path == "bytes") {
				if i := strings.IndexByte(name, '.'); i >= 0 && cmpNames[name[i+1:]] {
					for _, a := range t.Args {
						if s, ok := anyStrLit(a); ok {
							out = append(out, s)
						}
					}
				}
			}
		case *ast.BinaryExpr:
			if t.Op == token.EQL || t.Op == token.NEQ {
				for _, a := range []ast.Expr{t.X, t.Y} {
					if s, ok := anyStrLit(a); ok {
						out = append(out, s)
					}
				}
			}
		case *ast.CaseClause:
			for _, a := range t.List {
				if s, ok := anyStrLit(a); ok {
					out = append(out, s)
				}
			}
		}
		return true
	})
	return out
}

// anyStrLit: "…" or []byte("…")
func anyStrLit(e ast.Expr) (string, bool) {
	if s, ok := strLit(e); ok {
		return s, true
	}
	if c, ok := unparen(e).(*ast.CallExpr); ok && len(c.Args) == 1 {
		if _, isArr := c.Fun.(*ast.ArrayType); isArr {
			return strLit(c.Args[0])
		}
	}
	return "", false
}

// prefixGate: cond is `strings.HasPrefix(x, "a") || strings.HasPrefix(x, "b") …` → the literals
func prefixGate(p *pkgInfo, file string, cond ast.Expr) ([]string, bool) {
	var lits []string
	for _, d := range splitOp(cond, token.LOR) {
		c, ok := unparen(d).(*ast.CallExpr)
		if !ok || len(c.Args) != 2 {
			return nil, false
		}
		if _, name, ok := p.pkgCall(file, c); !ok || name != "strings.HasPrefix" {
			return nil, false
		}
		s, ok := strLit(c.Args[1])
		if !ok {
			return nil, false
		}
		lits = append(lits, s)
	}
	return lits, len(lits) > 0
}

func localCalls(p *pkgInfo, f *fnInfo, n ast.Node) []string {
	var out []string
	if n == nil {
		return nil
	}
	ast.Inspect(n, func(x ast.Node) bool {
		if c, ok := x.(*ast.CallExpr); ok {
			if name := p.resolve(f, c); name != "" {
				out = append(out, name)
			}
		}
		return true
	})
	return out
}

func long2(l []string) []string {
	var out []string
	for _, s := range l {
		if len(s) >= 2 {
			out = append(out, s)
		}
	}
	return out
}

func analyseOrder(php, js *pkgInfo, of *orderFacts) {
	for _, n := range php.names {
		f := php.fns[n]
		if f.file != "unserialize.go" || f.decl.Name.Name != "Call" || f.decl.Body == nil {
			continue
		}
		for _, st := range f.decl.Body.List {
			ifs, ok := st.(*ast.IfStmt)
			var gate []string
			if ok && ifs.Init == nil && ifs.Else == nil {
				gate, ok = prefixGate(php, f.file, ifs.Cond)
			} else {
				ok = false
			}
			if !ok {
				// not a reader attempt of the expected shape: it must not read the text on its own
				lc, ml := localCalls(php, f, st), long2(cmpLits(php, f.file, st))
				if len(lc) > 0 || len(ml) > 0 {
					of.notes.add("%s: a top-level statement that is not `if strings.HasPrefix(…) {…}` calls %v / compares with %v", f.name, lc, ml)
				}
				continue
			}
			lc, ml := localCalls(php, f, ifs.Body), cmpLits(php, f.file, ifs.Body)
			rs := readerStep{gate: gate, markers: uniqKeep(ml), tail: "falls"}
			switch {
			case len(lc) > 0 && len(ml) == 0:
				rs.kind = "exact"
			case len(lc) == 0 && len(ml) > 0:
				rs.kind = "sniff"
			case len(lc) > 0:
				rs.kind = "mixed"
			default:
				rs.kind = "other"
			}
			if terminates(ifs.Body.List) {
				rs.tail = "final"
			}
			of.readers = append(of.readers, rs)
		}
	}
	if len(of.readers) == 0 {
		of.notes.add("unserialize.go: no reader attempt found in Call")
	}
	decoderFile := map[string]bool{"unserialize.go": true, "json_decode.go": true, "base64_decode.go": true, "urldecode.go": true, "rawurldecode.go": true}
	seen := map[string]bool{}
	collect := func(p *pkgInfo, all bool) {
		for _, fn := range p.fnames {
			if !all && !decoderFile[fn] {
				continue
			}
			for _, s := range long2(cmpLits(p, fn, p.files[fn])) {
				k := p.rel + "/" + fn + ": " + s
				if !seen[k] {
					seen[k] = true
					of.markers = append(of.markers, k)
				}
			}
		}
	}
	collect(php, false)
	collect(js, true)
	sort.Strings(of.markers)
}

func uniqKeep(l []string) []string {
	seen := map[string]bool{}
	var out []string
	for _, s := range l {
		if !seen[s] {
			seen[s] = true
			out = append(out, s)
		}
	}
	return out
}

func (o *orderFacts) lean() string {
	var sb strings.Builder
	var rs []string
	for _, r := range o.readers {
		rs = append(rs, fmt.Sprintf("{ kind := %s, gate := %s, markers := %s, tail := %s }", leanStr(r.kind), leanStrs(r.gate), leanStrs(r.markers), leanStr(r.tail)))
	}
	sb.WriteString("def readers : List ReaderStep := " + leanList(rs, "  ") + "\n\n")
	sb.WriteString("def markers : List String := " + leanList(quoteAll(o.markers), "  ") + "\n\n")
	return sb.String()
}
