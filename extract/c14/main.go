// extract/c14: regenerates lean/Generated/C14Recursion.lean, C14Input.lean, C14Wrappers.lean, C14Numbers.lean and C14Readers.lean from the anchored codec
// sources (std/protowire/*.go, std/php/{unserialize,serialize,json_decode,json_encode,base64_*,url*,rawurl*,bin2hex,md5,
// hash}.go, std/serializer/json/*.go). go/ast only; nothing is executed. See recur.go, wire.go, ser.go, wrap.go for what
// each part reads.
package main

import (
	"fmt"
	"os"
	"sort"
	"strings"

	"verif/extract/ex"
)

var phpFiles = []string{"unserialize.go", "serialize.go", "json_decode.go", "json_encode.go"}

func die(err error) {
	fmt.Fprintln(os.Stderr, "extract c14:", err)
	os.Exit(1)
}

func main() {
	args := ex.ParseArgs()
	wirePkg, err := loadPkg(args.Repo, "std/protowire", nil)
	if err != nil {
		die(err)
	}
	phpPkg, err := loadPkg(args.Repo, "std/php", append(append([]string{}, phpFiles...), wrapperFiles...))
	if err != nil {
		die(err)
	}
	jsonPkg, err := loadPkg(args.Repo, "std/serializer/json", nil)
	if err != nil {
		die(err)
	}

	// ---- recursion
	rf := &recurFacts{}
	analyseRecursion(wirePkg, rf)
	analyseRecursion(phpPkg, rf)
	analyseRecursion(jsonPkg, rf)
	sort.Strings(rf.unlimitedFiles)
	rf.unlimitedFiles = uniq(rf.unlimitedFiles)
	var gs []string
	for _, g := range rf.graphs {
		gs = append(gs, g.lean("  "))
	}
	var sb strings.Builder
	sb.WriteString("import Model.DepthGraph\n")
	sb.WriteString("/-! C14: the recursive functions of the codecs (std/protowire, std/php/{unserialize,serialize,json_*}.go,\n")
	sb.WriteString("std/serializer/json): groups that carry a depth counter as call graphs (depth argument at every recursive call,\n")
	sb.WriteString("limit test of every function), groups without a counter by file. -/\n")
	sb.WriteString("namespace Generated.C14Recursion\nopen Model.DepthGraph\n\n")
	sb.WriteString("def graphs : List Graph := " + leanList(gs, "  ") + "\n\n")
	sb.WriteString("def unlimitedFiles : List String := " + leanStrs(rf.unlimitedFiles) + "\n\n")
	sb.WriteString("def unlimitedFns : List String := " + leanList(quoteAll(rf.unlimitedFns), "  ") + "\n\n")
	sb.WriteString("def shapeNotes : List String := " + leanList(quoteAll(rf.notes.list), "  ") + "\n\n")
	sb.WriteString("end Generated.C14Recursion\n")
	if err := ex.WriteIfChanged(args.Out, "C14Recursion.lean", sb.String()); err != nil {
		die(err)
	}

	// ---- input handling of the wire parser and of the serialize reader / writer
	graphFns := map[string]int{}
	for _, g := range rf.graphs {
		if strings.HasPrefix(g.file, "std/protowire/") {
			for i, n := range g.fns {
				graphFns[n] = i
			}
		}
	}
	wf := &wireFacts{}
	analyseWire(wirePkg, graphFns, wf)
	sf := &serFacts{}
	analyseSer(phpPkg, sf)
	sb.Reset()
	sb.WriteString("import Model.InputFacts\n")
	sb.WriteString("/-! C14: how the wire parser (std/protowire) and the serialize reader / writer (std/php/unserialize.go, serialize.go)\n")
	sb.WriteString("handle their input: length tests after every Consume*, loop conditions, end-group handling, wire-type dispatch, the\n")
	sb.WriteString("reader's tag switches, the lengths it parses and every index / slice it takes of the input. -/\n")
	sb.WriteString("namespace Generated.C14Input\nopen Model.InputFacts\n\n")
	sb.WriteString(wf.lean())
	sb.WriteString(sf.lean())
	sb.WriteString("def shapeNotes : List String := " + leanList(quoteAll(append(append([]string{}, wf.notes.list...), sf.notes.list...)), "  ") + "\n\n")
	sb.WriteString("end Generated.C14Input\n")
	if err := ex.WriteIfChanged(args.Out, "C14Input.lean", sb.String()); err != nil {
		die(err)
	}

	// ---- wrappers and JSON text producers
	xf := &wrapFacts{}
	analyseWrappers(phpPkg, xf)
	analyseJSON(jsonPkg, phpPkg, xf)
	sb.Reset()
	sb.WriteString("import Model.CodecTable\n")
	sb.WriteString("/-! C14: which library function each byte codec wraps (std/php/base64_*.go, url*.go, rawurl*.go, bin2hex.go, md5.go,\n")
	sb.WriteString("hash.go) and which library functions produce JSON text (std/serializer/json, std/php/json_encode.go). -/\n")
	sb.WriteString("namespace Generated.C14Wrappers\nopen Model.CodecTable\n\n")
	sb.WriteString(xf.lean())
	sb.WriteString("def shapeNotes : List String := " + leanList(quoteAll(xf.notes.list), "  ") + "\n\n")
	sb.WriteString("end Generated.C14Wrappers\n")
	if err := ex.WriteIfChanged(args.Out, "C14Wrappers.lean", sb.String()); err != nil {
		die(err)
	}
	// ---- float → int conversions of the decoders
	nf := &numFacts{}
	analyseNumbers(phpPkg, nf)
	analyseNumbers(jsonPkg, nf)
	sb.Reset()
	sb.WriteString("import Model.NumGuard\n")
	sb.WriteString("/-! C14: every conversion of a float64 to an integer type in the decoders (std/php/json_decode.go, unserialize.go, …,\n")
	sb.WriteString("std/serializer/json) with the range guard and the integrality test in force; constants as the float64 they are\n")
	sb.WriteString("converted to for the comparison. -/\n")
	sb.WriteString("namespace Generated.C14Numbers\nopen Model.NumGuard\n\n")
	sb.WriteString(nf.lean())
	sb.WriteString("def shapeNotes : List String := " + leanList(quoteAll(nf.notes.list), "  ") + "\n\n")
	sb.WriteString("end Generated.C14Numbers\n")
	if err := ex.WriteIfChanged(args.Out, "C14Numbers.lean", sb.String()); err != nil {
		die(err)
	}
	// ---- order of the readers of unserialize, marker literals of the decoders
	of := &orderFacts{}
	analyseOrder(phpPkg, jsonPkg, of)
	sb.Reset()
	sb.WriteString("import Model.ReaderOrder\n")
	sb.WriteString("/-! C14: the reader attempts of `UnserializeFunction.Call` (std/php/unserialize.go) in source order — gate, kind (exact\n")
	sb.WriteString("reader / literal-sniffing branch), the literals, final or falling through — and every string literal of two or more\n")
	sb.WriteString("bytes a decoder compares its input with. -/\n")
	sb.WriteString("namespace Generated.C14Readers\nopen Model.ReaderOrder\n\n")
	sb.WriteString(of.lean())
	sb.WriteString("def shapeNotes : List String := " + leanList(quoteAll(of.notes.list), "  ") + "\n\n")
	sb.WriteString("end Generated.C14Readers\n")
	if err := ex.WriteIfChanged(args.Out, "C14Readers.lean", sb.String()); err != nil {
		die(err)
	}
	fmt.Printf("c14: %d depth graph(s), %d file(s) with uncounted recursion, %d consume site(s), %d index site(s), %d wrapper(s); notes: %d\n",
		len(rf.graphs), len(rf.unlimitedFiles), len(wf.consume), len(sf.indexSites), len(xf.wrappers),
		len(rf.notes.list)+len(wf.notes.list)+len(sf.notes.list)+len(xf.notes.list))
}

func uniq(l []string) []string {
	var out []string
	for i, s := range l {
		if i == 0 || s != l[i-1] {
			out = append(out, s)
		}
	}
	return out
}

func quoteAll(l []string) []string {
	q := make([]string, len(l))
	for i, s := range l {
		q[i] = leanStr(s)
	}
	return q
}
