package main

import (
	"bytes"
	"fmt"
	"go/ast"
	"go/parser"
	"go/printer"
	"go/token"
	"os"
	"path/filepath"
	"sort"
	"strconv"
	"strings"

	"verif/extract/ex"
)

// ---- shape notes: anything the translator does not recognise is reported here, by part

type notes struct{ list []string }

func (n *notes) add(format string, a ...any) {
	s := fmt.Sprintf(format, a...)
	for _, o := range n.list {
		if o == s {
			return
		}
	}
	n.list = append(n.list, s)
}

// ---- source text

var printFset = token.NewFileSet()

func src(n ast.Node) string {
	if n == nil {
		return ""
	}
	var buf bytes.Buffer
	printer.Fprint(&buf, printFset, n)
	s := strings.Join(strings.Fields(buf.String()), " ")
	if len(s) > 120 {
		s = s[:120] + "…"
	}
	return s
}

func unparen(e ast.Expr) ast.Expr {
	for {
		p, ok := e.(*ast.ParenExpr)
		if !ok {
			return e
		}
		e = p.X
	}
}

func identName(e ast.Expr) string {
	if id, ok := unparen(e).(*ast.Ident); ok {
		return id.Name
	}
	return ""
}

func intLit(e ast.Expr) (int, bool) {
	e = unparen(e)
	if u, ok := e.(*ast.UnaryExpr); ok && u.Op == token.SUB {
		if v, ok := intLit(u.X); ok {
			return -v, true
		}
	}
	if b, ok := e.(*ast.BasicLit); ok && b.Kind == token.INT {
		v, err := strconv.ParseInt(b.Value, 0, 64)
		if err == nil {
			return int(v), true
		}
	}
	return 0, false
}

func strLit(e ast.Expr) (string, bool) {
	if b, ok := unparen(e).(*ast.BasicLit); ok && b.Kind == token.STRING {
		s, err := strconv.Unquote(b.Value)
		if err == nil {
			return s, true
		}
	}
	return "", false
}

func charLit(e ast.Expr) (string, bool) {
	if b, ok := unparen(e).(*ast.BasicLit); ok && b.Kind == token.CHAR {
		s, err := strconv.Unquote(b.Value)
		if err == nil {
			return s, true
		}
	}
	return "", false
}

func mentions(n ast.Node, name string) bool {
	hit := false
	if n == nil {
		return false
	}
	ast.Inspect(n, func(m ast.Node) bool {
		if id, ok := m.(*ast.Ident); ok && id.Name == name {
			hit = true
		}
		return !hit
	})
	return hit
}

// terminates: the statement list cannot fall out of its end (last statement is a return / panic / continue / break / goto)
func terminates(list []ast.Stmt) bool {
	if len(list) == 0 {
		return false
	}
	switch t := list[len(list)-1].(type) {
	case *ast.ReturnStmt:
		return true
	case *ast.BranchStmt:
		return t.Tok != token.FALLTHROUGH
	case *ast.ExprStmt:
		if c, ok := t.X.(*ast.CallExpr); ok && identName(c.Fun) == "panic" {
			return true
		}
	case *ast.BlockStmt:
		return terminates(t.List)
	case *ast.IfStmt:
		if t.Else == nil {
			return false
		}
		eb, ok := t.Else.(*ast.BlockStmt)
		if ok {
			return terminates(t.Body.List) && terminates(eb.List)
		}
		return terminates(t.Body.List) && terminates([]ast.Stmt{t.Else})
	}
	return false
}

// endsInReturn: the last statement of the list is a return
func endsInReturn(list []ast.Stmt) *ast.ReturnStmt {
	if len(list) == 0 {
		return nil
	}
	r, _ := list[len(list)-1].(*ast.ReturnStmt)
	return r
}

// disjuncts / conjuncts of a condition
func splitOp(e ast.Expr, op token.Token) []ast.Expr {
	e = unparen(e)
	if b, ok := e.(*ast.BinaryExpr); ok && b.Op == op {
		return append(splitOp(b.X, op), splitOp(b.Y, op)...)
	}
	return []ast.Expr{e}
}

// every statement list of a node: block bodies, case bodies, select bodies
func forEachStmtList(n ast.Node, f func(list []ast.Stmt)) {
	ast.Inspect(n, func(m ast.Node) bool {
		switch t := m.(type) {
		case *ast.BlockStmt:
			f(t.List)
		case *ast.CaseClause:
			f(t.Body)
		case *ast.CommClause:
			f(t.Body)
		}
		return true
	})
}

// ---- packages

type param struct{ name, typ string }

type fnInfo struct {
	name    string // "Recv.Name" or "Name"
	file    string // base name
	decl    *ast.FuncDecl
	recv    string // receiver identifier
	recvT   string // receiver type without '*'
	params  []param
	callees map[string][]*ast.CallExpr
	order   int
}

type pkgInfo struct {
	rel     string
	files   map[string]*ast.File
	fnames  []string
	fns     map[string]*fnInfo
	names   []string          // in source order
	imports map[string]string // file/alias -> path  (key "file\x00alias")
}

func loadPkg(repo, rel string, only []string) (*pkgInfo, error) {
	fset := token.NewFileSet()
	p := &pkgInfo{rel: rel, files: map[string]*ast.File{}, fns: map[string]*fnInfo{}, imports: map[string]string{}}
	dir := filepath.Join(repo, rel)
	ents, err := os.ReadDir(dir)
	if err != nil {
		return nil, err
	}
	want := map[string]bool{}
	for _, o := range only {
		want[o] = true
	}
	for _, e := range ents {
		n := e.Name()
		if e.IsDir() || !strings.HasSuffix(n, ".go") || strings.HasSuffix(n, "_test.go") {
			continue
		}
		if len(only) > 0 && !want[n] {
			continue
		}
		f, err := parser.ParseFile(fset, filepath.Join(dir, n), nil, 0)
		if err != nil {
			return nil, err
		}
		p.files[n] = f
		p.fnames = append(p.fnames, n)
	}
	sort.Strings(p.fnames)
	ord := 0
	for _, n := range p.fnames {
		f := p.files[n]
		for _, im := range f.Imports {
			path, _ := strconv.Unquote(im.Path.Value)
			alias := filepath.Base(path)
			if im.Name != nil {
				alias = im.Name.Name
			}
			p.imports[n+"\x00"+alias] = path
		}
		for _, d := range f.Decls {
			fd, ok := d.(*ast.FuncDecl)
			if !ok || fd.Body == nil {
				continue
			}
			fi := &fnInfo{decl: fd, file: n, callees: map[string][]*ast.CallExpr{}, order: ord}
			ord++
			if fd.Recv != nil && len(fd.Recv.List) > 0 {
				fi.recvT = strings.TrimPrefix(ex.TypeString(fd.Recv.List[0].Type), "*")
				if len(fd.Recv.List[0].Names) > 0 {
					fi.recv = fd.Recv.List[0].Names[0].Name
				}
				fi.name = fi.recvT + "." + fd.Name.Name
			} else {
				fi.name = fd.Name.Name
			}
			for _, q := range fd.Type.Params.List {
				t := ex.TypeString(q.Type)
				if len(q.Names) == 0 {
					fi.params = append(fi.params, param{"_", t})
				}
				for _, id := range q.Names {
					fi.params = append(fi.params, param{id.Name, t})
				}
			}
			p.fns[fi.name] = fi
			p.names = append(p.names, fi.name)
		}
	}
	for _, n := range p.names {
		f := p.fns[n]
		ast.Inspect(f.decl.Body, func(m ast.Node) bool {
			if c, ok := m.(*ast.CallExpr); ok {
				if g := p.resolve(f, c); g != "" {
					f.callees[g] = append(f.callees[g], c)
				}
			}
			return true
		})
	}
	return p, nil
}

// resolve: the package function / method of the caller's own receiver that a call names ("" otherwise)
func (p *pkgInfo) resolve(f *fnInfo, c *ast.CallExpr) string {
	switch t := c.Fun.(type) {
	case *ast.Ident:
		if g, ok := p.fns[t.Name]; ok && g.recvT == "" {
			return t.Name
		}
	case *ast.SelectorExpr:
		if id, ok := t.X.(*ast.Ident); ok && f.recv != "" && id.Name == f.recv {
			if _, ok := p.fns[f.recvT+"."+t.Sel.Name]; ok {
				return f.recvT + "." + t.Sel.Name
			}
		}
	}
	return ""
}

// importPath: the import path behind a package identifier used in a file ("" when the identifier is not an import)
func (p *pkgInfo) importPath(file, alias string) string {
	return p.imports[file+"\x00"+alias]
}

// pkgCall: `alias.F` / `alias.V.M` rooted at an imported package: (import path, "alias.F", true)
func (p *pkgInfo) pkgCall(file string, c *ast.CallExpr) (string, string, bool) {
	var parts []string
	e := c.Fun
	for {
		switch t := e.(type) {
		case *ast.SelectorExpr:
			parts = append([]string{t.Sel.Name}, parts...)
			e = t.X
			continue
		case *ast.Ident:
			if path := p.importPath(file, t.Name); path != "" && len(parts) > 0 && t.Obj == nil {
				return path, t.Name + "." + strings.Join(parts, "."), true
			}
		}
		return "", "", false
	}
}

// callSig: "alias.F(lit,_,lit)": literal arguments kept, everything else `_`
func callSig(name string, c *ast.CallExpr) string {
	var as []string
	for _, a := range c.Args {
		a = unparen(a)
		if b, ok := a.(*ast.BasicLit); ok {
			as = append(as, b.Value)
			continue
		}
		if v, ok := intLit(a); ok {
			as = append(as, strconv.Itoa(v))
			continue
		}
		if id, ok := a.(*ast.Ident); ok && (id.Name == "true" || id.Name == "false" || id.Name == "nil") {
			as = append(as, id.Name)
			continue
		}
		as = append(as, "_")
	}
	return name + "(" + strings.Join(as, ",") + ")"
}

// postorder calls of a node (inner calls first, source order otherwise)
func callsPost(n ast.Node, f func(c *ast.CallExpr)) {
	var walk func(m ast.Node)
	walk = func(m ast.Node) {
		if m == nil {
			return
		}
		var kids []ast.Node
		first := true
		ast.Inspect(m, func(k ast.Node) bool {
			if first {
				first = false
				return true
			}
			if k != nil {
				kids = append(kids, k)
			}
			return false
		})
		for _, k := range kids {
			walk(k)
		}
		if c, ok := m.(*ast.CallExpr); ok {
			f(c)
		}
	}
	walk(n)
}

// ---- Lean rendering

func leanStr(s string) string { return ex.LeanString(s) }

func leanStrs(l []string) string {
	q := make([]string, len(l))
	for i, s := range l {
		q[i] = leanStr(s)
	}
	return "[" + strings.Join(q, ", ") + "]"
}

func leanList(items []string, indent string) string {
	if len(items) == 0 {
		return "[]"
	}
	return "[\n" + indent + strings.Join(items, ",\n"+indent) + "]"
}

func leanBool(b bool) string {
	if b {
		return "true"
	}
	return "false"
}
