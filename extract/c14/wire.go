package main

// Input-handling facts of the wire parser (std/protowire, the files that import Google's protowire package):
//
//   consumeSites   every `v, n := pw.Consume*(data)` (or through the local one-line wrappers `pwConsume*`) with the test of
//                  `n` that follows it before `n` is used (`n <= 0` → le0, `n < 0` → lt0, `n < 1` → le0, `n == 0` → eq0,
//                  no test → none)
//   loops          every `for` over an input slice with its condition (`len(data) > 0` → nonempty) and what the function
//                  does after the loop (returns a nil error → ok, an error → err)
//   endGroups      what each field loop does with an end-group tag (`if wtype == WireEndGroup { … }`): error /
//                  closeIfMatch (returns an error when the number differs, the fields otherwise) / close / break / other
//   dispatch       every `switch` over a wire type: case values (constants resolved) with what the case does (the first
//                  Consume* primitive it calls, `recurse` for a call into the recursive group, `error`), the default arm
//   lenOrder       inside the length-delimited case: the parse options consulted, in order
//   wireConsts     the `Wire*` constants

import (
	"fmt"
	"go/ast"
	"go/token"
	"sort"
	"strings"
)

type consumeSite struct{ fn, prim, guard string }
type loopFact struct {
	fn          string
	idx         int
	cond, after string
}
type endGroupFact struct {
	fn     string
	idx    int
	action string
}
type caseFact struct {
	val    int
	action string
}
type dispatchFact struct {
	fn, role string
	cases    []caseFact
	dflt     string
}

type wireFacts struct {
	consume   []consumeSite
	loops     []loopFact
	endGroups []endGroupFact
	dispatch  []dispatchFact
	lenOrder  []string
	consts    []caseFact // value + name in action
	notes     notes
}

const pwPath = "google.golang.org/protobuf/encoding/protowire"

func analyseWire(p *pkgInfo, graphIdx map[string]int, wf *wireFacts) {
	graphFns := map[string]bool{}
	for n := range graphIdx {
		graphFns[n] = true
	}
	idxOf := func(n string) int {
		if i, ok := graphIdx[n]; ok {
			return i
		}
		return 99
	}
	// constants
	consts := map[string]int{}
	for _, fnm := range p.fnames {
		for _, d := range p.files[fnm].Decls {
			gd, ok := d.(*ast.GenDecl)
			if !ok || gd.Tok != token.CONST {
				continue
			}
			for _, sp := range gd.Specs {
				vs := sp.(*ast.ValueSpec)
				for i, id := range vs.Names {
					if strings.HasPrefix(id.Name, "Wire") && i < len(vs.Values) {
						if v, ok := intLit(vs.Values[i]); ok {
							consts[id.Name] = v
							wf.consts = append(wf.consts, caseFact{v, id.Name})
						} else {
							wf.notes.add("constant %s is not a literal: %s", id.Name, src(vs.Values[i]))
						}
					}
				}
			}
		}
	}
	sort.Slice(wf.consts, func(i, j int) bool { return wf.consts[i].val < wf.consts[j].val })
	constVal := func(e ast.Expr) (int, bool) {
		e = unparen(e)
		if v, ok := intLit(e); ok {
			return v, true
		}
		if c, ok := e.(*ast.CallExpr); ok && len(c.Args) == 1 { // int32(WireVarint)
			e = unparen(c.Args[0])
		}
		if id, ok := e.(*ast.Ident); ok {
			v, ok := consts[id.Name]
			return v, ok
		}
		if s, ok := e.(*ast.SelectorExpr); ok { // pw.VarintType …
			if id, ok := s.X.(*ast.Ident); ok && id.Obj == nil {
				names := map[string]int{"VarintType": 0, "Fixed64Type": 1, "BytesType": 2, "StartGroupType": 3, "EndGroupType": 4, "Fixed32Type": 5}
				v, ok := names[s.Sel.Name]
				return v, ok
			}
		}
		return 0, false
	}

	// local wrappers `func pwConsumeX(b []byte) (…, int) { return pw.ConsumeX(b) }`
	wrapper := map[string]string{}
	for _, n := range p.names {
		f := p.fns[n]
		if len(f.decl.Body.List) != 1 {
			continue
		}
		if r, ok := f.decl.Body.List[0].(*ast.ReturnStmt); ok && len(r.Results) == 1 {
			if c, ok := r.Results[0].(*ast.CallExpr); ok {
				if path, name, ok := p.pkgCall(f.file, c); ok && path == pwPath {
					wrapper[n] = name[strings.Index(name, ".")+1:]
				}
			}
		}
	}
	primOf := func(f *fnInfo, c *ast.CallExpr) string {
		if path, name, ok := p.pkgCall(f.file, c); ok && path == pwPath {
			return name[strings.Index(name, ".")+1:]
		}
		if id := identName(c.Fun); id != "" {
			return wrapper[id]
		}
		return ""
	}

	for _, n := range p.names {
		f := p.fns[n]
		if wrapper[n] != "" {
			continue
		}
		byteParams := map[string]bool{}
		for _, q := range f.params {
			if q.typ == "[]byte" {
				byteParams[q.name] = true
			}
		}
		usesPw := false
		ast.Inspect(f.decl.Body, func(x ast.Node) bool {
			if c, ok := x.(*ast.CallExpr); ok && strings.HasPrefix(primOf(f, c), "Consume") {
				usesPw = true
			}
			return true
		})
		if !usesPw && !graphFns[n] {
			continue
		}

		// ---- consume sites
		forEachStmtList(f.decl.Body, func(list []ast.Stmt) {
			for i, s := range list {
				as, ok := s.(*ast.AssignStmt)
				if !ok || len(as.Rhs) != 1 || len(as.Lhs) < 2 {
					continue
				}
				c, ok := as.Rhs[0].(*ast.CallExpr)
				if !ok {
					continue
				}
				prim := primOf(f, c)
				if !strings.HasPrefix(prim, "Consume") {
					continue
				}
				nv := identName(as.Lhs[len(as.Lhs)-1])
				guard := "none"
				if nv == "" || nv == "_" {
					guard = "none"
					wf.notes.add("%s: the length returned by %s is dropped", n, prim)
				} else {
					for _, t := range list[i+1:] {
						if !mentions(t, nv) {
							continue
						}
						if is, ok := t.(*ast.IfStmt); ok && is.Init == nil && terminates(is.Body.List) {
							guard = ""
							for _, d := range splitOp(is.Cond, token.LOR) {
								if g := lenTest(d, nv); g != "" {
									guard = g
								}
							}
							if guard == "" {
								guard = "other"
								wf.notes.add("%s: the test after %s is not understood: %s", n, prim, src(is.Cond))
							} else if r := endsInReturn(is.Body.List); r == nil || lastResult(r) == "nil" {
								guard = "other"
								wf.notes.add("%s: the test after %s does not return an error", n, prim)
							}
						}
						break
					}
				}
				wf.consume = append(wf.consume, consumeSite{n, prim, guard})
			}
		})

		// ---- loops over the input and end-group handling
		forEachStmtList(f.decl.Body, func(list []ast.Stmt) {
			for i, s := range list {
				fs, ok := s.(*ast.ForStmt)
				if !ok {
					continue
				}
				v, cond := loopCond(fs, byteParams)
				if v == "" {
					continue
				}
				after := "fallthrough"
				if cond == "nonempty:first" {
					cond = "nonempty"
					is := fs.Body.List[0].(*ast.IfStmt)
					if r := endsInReturn(is.Body.List); r != nil {
						if lastResult(r) == "nil" {
							after = "ok"
						} else {
							after = "err"
						}
						wf.loops = append(wf.loops, loopFact{n, idxOf(n), cond, after})
						goto endgroups
					}
				}
				if i+1 < len(list) {
					if r, ok := list[i+1].(*ast.ReturnStmt); ok {
						if lastResult(r) == "nil" {
							after = "ok"
						} else {
							after = "err"
						}
					} else {
						after = "other"
					}
				}
				wf.loops = append(wf.loops, loopFact{n, idxOf(n), cond, after})
			endgroups:
				// end-group tests in this loop
				seen := false
				for _, t := range fs.Body.List {
					is, ok := t.(*ast.IfStmt)
					if !ok {
						continue
					}
					b, ok := unparen(is.Cond).(*ast.BinaryExpr)
					if !ok || b.Op != token.EQL {
						continue
					}
					vx, okx := constVal(b.X)
					vy, oky := constVal(b.Y)
					if !(okx && vx == 4) && !(oky && vy == 4) {
						continue
					}
					seen = true
					wf.endGroups = append(wf.endGroups, endGroupFact{n, idxOf(n), endGroupAction(is)})
				}
				if !seen && graphFns[n] {
					wf.endGroups = append(wf.endGroups, endGroupFact{n, idxOf(n), "none"})
				}
			}
		})

		// ---- switches over wire types
		ast.Inspect(f.decl.Body, func(x ast.Node) bool {
			sw, ok := x.(*ast.SwitchStmt)
			if !ok || sw.Tag == nil {
				return true
			}
			var cases []caseFact
			dflt := "none"
			all := true
			for _, c := range sw.Body.List {
				cc := c.(*ast.CaseClause)
				act := caseAction(p, f, cc.Body, primOf, graphFns)
				if cc.List == nil {
					dflt = act
					continue
				}
				for _, e := range cc.List {
					v, ok := constVal(e)
					if !ok {
						all = false
						continue
					}
					cases = append(cases, caseFact{v, act})
				}
				if v, ok := constVal(cc.List[0]); ok && v == 2 && graphFns[n] {
					for _, t := range cc.Body {
						if is, ok := t.(*ast.IfStmt); ok {
							if ix, ok := unparen(is.Cond).(*ast.IndexExpr); ok {
								if se, ok := ix.X.(*ast.SelectorExpr); ok {
									wf.lenOrder = append(wf.lenOrder, se.Sel.Name)
								}
							}
						}
					}
				}
			}
			if len(cases) == 0 {
				return true
			}
			if !all {
				wf.notes.add("%s: a switch over wire types has a case that is not a constant", n)
			}
			sort.Slice(cases, func(i, j int) bool { return cases[i].val < cases[j].val })
			role := "packed"
			if graphFns[n] {
				role = "field"
			}
			wf.dispatch = append(wf.dispatch, dispatchFact{n, role, cases, dflt})
			return true
		})
	}
}

// lenTest: a test of the consumed length against zero, with the length on the left
func lenTest(d ast.Expr, nv string) string {
	b, ok := unparen(d).(*ast.BinaryExpr)
	if !ok {
		return ""
	}
	op := b.Op
	var other ast.Expr
	switch {
	case identName(b.X) == nv:
		other = b.Y
	case identName(b.Y) == nv:
		other = b.X
		op = map[token.Token]token.Token{token.LSS: token.GTR, token.LEQ: token.GEQ, token.GTR: token.LSS, token.GEQ: token.LEQ,
			token.EQL: token.EQL, token.NEQ: token.NEQ}[op]
	default:
		return ""
	}
	v, ok := intLit(other)
	if !ok {
		return ""
	}
	switch {
	case op == token.LEQ && v == 0, op == token.LSS && v == 1:
		return "le0"
	case op == token.LSS && v == 0, op == token.LEQ && v == -1:
		return "lt0"
	case op == token.EQL && v == 0:
		return "eq0"
	}
	return fmt.Sprintf("other")
}

// loopCond: `for len(x) > 0` over a []byte parameter (also `for { if len(x) == 0 { … }; … }`, reported as "nonempty:first")
func loopCond(fs *ast.ForStmt, byteParams map[string]bool) (string, string) {
	if fs.Cond == nil {
		if fs.Init == nil && fs.Post == nil && len(fs.Body.List) > 0 {
			if is, ok := fs.Body.List[0].(*ast.IfStmt); ok && is.Init == nil && is.Else == nil && terminates(is.Body.List) {
				if b, ok := unparen(is.Cond).(*ast.BinaryExpr); ok {
					c, ok := unparen(b.X).(*ast.CallExpr)
					k, okk := intLit(b.Y)
					if ok && okk && identName(c.Fun) == "len" && len(c.Args) == 1 && byteParams[identName(c.Args[0])] &&
						(b.Op == token.EQL && k == 0 || b.Op == token.LSS && k == 1 || b.Op == token.LEQ && k == 0) {
						return identName(c.Args[0]), "nonempty:first"
					}
				}
			}
		}
		return "", ""
	}
	v := ""
	ast.Inspect(fs.Cond, func(x ast.Node) bool {
		if c, ok := x.(*ast.CallExpr); ok && identName(c.Fun) == "len" && len(c.Args) == 1 && byteParams[identName(c.Args[0])] {
			v = identName(c.Args[0])
		}
		return true
	})
	if v == "" {
		return "", ""
	}
	b, ok := unparen(fs.Cond).(*ast.BinaryExpr)
	if !ok {
		return v, src(fs.Cond)
	}
	isLen := func(e ast.Expr) bool {
		c, ok := unparen(e).(*ast.CallExpr)
		return ok && identName(c.Fun) == "len" && len(c.Args) == 1 && identName(c.Args[0]) == v
	}
	lit := func(e ast.Expr, want int) bool { k, ok := intLit(e); return ok && k == want }
	switch {
	case isLen(b.X) && b.Op == token.GTR && lit(b.Y, 0),
		isLen(b.X) && b.Op == token.NEQ && lit(b.Y, 0),
		isLen(b.X) && b.Op == token.GEQ && lit(b.Y, 1),
		isLen(b.Y) && b.Op == token.LSS && lit(b.X, 0),
		isLen(b.Y) && b.Op == token.NEQ && lit(b.X, 0),
		isLen(b.Y) && b.Op == token.LEQ && lit(b.X, 1):
		return v, "nonempty"
	}
	return v, src(fs.Cond)
}

func endGroupAction(is *ast.IfStmt) string {
	hasBreak := false
	var rets []*ast.ReturnStmt
	mismatch := false
	ast.Inspect(is.Body, func(x ast.Node) bool {
		switch t := x.(type) {
		case *ast.BranchStmt:
			if t.Tok == token.BREAK || t.Tok == token.CONTINUE || t.Tok == token.GOTO {
				hasBreak = true
			}
		case *ast.ReturnStmt:
			rets = append(rets, t)
		case *ast.IfStmt:
			if t != is {
				if b, ok := unparen(t.Cond).(*ast.BinaryExpr); ok && b.Op == token.NEQ && terminates(t.Body.List) {
					if r := endsInReturn(t.Body.List); r != nil && lastResult(r) != "nil" {
						mismatch = true
					}
				}
			}
		case *ast.FuncLit:
			return false
		}
		return true
	})
	if hasBreak {
		return "break"
	}
	if !terminates(is.Body.List) {
		return "other"
	}
	okRets, errRets := 0, 0
	for _, r := range rets {
		if lastResult(r) == "nil" {
			okRets++
		} else {
			errRets++
		}
	}
	switch {
	case okRets == 0 && errRets > 0:
		return "error"
	case okRets == 1 && mismatch && errRets == 1:
		if r := endsInReturn(is.Body.List); r != nil && lastResult(r) == "nil" {
			return "closeIfMatch"
		}
	case okRets >= 1 && !mismatch:
		return "close"
	}
	return "other"
}

func caseAction(p *pkgInfo, f *fnInfo, body []ast.Stmt, primOf func(*fnInfo, *ast.CallExpr) string, graphFns map[string]bool) string {
	act := ""
	for _, s := range body {
		ast.Inspect(s, func(x ast.Node) bool {
			if act != "" {
				return false
			}
			if c, ok := x.(*ast.CallExpr); ok {
				if pr := primOf(f, c); strings.HasPrefix(pr, "Consume") {
					act = pr
				} else if g := p.resolve(f, c); g != "" && graphFns[g] {
					act = "recurse"
				}
			}
			return true
		})
		if act != "" {
			return act
		}
	}
	// no primitive: an arm that only returns an error
	okRets, errRets := 0, 0
	for _, s := range body {
		ast.Inspect(s, func(x ast.Node) bool {
			if r, ok := x.(*ast.ReturnStmt); ok {
				if lastResult(r) == "nil" {
					okRets++
				} else {
					errRets++
				}
			}
			return true
		})
	}
	if errRets > 0 && okRets == 0 && terminates(body) {
		return "error"
	}
	return "other"
}

func (w *wireFacts) lean() string {
	// order of the functions in the file is not a fact
	sort.SliceStable(w.loops, func(i, j int) bool { return w.loops[i].idx < w.loops[j].idx })
	sort.SliceStable(w.endGroups, func(i, j int) bool { return w.endGroups[i].idx < w.endGroups[j].idx })
	sort.SliceStable(w.dispatch, func(i, j int) bool { return w.dispatch[i].role < w.dispatch[j].role })
	var sb strings.Builder
	var cs, ls, es, ds, ks []string
	for _, c := range w.consume {
		cs = append(cs, fmt.Sprintf("⟨%s, %s, %s⟩", leanStr(c.fn), leanStr(c.prim), leanStr(c.guard)))
	}
	for _, l := range w.loops {
		ls = append(ls, fmt.Sprintf("⟨%s, %d, %s, %s⟩", leanStr(l.fn), l.idx, leanStr(l.cond), leanStr(l.after)))
	}
	for _, e := range w.endGroups {
		es = append(es, fmt.Sprintf("⟨%s, %d, %s⟩", leanStr(e.fn), e.idx, leanStr(e.action)))
	}
	for _, d := range w.dispatch {
		var cc []string
		for _, c := range d.cases {
			cc = append(cc, fmt.Sprintf("(%d, %s)", c.val, leanStr(c.action)))
		}
		ds = append(ds, fmt.Sprintf("⟨%s, %s, [%s], %s⟩", leanStr(d.fn), leanStr(d.role), strings.Join(cc, ", "), leanStr(d.dflt)))
	}
	for _, c := range w.consts {
		ks = append(ks, fmt.Sprintf("(%s, %d)", leanStr(c.action), c.val))
	}
	sb.WriteString("def consumeSites : List ConsumeSite := " + leanList(cs, "  ") + "\n\n")
	sb.WriteString("def loops : List InputLoop := " + leanList(ls, "  ") + "\n\n")
	sb.WriteString("def endGroups : List EndGroup := " + leanList(es, "  ") + "\n\n")
	sb.WriteString("def dispatch : List Dispatch := " + leanList(ds, "  ") + "\n\n")
	sb.WriteString("def lenOrder : List String := " + leanStrs(w.lenOrder) + "\n\n")
	sb.WriteString("def wireConsts : List (String × Nat) := [" + strings.Join(ks, ", ") + "]\n\n")
	return sb.String()
}
