package main

// Facts of the thin wrappers and of the JSON text producers:
//
//   wrappers       per byte codec (std/php/base64_*.go, url*.go, rawurl*.go, bin2hex.go, md5.go): the name the function is
//                  registered under (`GetName`), the library calls of `Call` in evaluation order with their literal arguments
//                  (`url.QueryEscape(_)`, `strings.ReplaceAll(_,"+","%20")`), and what `Call` returns when the library call
//                  fails (false / input / empty / none)
//   hashAlgos      the `switch algo` of hash(): algorithm name → constructor, the default, the output call
//   jsonProducers  per `Marshal*` method of the JSON serializer (and json_encode's own fallback): the functions of imported
//                  packages that produce output text, reached directly or through helpers of the same package
//   escapeHTML     the literal arguments of every `SetEscapeHTML` call
//   validGates     per decode entry point that json_decode hands the text to: does it reject what `json.Valid` rejects
//                  before anything else

import (
	"fmt"
	"go/ast"
	"go/token"
	"sort"
	"strings"
)

type wrapperFact struct {
	name    string
	libs    []string
	onError string
}

type producerFact struct {
	method string
	libs   []string
}

type gateFact struct {
	fn    string
	gated bool
}

type wrapFacts struct {
	wrappers   []wrapperFact
	hashAlgos  [][2]string
	hashDflt   string
	hashOut    []string
	producers  []producerFact
	escapeHTML []string
	validGates []gateFact
	notes      notes
}

var wrapperFiles = []string{"base64_encode.go", "base64_decode.go", "urlencode.go", "urldecode.go", "rawurlencode.go",
	"rawurldecode.go", "bin2hex.go", "md5.go", "hash.go"}

const origamiPath = "github.com/php-any/origami"

func analyseWrappers(p *pkgInfo, wf *wrapFacts) {
	for _, fnm := range wrapperFiles {
		if _, ok := p.files[fnm]; !ok {
			wf.notes.add("std/php/%s not found", fnm)
			continue
		}
		var call, getName *fnInfo
		for _, n := range p.names {
			f := p.fns[n]
			if f.file != fnm {
				continue
			}
			switch f.decl.Name.Name {
			case "Call":
				call = f
			case "GetName":
				getName = f
			}
		}
		if call == nil || getName == nil {
			wf.notes.add("std/php/%s: no Call / GetName method", fnm)
			continue
		}
		name := ""
		if r := endsInReturn(getName.decl.Body.List); r != nil && len(r.Results) == 1 {
			name, _ = strLit(r.Results[0])
		}
		if name == "" {
			wf.notes.add("std/php/%s: GetName does not return a literal", fnm)
		}
		w := wrapperFact{name: name, onError: "none"}
		// the variable that holds the input text: `x := <param>.AsString()`
		inputVars := map[string]bool{}
		ast.Inspect(call.decl.Body, func(x ast.Node) bool {
			if as, ok := x.(*ast.AssignStmt); ok && len(as.Lhs) >= 1 && len(as.Rhs) == 1 {
				if c, ok := as.Rhs[0].(*ast.CallExpr); ok {
					if se, ok := c.Fun.(*ast.SelectorExpr); ok && se.Sel.Name == "AsString" {
						inputVars[identName(as.Lhs[0])] = true
					}
					if strings.Contains(src(c.Fun), "ConvertFromIndex") {
						inputVars[identName(as.Lhs[0])] = true
					}
				}
			}
			return true
		})
		libErr := map[string]bool{} // error variables assigned by a library call
		callsPost(call.decl.Body, func(c *ast.CallExpr) {
			path, nm, ok := p.pkgCall(call.file, c)
			if !ok || strings.HasPrefix(path, origamiPath) {
				return
			}
			w.libs = append(w.libs, callSig(nm, c))
		})
		forEachStmtList(call.decl.Body, func(list []ast.Stmt) {
			for i, s := range list {
				as, ok := s.(*ast.AssignStmt)
				if !ok || len(as.Rhs) != 1 || len(as.Lhs) != 2 {
					continue
				}
				c, ok := as.Rhs[0].(*ast.CallExpr)
				if !ok {
					continue
				}
				if path, _, ok := p.pkgCall(call.file, c); !ok || strings.HasPrefix(path, origamiPath) {
					continue
				}
				ev := identName(as.Lhs[1])
				libErr[ev] = true
				for _, t := range list[i+1:] {
					is, ok := t.(*ast.IfStmt)
					if !ok || !mentions(is.Cond, ev) {
						continue
					}
					b, ok := unparen(is.Cond).(*ast.BinaryExpr)
					if !ok || b.Op != token.NEQ || identName(b.X) != ev || identName(b.Y) != "nil" {
						w.onError = "other: " + src(is.Cond)
						break
					}
					r := endsInReturn(is.Body.List)
					if r == nil || len(r.Results) == 0 {
						w.onError = "other"
						break
					}
					w.onError = "other: " + src(r.Results[0])
					if rc, ok := r.Results[0].(*ast.CallExpr); ok && len(rc.Args) == 1 {
						fn := src(rc.Fun)
						arg := unparen(rc.Args[0])
						switch {
						case strings.HasSuffix(fn, "NewBoolValue") && identName(arg) == "false":
							w.onError = "false"
						case strings.HasSuffix(fn, "NewStringValue") && inputVars[identName(arg)]:
							w.onError = "input"
						case strings.HasSuffix(fn, "NewStringValue"):
							if s, ok := strLit(arg); ok && s == "" {
								w.onError = "empty"
							}
						}
					}
					break
				}
			}
		})
		if fnm == "hash.go" {
			ast.Inspect(call.decl.Body, func(x ast.Node) bool {
				sw, ok := x.(*ast.SwitchStmt)
				if !ok || sw.Tag == nil {
					return true
				}
				for _, c := range sw.Body.List {
					cc := c.(*ast.CaseClause)
					ctor := ""
					ast.Inspect(&ast.BlockStmt{List: cc.Body}, func(y ast.Node) bool {
						if cl, ok := y.(*ast.CallExpr); ok && ctor == "" {
							if _, nm, ok := p.pkgCall(call.file, cl); ok {
								ctor = nm
							}
						}
						return true
					})
					if cc.List == nil {
						wf.hashDflt = ctor
					}
					for _, e := range cc.List {
						if s, ok := strLit(e); ok {
							wf.hashAlgos = append(wf.hashAlgos, [2]string{s, ctor})
						}
					}
				}
				return false
			})
			for _, l := range w.libs {
				if !strings.HasSuffix(l, ".New()") && !strings.Contains(l, "ConvertFromIndex") {
					wf.hashOut = append(wf.hashOut, l)
				}
			}
			continue
		}
		wf.wrappers = append(wf.wrappers, w)
	}
}

// libsReached: output-producing functions of imported packages reached from a function, through same-package helpers
func libsReached(p *pkgInfo, f *fnInfo, seen map[string]bool, out map[string]bool) {
	if seen[f.name] {
		return
	}
	seen[f.name] = true
	quiet := map[string]bool{"bytes": true, "errors": true, "fmt": true, "maps": true, "slices": true, "sort": true, "strings": false}
	ast.Inspect(f.decl.Body, func(x ast.Node) bool {
		c, ok := x.(*ast.CallExpr)
		if !ok {
			return true
		}
		if path, nm, ok := p.pkgCall(f.file, c); ok {
			if strings.HasPrefix(path, origamiPath) || quiet[path] {
				return true
			}
			out[path+":"+nm[strings.Index(nm, ".")+1:]] = true
			return true
		}
		if g := p.resolve(f, c); g != "" && !strings.Contains(g, ".Marshal") && !strings.Contains(g, ".Unmarshal") {
			libsReached(p, p.fns[g], seen, out)
		}
		return true
	})
}

func analyseJSON(jp, php *pkgInfo, wf *wrapFacts) {
	for _, n := range jp.names {
		f := jp.fns[n]
		if f.recvT == "" || !strings.HasPrefix(f.decl.Name.Name, "Marshal") {
			continue
		}
		out := map[string]bool{}
		libsReached(jp, f, map[string]bool{}, out)
		pf := producerFact{method: f.decl.Name.Name}
		for l := range out {
			pf.libs = append(pf.libs, l)
		}
		sort.Strings(pf.libs)
		wf.producers = append(wf.producers, pf)
	}
	if f, ok := php.fns["JsonEncodeFunction.Call"]; ok {
		out := map[string]bool{}
		libsReached(php, f, map[string]bool{}, out)
		pf := producerFact{method: "json_encode"}
		for l := range out {
			pf.libs = append(pf.libs, l)
		}
		sort.Strings(pf.libs)
		wf.producers = append(wf.producers, pf)
	} else {
		wf.notes.add("std/php/json_encode.go: JsonEncodeFunction.Call not found")
	}
	for _, pk := range []*pkgInfo{jp, php} {
		for _, n := range pk.names {
			ast.Inspect(pk.fns[n].decl.Body, func(x ast.Node) bool {
				if c, ok := x.(*ast.CallExpr); ok {
					if se, ok := c.Fun.(*ast.SelectorExpr); ok && se.Sel.Name == "SetEscapeHTML" && len(c.Args) == 1 {
						wf.escapeHTML = append(wf.escapeHTML, src(c.Args[0]))
					}
				}
				return true
			})
		}
	}
	// decode entry points: what json_decode's Call hands the text to
	dec, ok := php.fns["JsonDecodeFunction.Call"]
	if !ok {
		wf.notes.add("std/php/json_decode.go: JsonDecodeFunction.Call not found")
		return
	}
	seen := map[string]bool{}
	ast.Inspect(dec.decl.Body, func(x ast.Node) bool {
		c, ok := x.(*ast.CallExpr)
		if !ok {
			return true
		}
		var target *fnInfo
		var tp *pkgInfo
		if g := php.resolve(dec, c); g != "" {
			target, tp = php.fns[g], php
		} else if se, ok := c.Fun.(*ast.SelectorExpr); ok && strings.HasPrefix(se.Sel.Name, "Unmarshal") {
			for _, n := range jp.names {
				if jp.fns[n].recvT != "" && jp.fns[n].decl.Name.Name == se.Sel.Name {
					target, tp = jp.fns[n], jp
				}
			}
		}
		if target == nil || seen[target.name] {
			return true
		}
		seen[target.name] = true
		wf.validGates = append(wf.validGates, gateFact{target.decl.Name.Name, validGate(tp, target)})
		return true
	})
}

// validGate: the first statement that does anything is `if !json.Valid(x) { return …, err }`
func validGate(p *pkgInfo, f *fnInfo) bool {
	for _, s := range f.decl.Body.List {
		is, ok := s.(*ast.IfStmt)
		if !ok {
			if _, isDecl := s.(*ast.DeclStmt); isDecl {
				continue
			}
			return false
		}
		if !terminates(is.Body.List) {
			return false
		}
		for _, d := range splitOp(is.Cond, token.LOR) {
			u, ok := unparen(d).(*ast.UnaryExpr)
			if !ok || u.Op != token.NOT {
				continue
			}
			if c, ok := unparen(u.X).(*ast.CallExpr); ok {
				if path, nm, ok := p.pkgCall(f.file, c); ok && path == "encoding/json" && strings.HasSuffix(nm, ".Valid") {
					r := endsInReturn(is.Body.List)
					return r != nil && lastResult(r) != "nil"
				}
			}
		}
		return false
	}
	return false
}

func (w *wrapFacts) lean() string {
	var sb strings.Builder
	var ws, hs, ps, gs []string
	for _, x := range w.wrappers {
		ws = append(ws, fmt.Sprintf("⟨%s, %s, %s⟩", leanStr(x.name), leanStrs(x.libs), leanStr(x.onError)))
	}
	for _, h := range w.hashAlgos {
		hs = append(hs, fmt.Sprintf("(%s, %s)", leanStr(h[0]), leanStr(h[1])))
	}
	for _, x := range w.producers {
		ps = append(ps, fmt.Sprintf("(%s, %s)", leanStr(x.method), leanStrs(x.libs)))
	}
	for _, g := range w.validGates {
		gs = append(gs, fmt.Sprintf("(%s, %s)", leanStr(g.fn), leanBool(g.gated)))
	}
	sb.WriteString("def wrappers : List Wrapper := " + leanList(ws, "  ") + "\n\n")
	sb.WriteString("def hashAlgos : List (String × String) := " + leanList(hs, "  ") + "\n\n")
	sb.WriteString("def hashDefault : String := " + leanStr(w.hashDflt) + "\n\n")
	sb.WriteString("def hashOut : List String := " + leanStrs(w.hashOut) + "\n\n")
	sb.WriteString("def jsonProducers : List (String × List String) := " + leanList(ps, "  ") + "\n\n")
	sb.WriteString("def escapeHTML : List String := " + leanStrs(w.escapeHTML) + "\n\n")
	sb.WriteString("def validGates : List (String × Bool) := " + leanList(gs, "  ") + "\n\n")
	return sb.String()
}
