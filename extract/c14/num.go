package main

// Facts of the float → int conversions of the decoders (std/php/{json_decode,json_encode,unserialize,serialize}.go,
// std/serializer/json/*.go):
//
//   floatToInt   every conversion `int(f)` / `int64(f)` / … of a float64 variable (a float64 parameter, `var f float64`,
//                the result of strconv.ParseFloat, the binding of a `case float64:` arm) whose result is *used as a value*
//                (the cast inside the round-trip test `f == float64(int64(f))` is the test, not a site), with the guard
//                of the enclosing `if`s: the comparison of f with a constant from below (`f >= C`, `f > C`, `C <= f`, …)
//                and from above, operator and constant — the constant as the float64 it is converted to (so
//                `math.MaxInt64` is 9223372036854775808, as in the compiled code) — and the test that f is integral
//                (`cast`: f == float64(int64(f));  `trunc`: f == math.Trunc/Floor/Ceil/Round(f);  none)
//
// A constant that cannot be evaluated or is not an integer becomes a shape note.

import (
	"go/ast"
	"go/constant"
	"go/token"
	"math/big"
	"sort"
	"strings"
)

type numSite struct {
	file, fn string
	lo, hi   string // Lean terms
	integral string
}

type numFacts struct {
	sites []numSite
	notes notes
}

var intTypes = map[string]bool{"int": true, "int64": true, "int32": true, "int16": true, "int8": true, "uint": true, "uint64": true, "uint32": true, "uint16": true, "uint8": true}

var mathConsts = map[string]string{"MaxInt64": "9223372036854775807", "MinInt64": "-9223372036854775808", "MaxInt": "9223372036854775807", "MinInt": "-9223372036854775808",
	"MaxInt32": "2147483647", "MinInt32": "-2147483648", "MaxUint32": "4294967295", "MaxUint64": "18446744073709551615", "MaxInt16": "32767", "MinInt16": "-32768"}

// constVal: the value of a constant expression (nil when it is not one the translator can evaluate)
func constVal(e ast.Expr) constant.Value {
	switch t := unparen(e).(type) {
	case *ast.BasicLit:
		if t.Kind == token.INT || t.Kind == token.FLOAT {
			return constant.MakeFromLiteral(t.Value, t.Kind, 0)
		}
	case *ast.UnaryExpr:
		if v := constVal(t.X); v != nil && (t.Op == token.SUB || t.Op == token.ADD) {
			return constant.UnaryOp(t.Op, v, 0)
		}
	case *ast.BinaryExpr:
		a, b := constVal(t.X), constVal(t.Y)
		if a == nil || b == nil {
			return nil
		}
		switch t.Op {
		case token.ADD, token.SUB, token.MUL:
			return constant.BinaryOp(a, t.Op, b)
		case token.SHL:
			if s, ok := constant.Uint64Val(b); ok && s < 1024 && a.Kind() == constant.Int {
				return constant.Shift(a, token.SHL, uint(s))
			}
		}
	case *ast.SelectorExpr:
		if id, ok := t.X.(*ast.Ident); ok && id.Name == "math" {
			if s, ok := mathConsts[t.Sel.Name]; ok {
				return constant.MakeFromLiteral(s, token.INT, 0)
			}
		}
	case *ast.CallExpr:
		if id, ok := t.Fun.(*ast.Ident); ok && id.Name == "float64" && len(t.Args) == 1 {
			return constVal(t.Args[0])
		}
	}
	return nil
}

// asFloat64Int: the constant converted to float64 (what a comparison with a float64 variable uses), as an integer
func asFloat64Int(v constant.Value) (string, bool) {
	f, _ := constant.Float64Val(constant.ToFloat(v))
	bf := new(big.Float).SetFloat64(f)
	if !bf.IsInt() {
		return "", false
	}
	n, _ := bf.Int(nil)
	return n.String(), true
}

func leanInt(s string) string {
	if strings.HasPrefix(s, "-") {
		return "(" + s + ")"
	}
	return s
}

func analyseNumbers(p *pkgInfo, nf *numFacts) {
	for _, name := range p.names {
		f := p.fns[name]
		floats := map[string]bool{}
		for _, q := range f.params {
			if q.typ == "float64" {
				floats[q.name] = true
			}
		}
		ast.Inspect(f.decl.Body, func(n ast.Node) bool {
			switch t := n.(type) {
			case *ast.ValueSpec:
				if t.Type != nil && src(t.Type) == "float64" {
					for _, id := range t.Names {
						floats[id.Name] = true
					}
				}
			case *ast.AssignStmt:
				if len(t.Rhs) == 1 && len(t.Lhs) >= 1 {
					if c, ok := unparen(t.Rhs[0]).(*ast.CallExpr); ok {
						if path, nm, ok := p.pkgCall(f.file, c); ok && (path == "strconv" && strings.HasSuffix(nm, ".ParseFloat") || path == "math") {
							if id, ok := t.Lhs[0].(*ast.Ident); ok {
								floats[id.Name] = true
							}
						}
					}
				}
			}
			return true
		})
		var walk func(n ast.Node, conds []ast.Expr, fl map[string]bool, inCast bool)
		walkList := func(l []ast.Stmt, conds []ast.Expr, fl map[string]bool) {
			for _, s := range l {
				walk(s, conds, fl, false)
			}
		}
		walk = func(n ast.Node, conds []ast.Expr, fl map[string]bool, inCast bool) {
			if n == nil {
				return
			}
			switch t := n.(type) {
			case *ast.IfStmt:
				if t.Init != nil {
					walk(t.Init, conds, fl, false)
				}
				walk(t.Cond, conds, fl, false)
				walkList(t.Body.List, append(append([]ast.Expr{}, conds...), t.Cond), fl)
				if t.Else != nil {
					walk(t.Else, conds, fl, false)
				}
				return
			case *ast.TypeSwitchStmt:
				bind := ""
				if a, ok := t.Assign.(*ast.AssignStmt); ok && len(a.Lhs) == 1 {
					bind = identName(a.Lhs[0])
				}
				for _, cc := range t.Body.List {
					cl := cc.(*ast.CaseClause)
					fl2 := fl
					if bind != "" {
						fl2 = map[string]bool{}
						for k, v := range fl {
							fl2[k] = v
						}
						delete(fl2, bind)
						if len(cl.List) == 1 && src(cl.List[0]) == "float64" {
							fl2[bind] = true
						}
					}
					walkList(cl.Body, conds, fl2)
				}
				return
			case *ast.CallExpr:
				if id, ok := t.Fun.(*ast.Ident); ok && len(t.Args) == 1 {
					if id.Name == "float64" {
						walk(t.Args[0], conds, fl, true)
						return
					}
					if intTypes[id.Name] && id.Obj == nil {
						v := identName(unparen(t.Args[0]))
						if c, ok := unparen(t.Args[0]).(*ast.CallExpr); ok && v == "" { // int(math.Trunc(f))
							if path, _, ok := p.pkgCall(f.file, c); ok && path == "math" && len(c.Args) == 1 {
								v = identName(unparen(c.Args[0]))
							}
						}
						if v != "" && fl[v] && !inCast {
							nf.sites = append(nf.sites, guardOf(p, f, v, conds, &nf.notes))
						}
					}
				}
			}
			// generic descent
			first := true
			ast.Inspect(n, func(m ast.Node) bool {
				if first {
					first = false
					return true
				}
				if m != nil {
					walk(m, conds, fl, inCast)
				}
				return false
			})
		}
		walkList(f.decl.Body.List, nil, floats)
	}
	sort.SliceStable(nf.sites, func(i, j int) bool { return nf.sites[i].file < nf.sites[j].file })
}

func guardOf(p *pkgInfo, f *fnInfo, v string, conds []ast.Expr, ns *notes) numSite {
	s := numSite{file: p.rel + "/" + f.file, fn: f.name, lo: ".none", hi: ".none", integral: ".none"}
	isV := func(e ast.Expr) bool { return identName(unparen(e)) == v }
	for _, c := range conds {
		for _, cj := range splitOp(c, token.LAND) {
			b, ok := unparen(cj).(*ast.BinaryExpr)
			if !ok {
				continue
			}
			x, y, op := b.X, b.Y, b.Op
			if isV(y) && !isV(x) { // C op f  →  f op' C
				x, y = y, x
				op = map[token.Token]token.Token{token.LSS: token.GTR, token.LEQ: token.GEQ, token.GTR: token.LSS, token.GEQ: token.LEQ, token.EQL: token.EQL, token.NEQ: token.NEQ}[op]
			}
			if !isV(x) {
				continue
			}
			switch op {
			case token.GEQ, token.GTR, token.LSS, token.LEQ:
				cv := constVal(y)
				if cv == nil {
					ns.add("%s %s: bound of %s not a constant: %s", s.file, f.name, v, src(cj))
					continue
				}
				n, ok := asFloat64Int(cv)
				if !ok {
					ns.add("%s %s: bound of %s not an integer: %s", s.file, f.name, v, src(cj))
					continue
				}
				switch op {
				case token.GEQ:
					s.lo = "(.ge " + leanInt(n) + ")"
				case token.GTR:
					s.lo = "(.gt " + leanInt(n) + ")"
				case token.LSS:
					s.hi = "(.lt " + leanInt(n) + ")"
				case token.LEQ:
					s.hi = "(.le " + leanInt(n) + ")"
				}
			case token.EQL:
				if c, ok := unparen(y).(*ast.CallExpr); ok && len(c.Args) == 1 {
					if id, ok := c.Fun.(*ast.Ident); ok && id.Name == "float64" {
						if in, ok := unparen(c.Args[0]).(*ast.CallExpr); ok && len(in.Args) == 1 && isV(in.Args[0]) && intTypes[identName(in.Fun)] {
							s.integral = ".cast"
						}
					} else if path, nm, ok := p.pkgCall(f.file, c); ok && path == "math" && isV(c.Args[0]) {
						switch nm {
						case "math.Trunc", "math.Floor", "math.Ceil", "math.Round", "math.RoundToEven":
							s.integral = ".trunc"
						}
					}
				}
			}
		}
	}
	return s
}

func (nf *numFacts) lean() string {
	var rows []string
	for _, s := range nf.sites {
		rows = append(rows, "{ file := "+leanStr(s.file)+", fn := "+leanStr(s.fn)+", lo := "+s.lo+", hi := "+s.hi+", integral := "+s.integral+" }")
	}
	return "def floatToInt : List Site := " + leanList(rows, "  ") + "\n\n"
}
