package main

// Recursion facts: for every group of mutually recursive functions in the anchored codec sources, whether the group
// carries a depth counter, and if it does the call graph of the group: every recursive call site with the value handed to
// the callee's depth parameter (`depth` → plus 0, `depth+1` → plus 1, a literal → const, anything else → unknown), the
// entry test of each function (`if depth >= opts.MaxDepth { return …, Err }` → ge), a test of the argument in the caller
// just before the call, the calls that enter the group from outside (with their literal start depth) and the default the
// entry function gives to the limit (`if opts.MaxDepth <= 0 { opts.MaxDepth = 64 }`).
// Functions are numbered in the order they are reached from the entry calls (names are kept for the reader only), so a
// renaming changes nothing.

import (
	"fmt"
	"go/ast"
	"go/token"
	"sort"
	"strings"
)

type argFact struct {
	kind string // plus const unknown
	k    int
	text string
}

func (a argFact) lean() string {
	switch a.kind {
	case "plus":
		return fmt.Sprintf(".plus %d", a.k)
	case "const":
		return fmt.Sprintf(".const %d", a.k)
	}
	return ".unknown"
}

type guardFact struct {
	cmp     string // ge gt other ""
	limit   string
	returns string
}

type edgeFact struct {
	src, dst string
	arg      argFact
	site     string // "", ge, gt
}

type entryFact struct {
	caller string
	dst    string
	arg    argFact
}

type defaultFact struct {
	fn    string
	cmp   string
	bound int
	value int
}

type graphFact struct {
	file     string
	fns      []string // numbered
	guards   map[string]guardFact
	edges    []edgeFact
	entries  []entryFact
	defaults []defaultFact
}

type recurFacts struct {
	graphs         []graphFact
	unlimitedFiles []string
	unlimitedFns   []string
	notes          notes
}

func isIntType(t string) bool {
	switch t {
	case "int", "int8", "int16", "int32", "int64", "uint", "uint8", "uint16", "uint32", "uint64":
		return true
	}
	return false
}

// ---- strongly connected components (Tarjan)

func sccs(p *pkgInfo) [][]string {
	index := map[string]int{}
	low := map[string]int{}
	on := map[string]bool{}
	var stack []string
	var out [][]string
	n := 0
	var visit func(v string)
	visit = func(v string) {
		index[v], low[v] = n, n
		n++
		stack = append(stack, v)
		on[v] = true
		var cs []string
		for c := range p.fns[v].callees {
			cs = append(cs, c)
		}
		sort.Strings(cs)
		for _, w := range cs {
			if _, ok := index[w]; !ok {
				visit(w)
				if low[w] < low[v] {
					low[v] = low[w]
				}
			} else if on[w] && index[w] < low[v] {
				low[v] = index[w]
			}
		}
		if low[v] == index[v] {
			var comp []string
			for {
				w := stack[len(stack)-1]
				stack = stack[:len(stack)-1]
				on[w] = false
				comp = append(comp, w)
				if w == v {
					break
				}
			}
			if len(comp) > 1 || len(p.fns[v].callees[v]) > 0 {
				sort.Slice(comp, func(i, j int) bool { return p.fns[comp[i]].order < p.fns[comp[j]].order })
				out = append(out, comp)
			}
		}
	}
	for _, v := range p.names {
		if _, ok := index[v]; !ok {
			visit(v)
		}
	}
	sort.Slice(out, func(i, j int) bool { return p.fns[out[i][0]].order < p.fns[out[j][0]].order })
	return out
}

// ---- linear forms over one integer parameter

// singleDefs: locals defined exactly once (`x := e`) and never assigned again
func singleDefs(f *fnInfo) map[string]ast.Expr {
	defs := map[string]ast.Expr{}
	count := map[string]int{}
	ast.Inspect(f.decl.Body, func(n ast.Node) bool {
		switch t := n.(type) {
		case *ast.AssignStmt:
			for i, l := range t.Lhs {
				if id := identName(l); id != "" {
					count[id]++
					if t.Tok == token.DEFINE && len(t.Lhs) == len(t.Rhs) {
						defs[id] = t.Rhs[i]
					}
				}
			}
		case *ast.IncDecStmt:
			if id := identName(t.X); id != "" {
				count[id]++
			}
		case *ast.RangeStmt:
			for _, e := range []ast.Expr{t.Key, t.Value} {
				if e != nil {
					if id := identName(e); id != "" {
						count[id] += 2
					}
				}
			}
		}
		return true
	})
	for id := range defs {
		if count[id] != 1 {
			delete(defs, id)
		}
	}
	return defs
}

// assigned: is the identifier (a parameter) assigned anywhere in the body
func assigned(f *fnInfo, name string) bool {
	hit := false
	ast.Inspect(f.decl.Body, func(n ast.Node) bool {
		switch t := n.(type) {
		case *ast.AssignStmt:
			for _, l := range t.Lhs {
				if identName(l) == name && t.Tok != token.DEFINE {
					hit = true
				}
			}
		case *ast.IncDecStmt:
			if identName(t.X) == name {
				hit = true
			}
		case *ast.UnaryExpr:
			if t.Op == token.AND && identName(t.X) == name {
				hit = true
			}
		}
		return true
	})
	return hit
}

// linear: e = <int parameter p of f> + k, or a literal
func linear(f *fnInfo, defs map[string]ast.Expr, e ast.Expr, fuel int) (string, argFact) {
	e = unparen(e)
	if fuel == 0 {
		return "", argFact{kind: "unknown", text: src(e)}
	}
	if v, ok := intLit(e); ok {
		return "", argFact{kind: "const", k: v}
	}
	switch t := e.(type) {
	case *ast.Ident:
		for _, q := range f.params {
			if q.name == t.Name && isIntType(q.typ) {
				return t.Name, argFact{kind: "plus", k: 0}
			}
		}
		if d, ok := defs[t.Name]; ok {
			return linear(f, defs, d, fuel-1)
		}
	case *ast.CallExpr: // int(depth) style conversions
		if len(t.Args) == 1 && isIntType(identName(t.Fun)) {
			return linear(f, defs, t.Args[0], fuel-1)
		}
	case *ast.BinaryExpr:
		if t.Op == token.ADD || t.Op == token.SUB {
			px, ax := linear(f, defs, t.X, fuel-1)
			py, ay := linear(f, defs, t.Y, fuel-1)
			if ax.kind == "plus" && ay.kind == "const" {
				k := ax.k + ay.k
				if t.Op == token.SUB {
					k = ax.k - ay.k
				}
				if k >= 0 {
					return px, argFact{kind: "plus", k: k}
				}
			}
			if t.Op == token.ADD && ax.kind == "const" && ay.kind == "plus" {
				return py, argFact{kind: "plus", k: ax.k + ay.k}
			}
			if ax.kind == "const" && ay.kind == "const" {
				k := ax.k + ay.k
				if t.Op == token.SUB {
					k = ax.k - ay.k
				}
				return "", argFact{kind: "const", k: k}
			}
		}
	}
	return "", argFact{kind: "unknown", text: src(e)}
}

// depthTest: is the condition (one disjunct) a comparison of `p + 0` with something that does not mention p?
// Returns the comparison with p on the left, refusing when it holds: ge (p >= L), gt (p > L), other.
func depthTest(f *fnInfo, defs map[string]ast.Expr, cond ast.Expr, p string, k int) (string, string, bool) {
	cond = unparen(cond)
	neg := false
	if u, ok := cond.(*ast.UnaryExpr); ok && u.Op == token.NOT {
		neg = true
		cond = unparen(u.X)
	}
	b, ok := cond.(*ast.BinaryExpr)
	if !ok {
		return "", "", false
	}
	op := b.Op
	var lim ast.Expr
	px, ax := linear(f, defs, b.X, 4)
	py, ay := linear(f, defs, b.Y, 4)
	switch {
	case ax.kind == "plus" && px == p && ax.k == k && !mentions(b.Y, p):
		lim = b.Y
	case ay.kind == "plus" && py == p && ay.k == k && !mentions(b.X, p):
		lim = b.X
		switch op { // mirror
		case token.LSS:
			op = token.GTR
		case token.LEQ:
			op = token.GEQ
		case token.GTR:
			op = token.LSS
		case token.GEQ:
			op = token.LEQ
		}
	default:
		return "", "", false
	}
	if neg {
		switch op {
		case token.LSS:
			op = token.GEQ
		case token.LEQ:
			op = token.GTR
		case token.GTR:
			op = token.LEQ
		case token.GEQ:
			op = token.LSS
		case token.EQL:
			op = token.NEQ
		case token.NEQ:
			op = token.EQL
		}
	}
	switch op {
	case token.GEQ:
		return "ge", src(lim), true
	case token.GTR:
		return "gt", src(lim), true
	case token.LSS, token.LEQ, token.EQL, token.NEQ:
		return "other", src(lim), true
	}
	return "", "", false
}

// errorish: the last result of a return is not `nil`
func lastResult(r *ast.ReturnStmt) string {
	if r == nil || len(r.Results) == 0 {
		return ""
	}
	return src(r.Results[len(r.Results)-1])
}

// ---- the analysis of one package

func analyseRecursion(p *pkgInfo, rf *recurFacts) {
	for _, comp := range sccs(p) {
		in := map[string]bool{}
		for _, n := range comp {
			in[n] = true
		}
		defs := map[string]map[string]ast.Expr{}
		for _, n := range comp {
			defs[n] = singleDefs(p.fns[n])
		}
		// --- candidate depth positions: union-find over (function, int parameter)
		type node struct{ fn, par string }
		parent := map[node]node{}
		var find func(x node) node
		find = func(x node) node {
			if q, ok := parent[x]; ok && q != x {
				r := find(q)
				parent[x] = r
				return r
			}
			parent[x] = x
			return x
		}
		incs := map[node]bool{}  // class has a non-zero increment or a literal handed in
		tests := map[node]bool{} // class has a limit test
		var members []node
		for _, n := range comp {
			for _, q := range p.fns[n].params {
				if isIntType(q.typ) {
					members = append(members, node{n, q.name})
					find(node{n, q.name})
				}
			}
		}
		type link struct {
			a, b node
			k    int
		}
		var links []link
		for _, n := range comp {
			f := p.fns[n]
			for g, calls := range f.callees {
				if !in[g] {
					continue
				}
				gf := p.fns[g]
				for _, c := range calls {
					for i, q := range gf.params {
						if !isIntType(q.typ) || i >= len(c.Args) {
							continue
						}
						pp, a := linear(f, defs[n], c.Args[i], 4)
						if a.kind == "plus" && pp != "" {
							links = append(links, link{node{n, pp}, node{g, q.name}, a.k})
						}
					}
				}
			}
		}
		for _, l := range links {
			ra, rb := find(l.a), find(l.b)
			if ra != rb {
				parent[ra] = rb
			}
		}
		for _, l := range links {
			if l.k != 0 {
				incs[find(l.a)] = true
			}
		}
		for _, m := range members {
			f := p.fns[m.fn]
			ast.Inspect(f.decl.Body, func(x ast.Node) bool {
				if is, ok := x.(*ast.IfStmt); ok && terminates(is.Body.List) {
					for _, d := range splitOp(is.Cond, token.LOR) {
						if cmp, _, ok := depthTest(f, defs[m.fn], d, m.par, 0); ok && cmp != "other" {
							tests[find(m)] = true
						}
					}
				}
				return true
			})
		}
		var classes []node
		seen := map[node]bool{}
		for _, m := range members {
			r := find(m)
			if !seen[r] && (tests[r] || incs[r]) {
				seen[r] = true
				classes = append(classes, r)
			}
		}
		if len(classes) > 1 { // prefer the classes that are tested against a limit
			var t []node
			for _, c := range classes {
				if tests[c] {
					t = append(t, c)
				}
			}
			if len(t) > 0 {
				classes = t
			}
		}
		file := p.rel + "/" + p.fns[comp[0]].file
		if len(classes) == 0 {
			rf.unlimitedFiles = append(rf.unlimitedFiles, file)
			rf.unlimitedFns = append(rf.unlimitedFns, p.rel+": "+strings.Join(comp, " ↔ "))
			continue
		}
		if len(classes) > 1 {
			rf.notes.add("%s: the recursive group %s has more than one counter that looks like a depth", file, strings.Join(comp, ","))
		}
		cls := classes[0]
		depthOf := map[string]string{} // function -> its depth parameter
		pos := map[string]int{}
		for _, m := range members {
			if find(m) == cls {
				if _, dup := depthOf[m.fn]; dup {
					rf.notes.add("%s: %s has two parameters in the depth class", file, m.fn)
				}
				depthOf[m.fn] = m.par
				for i, q := range p.fns[m.fn].params {
					if q.name == m.par {
						pos[m.fn] = i
					}
				}
			}
		}
		g := graphFact{file: file, guards: map[string]guardFact{}}
		// --- numbering: breadth first from the entry calls, callees in source order
		type ent struct {
			caller string
			c      *ast.CallExpr
			dst    string
		}
		var ents []ent
		for _, n := range p.names {
			if in[n] {
				continue
			}
			f := p.fns[n]
			for _, c := range orderedCalls(p, f) {
				if in[c.callee] {
					ents = append(ents, ent{n, c.call, c.callee})
				}
			}
		}
		num := map[string]int{}
		var queue []string
		push := func(n string) {
			if _, ok := num[n]; !ok {
				num[n] = len(g.fns)
				g.fns = append(g.fns, n)
				queue = append(queue, n)
			}
		}
		for _, e := range ents {
			push(e.dst)
		}
		if len(ents) == 0 {
			push(comp[0])
		}
		for len(queue) > 0 {
			n := queue[0]
			queue = queue[1:]
			for _, c := range orderedCalls(p, p.fns[n]) {
				if in[c.callee] {
					push(c.callee)
				}
			}
		}
		for _, n := range comp {
			push(n)
		}
		// --- entries and the default of the limit
		for _, e := range ents {
			f := p.fns[e.caller]
			a := argFact{kind: "unknown", text: "no depth parameter"}
			if i, ok := pos[e.dst]; ok && i < len(e.c.Args) {
				_, a = linear(f, singleDefs(f), e.c.Args[i], 4)
				if a.kind == "plus" { // the caller's own counter: not a literal start
					a = argFact{kind: "unknown", text: src(e.c.Args[i])}
				}
			}
			if a.kind == "unknown" {
				rf.notes.add("%s: %s enters %s with a depth that is not a literal: %s", file, e.caller, e.dst, a.text)
			}
			g.entries = append(g.entries, entryFact{e.caller, e.dst, a})
		}
		// --- guards
		limits := map[string]bool{}
		for _, n := range g.fns {
			f := p.fns[n]
			dp, ok := depthOf[n]
			if !ok {
				continue
			}
			if assigned(f, dp) {
				rf.notes.add("%s: %s assigns its depth parameter %s", file, n, dp)
			}
			var found []guardFact
			entry := true
			for _, s := range f.decl.Body.List {
				if is, ok := s.(*ast.IfStmt); ok && entry && is.Init == nil && is.Else == nil && terminates(is.Body.List) {
					for _, d := range splitOp(is.Cond, token.LOR) {
						if cmp, lim, ok := depthTest(f, defs[n], d, dp, 0); ok {
							r := endsInReturn(is.Body.List)
							gf := guardFact{cmp: cmp, limit: lim, returns: lastResult(r)}
							if r == nil || gf.returns == "nil" || gf.returns == "" {
								rf.notes.add("%s: the depth test of %s does not return an error: %s", file, n, src(is))
								gf.cmp = "other"
							}
							found = append(found, gf)
						}
					}
					continue
				}
				if containsLoopOrRecursion(p, f, s, in) {
					entry = false
				}
				// a depth test that is not at the entry
				late := false
				ast.Inspect(s, func(x ast.Node) bool {
					if is, ok := x.(*ast.IfStmt); ok {
						for _, d := range splitOp(is.Cond, token.LOR) {
							if _, _, ok := depthTest(f, defs[n], d, dp, 0); ok {
								late = true
							}
						}
					}
					return true
				})
				if late {
					rf.notes.add("%s: %s tests its depth somewhere else than at its entry", file, n)
				}
			}
			if len(found) > 1 {
				rf.notes.add("%s: %s has %d entry tests of its depth", file, n, len(found))
			}
			if len(found) >= 1 {
				g.guards[n] = found[0]
				limits[found[0].limit] = true
			}
		}
		// --- edges
		for _, n := range g.fns {
			f := p.fns[n]
			dp := depthOf[n]
			walkCalls(p, f, defs[n], dp, in, func(c *ast.CallExpr, callee string, active []activeGuard) {
				a := argFact{kind: "unknown", text: "no depth parameter"}
				site := ""
				if i, ok := pos[callee]; ok && i < len(c.Args) && dp != "" {
					var pp string
					pp, a = linear(f, defs[n], c.Args[i], 4)
					if a.kind == "plus" && pp != dp {
						a = argFact{kind: "unknown", text: src(c.Args[i])}
					}
					if a.kind == "plus" {
						for _, ag := range active {
							if ag.k == a.k {
								site = ag.cmp
								limits[ag.limit] = true
							}
						}
					}
				}
				if a.kind == "unknown" {
					rf.notes.add("%s: %s calls %s with a depth the translator cannot read: %s", file, n, callee, a.text)
				}
				e := edgeFact{n, callee, a, site}
				for _, o := range g.edges {
					if o == e {
						return
					}
				}
				g.edges = append(g.edges, e)
			})
		}
		sort.SliceStable(g.edges, func(i, j int) bool {
			a, b := g.edges[i], g.edges[j]
			if num[a.src] != num[b.src] {
				return num[a.src] < num[b.src]
			}
			if num[a.dst] != num[b.dst] {
				return num[a.dst] < num[b.dst]
			}
			return a.arg.lean() < b.arg.lean()
		})
		if len(limits) > 1 {
			var ls []string
			for l := range limits {
				ls = append(ls, l)
			}
			sort.Strings(ls)
			rf.notes.add("%s: the depth tests compare with different limits: %s", file, strings.Join(ls, " / "))
		}
		// --- default of the limit in the entering functions: `if L <= 0 { L = 64 }`
		for _, e := range ents {
			f := p.fns[e.caller]
			dup := false
			for _, d := range g.defaults {
				if d.fn == e.caller {
					dup = true
				}
			}
			if dup {
				continue
			}
			ast.Inspect(f.decl.Body, func(x ast.Node) bool {
				is, ok := x.(*ast.IfStmt)
				if !ok || is.Else != nil || len(is.Body.List) != 1 {
					return true
				}
				b, ok := unparen(is.Cond).(*ast.BinaryExpr)
				if !ok {
					return true
				}
				as, ok := is.Body.List[0].(*ast.AssignStmt)
				if !ok || as.Tok != token.ASSIGN || len(as.Lhs) != 1 || len(as.Rhs) != 1 {
					return true
				}
				l := src(as.Lhs[0])
				if !limits[l] || src(b.X) != l {
					return true
				}
				bound, ok1 := intLit(b.Y)
				val, ok2 := intLit(as.Rhs[0])
				if !ok1 || !ok2 {
					rf.notes.add("%s: %s gives the limit a default the translator cannot read: %s", file, e.caller, src(is))
					return true
				}
				cmp := map[token.Token]string{token.LEQ: "le", token.LSS: "lt", token.EQL: "eq"}[b.Op]
				if cmp == "" {
					cmp = b.Op.String()
				}
				g.defaults = append(g.defaults, defaultFact{e.caller, cmp, bound, val})
				return true
			})
		}
		rf.graphs = append(rf.graphs, g)
	}
}

type orderedCall struct {
	callee string
	call   *ast.CallExpr
}

func orderedCalls(p *pkgInfo, f *fnInfo) []orderedCall {
	var out []orderedCall
	ast.Inspect(f.decl.Body, func(n ast.Node) bool {
		if c, ok := n.(*ast.CallExpr); ok {
			if g := p.resolve(f, c); g != "" {
				out = append(out, orderedCall{g, c})
			}
		}
		return true
	})
	return out
}

func containsLoopOrRecursion(p *pkgInfo, f *fnInfo, s ast.Stmt, in map[string]bool) bool {
	hit := false
	ast.Inspect(s, func(n ast.Node) bool {
		switch t := n.(type) {
		case *ast.ForStmt, *ast.RangeStmt:
			hit = true
		case *ast.CallExpr:
			if g := p.resolve(f, t); g != "" && in[g] {
				hit = true
			}
		}
		return !hit
	})
	return hit
}

type activeGuard struct {
	k     int
	cmp   string
	limit string
}

// walkCalls: every call of f into the recursive group, with the tests `if <depth>+k CMP L { return … }` that precede it
// in the enclosing statement lists
func walkCalls(p *pkgInfo, f *fnInfo, defs map[string]ast.Expr, dp string, in map[string]bool,
	visit func(c *ast.CallExpr, callee string, active []activeGuard)) {
	var walkList func(list []ast.Stmt, active []activeGuard)
	var walkStmt func(s ast.Stmt, active []activeGuard) []activeGuard
	inspect := func(n ast.Node, active []activeGuard) {
		if n == nil {
			return
		}
		ast.Inspect(n, func(x ast.Node) bool {
			if c, ok := x.(*ast.CallExpr); ok {
				if g := p.resolve(f, c); g != "" && in[g] {
					visit(c, g, active)
				}
			}
			return true
		})
	}
	walkList = func(list []ast.Stmt, active []activeGuard) {
		for _, s := range list {
			active = walkStmt(s, active)
		}
	}
	walkStmt = func(s ast.Stmt, active []activeGuard) []activeGuard {
		switch t := s.(type) {
		case *ast.BlockStmt:
			walkList(t.List, active)
		case *ast.IfStmt:
			if t.Init != nil {
				active = walkStmt(t.Init, active)
			}
			inspect(t.Cond, active)
			walkList(t.Body.List, active)
			if t.Else != nil {
				walkStmt(t.Else, active)
			}
			if t.Else == nil && terminates(t.Body.List) && dp != "" {
				out := append([]activeGuard{}, active...)
				for _, d := range splitOp(t.Cond, token.LOR) {
					for k := 1; k <= 4; k++ { // tests of depth+k (depth+0 is the function's own entry test)
						if cmp, lim, ok := depthTest(f, defs, d, dp, k); ok && cmp != "other" {
							out = append(out, activeGuard{k, cmp, lim})
						}
					}
				}
				return out
			}
		case *ast.ForStmt:
			if t.Init != nil {
				walkStmt(t.Init, active)
			}
			inspect(t.Cond, active)
			if t.Post != nil {
				walkStmt(t.Post, active)
			}
			walkList(t.Body.List, active)
		case *ast.RangeStmt:
			inspect(t.X, active)
			walkList(t.Body.List, active)
		case *ast.SwitchStmt:
			if t.Init != nil {
				walkStmt(t.Init, active)
			}
			inspect(t.Tag, active)
			for _, c := range t.Body.List {
				cc := c.(*ast.CaseClause)
				for _, e := range cc.List {
					inspect(e, active)
				}
				walkList(cc.Body, active)
			}
		case *ast.TypeSwitchStmt:
			if t.Init != nil {
				walkStmt(t.Init, active)
			}
			inspect(t.Assign, active)
			for _, c := range t.Body.List {
				walkList(c.(*ast.CaseClause).Body, active)
			}
		case *ast.LabeledStmt:
			return walkStmt(t.Stmt, active)
		default:
			inspect(s, active)
		}
		return active
	}
	walkList(f.decl.Body.List, nil)
}

// ---- rendering

func (g graphFact) lean(indent string) string {
	num := map[string]int{}
	for i, n := range g.fns {
		num[n] = i
	}
	opt := func(c string) string {
		if c == "" {
			return "none"
		}
		return "some ." + c
	}
	var fns, edges, ents, defs []string
	for _, n := range g.fns {
		gd := g.guards[n]
		fns = append(fns, fmt.Sprintf("⟨%s, %s, %s⟩", leanStr(n), opt(gd.cmp), leanStr(gd.limit)))
	}
	for _, e := range g.edges {
		edges = append(edges, fmt.Sprintf("⟨%d, %d, %s, %s⟩", num[e.src], num[e.dst], e.arg.lean(), opt(e.site)))
	}
	for _, e := range g.entries {
		ents = append(ents, fmt.Sprintf("⟨%s, %d, %s⟩", leanStr(e.caller), num[e.dst], e.arg.lean()))
	}
	for _, d := range g.defaults {
		defs = append(defs, fmt.Sprintf("⟨%s, %s, %d, %d⟩", leanStr(d.fn), leanStr(d.cmp), d.bound, d.value))
	}
	in2 := indent + "    "
	return "{ file := " + leanStr(g.file) + ",\n" +
		indent + "  fns := " + leanList(fns, in2) + ",\n" +
		indent + "  edges := " + leanList(edges, in2) + ",\n" +
		indent + "  entries := " + leanList(ents, in2) + ",\n" +
		indent + "  defaults := " + leanList(defs, in2) + " }"
}
