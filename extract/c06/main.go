// extract/c06: regenerates lean/Generated/C06ScalarWrites.lean.
//
// C06 rests on two conventions of the implementation that no type enforces:
//
//  (1) a scalar value object (*data.StringValue, *data.IntValue, *data.FloatValue,
//      *data.BoolValue) is never changed after it was constructed — copies of an array share
//      the value objects of their scalar elements, and so do `$y = $x` for scalars;
//  (2) the *data.ZVal cell of an array slot is never written in place (Value or Name) unless
//      the slot is bound by an explicit `&` (RefSlotCount > 0) — copies of an array share the
//      cells of their scalar elements, a store REPLACES the cell (storeSlot).
//
// Every package of the module that is linked into the interpreter is type-checked from source
// (go/types; imports come from the export data of `go list -export -deps .`), and the
// translator lists
//
//   scalarWrites: every assignment / op-assignment / ++ / -- whose target is the `Value` field
//                 of one of the four scalar structs, every `*p = …` overwrite of such a struct,
//                 and every `&x.Value` (the field's address escapes);
//   cellWrites:   every assignment to the `Value` or `Name` field of a *data.ZVal, with where
//                 the cell comes from (origin) and whether the write is guarded by a
//                 `RefSlotCount > 0` test on that cell:
//                   slot   — an element of an ArrayValue's List (x.List[i], a slice taken from a
//                            List, the loop variable of a range over one, FindSlotByIntKey)
//                   owned  — the result of ArrayValue.OwnSlot (a cell of this array only)
//                   fresh  — created in this function (NewZVal, NewNamedZVal, &ZVal{…})
//                   other  — anything else (variable cells, parameters, results of other calls).
//
// Second file, lean/Generated/C06ArrayFields.lean (round 6): the copy routine may consult nothing
// but the element storage unless every editor of the storage maintains what it consults:
//
//   fields:    the fields of data.ArrayValue / data.ObjectValue with their role (storage, cursor,
//              tag, embedded); a field the table below does not know is `derived` — taken to be a
//              cached statement about the elements — and named by a shapeChanged entry;
//   listEdits: every site that assigns `x.List`, `x.List[i]`, `*p` for a pointer to a slot list,
//              or calls `x.property.Set / Delete`, with the non-storage fields of the owner that the
//              enclosing function assigns (itself or through a method of the owner it calls).
//
// Line numbers are comments only; a site is identified by file, function, what and ordinal.
// Anything the translator cannot do (go list / type errors) is a `shapeChanged` entry.
package main

import (
	"encoding/json"
	"fmt"
	"go/ast"
	"go/importer"
	"go/parser"
	"go/token"
	"go/types"
	"io"
	"os"
	"os/exec"
	"path/filepath"
	"sort"
	"strings"

	"verif/extract/ex"
)

const modPath = "github.com/php-any/origami"

type listPkg struct {
	ImportPath string
	Dir        string
	Export     string
	GoFiles    []string
	CgoFiles   []string
	Error      *struct{ Err string }
}

func goEnv() []string {
	var e []string
	for _, kv := range os.Environ() {
		if strings.HasPrefix(kv, "GOTOOLCHAIN=") || strings.HasPrefix(kv, "GOSUMDB=") || strings.HasPrefix(kv, "GOFLAGS=") || strings.HasPrefix(kv, "GOPROXY=") {
			continue
		}
		e = append(e, kv)
	}
	return append(e, "GOFLAGS=-mod=mod", "GOPROXY=off")
}

func goList(repo string, args ...string) ([]listPkg, error) {
	cmd := exec.Command("go", append([]string{"list", "-e", "-json=ImportPath,Dir,Export,GoFiles,CgoFiles,Error"}, args...)...)
	cmd.Dir = repo
	cmd.Env = goEnv()
	var stderr strings.Builder
	cmd.Stderr = &stderr
	out, err := cmd.Output()
	if err != nil {
		return nil, fmt.Errorf("go list: %v: %s", err, stderr.String())
	}
	dec := json.NewDecoder(strings.NewReader(string(out)))
	var res []listPkg
	for {
		var p listPkg
		if err := dec.Decode(&p); err == io.EOF {
			break
		} else if err != nil {
			return nil, err
		}
		res = append(res, p)
	}
	return res, nil
}

var shape []string
var shape2 []string         // C06ArrayFields
var structFields [][3]string // owner, name, role

var scalarStructs = map[string]bool{"StringValue": true, "IntValue": true, "FloatValue": true, "BoolValue": true}

// named type of the data package behind any number of pointers
func dataNamed(t types.Type) (name string, ptr bool) {
	for {
		p, ok := t.(*types.Pointer)
		if !ok {
			break
		}
		ptr = true
		t = p.Elem()
	}
	n, ok := t.(*types.Named)
	if !ok || n.Obj().Pkg() == nil || n.Obj().Pkg().Path() != modPath+"/data" {
		return "", ptr
	}
	return n.Obj().Name(), ptr
}

func isScalar(t types.Type) (string, bool) {
	n, _ := dataNamed(t)
	return n, scalarStructs[n]
}

func isZValPtr(t types.Type) bool {
	n, ptr := dataNamed(t)
	return n == "ZVal" && ptr
}

// []*data.ZVal or *[]*data.ZVal
func isCellSlice(t types.Type) bool {
	if p, ok := t.(*types.Pointer); ok {
		t = p.Elem()
	}
	s, ok := t.Underlying().(*types.Slice)
	return ok && isZValPtr(s.Elem())
}

func isArrayValue(t types.Type) bool {
	n, _ := dataNamed(t)
	return n == "ArrayValue"
}

type scalarSite struct {
	file, fn, typ, kind string
	ord, line           int
}

type cellSite struct {
	file, fn, field, origin string
	guarded                 bool
	ord, line               int
}

// ------------------------------------------------------------ fields / storage editors (round 6)

var fieldRoles = map[string]map[string]string{
	"ArrayValue":  {"List": "storage", "iterator": "cursor", "IndirectOverloadClass": "tag"},
	"ObjectValue": {"Value": "embedded", "Context": "embedded", "property": "storage", "iterator": "cursor", "IndirectOverloadClass": "tag"},
}

type editSite struct {
	file, fn, owner, what string
	ord, line             int
	direct                map[string]bool // owner fields the function assigns itself
	calls                 []string        // names of the functions / methods it calls
}

var editSites []editSite

// bare method name → fields of ArrayValue / ObjectValue the method assigns directly
var methodAssigns = map[string]map[string]bool{}

func ownerOf(t types.Type) string {
	n, _ := dataNamed(t)
	if n == "ArrayValue" || n == "ObjectValue" {
		return n
	}
	return ""
}

func collectEdits(fset *token.FileSet, info *types.Info, fi *fnInfo, file, fn string, fd *ast.FuncDecl) {
	direct := map[string]map[string]bool{"ArrayValue": {}, "ObjectValue": {}}
	var calls []string
	type raw struct {
		owner, what string
		pos         token.Pos
	}
	var found []raw
	ast.Inspect(fd.Body, func(n ast.Node) bool {
		switch s := n.(type) {
		case *ast.AssignStmt:
			for _, l := range s.Lhs {
				switch x := unparen(l).(type) {
				case *ast.SelectorExpr:
					if tv, ok := info.Types[x.X]; ok {
						if o := ownerOf(tv.Type); o != "" {
							if fieldRoles[o][x.Sel.Name] == "storage" {
								found = append(found, raw{o, "list", x.Pos()})
							} else {
								direct[o][x.Sel.Name] = true
							}
						}
					}
				case *ast.IndexExpr:
					if fi.isSlotList(x.X) {
						found = append(found, raw{"ArrayValue", "slot", x.Pos()})
					}
				case *ast.StarExpr:
					if tv, ok := info.Types[x.X]; ok && isCellSlice(tv.Type) && fi.isSlotList(x.X) {
						found = append(found, raw{"ArrayValue", "list", x.Pos()})
					}
				}
			}
		case *ast.IncDecStmt:
			if x, ok := unparen(s.X).(*ast.SelectorExpr); ok {
				if tv, ok := info.Types[x.X]; ok {
					if o := ownerOf(tv.Type); o != "" && fieldRoles[o][x.Sel.Name] != "storage" {
						direct[o][x.Sel.Name] = true
					}
				}
			}
		case *ast.CallExpr:
			if n := calleeName(s); n != "" {
				calls = append(calls, n)
			}
			if sel, ok := unparen(s.Fun).(*ast.SelectorExpr); ok && (sel.Sel.Name == "Set" || sel.Sel.Name == "Delete") {
				if in, ok := unparen(sel.X).(*ast.SelectorExpr); ok && in.Sel.Name == "property" {
					if tv, ok := info.Types[in.X]; ok && ownerOf(tv.Type) == "ObjectValue" {
						found = append(found, raw{"ObjectValue", "property", s.Pos()})
					}
				}
			}
		}
		return true
	})
	if fd.Recv != nil && len(fd.Recv.List) > 0 {
		if tv, ok := info.Types[fd.Recv.List[0].Type]; ok {
			if o := ownerOf(tv.Type); o != "" && len(direct[o]) > 0 {
				if methodAssigns[fd.Name.Name] == nil {
					methodAssigns[fd.Name.Name] = map[string]bool{}
				}
				for f := range direct[o] {
					methodAssigns[fd.Name.Name][o+"."+f] = true
				}
			}
		}
	}
	ord := map[string]int{}
	for _, r := range found {
		k := r.owner + "|" + r.what
		editSites = append(editSites, editSite{file, fn, r.owner, r.what, ord[k], fset.Position(r.pos).Line, direct[r.owner], calls})
		ord[k]++
	}
}

func recvName(fd *ast.FuncDecl) string {
	if fd.Recv == nil || len(fd.Recv.List) == 0 {
		return fd.Name.Name
	}
	t := fd.Recv.List[0].Type
	if s, ok := t.(*ast.StarExpr); ok {
		t = s.X
	}
	if ix, ok := t.(*ast.IndexExpr); ok {
		t = ix.X
	}
	return ex.TypeString(t) + "." + fd.Name.Name
}

func unparen(e ast.Expr) ast.Expr {
	for {
		p, ok := e.(*ast.ParenExpr)
		if !ok {
			return e
		}
		e = p.X
	}
}

// ------------------------------------------------------------ where a cell comes from

type fnInfo struct {
	info *types.Info
	// identifiers (by object) classified in this function
	slotIdents  map[types.Object]bool // *ZVal taken from an array's slot list
	ownedIdents map[types.Object]bool
	freshIdents map[types.Object]bool
	listIdents  map[types.Object]bool // []*ZVal / *[]*ZVal that IS an array's slot list
}

// is the slice expression an ArrayValue's slot list?
func (f *fnInfo) isSlotList(e ast.Expr) bool {
	e = unparen(e)
	switch x := e.(type) {
	case *ast.SelectorExpr:
		if x.Sel.Name == "List" {
			if tv, ok := f.info.Types[x.X]; ok && isArrayValue(tv.Type) {
				return true
			}
		}
		// a field that holds (a pointer to) a slot list: the method structs of data/value_array_*.go
		if tv, ok := f.info.Types[e]; ok && isCellSlice(tv.Type) && x.Sel.Name == "source" {
			return true
		}
	case *ast.Ident:
		if o := f.info.Uses[x]; o != nil && f.listIdents[o] {
			return true
		}
	case *ast.StarExpr:
		return f.isSlotList(x.X)
	case *ast.UnaryExpr:
		if x.Op == token.AND {
			return f.isSlotList(x.X)
		}
	case *ast.SliceExpr:
		return f.isSlotList(x.X)
	}
	return false
}

func calleeName(c *ast.CallExpr) string {
	switch fn := unparen(c.Fun).(type) {
	case *ast.Ident:
		return fn.Name
	case *ast.SelectorExpr:
		return fn.Sel.Name
	}
	return ""
}

// origin of a *ZVal expression
func (f *fnInfo) origin(e ast.Expr) string {
	e = unparen(e)
	switch x := e.(type) {
	case *ast.IndexExpr:
		if f.isSlotList(x.X) {
			return "slot"
		}
	case *ast.Ident:
		o := f.info.Uses[x]
		if o == nil {
			o = f.info.Defs[x]
		}
		switch {
		case o != nil && f.slotIdents[o]:
			return "slot"
		case o != nil && f.ownedIdents[o]:
			return "owned"
		case o != nil && f.freshIdents[o]:
			return "fresh"
		}
	case *ast.CallExpr:
		switch calleeName(x) {
		case "OwnSlot":
			return "owned"
		case "NewZVal", "NewNamedZVal":
			return "fresh"
		case "FindSlotByIntKey":
			return "slot"
		}
	case *ast.UnaryExpr:
		if x.Op == token.AND {
			if _, ok := unparen(x.X).(*ast.CompositeLit); ok {
				return "fresh"
			}
		}
	}
	return "other"
}

// classify the identifiers a function defines (two passes, so that `l := a.List; z := l[i]` works)
func (f *fnInfo) scanDefs(body ast.Node) {
	bind := func(lhs ast.Expr, rhs ast.Expr) {
		id, ok := unparen(lhs).(*ast.Ident)
		if !ok || id.Name == "_" {
			return
		}
		o := f.info.Defs[id]
		if o == nil {
			o = f.info.Uses[id]
		}
		if o == nil {
			return
		}
		if tv, ok := f.info.Types[rhs]; ok && isCellSlice(tv.Type) && f.isSlotList(rhs) {
			f.listIdents[o] = true
			return
		}
		if isZValPtr(o.Type()) {
			switch f.origin(rhs) {
			case "slot":
				f.slotIdents[o] = true
			case "owned":
				f.ownedIdents[o] = true
			case "fresh":
				f.freshIdents[o] = true
			}
		}
	}
	for pass := 0; pass < 2; pass++ {
		ast.Inspect(body, func(n ast.Node) bool {
			switch s := n.(type) {
			case *ast.AssignStmt:
				if len(s.Lhs) == len(s.Rhs) {
					for i := range s.Lhs {
						bind(s.Lhs[i], s.Rhs[i])
					}
				} else if len(s.Rhs) == 1 { // z, j := a.FindSlotByIntKey(i)
					if c, ok := unparen(s.Rhs[0]).(*ast.CallExpr); ok && len(s.Lhs) > 0 {
						bind(s.Lhs[0], c)
					}
				}
			case *ast.ValueSpec:
				if len(s.Names) == len(s.Values) {
					for i := range s.Names {
						bind(s.Names[i], s.Values[i])
					}
				}
			case *ast.RangeStmt:
				if s.Value != nil && f.isSlotList(s.X) {
					if id, ok := s.Value.(*ast.Ident); ok {
						if o := f.info.Defs[id]; o != nil {
							f.slotIdents[o] = true
						} else if o := f.info.Uses[id]; o != nil {
							f.slotIdents[o] = true
						}
					}
				}
			}
			return true
		})
	}
}

func exprString(e ast.Expr) string {
	switch x := unparen(e).(type) {
	case *ast.Ident:
		return x.Name
	case *ast.SelectorExpr:
		return exprString(x.X) + "." + x.Sel.Name
	case *ast.IndexExpr:
		return exprString(x.X) + "[" + exprString(x.Index) + "]"
	case *ast.StarExpr:
		return "*" + exprString(x.X)
	case *ast.CallExpr:
		return exprString(x.Fun) + "()"
	case *ast.BasicLit:
		return x.Value
	}
	return "?"
}

// does the condition test `<cell>.RefSlotCount > 0` (or `!= 0`, `>= 1`) ?
func condGuards(cond ast.Expr, cell string) bool {
	found := false
	ast.Inspect(cond, func(n ast.Node) bool {
		b, ok := n.(*ast.BinaryExpr)
		if !ok {
			return true
		}
		if b.Op == token.GTR || b.Op == token.NEQ || b.Op == token.GEQ {
			if s, ok := unparen(b.X).(*ast.SelectorExpr); ok && s.Sel.Name == "RefSlotCount" && exprString(s.X) == cell {
				found = true
			}
		}
		return true
	})
	return found
}

// ------------------------------------------------------------ walking one function

type walker struct {
	fset    *token.FileSet
	info    *types.Info
	file    string
	fn      string
	f       *fnInfo
	scalars *[]scalarSite
	cells   *[]cellSite
	nS, nC  map[string]int
}

func (w *walker) scalar(typ, kind string, pos token.Pos) {
	k := typ + "|" + kind
	*w.scalars = append(*w.scalars, scalarSite{w.file, w.fn, typ, kind, w.nS[k], w.fset.Position(pos).Line})
	w.nS[k]++
}

func (w *walker) cell(field, origin string, guarded bool, pos token.Pos) {
	k := field + "|" + origin
	*w.cells = append(*w.cells, cellSite{w.file, w.fn, field, origin, guarded, w.nC[k], w.fset.Position(pos).Line})
	w.nC[k]++
}

// target of an assignment / inc-dec
func (w *walker) target(lhs ast.Expr, kind string, guards []string) {
	lhs = unparen(lhs)
	switch x := lhs.(type) {
	case *ast.SelectorExpr:
		tv, ok := w.info.Types[x.X]
		if !ok {
			return
		}
		if typ, sc := isScalar(tv.Type); sc && x.Sel.Name == "Value" {
			w.scalar(typ, kind, x.Pos())
			return
		}
		if isZValPtr(tv.Type) && (x.Sel.Name == "Value" || x.Sel.Name == "Name") {
			cellStr := exprString(x.X)
			g := false
			for _, c := range guards {
				if c == cellStr {
					g = true
				}
			}
			w.cell(x.Sel.Name, w.f.origin(x.X), g, x.Pos())
		}
	case *ast.StarExpr:
		if tv, ok := w.info.Types[x.X]; ok {
			if typ, sc := isScalar(tv.Type); sc {
				w.scalar(typ, "overwrite", x.Pos())
			}
		}
	}
}

// walk statements, tracking which cells are known to be reference-bound (inside the then-branch
// of `if c.RefSlotCount > 0`)
func (w *walker) stmts(n ast.Node, guards []string) {
	ast.Inspect(n, func(n ast.Node) bool {
		switch s := n.(type) {
		case *ast.IfStmt:
			if s.Init != nil {
				w.stmts(s.Init, guards)
			}
			w.exprs(s.Cond)
			g := guards
			// cells tested by this condition
			ast.Inspect(s.Cond, func(m ast.Node) bool {
				if sel, ok := m.(*ast.SelectorExpr); ok && sel.Sel.Name == "RefSlotCount" {
					c := exprString(sel.X)
					if condGuards(s.Cond, c) {
						g = append(append([]string{}, g...), c)
					}
				}
				return true
			})
			w.stmts(s.Body, g)
			if s.Else != nil {
				w.stmts(s.Else, guards)
			}
			return false
		case *ast.AssignStmt:
			kind := "assign"
			if s.Tok != token.ASSIGN && s.Tok != token.DEFINE {
				kind = "opassign"
			}
			for _, l := range s.Lhs {
				w.target(l, kind, guards)
			}
			for _, r := range s.Rhs {
				w.exprs(r)
			}
			return false
		case *ast.IncDecStmt:
			w.target(s.X, "incdec", guards)
			return false
		case *ast.FuncLit:
			w.stmts(s.Body, nil)
			return false
		case ast.Expr:
			w.exprs(s)
			return false
		}
		return true
	})
}

// `&x.Value` on a scalar struct; function literals inside expressions
func (w *walker) exprs(e ast.Node) {
	ast.Inspect(e, func(n ast.Node) bool {
		switch x := n.(type) {
		case *ast.UnaryExpr:
			if x.Op == token.AND {
				if s, ok := unparen(x.X).(*ast.SelectorExpr); ok && s.Sel.Name == "Value" {
					if tv, ok := w.info.Types[s.X]; ok {
						if typ, sc := isScalar(tv.Type); sc {
							w.scalar(typ, "addr", x.Pos())
						}
					}
				}
			}
		case *ast.FuncLit:
			w.stmts(x.Body, nil)
			return false
		}
		return true
	})
}

func main() {
	a := ex.ParseArgs()
	deps, err := goList(a.Repo, "-export", "-deps", ".")
	if err != nil {
		fmt.Fprintln(os.Stderr, err)
		shape = append(shape, "go list -export failed")
	}
	exports := map[string]string{}
	var targets []listPkg
	for _, p := range deps {
		if p.Export != "" {
			exports[p.ImportPath] = p.Export
		}
		if p.ImportPath == modPath || strings.HasPrefix(p.ImportPath, modPath+"/") {
			targets = append(targets, p)
		}
	}
	sort.Slice(targets, func(i, j int) bool { return targets[i].ImportPath < targets[j].ImportPath })
	haveData := false
	for _, t := range targets {
		if t.ImportPath == modPath+"/data" {
			haveData = true
		}
	}
	if !haveData {
		shape = append(shape, "package data not found among the interpreter's dependencies")
	}
	fset := token.NewFileSet()
	imp := importer.ForCompiler(fset, "gc", func(path string) (io.ReadCloser, error) {
		f, ok := exports[path]
		if !ok {
			return nil, fmt.Errorf("no export data for %s", path)
		}
		return os.Open(f)
	})

	var scalars []scalarSite
	var cells []cellSite
	nPkgs, nFuncs := 0, 0
	for _, lp := range targets {
		dir := strings.TrimPrefix(strings.TrimPrefix(lp.ImportPath, modPath), "/")
		if dir == "" {
			dir = "."
		}
		if lp.Error != nil && len(lp.GoFiles) == 0 {
			shape = append(shape, "package not loadable: "+dir)
			continue
		}
		var files []*ast.File
		names := append([]string{}, lp.GoFiles...)
		names = append(names, lp.CgoFiles...)
		sort.Strings(names)
		for _, n := range names {
			f, err := parser.ParseFile(fset, filepath.Join(lp.Dir, n), nil, 0)
			if err != nil {
				shape = append(shape, "parse error: "+dir+"/"+n)
				continue
			}
			files = append(files, f)
		}
		info := &types.Info{Types: map[ast.Expr]types.TypeAndValue{}, Uses: map[*ast.Ident]types.Object{}, Defs: map[*ast.Ident]types.Object{}}
		nerr := 0
		conf := types.Config{Importer: imp, Error: func(err error) {
			nerr++
			if nerr <= 3 {
				fmt.Fprintln(os.Stderr, "type error:", err)
			}
		}}
		pkg, _ := conf.Check(lp.ImportPath, fset, files, info)
		if nerr > 0 {
			shape = append(shape, fmt.Sprintf("type errors in %s: %d", dir, nerr))
		}
		if pkg == nil {
			continue
		}
		if lp.ImportPath == modPath+"/data" {
			for _, owner := range []string{"ArrayValue", "ObjectValue"} {
				obj := pkg.Scope().Lookup(owner)
				var st *types.Struct
				if obj != nil {
					st, _ = obj.Type().Underlying().(*types.Struct)
				}
				if st == nil {
					shape2 = append(shape2, "data."+owner+" is no longer a struct")
					continue
				}
				seen := map[string]bool{}
				for i := 0; i < st.NumFields(); i++ {
					name := st.Field(i).Name()
					role := fieldRoles[owner][name]
					if role == "" {
						role = "derived"
						shape2 = append(shape2, "data."+owner+" has a field the check does not know: "+name+" (if it says something about the elements, every editor of the element storage has to maintain it and the copy routine must not trust it otherwise)")
					}
					seen[name] = true
					structFields = append(structFields, [3]string{owner, name, role})
				}
				for name := range fieldRoles[owner] {
					if !seen[name] {
						shape2 = append(shape2, "data."+owner+" has no field "+name+" any more")
					}
				}
			}
		}
		nPkgs++
		for _, f := range files {
			fname := dir + "/" + filepath.Base(fset.Position(f.Pos()).Filename)
			for _, d := range f.Decls {
				switch fd := d.(type) {
				case *ast.FuncDecl:
					if fd.Body == nil {
						continue
					}
					nFuncs++
					fi := &fnInfo{info: info, slotIdents: map[types.Object]bool{}, ownedIdents: map[types.Object]bool{}, freshIdents: map[types.Object]bool{}, listIdents: map[types.Object]bool{}}
					fi.scanDefs(fd.Body)
					w := &walker{fset: fset, info: info, file: fname, fn: recvName(fd), f: fi, scalars: &scalars, cells: &cells, nS: map[string]int{}, nC: map[string]int{}}
					w.stmts(fd.Body, nil)
					collectEdits(fset, info, fi, fname, recvName(fd), fd)
				case *ast.GenDecl:
					// function literals in package-level initialisers
					for _, sp := range fd.Specs {
						vs, ok := sp.(*ast.ValueSpec)
						if !ok {
							continue
						}
						for _, v := range vs.Values {
							fi := &fnInfo{info: info, slotIdents: map[types.Object]bool{}, ownedIdents: map[types.Object]bool{}, freshIdents: map[types.Object]bool{}, listIdents: map[types.Object]bool{}}
							fi.scanDefs(v)
							w := &walker{fset: fset, info: info, file: fname, fn: "<var-init>", f: fi, scalars: &scalars, cells: &cells, nS: map[string]int{}, nC: map[string]int{}}
							w.exprs(v)
						}
					}
				}
			}
		}
	}
	// the four scalar structs still look as expected (one field `Value`)
	scalarSeen := map[string]bool{}
	for _, lp := range targets {
		if lp.ImportPath != modPath+"/data" {
			continue
		}
		for _, n := range lp.GoFiles {
			f, err := parser.ParseFile(token.NewFileSet(), filepath.Join(lp.Dir, n), nil, 0)
			if err != nil {
				continue
			}
			for _, d := range f.Decls {
				gd, ok := d.(*ast.GenDecl)
				if !ok {
					continue
				}
				for _, sp := range gd.Specs {
					ts, ok := sp.(*ast.TypeSpec)
					if !ok || !scalarStructs[ts.Name.Name] {
						continue
					}
					st, ok := ts.Type.(*ast.StructType)
					if !ok || len(st.Fields.List) != 1 || len(st.Fields.List[0].Names) != 1 || st.Fields.List[0].Names[0].Name != "Value" {
						shape = append(shape, "data."+ts.Name.Name+" is no longer a struct with the single field Value")
					}
					scalarSeen[ts.Name.Name] = true
				}
			}
		}
	}
	for n := range scalarStructs {
		if !scalarSeen[n] && haveData {
			shape = append(shape, "data."+n+" not found")
		}
	}
	sort.Strings(shape)

	sort.SliceStable(scalars, func(i, j int) bool {
		x, y := scalars[i], scalars[j]
		if x.file != y.file {
			return x.file < y.file
		}
		return x.line < y.line
	})
	sort.SliceStable(cells, func(i, j int) bool {
		x, y := cells[i], cells[j]
		if x.file != y.file {
			return x.file < y.file
		}
		return x.line < y.line
	})

	var sb strings.Builder
	sb.WriteString("import Model.ScalarSites\n")
	sb.WriteString("/-! Sites of the interpreter (every package of the module linked into it, type-checked from source) that\nchange a scalar value object after its construction, and sites that write the `Value` / `Name` field of a\n`*data.ZVal` cell, with where the cell comes from and whether the write is guarded by `RefSlotCount > 0`.\nLine numbers are in comments only. -/\n")
	sb.WriteString("namespace Generated.C06ScalarWrites\nopen Model.ScalarSites\n\n")
	fmt.Fprintf(&sb, "/-- packages / functions examined -/\ndef packagesChecked : Nat := %d\ndef functionsChecked : Nat := %d\n\n", nPkgs, nFuncs)
	sb.WriteString("def scalarWrites : List ScalarWrite := [")
	for i, s := range scalars {
		if i > 0 {
			sb.WriteString(",")
		}
		fmt.Fprintf(&sb, "\n  ⟨%s, %s, %s, %s, %d⟩ /- line %d -/", ex.LeanString(s.file), ex.LeanString(s.fn), ex.LeanString(s.typ), ex.LeanString(s.kind), s.ord, s.line)
	}
	sb.WriteString("]\n\n")
	sb.WriteString("def cellWrites : List CellWrite := [")
	first := true
	nFresh, nOther := 0, 0
	for _, c := range cells {
		// cells created in the function are not shared with anything yet: counted only
		if c.origin == "fresh" {
			nFresh++
			continue
		}
		if c.origin == "other" {
			nOther++
		}
		if !first {
			sb.WriteString(",")
		}
		first = false
		g := "false"
		if c.guarded {
			g = "true"
		}
		fmt.Fprintf(&sb, "\n  ⟨%s, %s, %s, %s, %s, %d⟩ /- line %d -/", ex.LeanString(c.file), ex.LeanString(c.fn), ex.LeanString(c.field), ex.LeanString(c.origin), g, c.ord, c.line)
	}
	sb.WriteString("]\n\n")
	fmt.Fprintf(&sb, "/-- writes to cells created in the writing function itself (not listed) -/\ndef freshCellWrites : Nat := %d\n\n", nFresh)
	sb.WriteString("def shapeChanged : List String := [")
	for i, s := range shape {
		if i > 0 {
			sb.WriteString(", ")
		}
		sb.WriteString(ex.LeanString(s))
	}
	sb.WriteString("]\n\nend Generated.C06ScalarWrites\n")
	if err := ex.WriteIfChanged(a.Out, "C06ScalarWrites.lean", sb.String()); err != nil {
		fmt.Fprintln(os.Stderr, err)
		os.Exit(1)
	}
	emitArrayFields(a.Out)
	fmt.Printf("C06ScalarWrites: %d packages, %d functions, %d scalar-object writes, %d cell writes (%d to fresh cells, %d of unknown origin), %d shape facts\n",
		nPkgs, nFuncs, len(scalars), len(cells), nFresh, nOther, len(shape))
	// for the reader of a failed obligation: the sites the two theorems are about
	var ss, us []string
	for _, s := range scalars {
		ss = append(ss, fmt.Sprintf("%s:%d %s %s.Value %s", s.file, s.line, s.fn, s.typ, s.kind))
	}
	for _, c := range cells {
		if c.origin == "slot" && !c.guarded {
			us = append(us, fmt.Sprintf("%s:%d %s .%s", c.file, c.line, c.fn, c.field))
		}
	}
	fmt.Printf("  scalar-object writes: %s\n  unguarded writes to slot cells: %s\n", strings.Join(ss, "; "), strings.Join(us, "; "))
}

func emitArrayFields(out string) {
	sort.Strings(shape2)
	sort.SliceStable(editSites, func(i, j int) bool {
		x, y := editSites[i], editSites[j]
		if x.file != y.file {
			return x.file < y.file
		}
		return x.line < y.line
	})
	derived := map[string][]string{}
	for _, f := range structFields {
		if f[2] != "storage" {
			derived[f[0]] = append(derived[f[0]], f[1])
		}
	}
	var sb strings.Builder
	sb.WriteString("import Model.ArrayFields\n")
	sb.WriteString("/-! The fields of `data.ArrayValue` / `data.ObjectValue` and every site of the interpreter that edits the\nelement storage of one of them (`x.List = …`, `x.List[i] = …`, `*p = …` on a pointer to a slot list,\n`x.property.Set / Delete`), with the other fields of the owner the enclosing function assigns.\nLine numbers are in comments only. -/\n")
	sb.WriteString("namespace Generated.C06ArrayFields\nopen Model.ArrayFields\n\n")
	sb.WriteString("def fields : List Field := [")
	for i, f := range structFields {
		if i > 0 {
			sb.WriteString(",")
		}
		fmt.Fprintf(&sb, "\n  ⟨%s, %s, %s⟩", ex.LeanString(f[0]), ex.LeanString(f[1]), ex.LeanString(f[2]))
	}
	sb.WriteString("]\n\ndef listEdits : List ListEdit := [")
	var loose []string
	for i, e := range editSites {
		if i > 0 {
			sb.WriteString(",")
		}
		set := map[string]bool{}
		for f := range e.direct {
			set[f] = true
		}
		for _, c := range e.calls {
			for of := range methodAssigns[c] {
				if strings.HasPrefix(of, e.owner+".") {
					set[strings.TrimPrefix(of, e.owner+".")] = true
				}
			}
		}
		var rs []string
		for f := range set {
			rs = append(rs, f)
		}
		sort.Strings(rs)
		var q []string
		for _, r := range rs {
			q = append(q, ex.LeanString(r))
		}
		fmt.Fprintf(&sb, "\n  ⟨%s, %s, %s, %s, %d, [%s]⟩ /- line %d -/", ex.LeanString(e.file), ex.LeanString(e.fn), ex.LeanString(e.owner), ex.LeanString(e.what), e.ord, strings.Join(q, ", "), e.line)
		for _, f := range structFields {
			if f[0] == e.owner && f[2] == "derived" && !set[f[1]] {
				loose = append(loose, fmt.Sprintf("%s:%d %s leaves %s.%s alone", e.file, e.line, e.fn, e.owner, f[1]))
			}
		}
	}
	sb.WriteString("]\n\ndef shapeChanged : List String := [")
	for i, s := range shape2 {
		if i > 0 {
			sb.WriteString(", ")
		}
		sb.WriteString(ex.LeanString(s))
	}
	sb.WriteString("]\n\nend Generated.C06ArrayFields\n")
	if err := ex.WriteIfChanged(out, "C06ArrayFields.lean", sb.String()); err != nil {
		fmt.Fprintln(os.Stderr, err)
		os.Exit(1)
	}
	fmt.Printf("C06ArrayFields: %d fields, %d sites that edit element storage, %d shape facts\n", len(structFields), len(editSites), len(shape2))
	if len(loose) > 0 {
		fmt.Printf("  editors that leave a derived field alone: %s\n", strings.Join(loose, "; "))
	}
}
