// Declaration keywords → modifier set (lean/Generated/C07Decl.lean).
//
// Which modifier a member CARRIES is decided by the parser from the keywords written in front of its
// declaration. This file reads (never executes) the six places that do it and regenerates, per place, the
// list of keyword STAGES with, per keyword branch, the assignments to the variables that are later handed to
// the node constructors as modifier / static / readonly / abstract:
//
//	param      parser/parameter_parser.go parseSingleParameter     `for { if checkPositionIs(0, READONLY) {…; continue} … break }`
//	class      parser/class_parser.go     (*ClassParser).Parse     member loop
//	anon       parser/new_parser.go       parseAnonymousClass      member loop
//	trait      parser/trait_parser.go     (*TraitParser).Parse     member loop
//	enum       parser/enum_parser.go      (*EnumParser).Parse      member loop
//	interface  parser/interface_parser.go (*InterfaceParser).Parse member loop
//
// Recognised stage shapes (anything else that tests a modifier keyword before the dispatch on
// `var | const | $name | type | function | case`, and every assignment to one of those variables outside a
// recognised stage, becomes a shape note):
//
//	for cur == token.A || cur == token.B { if cur == token.A { x = true; next } else { y = true; next } }
//	for { if checkPositionIs(0, token.A) { x = true; next; continue } if checkPositionIs(0, token.B, token.C) { switch cur { case token.B: v = "b" … }; next; continue } break }
//	if cur == token.A { x = true; next }
//	v := p.parseModifier()          (a switch over cur: `case token.A: next; return "a"` …, `default: return "d"`)
//
// Roles of the variables are taken from their USE: argument positions of parsePropertyWithAnnotations
// (modifier, static, readonly), parseMethodWithAnnotations (modifier, static, abstract), parseInterfaceMethod
// (modifier), node.NewPropertyWithPromoted (…, modifier, _, readonly, …); the variable tested together with the
// abstract one in `if a && f { CompileFatal }` is `final`.
package main

import (
	"fmt"
	"go/ast"
	"go/token"
	"strings"

	"verif/extract/ex"
)

var modifierTokens = map[string]string{
	"PUBLIC": ".vis .pub", "PROTECTED": ".vis .prot", "PRIVATE": ".vis .priv",
	"STATIC": ".flag .static", "READONLY": ".flag .readonly", "FINAL": ".flag .final", "ABSTRACT": ".flag .abstract",
	"VAR": ".var",
}

var visValues = map[string]string{"public": ".pub", "protected": ".prot", "private": ".priv"}

type dAct struct {
	v   string // variable
	val string // "true" | "false" | quoted string literal value | "?"
}

type dBranch struct {
	tok  string
	acts []dAct
}

type dStage struct {
	rep      bool
	branches []dBranch
}

type dParser struct {
	name     string
	where    string
	stages   []dStage
	initVis  string // "" = none
	role     map[string]string
	xor      bool
	ok       bool
	posRange [][2]token.Pos // recognised stage statements
}

func (p *dParser) note(f string, a ...any) {
	note("decl %s (%s): %s", p.name, p.where, fmt.Sprintf(f, a...))
	p.ok = false
}

// tokName: `token.X` → X
func tokName(e ast.Expr) (string, bool) {
	se, ok := e.(*ast.SelectorExpr)
	if !ok {
		return "", false
	}
	if id, ok := se.X.(*ast.Ident); !ok || id.Name != "token" {
		return "", false
	}
	return se.Sel.Name, true
}

// isCurType: `<x>.current().Type()`
func isCurType(e ast.Expr) bool {
	c, ok := e.(*ast.CallExpr)
	if !ok || len(c.Args) != 0 {
		return false
	}
	se, ok := c.Fun.(*ast.SelectorExpr)
	if !ok || se.Sel.Name != "Type" {
		return false
	}
	c2, ok := se.X.(*ast.CallExpr)
	if !ok || len(c2.Args) != 0 {
		return false
	}
	se2, ok := c2.Fun.(*ast.SelectorExpr)
	return ok && se2.Sel.Name == "current"
}

// curTokens: the condition is exactly a test of the token under the cursor against a set of tokens:
// `cur == token.A`, a `||` chain of these, or `checkPositionIs(0, token.A, …)`
func curTokens(e ast.Expr) ([]string, bool) {
	switch t := e.(type) {
	case *ast.ParenExpr:
		return curTokens(t.X)
	case *ast.BinaryExpr:
		if t.Op == token.LOR {
			a, ok1 := curTokens(t.X)
			b, ok2 := curTokens(t.Y)
			return append(a, b...), ok1 && ok2
		}
		if t.Op == token.EQL && isCurType(t.X) {
			if n, ok := tokName(t.Y); ok {
				return []string{n}, true
			}
		}
	case *ast.CallExpr:
		se, ok := t.Fun.(*ast.SelectorExpr)
		if !ok || se.Sel.Name != "checkPositionIs" || len(t.Args) < 2 {
			return nil, false
		}
		if bl, ok := t.Args[0].(*ast.BasicLit); !ok || bl.Value != "0" {
			return nil, false
		}
		var out []string
		for _, a := range t.Args[1:] {
			n, ok := tokName(a)
			if !ok {
				return nil, false
			}
			out = append(out, n)
		}
		return out, true
	}
	return nil, false
}

func mentionsModifierToken(n ast.Node) bool {
	found := false
	ast.Inspect(n, func(x ast.Node) bool {
		if e, ok := x.(ast.Expr); ok {
			if name, ok := tokName(e); ok {
				if _, is := modifierTokens[name]; is {
					found = true
				}
			}
		}
		return !found
	})
	return found
}

func mentionsToken(n ast.Node, names ...string) bool {
	found := false
	ast.Inspect(n, func(x ast.Node) bool {
		if e, ok := x.(ast.Expr); ok {
			if name, ok := tokName(e); ok {
				for _, w := range names {
					if name == w {
						found = true
					}
				}
			}
		}
		return !found
	})
	return found
}

// isNext: `<x>.next()`
func isNext(st ast.Stmt) bool {
	es, ok := st.(*ast.ExprStmt)
	if !ok {
		return false
	}
	c, ok := es.X.(*ast.CallExpr)
	if !ok || len(c.Args) != 0 {
		return false
	}
	se, ok := c.Fun.(*ast.SelectorExpr)
	return ok && se.Sel.Name == "next"
}

func litValue(e ast.Expr) string {
	switch t := e.(type) {
	case *ast.Ident:
		if t.Name == "true" || t.Name == "false" {
			return t.Name
		}
	case *ast.BasicLit:
		if t.Kind == token.STRING {
			return t.Value // quoted
		}
	}
	return "?"
}

// simpleActs: assignments `x = lit`, `next()`, `continue`; anything else → !ok. nexts counts the `next()` calls.
func simpleActs(stmts []ast.Stmt) (acts []dAct, nexts int, ok bool) {
	ok = true
	for _, st := range stmts {
		switch t := st.(type) {
		case *ast.AssignStmt:
			if len(t.Lhs) != 1 || len(t.Rhs) != 1 || t.Tok != token.ASSIGN {
				return nil, 0, false
			}
			id, isID := t.Lhs[0].(*ast.Ident)
			if !isID {
				return nil, 0, false
			}
			acts = append(acts, dAct{id.Name, litValue(t.Rhs[0])})
		case *ast.BranchStmt:
			if t.Tok != token.CONTINUE {
				return nil, 0, false
			}
		case *ast.ExprStmt:
			if !isNext(st) {
				return nil, 0, false
			}
			nexts++
		default:
			return nil, 0, false
		}
	}
	return
}

// branchesOf: the branches of `if <cur ∈ toks> { body }` where body is simple assignments, possibly with one
// `switch cur { case token.A: … }` that splits the tokens
func (p *dParser) branchesOf(toks []string, body []ast.Stmt) []dBranch {
	var common []ast.Stmt
	var sw *ast.SwitchStmt
	for _, st := range body {
		if s, ok := st.(*ast.SwitchStmt); ok && sw == nil && s.Init == nil && s.Tag != nil && isCurType(s.Tag) {
			sw = s
			continue
		}
		common = append(common, st)
	}
	cacts, nexts, ok := simpleActs(common)
	if !ok {
		p.note("the body of the branch for %v is not a list of plain assignments", toks)
		return nil
	}
	per := map[string][]dAct{}
	if sw != nil {
		for _, cs := range sw.Body.List {
			cc := cs.(*ast.CaseClause)
			a, n, ok := simpleActs(cc.Body)
			if !ok || n != 0 {
				p.note("a case of the switch in the branch for %v is not a list of plain assignments", toks)
				return nil
			}
			if cc.List == nil {
				p.note("the switch in the branch for %v has a default case", toks)
				return nil
			}
			for _, e := range cc.List {
				n, ok := tokName(e)
				if !ok {
					p.note("a case of the switch in the branch for %v is not a token", toks)
					return nil
				}
				per[n] = append(per[n], a...)
			}
		}
		for n := range per {
			in := false
			for _, t := range toks {
				in = in || t == n
			}
			if !in {
				p.note("the switch in the branch for %v has a case for %s", toks, n)
			}
		}
	}
	if nexts != 1 {
		p.note("the branch for %v advances the cursor %d times", toks, nexts)
	}
	var out []dBranch
	for _, t := range toks {
		out = append(out, dBranch{t, append(append([]dAct{}, per[t]...), cacts...)})
	}
	return out
}

// ifChain: `if cur == A { … } else if cur == B { … } else { … }` inside a loop over `all`
func (p *dParser) ifChain(is *ast.IfStmt, all []string) []dBranch {
	var out []dBranch
	seen := map[string]bool{}
	for {
		if is.Init != nil {
			p.note("an if with an init statement inside a keyword loop")
			return nil
		}
		toks, ok := curTokens(is.Cond)
		if !ok {
			p.note("a condition inside a keyword loop is not a test of the current token")
			return nil
		}
		for _, t := range toks {
			seen[t] = true
		}
		out = append(out, p.branchesOf(toks, is.Body.List)...)
		switch e := is.Else.(type) {
		case nil:
			return out
		case *ast.IfStmt:
			is = e
			continue
		case *ast.BlockStmt:
			var rest []string
			for _, t := range all {
				if !seen[t] {
					rest = append(rest, t)
				}
			}
			if len(rest) == 0 {
				p.note("an else branch inside a keyword loop that no token reaches")
				return out
			}
			return append(out, p.branchesOf(rest, e.List)...)
		}
		return out
	}
}

// stageOf: st as a keyword stage (nil, false: st is not one)
func (p *dParser) stageOf(st ast.Stmt, fnOf func(recvCall string) *ast.FuncDecl) (*dStage, bool) {
	switch t := st.(type) {
	case *ast.ForStmt:
		if t.Init != nil || t.Post != nil {
			return nil, false
		}
		if t.Cond == nil {
			// for { if … { …; continue } … break }
			var brs []dBranch
			n := len(t.Body.List)
			if n == 0 {
				return nil, false
			}
			if b, ok := t.Body.List[n-1].(*ast.BranchStmt); !ok || b.Tok != token.BREAK {
				return nil, false
			}
			for _, s := range t.Body.List[:n-1] {
				is, ok := s.(*ast.IfStmt)
				if !ok || is.Else != nil || is.Init != nil {
					return nil, false
				}
				toks, ok := curTokens(is.Cond)
				if !ok {
					return nil, false
				}
				if l := len(is.Body.List); l == 0 {
					return nil, false
				} else if b, ok := is.Body.List[l-1].(*ast.BranchStmt); !ok || b.Tok != token.CONTINUE {
					return nil, false
				}
				brs = append(brs, p.branchesOf(toks, is.Body.List)...)
			}
			return &dStage{true, brs}, true
		}
		toks, ok := curTokens(t.Cond)
		if !ok {
			return nil, false
		}
		if len(t.Body.List) == 1 {
			if is, ok := t.Body.List[0].(*ast.IfStmt); ok {
				return &dStage{true, p.ifChain(is, toks)}, true
			}
		}
		return &dStage{true, p.branchesOf(toks, t.Body.List)}, true
	case *ast.IfStmt:
		if t.Init != nil || t.Else != nil {
			return nil, false
		}
		toks, ok := curTokens(t.Cond)
		if !ok {
			return nil, false
		}
		return &dStage{false, p.branchesOf(toks, t.Body.List)}, true
	case *ast.AssignStmt:
		// v := x.parseModifier()
		if len(t.Lhs) != 1 || len(t.Rhs) != 1 {
			return nil, false
		}
		id, ok := t.Lhs[0].(*ast.Ident)
		if !ok {
			return nil, false
		}
		c, ok := t.Rhs[0].(*ast.CallExpr)
		if !ok || len(c.Args) != 0 {
			return nil, false
		}
		se, ok := c.Fun.(*ast.SelectorExpr)
		if !ok || se.Sel.Name != "parseModifier" {
			return nil, false
		}
		recv := exprString(se.X)
		fd := fnOf(recv)
		if fd == nil {
			p.note("the parseModifier called through `%s` was not found", recv)
			return &dStage{false, nil}, true
		}
		var brs []dBranch
		if len(fd.Body.List) != 1 {
			p.note("parseModifier is not a single switch")
			return &dStage{false, nil}, true
		}
		sw, ok := fd.Body.List[0].(*ast.SwitchStmt)
		if !ok || sw.Init != nil || sw.Tag == nil || !isCurType(sw.Tag) {
			p.note("parseModifier is not a switch over the current token")
			return &dStage{false, nil}, true
		}
		hasDefault := false
		for _, cs := range sw.Body.List {
			cc := cs.(*ast.CaseClause)
			n := len(cc.Body)
			if n == 0 {
				p.note("parseModifier: an empty case")
				continue
			}
			ret, ok := cc.Body[n-1].(*ast.ReturnStmt)
			if !ok || len(ret.Results) != 1 || litValue(ret.Results[0]) == "?" {
				p.note("parseModifier: a case does not end in `return \"…\"`")
				continue
			}
			val := litValue(ret.Results[0])
			if cc.List == nil {
				hasDefault = true
				if n != 1 {
					p.note("parseModifier: the default case does more than return")
				}
				p.initVis = strings.Trim(val, "\"")
				continue
			}
			if n != 2 || !isNext(cc.Body[0]) {
				p.note("parseModifier: a case is not `next(); return \"…\"`")
			}
			for _, e := range cc.List {
				tn, ok := tokName(e)
				if !ok {
					p.note("parseModifier: a case is not a token")
					continue
				}
				brs = append(brs, dBranch{tn, []dAct{{id.Name, val}}})
			}
		}
		if !hasDefault {
			p.note("parseModifier: no default case")
		}
		return &dStage{false, brs}, true
	}
	return nil, false
}

// isInit: `x := false`, `x := ""`, `var x string`, `var x bool`
func isInit(st ast.Stmt) bool {
	switch t := st.(type) {
	case *ast.AssignStmt:
		if t.Tok == token.DEFINE && len(t.Rhs) == 1 {
			v := litValue(t.Rhs[0])
			return v == "false" || v == "\"\""
		}
	case *ast.DeclStmt:
		gd, ok := t.Decl.(*ast.GenDecl)
		if !ok || gd.Tok != token.VAR {
			return false
		}
		for _, s := range gd.Specs {
			vs := s.(*ast.ValueSpec)
			if len(vs.Values) != 0 {
				return false
			}
		}
		return true
	}
	return false
}

// roles: which variable is handed on as what
func (p *dParser) rolesIn(body ast.Node) {
	set := func(e ast.Expr, role string) {
		id, ok := e.(*ast.Ident)
		if !ok || id.Name == "false" || id.Name == "true" {
			return
		}
		if old, has := p.role[id.Name]; has && old != role {
			p.note("variable %s is handed on both as %s and as %s", id.Name, old, role)
		}
		p.role[id.Name] = role
	}
	ast.Inspect(body, func(n ast.Node) bool {
		c, ok := n.(*ast.CallExpr)
		if !ok {
			return true
		}
		name := exprString(c.Fun)
		if i := strings.LastIndexByte(name, '.'); i >= 0 && !strings.HasPrefix(name, "node.") {
			name = name[i+1:]
		}
		switch name {
		case "parsePropertyWithAnnotations":
			if len(c.Args) >= 3 {
				set(c.Args[0], "vis")
				set(c.Args[1], "static")
				set(c.Args[2], "readonly")
			}
		case "parseMethodWithAnnotations":
			if len(c.Args) >= 3 {
				set(c.Args[0], "vis")
				set(c.Args[1], "static")
				set(c.Args[2], "abstract")
			}
		case "parseInterfaceMethod":
			if len(c.Args) >= 1 {
				set(c.Args[0], "vis")
			}
		case "node.NewPropertyWithPromoted":
			if len(c.Args) >= 5 {
				set(c.Args[2], "vis")
				set(c.Args[4], "readonly")
			}
		case "node.NewProperty":
			if len(c.Args) >= 3 {
				set(c.Args[2], "vis")
			}
		}
		return true
	})
	// `if a && f { … CompileFatal … }`
	ast.Inspect(body, func(n ast.Node) bool {
		is, ok := n.(*ast.IfStmt)
		if !ok {
			return true
		}
		be, ok := is.Cond.(*ast.BinaryExpr)
		if !ok || be.Op != token.LAND {
			return true
		}
		a, ok1 := be.X.(*ast.Ident)
		b, ok2 := be.Y.(*ast.Ident)
		if !ok1 || !ok2 || !containsCall(is.Body, "NewCompileFatal") {
			return true
		}
		switch {
		case p.role[a.Name] == "abstract":
			set(b, "final")
			p.xor = true
		case p.role[b.Name] == "abstract":
			set(a, "final")
			p.xor = true
		}
		return true
	})
}

// scan: the keyword stages among stmts, up to the dispatch
func (p *dParser) scan(stmts []ast.Stmt, fnOf func(string) *ast.FuncDecl) {
	for _, st := range stmts {
		if is, ok := st.(*ast.IfStmt); ok && mentionsToken(is.Cond, "FUNC", "CASE", "VARIABLE") {
			return // the dispatch
		}
		if as, ok := st.(*ast.AssignStmt); ok && len(as.Rhs) == 1 && containsCall(as.Rhs[0], "parseModifier") {
			if sg, ok := p.stageOf(st, fnOf); ok {
				p.stages = append(p.stages, *sg)
				p.posRange = append(p.posRange, [2]token.Pos{st.Pos(), st.End()})
				continue
			}
			p.note("a call of parseModifier in a shape that is not `v := x.parseModifier()`")
			continue
		}
		if !mentionsModifierToken(st) {
			continue
		}
		sg, ok := p.stageOf(st, fnOf)
		if !ok {
			p.note("a statement before the dispatch tests a modifier keyword in a shape that is not recognised: %s", firstLineOf(nodeText(st)))
			continue
		}
		p.stages = append(p.stages, *sg)
		p.posRange = append(p.posRange, [2]token.Pos{st.Pos(), st.End()})
	}
}

func firstLineOf(s string) string {
	if i := strings.IndexByte(s, '\n'); i >= 0 {
		s = s[:i]
	}
	if len(s) > 120 {
		s = s[:120]
	}
	return s
}

// strayWrites: assignments to a role variable outside the recognised stages
func (p *dParser) strayWrites(body ast.Node) {
	ast.Inspect(body, func(n ast.Node) bool {
		var lhs []ast.Expr
		var init bool
		switch t := n.(type) {
		case *ast.AssignStmt:
			lhs = t.Lhs
			init = isInit(t)
		case *ast.IncDecStmt:
			lhs = []ast.Expr{t.X}
		default:
			return true
		}
		for _, l := range lhs {
			id, ok := l.(*ast.Ident)
			if !ok {
				continue
			}
			role, has := p.role[id.Name]
			if !has || init {
				continue
			}
			in := false
			for _, r := range p.posRange {
				if n.Pos() >= r[0] && n.End() <= r[1] {
					in = true
				}
			}
			if !in {
				p.note("the %s variable `%s` is assigned outside a keyword branch: %s", role, id.Name, firstLineOf(nodeText(n)))
			}
		}
		return true
	})
}

func (p *dParser) lean() string {
	act := func(tok string, a dAct) string {
		role := p.role[a.v]
		switch role {
		case "vis":
			if v, ok := visValues[strings.Trim(a.val, "\"")]; ok && strings.HasPrefix(a.val, "\"") {
				return ".setVis " + v
			}
			p.note("the branch for %s assigns %s to the modifier variable `%s`", tok, a.val, a.v)
			return ".setFlag .other"
		case "static", "readonly", "abstract", "final":
			if a.val == "true" {
				return ".setFlag ." + role
			}
			p.note("the branch for %s assigns %s to `%s`", tok, a.val, a.v)
			return ".setFlag .other"
		}
		return ".setFlag .other"
	}
	var sts []string
	for _, s := range p.stages {
		var brs []string
		for _, b := range s.branches {
			kw, ok := modifierTokens[b.tok]
			if !ok {
				p.note("a keyword stage has a branch for token.%s, which is not a modifier keyword of the model", b.tok)
				kw = ".flag .other"
			}
			var as []string
			for _, a := range b.acts {
				as = append(as, act(b.tok, a))
			}
			brs = append(brs, fmt.Sprintf("⟨%s, [%s]⟩", kw, strings.Join(as, ", ")))
		}
		sts = append(sts, fmt.Sprintf("⟨%v, [%s]⟩", s.rep, strings.Join(brs, ", ")))
	}
	iv := "none"
	if v, ok := visValues[p.initVis]; ok {
		iv = "some " + v
	} else if p.initVis != "" {
		p.note("parseModifier's default is %q", p.initVis)
	}
	return fmt.Sprintf("  { name := %s, init := ⟨%s, false, false, false, false, false⟩, finalXorAbstract := %v,\n    stages := [%s] }",
		ex.LeanString(p.name), iv, p.xor, strings.Join(sts, ",\n               "))
}

// memberLoop: the `for` statement of fd whose body calls one of the member parsers
func memberLoop(fd *ast.FuncDecl) *ast.ForStmt {
	var found *ast.ForStmt
	ast.Inspect(fd.Body, func(n ast.Node) bool {
		if found != nil {
			return false
		}
		fs, ok := n.(*ast.ForStmt)
		if !ok {
			return true
		}
		direct := false
		for _, st := range fs.Body.List {
			if is, ok := st.(*ast.IfStmt); ok && (containsCall(is, "parseMethodWithAnnotations") || containsCall(is, "parseInterfaceMethod")) {
				direct = true
			}
		}
		if direct {
			found = fs
			return false
		}
		return true
	})
	return found
}

// passThrough: inside a member parser the modifier parameter reaches the node constructor unchanged
func passThrough(where string, fd *ast.FuncDecl, param string, ctors map[string]int) bool {
	if fd == nil {
		return false
	}
	ok := true
	has := false
	for _, f := range fd.Type.Params.List {
		for _, n := range f.Names {
			has = has || n.Name == param
		}
	}
	if !has {
		note("decl %s: no parameter `%s`", where, param)
		return false
	}
	calls := 0
	ast.Inspect(fd.Body, func(n ast.Node) bool {
		switch t := n.(type) {
		case *ast.CallExpr:
			if idx, is := ctors[exprString(t.Fun)]; is {
				calls++
				if len(t.Args) <= idx || exprString(t.Args[idx]) != param {
					note("decl %s: %s does not receive `%s` as its modifier", where, exprString(t.Fun), param)
					ok = false
				}
			}
		case *ast.AssignStmt:
			for _, l := range t.Lhs {
				if id, isID := l.(*ast.Ident); isID && id.Name == param {
					// allowed: inside `if <param> == "" { … }` (no keyword was handed in: look for one, default public)
					if !insideEmptyTest(fd.Body, t, param) {
						note("decl %s: `%s` is assigned: %s", where, param, firstLineOf(nodeText(t)))
						ok = false
					} else if v := litValue(t.Rhs[0]); v != "\"public\"" && !containsCall(t.Rhs[0], "parseModifier") {
						note("decl %s: `%s` defaults to %s", where, param, v)
						ok = false
					}
				}
			}
		}
		return true
	})
	if calls == 0 {
		note("decl %s: no node constructor receives `%s`", where, param)
		ok = false
	}
	return ok
}

// insideEmptyTest: target lies in the body of an `if <param> == "" { … }` of root
func insideEmptyTest(root ast.Node, target ast.Node, param string) bool {
	in := false
	ast.Inspect(root, func(n ast.Node) bool {
		is, ok := n.(*ast.IfStmt)
		if !ok {
			return true
		}
		be, ok := is.Cond.(*ast.BinaryExpr)
		if ok && be.Op == token.EQL && exprString(be.X) == param && litValue(be.Y) == "\"\"" &&
			target.Pos() >= is.Body.Pos() && target.End() <= is.Body.End() {
			in = true
		}
		return true
	})
	return in
}

func declFacts(repo, out string) (nParsers int, err error) {
	_, files, err := ex.ParseDir(repo, "parser")
	if err != nil {
		return 0, err
	}
	fn := func(file, recv, name string) *ast.FuncDecl {
		f := files[file]
		if f == nil {
			note("decl: parser/%s not found", file)
			return nil
		}
		fd := ex.FuncDecl(f, recv, name)
		if fd == nil {
			note("decl: parser/%s: %s.%s not found", file, recv, name)
		}
		return fd
	}
	classPM := func() *ast.FuncDecl { return fn("class_parser.go", "*ClassParser", "parseModifier") }
	ifacePM := func() *ast.FuncDecl { return fn("interface_parser.go", "*InterfaceParser", "parseModifier") }
	var ps []*dParser

	// the loop in front of a constructor parameter
	{
		p := &dParser{name: "param", where: "parameter_parser.go parseSingleParameter", role: map[string]string{}, ok: true}
		if fd := fn("parameter_parser.go", "", "parseSingleParameter"); fd != nil {
			p.rolesIn(fd.Body)
			// only the statements in front of the first one that looks at the parameter itself
			var head []ast.Stmt
			for _, st := range fd.Body.List {
				if mentionsToken(st, "HASH", "VARIABLE", "ELLIPSIS") {
					break
				}
				head = append(head, st)
			}
			p.scan(head, func(string) *ast.FuncDecl { return nil })
			p.strayWrites(fd.Body)
			if len(p.stages) != 1 {
				p.note("%d keyword stages in front of the parameter (expected the one loop)", len(p.stages))
			}
			// promoted iff the modifier variable is not empty
			promo := false
			ast.Inspect(fd.Body, func(n ast.Node) bool {
				if is, ok := n.(*ast.IfStmt); ok {
					if be, ok := is.Cond.(*ast.BinaryExpr); ok && be.Op == token.NEQ && p.role[exprString(be.X)] == "vis" && litValue(be.Y) == "\"\"" &&
						containsCall(is.Body, "NewPropertyWithPromoted") {
						promo = true
					}
				}
				return true
			})
			if !promo {
				p.note("the promotion is not `if <modifier> != \"\" { … NewPropertyWithPromoted … }`")
			}
		} else {
			p.ok = false
		}
		ps = append(ps, p)
	}
	for _, x := range []struct{ name, file, recv, fn string }{
		{"class", "class_parser.go", "*ClassParser", "Parse"},
		{"anon", "new_parser.go", "*NewStructParser", "parseAnonymousClass"},
		{"trait", "trait_parser.go", "*TraitParser", "Parse"},
		{"enum", "enum_parser.go", "*EnumParser", "Parse"},
		{"interface", "interface_parser.go", "*InterfaceParser", "Parse"},
	} {
		p := &dParser{name: x.name, where: x.file + " " + x.fn, role: map[string]string{}, ok: true}
		ps = append(ps, p)
		fd := fn(x.file, x.recv, x.fn)
		if fd == nil {
			p.ok = false
			continue
		}
		loop := memberLoop(fd)
		if loop == nil {
			p.note("the member loop was not found")
			continue
		}
		p.rolesIn(loop.Body)
		recvName := ""
		if fd.Recv != nil && len(fd.Recv.List) > 0 && len(fd.Recv.List[0].Names) > 0 {
			recvName = fd.Recv.List[0].Names[0].Name
		}
		p.scan(loop.Body.List, func(via string) *ast.FuncDecl {
			if x.name == "interface" && via == recvName {
				return ifacePM()
			}
			return classPM()
		})
		p.strayWrites(loop.Body)
		visStages := 0
		for _, s := range p.stages {
			for _, b := range s.branches {
				if strings.HasPrefix(modifierTokens[b.tok], ".vis") {
					visStages++
					break
				}
			}
		}
		if visStages != 1 {
			p.note("%d stages read a visibility keyword (expected one)", visStages)
		}
	}
	// the member parsers hand the modifier on unchanged
	type pt struct {
		name string
		ok   bool
	}
	var pts []pt
	pts = append(pts, pt{"property", passThrough("parsePropertyWithAnnotations", fn("class_parser.go", "*ClassParser", "parsePropertyWithAnnotations"), "modifier",
		map[string]int{"node.NewPropertyWithReadonly": 2, "node.NewProperty": 2, "node.NewPropertyWithPromoted": 2})})
	pts = append(pts, pt{"method", passThrough("parseMethodWithAnnotations", fn("class_parser.go", "*ClassParser", "parseMethodWithAnnotations"), "modifier",
		map[string]int{"node.NewMethod": 2})})
	pts = append(pts, pt{"interfaceMethod", passThrough("parseInterfaceMethod", fn("interface_parser.go", "*InterfaceParser", "parseInterfaceMethod"), "modifier",
		map[string]int{"node.NewInterfaceMethod": 2})})

	var sb strings.Builder
	sb.WriteString("import Model.DeclMods\n")
	sb.WriteString("/-! Which variables each keyword branch in front of a member declaration assigns (see `extract/c07/decl.go`\nfor the syntactic shapes that are recognised). -/\n")
	sb.WriteString("namespace Generated.C07Decl\nopen Model.Access Model.DeclMods\n\n")
	sb.WriteString("/-- the keyword stages of the six places that read the modifiers of a member declaration -/\ndef parsers : List Parser := [\n")
	var items []string
	for _, p := range ps {
		items = append(items, p.lean())
	}
	sb.WriteString(strings.Join(items, ",\n"))
	sb.WriteString("]\n\n/-- the stage list of this parser was read completely in the shapes the translator knows -/\ndef recognised : List (String × Bool) := [")
	for i, p := range ps {
		if i > 0 {
			sb.WriteString(", ")
		}
		fmt.Fprintf(&sb, "(%s, %v)", ex.LeanString(p.name), p.ok)
	}
	sb.WriteString("]\n\n/-- the member parser hands its `modifier` parameter to the node constructor unchanged (the only assignment\nallowed is the default inside `if modifier == \"\"`) -/\ndef passThrough : List (String × Bool) := [")
	for i, p := range pts {
		if i > 0 {
			sb.WriteString(", ")
		}
		fmt.Fprintf(&sb, "(%s, %v)", ex.LeanString(p.name), p.ok)
	}
	sb.WriteString("]\n\nend Generated.C07Decl\n")
	if err := ex.WriteIfChanged(out, "C07Decl.lean", sb.String()); err != nil {
		return 0, err
	}
	return len(ps), nil
}
